"""./check <Cxx> [--tier quick|thorough] [--replay file]"""
import argparse
import importlib
import os
import sys

from . import core


def main(argv=None):
    ap = argparse.ArgumentParser()
    ap.add_argument("prop")
    ap.add_argument("--tier", default=os.environ.get("VERIF_TIER", "quick"), choices=["quick", "thorough"])
    ap.add_argument("--replay", default=None)
    ap.add_argument("--seed", type=int, default=None)
    a = ap.parse_args(argv)
    seed = a.seed if a.seed is not None else int(os.environ.get("VERIF_SEED", "1") or 1)
    mod = importlib.import_module("verifpy.props." + a.prop.lower())
    prop = mod.PROP
    if hasattr(mod, "check"):
        return mod.check(prop, a.tier, seed, a.replay)
    return core.standard_check(prop, a.tier, seed, a.replay)


if __name__ == "__main__":
    sys.exit(main())
