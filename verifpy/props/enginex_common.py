"""Shared by C01 / C04 / C05: the three properties are decided on the same runs of the two
pipeline engines (harness/cmd/c01, one event log per run, three monitors)."""
import glob
import json
import os

from .. import core
from ..core import Prop, NCPU

S3_KEY = "funnel.DestinationTask.Do/empty-ack-reply"


class EngineProp(Prop):
    harness = "c01"
    mode = "c01"
    coq_modules = ["Multi/Check.v"]
    level = "proof"
    quick_search_s = 45
    thorough_search_s = 240
    trusted_base = [
        "Coq 8.16.1 kernel + vm_compute (no native_compute)",
        "service-level cases: harness/lib/svcx (copy of the C06 agent's stopx: real lifecycle / connector / processor / "
        "pipeline services on an in-memory store, fake plugins); monitors only, the ack observed is the plugin's",
        "Go harness harness/cmd/c01 + harness/lib/enginex (gated fake source/destination/DLQ/processor "
        "implementations of the funnel.* and stream.* interfaces, environment scheduler, one mutex guarded event log)",
        "python driver verifpy/core.py",
        "hand-written models coq/Multi/*.v (v2: multiAckNacker, worker passes through the shared sink) and "
        "coq/Stream/*.v (v1: Message, FanoutNode, DestinationAckerNode, SourceAckerNode, ParallelNode), tied to the "
        "code by trace acceptance: the executable acceptor must accept every event log the real engines produced",
        "Go runtime: mutex / channel / sync.Once / WaitGroup semantics and the atomicity each model action assumes "
        "(listed in the model files); conduit-commons semaphore.Simple is a FIFO ticket lock; sourcegraph/conc pool",
    ]
    assumptions = [
        "L-engine level: the real funnel.Worker / stream.*Node code runs against fakes of the packages' own "
        "Source/Destination/Processor/DLQHandler interfaces; the connector layer (connector.Source ack deferral, "
        "persister) is C02's, so the ack observed is the engine's call of Source.Ack",
        "the environment half of the schedule (order of destination/DLQ replies, parallel worker completions, stop or "
        "cancel instant) is generated and replayable; internal goroutine interleavings are whatever the Go runtime "
        "produced on the runs (GOMAXPROCS 1, 2, 4, 16)",
        "Source.Ack itself does not fail in the generated runs",
        "processors pass a record on (unchanged or rewritten), filter it, fail it or - v2 - leave it unanswered "
        "(short reply of an output-capped processor, nil result in the middle of a reply: the retry protocol); "
        "splitting processors are C08's",
    ]
    rule = ("random topology N in 1..3 sources x M in 1..3 destinations, processor chains of depth 0..2 (source, pipeline "
            "and destination level; v1 with 1..4 parallel workers), 1..4 batches of 1..5 records per source, "
            "per-destination script {ack, nack some records, write error, ack error, reply chunking, slow}, DLQ window "
            "and DLQ write failure, stop or cancel at a generated instant, GOMAXPROCS in {1,2,4,16}; directed families: "
            "cancel in the middle of a fan-out, filter -> transform on large batches, v2 retry groups in the middle of a "
            "batch (processors with an output cap of 1..3 records per call and / or unanswered records, next to "
            "processors that filter / fail records, before and below the fan-out), v1 head-of-line blocking in a "
            "ParallelNode of 4..8 workers fed by 2..3 sources (one slow record per healthy source, a victim source "
            "whose records are dead-lettered in the middle of the coordinator's queue, optionally a slow "
            "destination); all from one "
            "splitmix64 state. distinct = distinct input JSON; non-trivial = at least 2 records were read, at least one "
            "source ack was observed, and (M >= 2 or a nack / filter / DLQ write / failure occurred)")

    def _args(self, seed, n, extra=()):
        return ["--seed", str(seed), "--n", str(n), "--mode", self.mode] + list(extra)

    def shards(self, tier, seed):
        corpus = ["--corpus", os.path.join(core.VERIF, "corpus", "C01")]   # regression inputs, run first by shard 0
        if tier == "quick":
            return [self._args(seed, 20, corpus if k == 0 else ()) for k in range(16)]
        out = [self._args(seed, 375, corpus if k == 0 else ()) for k in range(16)]
        for g in (1, 2, 16):
            out.append(self._args(seed + 1000 + g, 200, ["--gomaxprocs", str(g)]))
        # a larger share of runs of the real lifecycle services (plugin-level acks, monitors only)
        for k in (1, 2):
            out.append(self._args(seed + 2000 + k, 150, ["--level", "service"]))
        # exhaustive: every filter mask of a batch of 5..8 records through filter -> transform (v2)
        out.append(self._args(seed, 0, ["--family", "masks"]))
        return out

    def search_shards(self, tier, seed, round_no):
        return [self._args(seed + 7919 * (round_no + 1) + k, 60) for k in range(NCPU)]

    def nontrivial(self, case):
        log = case["observed"]["log"]
        reads = sum(1 for e in log if e[0] == "R")
        acks = sum(1 for e in log if e[0] == "A")
        special = any(e[0] in ("F", "QW") or (e[0] in ("C", "QC") and not e[-1]) for e in log)
        return reads >= 2 and acks >= 1 and (len(case["input"]["dests"]) >= 2 or special)

    def finding_key(self, case, code):
        i = case["input"]
        if i.get("engine") == "v2" and any((d.get("emptyAcks") or 0) > 0 for d in i.get("dests", [])):
            return S3_KEY
        return "%s/%s" % (i.get("engine"), "monitor" if code & 2 else "acceptor")

    def describe(self, case, code):
        i = case["input"]
        what = self.monitor_text if code & 2 else "the mechanism acceptor rejects the observed event log"
        return "engine %s, %d source(s) x %d destination(s): %s" % (
            i.get("engine"), len(i.get("sources", [])), len(i.get("dests", [])), what)

    def sample_filter(self, case):
        return len(case["observed"]["log"]) < 60 and self.nontrivial(case)

    def distribution(self, cases):
        d = {"v1": 0, "v2": 0, "service_level_runs": 0, "malformed": 0, "with_ctl_stop": 0, "with_ctl_cancel": 0, "engine_error_runs": 0,
             "runs_with_dlq_write": 0, "runs_with_filter": 0, "runs_with_dest_nack": 0, "hangs": 0,
             "v2_runs_with_retry_group": 0, "v2_retry_groups": 0, "v1_parallel_head_of_line_runs": 0,
             "v1_parallel_node_shutdown_deadlocks": 0, "engine_crashed_the_child_process": 0,
             "NxM": {}, "gomaxprocs": {}, "events": 0}
        for c in cases:
            i, o = c["input"], c["observed"]
            d[i["engine"]] += 1
            d["service_level_runs"] += i.get("level") == "service"
            d["malformed"] += bool(i.get("malformed"))
            ctl = i.get("ctl")
            if ctl:
                d["with_ctl_" + ctl["kind"]] += 1
            d["engine_error_runs"] += "err" in (o.get("results") or [])
            log = o["log"]
            d["runs_with_dlq_write"] += any(e[0] == "QW" for e in log)
            d["runs_with_filter"] += any(e[0] == "F" for e in log)
            d["runs_with_dest_nack"] += any(e[0] == "C" and not e[-1] for e in log)
            d["hangs"] += bool(o.get("hang"))
            d["v2_runs_with_retry_group"] += bool(o.get("retries"))
            d["v2_retry_groups"] += int(o.get("retries") or 0)
            procs = list(i.get("pipeProcs") or []) + [p for x in i.get("dests", []) for p in (x.get("procs") or [])]
            d["v1_parallel_head_of_line_runs"] += any(p.get("slowRecs") for p in procs)
            d["v1_parallel_node_shutdown_deadlocks"] += bool(o.get("stuck"))
            d["engine_crashed_the_child_process"] += bool(o.get("crashed"))
            k = "%dx%d" % (len(i["sources"]), len(i["dests"]))
            d["NxM"][k] = d["NxM"].get(k, 0) + 1
            g = str(i.get("gomaxprocs"))
            d["gomaxprocs"][g] = d["gomaxprocs"].get(g, 0) + 1
            d["events"] += len(log)
        return d


def check_with_hangs(prop, tier, seed, replay):
    """standard flow; a run that hit its per-run deadline is a machinery problem, not a violation."""
    rc = core.standard_check(prop, tier, seed, replay)
    hangs = 0
    for p in glob.glob(os.path.join(core.OUT, prop.id, "run", "cases_*.jsonl")):
        for line in open(p):
            try:
                hangs += bool(json.loads(line)["observed"].get("hang"))
            except (ValueError, KeyError):
                pass
    if hangs:
        print("MACHINERY-ERROR: %d run(s) hit the per-run deadline (engine hang or harness problem); "
              "their partial logs were still checked" % hangs)
        if rc == 0:
            rc = 2
    return rc
