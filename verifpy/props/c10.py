import os

from .. import core
from ..core import Prop, NCPU

# rule bits of Life/Mon.v (Mon_C10), in the order in which a key is chosen
RULES = [
    (2, "fatal-cause-restarted"),
    (3, "user-stop-restarted/live-run"),
    (4, "user-stop-restarted/in-backoff"),
    (5, "shutdown-restarted/live-run"),
    (6, "shutdown-restarted/in-backoff"),
    (7, "stopped-status-mismatch"),
    (8, "more-attempts-than-max-retries-in-window"),
    (9, "restart-before-min-delay"),
    (10, "transient-cause-degraded-with-retries-left"),
]   # bit 2 also covers: arch-v2, a fatal cause on one destination branch next to a transient failure of a sibling
KINDS = [(11, "dlq-write"), (12, "processor-error"), (13, "dlq-threshold"), (14, "force-stop")]

OBLIGATIONS = {
    "gen_shape_recognised": """
From Verif Require Import Life.Classify.
From VerifGen Require Import GenLifecycle.
Theorem gen_shape_recognised : gen_v1_shape_ok && gen_v2_shape_ok = true.
Proof. vm_compute. reflexivity. Qed.
""",
    "gen_fatal_degrades_no_restart_v1": """
From Verif Require Import Life.Classify Life.ClassifyProofs.
From VerifGen Require Import GenLifecycle.
Theorem gen_fatal_degrades_no_restart_v1 : forall f rec,
  decide gen_v1_arms RFatal f rec = Final Degraded TFatal /\\ enters_recovery gen_v1_arms RFatal f = false.
Proof. apply fatal_degrades_generic. vm_compute. reflexivity. Qed.
""",
    "gen_fatal_degrades_no_restart_v2": """
From Verif Require Import Life.Classify Life.ClassifyProofs.
From VerifGen Require Import GenLifecycle.
Theorem gen_fatal_degrades_no_restart_v2 : forall f rec,
  decide gen_v2_arms RFatal f rec = Final Degraded TFatal /\\ enters_recovery gen_v2_arms RFatal f = false.
Proof. apply fatal_degrades_generic. vm_compute. reflexivity. Qed.
""",
    "gen_force_stop_is_fatal": """
From Verif Require Import Life.Classify.
From VerifGen Require Import GenLifecycle.
Theorem gen_force_stop_is_fatal :
  engine_tag V1 gen_v1_force_wraps FForceStop = RFatal /\\ engine_tag V2 gen_v2_force_wraps FForceStop = RFatal
  /\\ gen_v2_escalation_wraps = true.
Proof. vm_compute. repeat split; reflexivity. Qed.
""",
    "gen_user_stop_shutdown_never_restarted_v2": """
From Verif Require Import Life.Classify Life.ClassifyProofs.
From VerifGen Require Import GenLifecycle.
Theorem gen_user_stop_never_restarted_v2 : forall r f rec,
  f_intentional f = true -> decide gen_v2_arms r f rec <> Restart /\\ enters_recovery gen_v2_arms r f = false.
Proof. apply user_stop_generic. vm_compute. reflexivity. Qed.
Theorem gen_shutdown_never_restarted_v2 : forall r f rec,
  f_shutdown f = true -> decide gen_v2_arms r f rec <> Restart /\\ enters_recovery gen_v2_arms r f = false.
Proof. apply shutdown_generic. vm_compute. reflexivity. Qed.
""",
    "gen_repairs_in_place": """
From Verif Require Import Life.RunMap.
From VerifGen Require Import GenLifecycle.
(* the repaired variant of the model ([repaired], used by the acceptor and the positive theorems) is the variant
   the source tree implements: the node / worker goroutines Kill the tomb before their deferred Done() (2f2ec4f),
   the arch-v2 force stop also stores intentionalStop (9382932), the cleanup's map delete is a compare-and-delete
   in both engines (838f9f1), the Degraded write of a failed recovery is a compare-and-write under publishMu in both
   engines (degradeIfCurrent) *)
Theorem gen_repairs_in_place :
  gen_v1_sync_kill = f_sync_kill repaired /\\ gen_v2_sync_kill = true
  /\\ gen_v2_force_intent = f_force_intent repaired
  /\\ gen_v1_compare_and_delete = true /\\ gen_v2_compare_and_delete = f_cad repaired
  /\\ gen_v1_own_close = f_own_close repaired /\\ gen_v2_own_close = f_own_close repaired.
Proof. vm_compute. repeat split; reflexivity. Qed.
""",
    "gen_transient_recovers": """
From Verif Require Import Life.Classify Life.ClassifyProofs.
From VerifGen Require Import GenLifecycle.
Theorem gen_transient_recovers : has_recover gen_v1_arms && has_recover gen_v2_arms = true.
Proof. vm_compute. reflexivity. Qed.
""",
    "gen_order_agrees_with_model": """
From Verif Require Import Life.Classify Life.ClassifyProofs.
From VerifGen Require Import GenLifecycle.
(* the static model (used by the acceptor and by the theorems of Life/RunMap*.v) decides like the code's order *)
Theorem gen_order_agrees_with_model_v1 : forall r f rec,
  decide gen_v1_arms r f rec = decide v1_arms r f rec /\\ enters_recovery gen_v1_arms r f = enters_recovery v1_arms r f.
Proof. apply decide_agree_sound. vm_compute. reflexivity. Qed.
Theorem gen_order_agrees_with_model_v2 : forall r f rec,
  decide gen_v2_arms r f rec = decide v2_arms r f rec /\\ enters_recovery gen_v2_arms r f = enters_recovery v2_arms r f.
Proof. apply decide_agree_sound. vm_compute. reflexivity. Qed.
""",
}


def _cfg(engine, **kw):
    c = {"engine": engine, "max_retries": 2, "min_us": 1000, "max_us": 5000, "window_us": 30000, "factor": 2,
         "dlq_size": 5, "dlq_thr": 2, "proc": True}
    c.update(kw)
    return c


def _s(op, pt=None, out=None, n=None):
    d = {"op": op}
    if pt is not None:
        d["pt"] = pt
    if out is not None:
        d["out"] = out
    if n is not None:
        d["n"] = n
    return d


def candidate_inputs():
    """inputs tried first when a generated obligation breaks: one per fatal cause / stop kind and engine"""
    out = []
    for e in ("v1", "v2"):
        pre = [_s("call", "start"), _s("await", "open")]
        post = [_s("await", "stopped", n=10000), _s("sleep", n=20000)]
        out.append({"cfg": _cfg(e), "steps": pre + [_s("call", "force")] + post, "shape": "cand-force"})
        out.append({"cfg": _cfg(e, dlq_size=2, dlq_thr=1), "steps": pre + [_s("script", "proc.do", "err"), _s("script", "proc.do", "err"),
                    _s("emit", n=2)] + post, "shape": "cand-proc"})
        out.append({"cfg": _cfg(e, dlq_size=2, dlq_thr=1), "steps": pre + [_s("script", "dst.write", "nack"), _s("script", "dst.write", "nack"),
                    _s("emit", n=2)] + post, "shape": "cand-threshold"})
        out.append({"cfg": _cfg(e), "steps": pre + [_s("script", "proc.do", "err"), _s("script", "dlq.write", "err"), _s("emit", n=1)] + post,
                    "shape": "cand-dlqwrite"})
        out.append({"cfg": _cfg(e), "steps": pre + [_s("hold", "dst.write"), _s("emit", n=1), _s("await", "arrive:dst.write", n=10000),
                    _s("call", "stop"), _s("script", "dst.write", "err"), _s("release", "dst.write")] + post, "shape": "cand-stop-drain"})
        out.append({"cfg": _cfg(e), "steps": pre + [_s("hold", "dst.write"), _s("emit", n=1), _s("await", "arrive:dst.write", n=10000),
                    _s("call", "stopall"), _s("script", "dst.write", "err"), _s("release", "dst.write")] + post, "shape": "cand-shutdown-drain"})
        out.append({"cfg": _cfg(e), "steps": pre + [_s("script", "src.read", "err"), _s("emit", n=1)] + post, "shape": "cand-transient"})
        out.append({"cfg": _cfg(e, dlq_size=1, dlq_thr=0), "steps": pre + [_s("hold", "proc.do"), _s("emit", n=1),
                    _s("await", "arrive:proc.do", n=10000), _s("call", "stopall"), _s("script", "proc.do", "err"), _s("release", "proc.do")] + post,
                    "shape": "cand-shutdown-then-fatal"})
        out.append({"cfg": _cfg(e), "steps": pre + [_s("hold", "src.td"), _s("call", "force"), _s("await", "arrive:src.td", n=10000),
                    _s("call", "stopall"), _s("release", "src.td")] + post, "shape": "cand-force-then-shutdown"})
        out.append({"cfg": _cfg(e), "steps": pre + [_s("hold", "src.td"), _s("script", "dst.write", "err"), _s("emit", n=1),
                    _s("await", "arrive:src.td", n=10000), _s("call", "force"), _s("release", "src.td")] + post, "shape": "cand-force-loses-kill-race"})
    # arch-v2 fan-out: one branch fails transiently FIRST, the sibling hits a fatal cause afterwards (and the other order)
    pre = [_s("call", "start"), _s("await", "open")]
    post = [_s("await", "stopped", n=10000), _s("sleep", n=20000)]
    for first, second in (("dst", "dst2"), ("dst2", "dst")):
        for fatal_first in (False, True):
            a, b = (second, first) if fatal_first else (first, second)   # a: transient branch, b: fatal branch
            out.append({"cfg": _cfg("v2", dests=2), "steps": pre + [
                _s("hold", "dst.write"), _s("hold", "dst2.write"), _s("script", a + ".write", "err"), _s("script", b + ".write", "nack"),
                _s("script", "dlq.write", "err"), _s("emit", n=1), _s("await", "arrive:dst.write", n=10000),
                _s("await", "arrive:dst2.write", n=10000), _s("release", first + ".write"), _s("sleep", n=3000),
                _s("release", second + ".write")] + post, "shape": "cand-fanout"})
    return out


class C10(Prop):
    id = "C10"
    harness = "c10"
    props_file = "Properties/C10.v"
    coq_modules = ["Life/Check.v"]
    level = "proof"
    rule = ("histories of the REAL lifecycle service of both engines (real connector/processor/pipeline services on an "
            "in-memory DB, gated fake plugins): one splitmix64 state draws the engine, ErrRecoveryCfg (MaxRetries -1..3, "
            "MinDelay 1-2 ms, MaxDelay 5-10 ms, window 30-50 ms), the DLQ window, the failure (source read, processor, "
            "destination write / rejection, DLQ write, open, teardown) and the instant of stop / force stop / StopAndWait / "
            "StopAll (while records are in flight, during the back-off, after the failure); a quarter of the arch-v2 "
            "histories run a pipeline with TWO destinations whose branches of one batch pass are parked and released in a "
            "drawn order with a drawn outcome each (write error, rejection absorbed / over the threshold, rejection whose DLQ "
            "write fails). distinct = distinct input JSON; "
            "non-trivial = at least one injected failure or stop call was observed together with at least one closing "
            "status (UserStopped / SystemStopped / Degraded / Recovering)")
    trusted_base = [
        "Coq 8.16.1 kernel + vm_compute (no native_compute)",
        "Go harness harness/lib/lifex (gated fake connector / processor plugins, event log, environment schedules), "
        "harness/cmd/c10; go/ast translator harness/lib/lifex/translate.go",
        "python driver verifpy/core.py, verifpy/props/c10.py",
        "hand-written models coq/Life/Classify.v (cleanup decision, failure tagging), coq/Life/Backoff.v (timed "
        "StartWithBackoff), coq/Life/RunMap.v (interleaving model used by the trace acceptor), tied to the code by the "
        "regenerated arm order / Kill sites (out/C10/gen/GenLifecycle.v) and by trace acceptance of every observed log",
        "modelled, not verified: tomb.v2 (first Kill reason wins), jpillora/backoff.ForAttempt (result in [Min, "
        "min(Max, Min*Factor^n)]), time.AfterFunc / time.After never fire early, cerrors.IsFatalError = errors.As over the chain",
    ]
    assumptions = [
        "status writes (PipelineService.UpdateStatus) succeed: store failures are outside the model",
        "one pipeline with one source, one destination (arch-v2: one or two), at most one pipeline-level processor, one DLQ",
        "arch-v2: the failures injected into one run at the source read, the processor, the destination branches and the "
        "DLQ write are taken to be members of the ONE error the source's worker returns (errors.Join, Life/Fanout.v)",
        "which error wins the tomb on the real scheduler is resolved by the acceptor (search), not proved",
        "time stamps are compared only through differences, with a slack of a quarter of MaxRetriesWindow for the "
        "attempt bound; the lower delay bound is checked exactly (timers never fire early)",
    ]
    quick_search_s = 90
    thorough_search_s = 600
    coq_eval_timeout = 300

    def shards(self, tier, seed):
        if tier == "quick":
            return [["--seed", str(seed), "--n", "17"] for _ in range(NCPU)]
        procs = [1, 2, 4, 8, 16]
        return [["--seed", str(seed), "--n", str(max(1, 2000 // NCPU)), "--mode", "p%d" % procs[k % len(procs)]]
                for k in range(NCPU)]

    def search_shards(self, tier, seed, round_no):
        return [["--seed", str(seed + 7919 * (round_no + 1) + k), "--n", "30"] for k in range(NCPU)]

    def extra_q(self, ctx):
        return ((os.path.join(ctx.out, "gen"), "VerifGen"),)

    def pre(self, ctx):
        gen = os.path.join(ctx.out, "gen")
        os.makedirs(gen, exist_ok=True)
        for f in os.listdir(gen):
            os.remove(os.path.join(gen, f))
        ok, binary, log = core.go_build(self.harness, ctx.out)
        if not ok:
            return [{"name": "translator_builds", "ok": False, "log": log, "candidates": []}]
        env = core.go_env()
        env["VERIF_REPO"] = core.repo_path()
        rc, out = core.sh([binary, "--mode", "gen", "--out", gen], cwd=gen, env=env, timeout=120)
        results = []
        problems = [l for l in out.splitlines() if l.startswith("TRANSLATOR-PROBLEM")]
        results.append({"name": "translator_found_every_construct", "ok": rc == 0 and not problems,
                        "log": out, "candidates": candidate_inputs()})
        if rc != 0:
            return results
        rc, out = core.coqc(os.path.join(gen, "GenLifecycle.v"), gen, extra_q=self.extra_q(ctx), timeout=300)
        if rc != 0:
            results.append({"name": "GenLifecycle_compiles", "ok": False, "log": out, "candidates": candidate_inputs()})
            return results
        for name, text in OBLIGATIONS.items():
            p = os.path.join(gen, "Ob_%s.v" % name)
            open(p, "w").write(text)
            rc, out = core.coqc(p, gen, extra_q=self.extra_q(ctx), timeout=300)
            results.append({"name": name, "ok": rc == 0, "log": out, "candidates": candidate_inputs()})
        hits = core.forbidden_scan(only=[], extra_dirs=[gen])
        if hits:
            results.append({"name": "generated_files_clean", "ok": False, "log": "\n".join(hits), "candidates": []})
        return results

    # ---- evidence helpers -------------------------------------------------
    def nontrivial(self, case):
        log = case.get("observed", {}).get("log") or []
        closing = any(e["k"] == "st" and e.get("a") != "Running" for e in log)
        stim = any(e["k"] == "inj" for e in log) or any(
            e["k"] == "call" and e.get("a") in ("stop", "force", "stopwait", "stopall") for e in log
            if True)
        # only count stimuli issued by the schedule, not by the harness' final phases
        free = next((i for i, e in enumerate(log) if e["k"] == "phase"), len(log))
        stim = any(e["k"] == "inj" or (e["k"] == "call" and e.get("a") in ("stop", "force", "stopwait", "stopall"))
                   for e in log[:free])
        return closing and stim

    def finding_key(self, case, code):
        eng = case["input"]["cfg"]["engine"]
        known = {e["key"] for e in core.known_findings(self.id)}
        keys = []
        log = case.get("observed", {}).get("log") or []
        free = next((i for i, e in enumerate(log) if e["k"] == "phase"), len(log))
        # the kind of the user stop that the first restart followed (a restart = StatusRunning written
        # while no Start call is in flight); fall back to the last stop that returned nil
        stop_kind = "graceful"
        nil_stops = {e.get("n") for e in log if e["k"] == "ret" and e.get("b") == "nil"
                     and e.get("a") in ("stop", "stopwait", "force")}
        starts, last_stop, found, last_id = 0, None, False, None
        for e in log[:free]:
            if e["k"] == "call" and e.get("a") == "start":
                starts, last_stop = starts + 1, None
            elif e["k"] == "ret" and e.get("a") == "start":
                starts -= 1
            elif e["k"] == "call" and e.get("n") in nil_stops:
                last_stop = "force" if e.get("a") == "force" else "graceful"
                last_id = e.get("n")
            elif e["k"] == "st" and e.get("a") == "Running" and starts == 0 and last_stop:
                stop_kind, found = last_stop, True
                break
        # the stop overlapped the death of the run: issued while the run was live, it took effect only after the
        # cleanup had classified the run (Recovering written before the call returned) - the stop acted on the
        # dead run of a recovery, which is the in-backoff finding
        overlapped = False
        if found and last_id is not None:
            ci = next((i for i, e in enumerate(log) if e["k"] == "call" and e.get("n") == last_id), None)
            ri = next((i for i, e in enumerate(log) if e["k"] == "ret" and e.get("n") == last_id), None)
            if ci is not None and ri is not None:
                overlapped = any(e["k"] == "st" and e.get("a") == "Recovering" for e in log[ci:ri])
        if not found:
            for e in log[:free]:
                if e["k"] == "ret" and e.get("b") == "nil" and e.get("a") in ("stop", "stopwait", "force"):
                    stop_kind = "force" if e.get("a") == "force" else "graceful"
        for bit, name in RULES:
            if code & (1 << bit):
                k = "%s/%s" % (eng, name)
                if bit == 3:
                    k = "%s/user-stop-restarted/in-backoff" % eng if overlapped else k + "/" + stop_kind
                if bit == 7:
                    # a stopped status that was written although no stop of any kind had been asked for
                    asked = False
                    for e in log:
                        if e["k"] == "call" and e.get("a") in ("stop", "stopwait", "force", "stopall"):
                            asked = True
                        elif e["k"] == "st" and e.get("a") in ("UserStopped", "SystemStopped") and not asked:
                            k = "%s/failure-reported-as-stopped" % eng
                            break
                if bit == 2:
                    kinds = [kn for kb, kn in KINDS if code & (1 << kb)] or ["unknown-cause"]
                    k += "/" + kinds[0]
                    if kinds[0] == "processor-error" and case["input"]["cfg"].get("dlq_thr", 0) == 0:
                        k += "/dlq-threshold-0"
                    if case["input"]["cfg"].get("dests", 1) >= 2:
                        # the fatal cause reached the tomb (or failed to) joined with the sibling branch's result
                        k += "/fan-out"
                keys.append(k)
        if not keys:
            return "%s/model-rejects-log" % eng if code & 1 else "%s/unknown" % eng
        for k in keys:
            if k not in known:
                return k
        return keys[0]

    def describe(self, case, code):
        return "engine %s, %s: violated %s on history shape %s" % (
            case["input"]["cfg"]["engine"], "model rejects the log and " if code & 1 else "",
            self.finding_key(case, code), case["input"].get("shape"))

    def distribution(self, cases):
        d = {"v1": 0, "v2": 0, "shapes": {}, "injected": {}, "calls": {}, "closing_status": {}, "restarts": 0}
        for c in cases:
            d[c["input"]["cfg"]["engine"]] += 1
            sh = c["input"].get("shape", "?")
            d["shapes"][sh] = d["shapes"].get(sh, 0) + 1
            for e in c.get("observed", {}).get("log") or []:
                if e["k"] == "inj":
                    d["injected"][e.get("a")] = d["injected"].get(e.get("a"), 0) + 1
                elif e["k"] == "call":
                    d["calls"][e.get("a")] = d["calls"].get(e.get("a"), 0) + 1
                elif e["k"] == "st" and e.get("a") != "Running":
                    d["closing_status"][e.get("a")] = d["closing_status"].get(e.get("a"), 0) + 1
                    if e.get("a") == "Recovering":
                        d["restarts"] += 1
        return d


PROP = C10()
