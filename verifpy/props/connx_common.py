"""Shared by C02 and C03: one harness library (harness/lib/connx), one Coq area (coq/Conn)."""
from ..core import Prop, NCPU

S1_KEY = "persister.flushNow/set-fails-commit-ok"


def _log(case):
    return (case.get("observed") or {}).get("log") or []


class ConnProp(Prop):
    level = "proof"
    coq_modules = ["Conn/Check.v"]
    coq_eval_timeout = 2400
    quick_search_s = 45
    thorough_search_s = 300
    exhaustive_tiers = ("thorough",)
    quick_n = 50          # x 8 shards = 400 schedules
    thorough_shards = 64  # many small case files: coqc's time to read a case file grows faster than linearly
    thorough_n = 313      # x 64 shards = 20 032 schedules
    exhaustive_len = 6
    trusted_base = [
        "Coq 8.16.1 kernel + vm_compute (no native_compute)",
        "Go harness harness/lib/connx (fault-injecting database.DB over the in-memory DB, fake source plugin, "
        "fake debounce clock through pkg/connector/verif_hooks.go, event log, schedule driver) and python driver",
        "position bytes chosen by the harness ('record.acktag') and decoded from stored instances / plugin acks",
        "atomicity assumed per model action: Persister.m, Source.ackMu, Instance lock, the log mutex of the harness; "
        "database.DB transactions: a committed transaction is atomic and durable, a failed/discarded one has no effect",
        "model (coq/Conn/Persister.v, SourceAck.v, Crash.v) and acceptor (coq/Conn/Trace.v) written by hand, tied to "
        "the code by trace acceptance of the real connector.Source + Persister + Store (+ connector.Service on restart)",
    ]
    assumptions = [
        "engine acks reach Source.Ack one call at a time per source with a non-empty last position "
        "(funnel.Worker validates this; nothing does on the v1 path: suspect S7, not part of this check)",
        "stored_position_monotone / no_skip_on_crash are stated under the engine hypothesis: acks arrive in read "
        "order without gaps, repeats or empty positions (the schedules also contain misbehaving engines; for "
        "those only the order-free clauses are checked)",
        "goroutine interleavings of flush callbacks and of the delivery goroutine are those the Go runtime "
        "produced on the runs (the theorems cover every interleaving of the model)",
    ]

    def corpus(self):
        import os
        from ..core import VERIF
        d = os.path.join(VERIF, "corpus", self.id)
        return sorted(os.path.join(d, f) for f in os.listdir(d) if f.endswith(".jsonl")) if os.path.isdir(d) else []

    def shards(self, tier, seed):
        # the generated schedules plus one shard per hand-written corpus file
        # (the corpus shards come last so that shard numbers 0..n-1 keep splitting the exhaustive space)
        corpus = [["--seed", str(seed), "--replay", f] for f in self.corpus()]
        if tier == "quick":
            return [["--seed", str(seed), "--n", str(self.quick_n)] for _ in range(8)] + corpus
        n = self.thorough_shards
        return [["--seed", str(seed), "--n", str(self.thorough_n), "--mode", "full%d/%d" % (self.exhaustive_len, n)]
                for _ in range(n)] + corpus

    def search_shards(self, tier, seed, round_no):
        return [["--seed", str(seed + 7919 * (round_no + 1) + k), "--n", "40"] for k in range(NCPU)]

    def nontrivial(self, case):
        ks = [e.get("k") for e in _log(case)]
        return "ack" in ks and "pack" in ks and any(
            e.get("k") == "commit" and e.get("ok") for e in _log(case))

    def finding_key(self, case, code):
        log = _log(case)
        case["_code"] = code  # read by the shrink wrapper in check() below
        if code & 2 and not code & 4:
            # the strict monitor fails, the weakened one (write attempted in a committed tx) holds:
            # the only difference between the two is a committed tx with a failed Set
            if any(e.get("k") == "commit" and e.get("ok") and any(not w.get("ok") for w in e.get("ws") or [])
                   for e in log):
                return S1_KEY
        return "conn/%s" % ("monitor" if code & 2 else "acceptor")

    def describe(self, case, code):
        i = case["input"]
        parts = []
        if code & 1:
            parts.append("the observed event log is not one the connector-layer model can produce")
        if code & 2:
            parts.append(self.monitor_text)
        return "%s: %s; schedule of %d steps on %d source(s), gated=%s" % (
            self.id, "; ".join(parts), len(i.get("steps") or []), i.get("nsrc"), i.get("gated"))

    def distribution(self, cases):
        d = {"gated": 0, "multi_source": 0, "steps": 0, "restarts": 0, "s1_shape": 0, "misbehaving_engine": 0,
             "fast_teardowns_in_fault_free_runs": 0}
        ops = {}
        evs = {}
        for c in cases:
            i = c["input"]
            d["gated"] += bool(i.get("gated"))
            d["multi_source"] += i.get("nsrc", 1) > 1
            for s in i.get("steps") or []:
                d["steps"] += 1
                ops[s.get("op")] = ops.get(s.get("op"), 0) + 1
                d["misbehaving_engine"] += bool(s.get("mal"))
            for e in _log(c):
                evs[e.get("k")] = evs.get(e.get("k"), 0) + 1
                if e.get("k") == "commit" and e.get("ok") and any(not w.get("ok") for w in e.get("ws") or []):
                    d["s1_shape"] += 1
            d["restarts"] += len((c.get("observed") or {}).get("restarts") or [])
            for o in (c.get("observed") or {}).get("full") or []:
                k = "full_restart_%s_stored%s_%s" % (o.get("engine"), o.get("stored"), "started" if o.get("started") else "not_started")
                d[k] = d.get(k, 0) + 1
            faulty = any(e.get("k") in ("txfail", "sendfail") or
                         (e.get("k") == "commit" and (not e.get("ok") or any(not w.get("ok") for w in e.get("ws") or [])))
                         for e in _log(c))
            if not faulty:
                d["fast_teardowns_in_fault_free_runs"] += sum(1 for e in _log(c) if e.get("k") == "tdend" and e.get("ok"))
        d["ops"] = ops
        d["events"] = evs
        return d


def check_connx(prop, tier, seed, replay):
    """standard flow; the generic shrinker only knows "bit 1 still set", which would happily shrink a new
    violation into the known S1 shape - when the witness also fails the weakened monitor (bit 2), shrink on
    that bit instead so the minimised replay is still a witness of the new violation."""
    from .. import core
    orig = core.shrink

    def shrink(ctx, case, code_bit, budget_s=40):
        return orig(ctx, case, 4 if case.get("_code", 0) & 4 else code_bit, budget_s)
    core.shrink = shrink
    try:
        return core.standard_check(prop, tier, seed, replay)
    finally:
        core.shrink = orig
