import json
import os

from ..core import Prop, NCPU, COQ, coqc, go_env, sh, repo_path

FIELDS_NOW = """(* compiled on every run against the regenerated GenStoreFields.v *)
From Coq Require Import List String.
From Verif Require Import Codec.Fields.
From VerifGen Require Import GenStoreFields.
Definition D := Eval vm_compute in fields_diff spec_facts gen_facts.
Print D.
Theorem fields_complete_now : fields_ok spec_facts gen_facts = true.
Proof. vm_compute. reflexivity. Qed.
Definition store_fields_now := fields_complete spec_facts gen_facts fields_complete_now.
Print Assumptions store_fields_now.
"""


class C17(Prop):
    id = "C17"
    harness = "c17"
    props_file = "Properties/C17.v"
    coq_modules = ["Codec/Check.v", "Codec/Fields.v"]
    level = "proof"
    coq_eval_timeout = 1500
    rule = ("generated connector / pipeline / processor instances (positions: every byte value, lengths 0..64 and 4 KiB; "
            "strings with code points of every plane, escapes, U+0000, U+2028/9, long strings; nil vs empty for every "
            "slice and map; every status; DLQ configs; timestamps with ns and zones), pre-0.4.1 connector records, the "
            "golden documents of the store packages and hand-shaped documents; Set on the real store, fresh services "
            "Init on the same in-memory DB, Get. distinct = distinct input JSON; non-trivial = the instance carries at "
            "least one character that is not printable ASCII or needs an escape, or a non-empty binary position (or is an "
            "old-format / golden document)")
    trusted_base = [
        "Coq 8.16.1 kernel + vm_compute (no native_compute)",
        "Go harness harness/cmd/c17 (case generator, raw JSON reader, translator gen.go) and python driver",
        "goccy/go-json lexer/printer and time.Time <-> civil date arithmetic: not modelled, exercised by the differential",
        "conduit-commons database/inmemory as the store (a committed Set is what a later Get returns)",
        "model of the store codecs written by hand (coq/Codec/StoreCodec.v), tied to the code by exact differential "
        "(stored bytes and reloaded instance) and by the regenerated field facts (out/C17/gen/GenStoreFields.v)",
    ]
    assumptions = [
        "strings are Unicode text (a Go string holding invalid UTF-8 is stored with U+FFFD in place of each offending byte; modelled, outside the property)",
        "timestamps have years 0..9999 and whole-minute zone offsets (time.Time.MarshalJSON refuses / RFC 3339 cannot express anything else)",
        "connector Type is Source or Destination and State has the Go type belonging to it (Service.Create / SetState enforce both); "
        "connectors provisioned as DLQ are never stored by the current code and are deleted at Init",
        "documents do not repeat a member name and use the exact member names (Go's case-insensitive matching is not modelled)",
    ]

    def shards(self, tier, seed):
        if tier == "quick":
            return [["--seed", str(seed), "--n", "188", "--sample", "2"] for _ in range(16)]
        rnd = [["--seed", str(seed), "--n", "6500", "--sample", "4"] for _ in range(NCPU)]
        # every 1- and 2-byte position, every Unicode scalar value (see exhaustive() in gencases.go)
        xs = [["--mode", "exhaustive", "--xpart", str(k), "--xparts", "8", "--sample", "40"] for k in range(8)]
        return rnd + xs

    exhaustive_tiers = ("thorough",)

    def search_shards(self, tier, seed, round_no):
        return [["--seed", str(seed + 7919 * (round_no + 1) + k), "--n", "400"] for k in range(NCPU)]

    def extra_q(self, ctx):
        return ((os.path.join(ctx.out, "gen"), "VerifGen"),)

    def pre(self, ctx):
        """translator: regenerate GenStoreFields.v from the source tree, re-check fields_complete"""
        from ..core import go_build
        gen = os.path.join(ctx.out, "gen")
        os.makedirs(gen, exist_ok=True)
        for f in os.listdir(gen):
            os.unlink(os.path.join(gen, f))
        ok, binary, log = go_build(self.harness, ctx.out)
        if not ok:
            return [{"name": "translator (harness build)", "ok": False, "log": log, "candidates": []}]
        env = go_env()
        env["VERIF_REPO"] = repo_path()
        rc, out = sh([binary, "--mode", "gen", "--out", gen], cwd=gen, env=env, timeout=120)
        if rc != 0:
            return [{"name": "translator: a declaration the model hangs on was not found", "ok": False,
                     "log": out, "candidates": []}]
        rc, out = coqc(os.path.join(gen, "GenStoreFields.v"), gen, extra_q=self.extra_q(ctx), timeout=300)
        if rc != 0:
            return [{"name": "GenStoreFields.v", "ok": False, "log": out, "candidates": []}]
        open(os.path.join(gen, "FieldsNow.v"), "w").write(FIELDS_NOW)
        rc, out = coqc(os.path.join(gen, "FieldsNow.v"), gen, extra_q=self.extra_q(ctx), timeout=300)
        closed = "Closed under the global context" in out
        return [{"name": "fields_complete_now (struct fields, json tags, copy literals, status constants of the "
                         "source tree are what the model encodes/decodes)",
                 "ok": rc == 0 and closed, "log": out, "candidates": []}]

    def nontrivial(self, case):
        i = case["input"]
        if i.get("Doc"):
            return True

        def strs(x):
            if isinstance(x, list):
                if x and all(isinstance(e, int) for e in x):
                    yield x
                else:
                    for e in x:
                        yield from strs(e)
            elif isinstance(x, dict):
                for e in x.values():
                    yield from strs(e)
        special = any(any(c > 126 or c < 32 or c in (34, 92, 60, 62, 38) for c in s) for s in strs(i))
        st = i.get("State") or {}
        haspos = bool(st.get("Pos")) or any(p.get("V") for p in (st.get("Positions") or []))
        return special or haspos

    # ---- naming what differs (for finding keys and descriptions; the verdict is Coq's) ----
    FIELDS = {
        "conn": ["ID", "Type", "Name", "Settings", "HasSettings", "Pipeline", "Plugin", "Procs", "HasProcs", "State",
                 "Prov", "Created", "Updated", "LastName", "LastSettings", "HasLast"],
        "pipe": ["ID", "Name", "Desc", "Error", "Created", "Updated", "Prov", "DLQ", "Conns", "HasConns", "Procs",
                 "HasProcs", "Status"],
        "proc": ["ID", "Created", "Updated", "Prov", "Plugin", "Cond", "ParentID", "ParentType", "Settings",
                 "HasSettings", "Workers"],
    }

    STRKEYS = ("Plugin", "Name", "Desc", "Error", "Cond", "ParentID", "Pipeline", "LastName", "ID", "K")

    @staticmethod
    def _norm(x, in_positions=False):
        if isinstance(x, dict):
            d = {}
            for k, v in x.items():
                if k == "Loc":
                    continue
                d[k] = C17._norm(v, in_positions or k == "Positions")
                if (k in C17.STRKEYS or (k == "V" and not in_positions)) and not d[k]:
                    d[k] = None  # a string: nil and empty are the same thing
            for k in ("Settings", "LastSettings", "Positions"):
                if isinstance(d.get(k), list):
                    d[k] = sorted(d[k], key=lambda e: json.dumps(e, sort_keys=True))
            for k in ("Settings", "LastSettings", "Positions", "Procs", "Conns"):
                if k in d and not d[k]:
                    d[k] = None  # nil-ness is carried by the Has* flag next to it
            return d
        if isinstance(x, list):
            if x and all(isinstance(e, int) for e in x):
                return [0xFFFD if (e >= 0x110000 or 0xD800 <= e <= 0xDFFF) else e for e in x]
            return [C17._norm(e, in_positions) for e in x]
        return x

    def differing(self, case):
        i, o = case["input"], case.get("observed", {})
        kind = i.get("Kind")
        if kind == "old041":
            kind = "conn"
        l = o.get("loaded")
        if kind not in self.FIELDS:
            return [] if l else ["not-loaded"]
        if not l:
            return ["not-loaded"]
        out = []
        ni, nl = self._norm(i), self._norm(l)
        for f in self.FIELDS[kind]:
            a, b = ni.get(f), nl.get(f)
            if f == "Status" and a == 1:
                a = 2
            if f in ("Settings", "LastSettings", "Procs", "Conns"):
                a, b = a or None, b or None
            if a != b:
                out.append(f)
        if i.get("Kind") == "old041":
            out = [f for f in out if f not in ("LastName", "LastSettings", "HasLast")]
        if kind == "pipe" and i.get("Status") == 1 and not (o.get("started_v1") and o.get("started_v2")):
            out.append("not-started-again")
        return out

    def finding_key(self, case, code):
        i = case["input"]
        d = self.differing(case)
        return "restart/%s/%s" % (i.get("Kind"), d[0] if d else ("model" if not code & 2 else "?"))

    def describe(self, case, code):
        i, o = case["input"], case.get("observed", {})
        what = "what came back after Set -> fresh Init -> Get differs from what was stored" if code & 2 else \
            "model and implementation disagree"
        return "%s: %s (kind %s, id %s; fields that differ: %s; load_err=%r)" % (self.id, what, i.get("Kind"), "".join(
            chr(c) if c < 0x110000 else "?" for c in (i.get("ID") or [])), ",".join(self.differing(case)) or "-",
            o.get("load_err"))

    def distribution(self, cases):
        d = {}
        import glob
        from ..core import OUT
        ex = fo = 0
        for f in glob.glob(os.path.join(OUT, self.id, "run", "stats_*.json")):
            try:
                st = json.load(open(f))
                ex += st.get("executed", 0)
                fo += st.get("forced", 0)
            except (OSError, ValueError):
                pass
        d["instances_executed_on_real_stores"] = ex
        d["evaluated_regardless_of_sampling"] = fo
        for c in cases:
            i = c["input"]
            d[i.get("Kind")] = d.get(i.get("Kind"), 0) + 1
            if i.get("Kind") == "pipe":
                k = "status%s" % i.get("Status")
                d[k] = d.get(k, 0) + 1
            st = i.get("State")
            if st:
                n = len(st.get("Pos") or [])
                if n >= 4096:
                    d["pos4k"] = d.get("pos4k", 0) + 1
                if st.get("Pos") is None and st.get("Kind") == "source":
                    d["nilpos"] = d.get("nilpos", 0) + 1
        return d


PROP = C17()
