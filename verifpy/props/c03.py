from .connx_common import ConnProp, check_connx


class C03(ConnProp):
    id = "C03"
    harness = "c03"
    props_file = "Properties/C03.v"
    exhaustive_len = 5    # every commit point of every case is restarted in the thorough tier
    monitor_text = ("at some instant the stored position (what a restart opens the source with) is past an unhandled "
                    "record, or behind what the plugin had already been told to discard")
    rule = ("the C02 schedules; additionally fresh connector services are initialised on a copy of the store as it "
            "was after commit points (quick: first, last and 8 random; thorough: all; the exhaustive part of the thorough tier stops at length 5) and the position the plugin's "
            "Open receives is compared with the log prefix. distinct = distinct input JSON; non-trivial = at least "
            "one engine ack, one successful commit and one plugin ack in the log")
    rule += (". Restart through the real services: for the cases marked full (one random case in eight, and "
             "corpus/C03/restart_services.jsonl: every stored pipeline status x both engines) at the last and one more "
             "commit point, in the thorough tier at every commit point of every case, fresh pipeline.Service + "
             "connector.Service + processor.Service + lifecycle service (pkg/lifecycle or pkg/lifecycle-poc) are "
             "initialised on a copy of the store; observed: status after pipeline Init, whether lifecycle Init started "
             "the pipeline, Open(position) of every source, the records reaching the destination")
    assumptions = ConnProp.assumptions + [
        "crash = everything but the store is lost; a committed transaction is durable (Badger/Postgres/SQLite not modelled)",
        "crash instants are enumerated at commit granularity on the real code; instants between two commits share "
        "the durable state and are covered by the per-event clauses of the monitor and by the theorem",
    ]


PROP = C03()


def check(prop, tier, seed, replay):
    return check_connx(prop, tier, seed, replay)
