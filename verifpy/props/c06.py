from ..core import Prop, NCPU


class C06(Prop):
    id = "C06"
    harness = "c06"
    props_file = "Properties/C06.v"
    coq_modules = ["Stop/Check.v", "Stop/CheckProofs.v", "Stop/GenStop.v", "Stop/GenStopProofs.v", "Stop/GenStopSim.v",
                   "Stop/Lifecycle.v", "Stop/LifecycleProofs.v", "Stop/ShutdownTrace.v"]
    level = "proof"
    rule = ("the real lifecycle service of both engines with the real connector/processor/pipeline services on an "
            "in-memory DB behind fake plugins; 10 topologies (1-3 sources, 1-3 destinations, pipeline / connector "
            "processors, a 3-worker processor, DLQ) x 2 engines; a random environment schedule (records handed out in "
            "batches of 1-3, confirmations / refusals of destinations and of the DLQ, store commits held and released) "
            "and StopAndWait at a random position of it (quick) or at every position (thorough); in a third of the cases the "
            "graceful stop is the engine's shutdown instead (a stop WITH a reason: StopAll(ErrGracefulShutdown) / v2 StopAll(false), "
            "Wait, persister Wait - the sequence of pkg/conduit/runtime.go), judged by the same monitor at its return; an eighth "
            "(and 8 corpus cases) are directed: k records read by every source, j confirmed, the rest in flight at unanswering "
            "destinations when the stop / shutdown arrives; a quarter of the quick cases "
            "(and 6 corpus cases run first) are directed: the source plugin parks the consumption of ack k while it is in "
            "flight, record k+1 is acked by the engine, the stop is issued, the forced flush commits, then the plugin "
            "resumes (k = 1..4, 4 topologies, both engines); an eighth (v2, plus 3 corpus cases) park a batch in unanswering "
            "destinations, let a first StopAndWait with a 10-40 ms context deadline time out, issue a second StopAndWait while the "
            "batch is still in flight, then let the destinations answer; two cases per run hold "
            "the store for longer than the 10 s source teardown budget. distinct = distinct input JSON; non-trivial = "
            "records were read and at least one was in flight or unacknowledged when the stop was called")
    trusted_base = [
        "Coq 8.16.1 kernel + vm_compute (no native_compute)",
        "Go harness harness/cmd/c06 + harness/lib/stopx (fake plugins with gates, gated in-memory DB, one event log)",
        "python driver verifpy/core.py",
        "hand-written model coq/Stop/Stop.v (one source connector; counters over its records) of the stop protocols; "
        "tie to the code: acceptor + monitor over the event log of the real services (coq/Stop/Check.v); "
        "coq/Stop/Lifecycle.v (the same protocol under a stop with a reason, teardown answers that fail on a cancelled "
        "context, and restarts) is tied to Stop.v by a projection lemma, to the code by the same monitor",
    ]
    assumptions = [
        "healthy run: no plugin error; every gate is eventually released; in pipelines with several destinations no "
        "destination refuses a record (a refusal by one and acceptance by another destination stops a v1 pipeline "
        "with an error)",
        "acks reach a source in read order (C04) and a flush's callbacks run before the next flush completes "
        "(the persister's WaitPendingWrites looks at the latest flush generation only)",
        "teardown within budget: when the store stalls longer than connector.DefaultTeardownFlushTimeout the final "
        "plugin ack may be dropped by design; then only durability at return is required",
        "progress is proved for the model (fair scheduler, answering environment) and observed on the runs",
    ]
    coq_eval_timeout = 1500

    def shards(self, tier, seed):
        if tier == "quick":
            return [["--seed", str(seed), "--n", "16", "--mode", "c06"] for _ in range(NCPU)]
        return [["--seed", str(seed), "--n", "40", "--mode", "c06every"] for _ in range(NCPU)]

    def search_shards(self, tier, seed, round_no):
        return [["--seed", str(seed + 7919 * (round_no + 1) + k), "--n", "24", "--mode", "c06noslow"] for k in range(NCPU)]

    def nontrivial(self, case):
        evs = (case.get("observed") or {}).get("evs") or []
        reads = packs = 0
        for e in evs:
            if e["k"] == "call" and e.get("x") in ("stopwait", "shutdown"):
                return reads > 0 and packs < reads
            reads += e["k"] == "read"
            packs += e["k"] == "pack"
        return False

    def finding_key(self, case, code):
        i = case["input"]
        o = case.get("observed") or {}
        what = "hang" if o.get("hung") else ("monitor" if code & 2 else "acceptor")
        sched = [s.rstrip("!") for s in i.get("sched") or []]
        call = "Shutdown" if "shutdown" in sched else "StopAndWait"
        return "%s/%s/%s%s" % (i["topo"]["engine"], call, what, "/slow-store" if i.get("slow") else "")

    def describe(self, case, code):
        i = case["input"]
        o = case.get("observed") or {}
        if code & 2:
            return ("graceful stop (%s) of topology %s with schedule %s: at the return of StopAndWait the pipeline is "
                    "not drained (or a healthy stop did not return nil); hung=%s" % (i["topo"]["engine"], i["topo"], i["sched"], o.get("hung")))
        return "graceful stop: the observed event log is not a behaviour the model's rules allow, for %s" % (i,)

    def distribution(self, cases):
        d = {"v1": 0, "v2": 0, "slow_store": 0, "stop_with_pending": 0, "stop_idle": 0, "multi_source": 0,
             "multi_dest": 0, "with_processor": 0, "with_dlq_traffic": 0, "returned_nil": 0, "shutdown_with_reason": 0,
             "shutdown_with_pending": 0}
        for c in cases:
            i, o = c["input"], c.get("observed") or {}
            d[i["topo"]["engine"]] += 1
            d["slow_store"] += bool(i.get("slow"))
            d["multi_source"] += i["topo"]["sources"] > 1
            d["multi_dest"] += i["topo"]["dests"] > 1
            d["with_processor"] += (i["topo"].get("procs") or 0) > 0 or bool(i["topo"].get("src_proc"))
            evs = o.get("evs") or []
            d["with_dlq_traffic"] += any(e["k"] == "qwrite" for e in evs)
            d["returned_nil"] += any(e["k"] == "ret" and e.get("x") in ("stopwait", "shutdown") and e.get("a") == "nil" for e in evs)
            shut = any(e["k"] == "call" and e.get("x") == "shutdown" for e in evs)
            d["shutdown_with_reason"] += shut
            d["shutdown_with_pending"] += shut and self.nontrivial(c)
            if self.nontrivial(c):
                d["stop_with_pending"] += 1
            else:
                d["stop_idle"] += 1
        return d


PROP = C06()
