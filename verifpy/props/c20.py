import json
import os
import re
import shutil

from .. import core
from ..core import Prop, NCPU


def _has_multiw(n):
    if not isinstance(n, dict):
        return False
    if n.get("k") == "multiw" and len(n.get("c") or []) >= 2:
        return True
    return any(_has_multiw(c) for c in (n.get("c") or []))


def _kinds(n, acc):
    if isinstance(n, dict):
        acc.add(n.get("k"))
        for c in n.get("c") or []:
            _kinds(c, acc)
    return acc


def _nil_member(n):
    if not isinstance(n, dict):
        return False
    cs = n.get("c") or []
    if n.get("k") in ("join", "multiw") and any(isinstance(c, dict) and c.get("k") == "nil" for c in cs):
        return True
    return any(_nil_member(c) for c in cs)


def _depth(n):
    if not isinstance(n, dict):
        return 0
    return 1 + max([_depth(c) for c in (n.get("c") or [])] or [0])


class C20(Prop):
    id = "C20"
    harness = "c20"
    props_file = "Properties/C20.v"
    coq_modules = ["Err/Check.v"]
    level = "proof"
    rule = ("random builder expressions (depth <= 8, <= 40 constructor calls: sentinel/fresh leaves, grpc status "
            "errors, Errorf %w in four formats, %v, multi-%w, Join with nil members, FatalError, conduiterr.New/Wrap/"
            "WithCode/FromStatus over the live code registry plus unregistered and unknown-reason codes), 1-2 "
            "expressions per case (the second often the first one re-wrapped), each observed plain and under n plain "
            "wrappers; quick = 3200 random cases (~5300 trees) + corpus + one input per table entry; thorough = "
            "125000 random cases (~208000 trees) + every expression of depth <= 3 over a 10-leaf alphabet (68912). distinct = distinct input JSON; non-trivial = some expression has "
            "depth >= 3 and contains both a fatal marker or coded error and an Errorf/Join/conduiterr.Wrap layer")
    trusted_base = [
        "Coq 8.16.1 kernel + vm_compute (no native_compute)",
        "Go harness harness/cmd/c20 (builder, observer, go/ast translator of the exit-code switch, sentinel lists, "
        "code registry and API status switches; every generated table is cross-checked against the live packages)",
        "python driver verifpy/core.py, verifpy/props/c20.py",
        "hand-written model coq/Err/Tree.v of errors.Is/As traversal, xerrors.Errorf, errors.Join, FatalError, "
        "conduiterr.New/Wrap/WithCode/ToStatus/FromStatus, exitcode.ExitCode, api status functions; tied to the code "
        "by exact differential on every case",
        "protobuf marshalling of google.rpc.Status / ErrorInfo (exercised, not modelled)",
    ]
    assumptions = [
        "error values are built with the constructors of cerrors / conduiterr / grpc status (no foreign error types "
        "with their own Is/As/Unwrap methods apart from plugin ValidationError, which is treated as a sentinel)",
        "reasons are valid UTF-8 (ToStatus sanitises them otherwise)",
        "conduiterr.Register is only called from package initialisers (registry fixed at run time)",
    ]
    exhaustive_tiers = ("thorough",)
    quick_search_s = 45

    # ---- translator + per-run obligations -------------------------------------------------
    def gen_dir(self, ctx):
        return os.path.join(ctx.out, "gen")

    def extra_q(self, ctx):
        return ((self.gen_dir(ctx), "VerifGen"),)

    def pre(self, ctx):
        gen = self.gen_dir(ctx)
        shutil.rmtree(gen, ignore_errors=True)
        os.makedirs(gen)
        ok, binary, log = core.go_build(self.harness, ctx.out)
        if not ok:
            return [{"name": "translator (harness build)", "ok": False, "log": log, "candidates": []}]
        env = core.go_env()
        env["VERIF_REPO"] = core.repo_path()
        rc, out = core.sh([binary, "--mode", "gen", "--out", gen], cwd=gen, timeout=300, env=env)
        res = [{"name": "translator: exitcode.go switch/sentinels, Register calls, api status switches; "
                        "tables agree with the live packages", "ok": rc == 0, "log": out, "candidates": []}]
        if not os.path.exists(os.path.join(gen, "GenExit.v")):
            # translator lost a construct: the obligation above stays broken (the check fails); the snapshot of
            # the unchanged tree's tables only lets the differential and the monitor look for a concrete witness
            shutil.copy(os.path.join(core.COQ, "Err", "GenExit.snapshot"), os.path.join(gen, "GenExit.v"))
            core.coqc(os.path.join(gen, "GenExit.v"), gen, extra_q=self.extra_q(ctx), timeout=300)
            res[0]["candidates"] = self.candidates(gen)
            self.write_fixed_inputs(gen, res[0]["candidates"])
            return res
        rc2, out2 = core.coqc(os.path.join(gen, "GenExit.v"), gen, extra_q=self.extra_q(ctx), timeout=300)
        if rc2 != 0:
            res.append({"name": "GenExit.v compiles", "ok": False, "log": out2, "candidates": []})
            return res
        cands = self.candidates(gen)
        self.write_fixed_inputs(gen, cands)
        tmpl = os.path.join(core.COQ, "Err", "GenObligations.v.in")
        if os.path.exists(tmpl):
            parts = re.split(r"(?m)^\(\* @OBLIGATION (\S+) \*\)\s*$", open(tmpl).read())
            header = parts[0]
            jobs = []
            for i in range(1, len(parts), 2):
                name, body = parts[i], parts[i + 1]
                vf = os.path.join(gen, "Ob_%s.v" % name)
                open(vf, "w").write(header + body)
                jobs.append((name, vf))
            import concurrent.futures as cf
            with cf.ThreadPoolExecutor(max_workers=min(NCPU, max(1, len(jobs)))) as ex:
                outs = list(ex.map(lambda j: core.coqc(j[1], gen, extra_q=self.extra_q(ctx), timeout=600), jobs))
            for (name, vf), (rc3, out3) in zip(jobs, outs):
                closed = "Closed under the global context" in out3
                res.append({"name": name, "ok": rc3 == 0 and closed, "log": out3, "candidates": cands})
        return res

    def fixed_inputs_path(self):
        return os.path.join(core.OUT, self.id, "gen", "fixed_inputs.jsonl")

    def write_fixed_inputs(self, gen, cands):
        """corpus + one input per table entry: run as shard 0 of every run"""
        with open(os.path.join(gen, "fixed_inputs.jsonl"), "w") as f:
            cdir = os.path.join(core.VERIF, "corpus", self.id)
            for name in sorted(os.listdir(cdir)) if os.path.isdir(cdir) else []:
                if name.endswith(".jsonl"):
                    for line in open(os.path.join(cdir, name)):
                        if line.strip():
                            f.write(line.strip() + "\n")
            for c in cands:
                f.write(json.dumps({"input": c}) + "\n")

    def candidates(self, gen):
        """inputs that go through every table entry: used to look for a witness when an obligation breaks"""
        try:
            t = json.load(open(os.path.join(gen, "tables.json")))
        except (OSError, ValueError):
            return []
        cands = []
        for e in t.get("registry", []):
            cands.append({"wraps": 1, "trees": [{"k": "new", "r": e["reason"], "g": e["cat"]}]})
        for g in range(0, 18):
            cands.append({"wraps": 1, "trees": [{"k": "grpc", "g": g}]})
            cands.append({"wraps": 1, "trees": [{"k": "fromstatus", "g": g}]})
        for s in range(1, int(t.get("nsent", 0)) + 1):
            cands.append({"wraps": 2, "trees": [{"k": "leaf", "s": s}]})
        return cands

    # ---- shards ----------------------------------------------------------------------------
    def shards(self, tier, seed):
        fixed = [["--replay", self.fixed_inputs_path()]] if os.path.exists(self.fixed_inputs_path()) else []
        if tier == "quick":
            return fixed + [["--seed", str(seed), "--n", "400"] for _ in range(8)]
        rnd = [["--seed", str(seed), "--n", "3125"] for _ in range(40)]
        exh = [["--seed", str(seed), "--mode", "exhaustive", "--part", str(i), "--parts", "16"] for i in range(16)]
        return fixed + rnd + exh

    def search_shards(self, tier, seed, round_no):
        return [["--seed", str(seed + 7919 * (round_no + 1) + k), "--n", "400"] for k in range(NCPU)]

    def nontrivial(self, case):
        for t in case["input"].get("trees") or []:
            ks = _kinds(t, set())
            if _depth(t) >= 3 and (ks & {"fatal", "new", "cwrap", "withcode", "fromstatus"}) and \
                    (ks & {"wrap", "join", "multiw", "cwrap"}):
                return True
        return False

    def finding_key(self, case, code):
        if code & 2 and not code & 4 and any(_has_multiw(t) for t in case["input"].get("trees") or []):
            return "cerrors.Errorf/multi-%w"
        return "classification/%s" % ("monitor" if code & 2 else "model")

    def describe(self, case, code):
        if self.finding_key(case, code) == "cerrors.Errorf/multi-%w":
            return ("cerrors.Errorf (xerrors) with two or more %w returns an error without Unwrap: every operand's "
                    "classification (fatal marker, code, sentinels, grpc status) is lost")
        return "error classification of the built value is not the one its construction denotes: %s" % (
            json.dumps(case["input"])[:600])

    def distribution(self, cases):
        d = {"trees": 0, "max_depth": 0, "with_nil_member": 0, "kinds": {}, "multiw_cases": 0, "wraps_ge_6": 0,
             "fatal_observed": 0, "coded_observed": 0, "exit": {}}
        for c in cases:
            i = c["input"]
            d["wraps_ge_6"] += i.get("wraps", 0) >= 6
            mw = False
            for t in i.get("trees") or []:
                d["trees"] += 1
                d["max_depth"] = max(d["max_depth"], _depth(t))
                for k in _kinds(t, set()):
                    d["kinds"][k] = d["kinds"].get(k, 0) + 1
                d["with_nil_member"] += _nil_member(t)
                mw = mw or _has_multiw(t)
            d["multiw_cases"] += mw
            for v in (c.get("observed") or {}).get("values") or []:
                p = v.get("plain") or {}
                d["fatal_observed"] += bool(p.get("fatal"))
                d["coded_observed"] += p.get("code") is not None
                k = str(p.get("exit"))
                d["exit"][k] = d["exit"].get(k, 0) + 1
        return d


PROP = C20()
