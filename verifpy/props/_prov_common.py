"""Shared by the C15 / C16 property modules: a shrinker that keeps the *kind* of failure.

core.shrink keeps a candidate whenever the monitor still rejects it.  For C15/C16 the unchanged
tree has known findings whose shapes are tiny, so plain delta debugging of an unrelated witness
drifts into a known-finding shape.  Here a candidate is kept only if its whole code (agreement
bit, monitor bit and the attribution mask) equals the code of the case being shrunk."""
import json
import os
import shutil
import time

from .. import core


def shrink_same_code(ctx, case, code_bit, budget_s=40):
    t_end = time.time() + budget_s

    def run(inputs, sub):
        d = os.path.join(ctx.out, "shrink")
        shutil.rmtree(d, ignore_errors=True)
        os.makedirs(d)
        rf = os.path.join(d, "cands.jsonl")
        with open(rf, "w") as f:
            for i, c in enumerate(inputs):
                f.write(json.dumps({"input": c, "_cand": i}) + "\n")
        return core.run_shards(ctx, [["--replay", rf]], "shrink/" + sub)

    cases, failing, errors = run([case["input"]], "orig")
    if errors or not failing:
        return case
    target = failing[0][1]
    best = case
    rounds = 0
    while time.time() < t_end and rounds < 12:
        rounds += 1
        cands = list(core._deletions(best["input"]))[:400]
        if not cands:
            break
        cases, failing, errors = run(cands, "run")
        if errors:
            break
        still = [(key, code) for key, code in failing if code == target]
        if not still:
            break
        key, _ = min(still, key=lambda kc: len(core.canon(cases[kc[0]]["input"])))
        if len(core.canon(cases[key]["input"])) >= len(core.canon(best["input"])):
            break
        best = cases[key]
    return best


def check_with_shrinker(prop, tier, seed, replay):
    saved = core.shrink
    core.shrink = shrink_same_code
    try:
        return core.standard_check(prop, tier, seed, replay)
    finally:
        core.shrink = saved
