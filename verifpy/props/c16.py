from ..core import Prop, NCPU
from ._prov_common import check_with_shrinker

import os as _os
CORPUS = _os.path.join(_os.path.dirname(_os.path.dirname(_os.path.dirname(_os.path.abspath(__file__)))), "corpus", "C16", "shapes.jsonl")

FALLBACK = "ApplyPlanLive/in-place-fallback/StopAndWait-fails"


class C16(Prop):
    id = "C16"
    harness = "c16"
    props_file = "Properties/C16.v"
    coq_modules = ["Prov/ApplyCheck.v"]
    level = "proof"
    rule = ("decision cases: shape of the diff (live-eligible with 1..3 processor updates / restart-class / empty) x "
            "hash (fresh, junk, made stale by a change after the plan was shown) x running status at both samples x "
            "authorisation x outcome of every import, ReconfigureProcessor, StopAndWait and Start on the way; random in "
            "quick, every combination in thorough; plus concurrent applies to the same and to different pipeline ids "
            "with the first apply's lifecycle calls held open; end-to-end cases: the REAL v1 lifecycle service runs source -> "
            "processor -> destination with records flowing and the real ApplyPlanLive applies a restart-class or a "
            "processor-only plan after `pre` delivered records with `inflight` records racing it. distinct = distinct input JSON; non-trivial = the apply "
            "made at least one lifecycle or store call, or is a lock case")
    trusted_base = [
        "Coq 8.16.1 kernel + vm_compute (no native_compute)",
        "Go harness harness/cmd/c16 + harness/lib/provx (scripted recording LifecycleService, transaction-recording DB "
        "wrapper, pipeline-service wrapper that sets the running status where the code samples it)",
        "python driver verifpy/core.py, verifpy/props/c16.py",
        "hand-written model coq/Prov/Apply.v of ApplyPlanLive / applyInPlace / rollbackInPlace / lock.go, tied to the "
        "code by exact differential on the ordered calls, the result class and the final status and stored config",
    ]
    assumptions = [
        "C15: a transactionalImport either commits the whole new config or leaves the stored config unchanged",
        "C06: a successful lifecycle StopAndWait leaves the pipeline fully drained with durable positions; a failed one "
        "leaves it as it was",
        "C03/C02: Start resumes every connector from its durable position. The end-to-end half is proved as a composition "
        "(C16_apply_no_skip, C16_apply_restart_continues) over an abstract record flow whose behaviour under StopAndWait / "
        "Start / import / swap is assumed to be exactly these conclusions of C06, C03, C15, C13; on the real v1 lifecycle "
        "service it is checked by trace acceptance (AE2E cases), not proved",
        "the end-to-end cases run the v1 engine (pkg/lifecycle) only; one source, one destination, one pipeline processor; "
        "no failing StopAndWait / Start in the end-to-end cases (those are covered by the decision cases)",
        "C13: a successful ReconfigureProcessor swaps the processor at a record boundary",
        "a raw lifecycle Start from outside provisioning is not serialised by the per-pipeline lock (stated in plan.go)",
        "sync.Mutex semantics for the per-pipeline lock; the lock model's atomic actions are the calls the apply makes",
        "at most one failing call per apply for the consistency claim",
    ]
    exhaustive_tiers = ("thorough",)

    def shards(self, tier, seed):
        if tier == "quick":
            return ([["--replay", CORPUS]] + [["--seed", str(seed), "--n", "45"] for _ in range(12)]
                    + [["--seed", str(seed), "--mode", "e2e", "--n", "30"] for _ in range(4)])
        return [["--replay", CORPUS]] + ([["--seed", str(seed), "--mode", "all"] for _ in range(NCPU)]
                + [["--seed", str(seed), "--n", "600"] for _ in range(NCPU)]
                + [["--seed", str(seed), "--mode", "e2e", "--n", "400"] for _ in range(NCPU)])

    def search_shards(self, tier, seed, round_no):
        if round_no == 0:
            return [["--seed", str(seed), "--mode", "all"] for _ in range(NCPU)]
        if round_no == 1:
            return [["--seed", str(seed + 31 + k), "--mode", "e2e", "--n", "150"] for k in range(NCPU)]
        return [["--seed", str(seed + 7919 * (round_no + 1) + k), "--n", "200"] for k in range(NCPU)]

    def nontrivial(self, case):
        i, o = case["input"], case.get("observed", {})
        if i.get("kind") == "e2e":
            return o.get("result") in ("ok:restart", "ok:in_place") and i["e2e"].get("pre", 0) + i["e2e"].get("inflight", 0) > 0
        return i.get("kind") == "lock" or bool(o.get("events"))

    def finding_key(self, case, code):
        if case["input"].get("kind") == "lock":
            return "lock/same-id-applies-interleave" if code & 2 else "lock/model-disagrees"
        if case["input"].get("kind") == "e2e":
            return "e2e/record-flow-monitor-rejects" if code & 2 else "e2e/calls-differ-from-decision-procedure"
        if code & 1:
            return "model-disagrees"
        if code >> 2 == 1:
            return FALLBACK
        return "unexplained"

    def describe(self, case, code):
        i, o = case["input"], case.get("observed", {})
        if i.get("kind") == "e2e":
            return ("end-to-end apply %s returned %s; event log: %s" % (
                i["e2e"], o.get("result"), " ".join("%s%s" % (e["k"], ("=%d" % e["n"]) if "n" in e and e["k"] in
                ("read", "write", "pack", "commit", "import", "open", "end", "unread") else "") for e in o.get("events", []))))
        if i.get("kind") == "lock":
            return "concurrent applies (same_id=%s) produced the call log %s" % (i["lock"].get("same_id"), o.get("log"))
        return ("ApplyPlanLive with %s made the calls %s and returned %s; afterwards running=%s stored config=%s "
                "(0 old, 1 new, 2 neither)" % (i.get("dec"), [(e["kind"], e.get("ok")) for e in o.get("events", [])],
                                               o.get("result"), o.get("running_after"), o.get("cfg_after")))

    def distribution(self, cases):
        d = {"dec": 0, "lock": 0, "stale": 0, "unauth": 0, "err": 0, "ok:restart": 0, "ok:in_place": 0,
             "ok:provisioned": 0, "ok:none": 0, "with_fallback": 0, "with_rollback": 0}
        for c in cases:
            i, o = c["input"], c.get("observed", {})
            if i.get("kind") == "lock":
                d["lock"] += 1
                continue
            if i.get("kind") == "e2e":
                d["e2e"] = d.get("e2e", 0) + 1
                d["e2e:" + str(o.get("result"))] = d.get("e2e:" + str(o.get("result")), 0) + 1
                continue
            d["dec"] += 1
            r = o.get("result", "")
            if r in d:
                d[r] += 1
            ev = o.get("events", [])
            d["with_fallback"] += any(e["kind"] == "reconf" and e.get("rc") == 1 for e in ev)
            d["with_rollback"] += any(e["kind"] == "import" and e.get("target") == "old" for e in ev)
        return d


def check(prop, tier, seed, replay):
    return check_with_shrinker(prop, tier, seed, replay)


PROP = C16()
