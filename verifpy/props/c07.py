from ..core import Prop, NCPU


class C07(Prop):
    id = "C07"
    harness = "c07"
    props_file = "Properties/C07.v"
    coq_modules = ["Dlq/Check.v"]
    level = "proof"
    rule = ("random (size, thr in 0..12, outcome list <= 60, random batch partition for v2) from one splitmix64 "
            "state; thorough adds every outcome vector up to length 9 for size,thr in 0..4. distinct = distinct "
            "input JSON; non-trivial = at least one ack and one nack outcome and a window that is enabled. "
            "large family (engines l1/l2, --mode large): window sizes around 2^8..2^18 (thorough: ..2^20), thresholds "
            "small / near size / >= 2^16 / 0 / >= size, run-length-encoded histories of 10^3..10^6 outcomes built as "
            "boundary probes (the oldest tolerated rejection is d in -1..2 outcomes from leaving the window), floods "
            "and random runs; the real code is driven through every single outcome (v1) / batch (v2, batches up to "
            "2^20), Coq evaluates the run-length-encoded timestamp-queue form of the rule")
    trusted_base = [
        "Coq 8.16.1 kernel + vm_compute (no native_compute)",
        "Go harness harness/cmd/c07 (fake DLQ handler / destination, case writer)",
        "python driver verifpy/core.py",
        "model of dlqWindow written by hand (coq/Dlq/Window.v), tied to the code by exact differential "
        "through stream.DLQHandlerNode and funnel.DLQ",
    ]
    assumptions = [
        "thresholds are non-negative (pipeline.Service.UpdateDLQ rejects negative values)",
        "DLQ writes succeed in the window cases (failed DLQ writes are covered by the routing cases)",
    ]
    exhaustive_tiers = ("thorough",)

    def shards(self, tier, seed):
        if tier == "quick":
            return ([["--seed", str(seed), "--n", "250"] for _ in range(8)]
                    + [["--seed", str(seed), "--mode", "large", "--n", "8"] for _ in range(8)])
        rnd = ([["--seed", str(seed), "--n", "2000"] for _ in range(NCPU)]
               + [["--seed", str(seed), "--mode", "large", "--n", "40"] for _ in range(NCPU)])
        exh = [["--seed", str(seed), "--mode", "exhaustive/%d/%d" % (2 * NCPU, k)] for k in range(2 * NCPU)]
        return rnd + exh

    def extra_runs(self, tier, seed):
        return []

    def nontrivial(self, case):
        i = case["input"]
        if i.get("engine") in ("r1", "r2"):
            recs = i.get("recs") or [r for b in (i.get("batches") or []) for r in b]
            return any(r[0] for r in recs) and not all(r[0] for r in recs)
        if i.get("engine") in ("l1", "l2"):
            rs = i.get("runs") or i.get("chunks") or []
            return i["size"] > 0 and any(r[0] == 1 and r[1] > 0 for r in rs) and any(r[0] == 0 and r[1] > 0 for r in rs)
        if i.get("engine") == "v1":
            ops = i.get("ops") or []
            return i["size"] > 0 and any(ops) and not all(ops)
        ch = i.get("chunks") or []
        return i["size"] > 0 and any(c[0] == 1 and c[1] > 0 for c in ch) and any(c[0] == 0 and c[1] > 0 for c in ch)

    def finding_key(self, case, code):
        i = case["input"]
        e = i.get("engine")
        return "%s/%s" % ("routing" if e in ("r1", "r2") else "window-large" if e in ("l1", "l2") else "window", e)

    def describe(self, case, code):
        return "DLQ window/routing behaviour of engine %s differs from the property's rule for %s" % (
            case["input"].get("engine"), case["input"])

    def distribution(self, cases):
        d = {"v1": 0, "v2": 0, "r1": 0, "r2": 0, "l1": 0, "l2": 0, "large_size_above_65536": 0,
             "large_thr_at_least_65536": 0, "large_outcomes_driven": 0, "size0": 0, "thr0": 0, "refusals": 0,
             "routing_stopped": 0, "routing_dlq_write_failures": 0}
        for c in cases:
            i = c["input"]
            d[i["engine"]] = d.get(i["engine"], 0) + 1
            d["size0"] += i["size"] == 0
            d["thr0"] += i["thr"] == 0
            o = c["observed"]
            if "decisions_rle" in o:
                d["refusals"] += any(r[0] == 0 and r[1] > 0 for r in o["decisions_rle"] or [])
                d["large_size_above_65536"] += i["size"] > 65536
                d["large_thr_at_least_65536"] += i["thr"] >= 65536
                d["large_outcomes_driven"] += o.get("outcomes", 0)
            elif "decisions" in o:
                d["refusals"] += not all(o["decisions"] or [True])
            else:
                d["routing_stopped"] += bool(o.get("stopped"))
                recs = i.get("recs") or [r for b in (i.get("batches") or []) for r in b]
                d["routing_dlq_write_failures"] += any(r[0] and r[1] for r in recs)
        return d


PROP = C07()
