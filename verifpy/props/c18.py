"""C18 - processor egress: IP classifier floor, carve-outs, dial gate, policy ceiling.

Per run (`pre`): the translator in harness/cmd/c18 (--mode gen, go/ast over $VERIF_REPO) rewrites
out/C18/gen/GenEgress.v (refusedV4/refusedV6 CIDRs with reasons, the ordered guards of classifyV4
and Refuse, DefaultTimeout/DefaultMaxResponseBytes, reservedHeaders, Proxy/CheckRedirect/Control
patterns); the coverage theorems are then re-established against that configuration by the
reflective procedure `covers` (vm_compute) + `covers_sound` (static). When coverage breaks, the
uncovered spec intervals are computed in Coq and their end/mid points handed back as candidate
inputs, which the harness replays on the real Refuse.
"""
import concurrent.futures as cf
import os
import re
import shutil

from ..core import Prop, NCPU, COQ
from .. import core

HDR = ("From Verif Require Import Base.CaseCheck.\n"
       "From Verif Require Import Egress.Ip Egress.Cover Egress.IpProofs Egress.Policy Egress.PolicyProofs "
       "Egress.Dial Egress.DialProofs Egress.Check Egress.CheckProofs.\n"
       "From VerifGen Require Import GenEgress.\n")

OBLIGATIONS = {
    "gen_refuse_covers_floor_v4": HDR + """
Theorem gen_refuse_covers_floor_v4 :
  forall ip, (ip < 2 ^ 32)%N -> floor4 ip = true -> refused gen_cfg (A4 ip) = true.
Proof. apply refuse_covers_floor_v4. vm_compute. reflexivity. Qed.
Print Assumptions gen_refuse_covers_floor_v4.
""",
    "gen_refuse_covers_floor_v6": HDR + """
Theorem gen_refuse_covers_floor_v6 :
  forall ip, (ip < 2 ^ 128)%N -> floor6 ip = true -> refused gen_cfg (A16 ip) = true.
Proof. apply refuse_covers_floor_v6. vm_compute. reflexivity. Qed.
Print Assumptions gen_refuse_covers_floor_v6.
""",
    "gen_dial_only_public_or_carved": HDR + """
Lemma gen_covers : covers_cfg gen_cfg = true.
Proof. vm_compute. reflexivity. Qed.
Theorem gen_refuse_covers_floor :
  forall a, wf_addr a = true -> floor a = true -> refused gen_cfg a = true.
Proof. exact (refuse_covers_floor gen_cfg gen_covers). Qed.
Theorem gen_not_refused_is_public :
  forall a, wf_addr a = true -> refused gen_cfg a = false -> a <> Abad /\\ floor a = false.
Proof. intros a Hw Hr. destruct (not_refused_is_public gen_cfg gen_covers a Hw Hr) as [H1 [H2 _]]. tauto. Qed.
Theorem gen_dial_only_public_or_carved :
  forall p cands port, (forall a, In a cands -> wf_addr a = true) ->
  connects_ok p port (dial_plan gen_cfg p cands port) = true.
Proof. exact (dial_plan_connects_ok gen_cfg gen_covers). Qed.
Theorem gen_chk_agree_implies_monitor : forall c, chk gen_cfg gen_consts c <> 2%nat.
Proof. intro c. apply chk_agree_implies_monitor; [exact gen_covers|reflexivity|reflexivity]. Qed.
Print Assumptions gen_dial_only_public_or_carved.
Print Assumptions gen_chk_agree_implies_monitor.
""",
    "gen_resolve_le_ceiling": HDR + """
Theorem gen_consts_positive : (0 < default_timeout gen_consts)%Z /\\ (0 < default_max gen_consts)%Z.
Proof. split; reflexivity. Qed.
Theorem gen_resolve_le_ceiling :
  forall req ceil, le_ceiling_b req ceil (fst (resolve gen_consts req ceil)) = true.
Proof. intros. apply resolve_monitor; reflexivity. Qed.
Print Assumptions gen_resolve_le_ceiling.
""",
    "gen_transport_assumptions": HDR + """
Definition required_reserved : list string :=
  ["Host"; ":authority"; "Authorization"; "Proxy-Authorization"; "Connection"; "Proxy-Connection";
   "Upgrade"; "Transfer-Encoding"; "Accept-Encoding"; "Content-Length"]%string.
Theorem gen_transport_assumptions :
  gen_proxy_nil && gen_redirect_refused && gen_control_hooked && gen_dialcontext_hooked
  && gen_no_other_dialer && forallb (fun h => mem_str h gen_reserved_headers) required_reserved = true.
Proof. vm_compute. reflexivity. Qed.
Print Assumptions gen_transport_assumptions.
""",
}

GAPS = HDR + """
Eval vm_compute in (gaps spec4 (ivs4 gen_cfg)).
Eval vm_compute in (gaps spec6 (ivs6 gen_cfg)).
"""

MAPPED = 0xFFFF << 32


class C18(Prop):
    id = "C18"
    harness = "c18"
    props_file = "Properties/C18.v"
    coq_modules = ["Egress/Check.v"]
    level = "proof"
    rule = ("deterministic: both neighbours of every boundary of every table entry, guard and spec interval, each "
            "v4 boundary in 4-byte, v4-mapped, v4-compatible, IPv4-translated, NAT64, 6to4, Teredo-server and "
            "Teredo-client form; random: addresses (uniform, in/near intervals, embedded forms, bad lengths), "
            "policy pairs, host:port matches, carve-out probes, allow-entry renderings, resolver answer sets through "
            "the real dialContext+dialControl, Service.Do against loopback listeners (redirect, proxy env). "
            "distinct = distinct input JSON; non-trivial = refuse: observed refused or a 16-byte form; resolve: both "
            "policies enabled and a non-empty request; match/carve: policy with entries; plan: >= 2 candidates; "
            "do: at least one listener and one candidate")
    trusted_base = [
        "Coq 8.16.1 kernel + vm_compute (no native_compute)",
        "translator harness/cmd/c18/gen.go (go/parser + go/ast over ipguard.go, policy.go, service.go)",
        "Go harness harness/cmd/c18 (case generators, recording base dialer, loopback listeners), "
        "add-only hook pkg/plugin/processor/egress/verif_hooks.go (build tag verif)",
        "python driver verifpy/core.py + verifpy/props/c18.py",
        "modelled, not verified: net.IP.To4/To16/Equal/String, net.ParseIP, net.ParseCIDR, IPNet.Contains, "
        "net.Dialer calling Control before every connect(2), http.Transport using DialContext for every "
        "connection when Proxy is nil, http.Client honouring CheckRedirect",
        "the floor itself (coq/Egress/Ip.v floor4/floor6) is the reading of 'private/metadata/embedded' this "
        "check decides: RFC 1122/1918/3927/6598/5771 ranges, ::, ::1, fe80::/10, fec0::/10, fc00::/7, ff00::/8, and "
        "v4-mapped, v4-compatible, IPv4-translated, NAT64 64:ff9b::/96, 6to4, Teredo embeddings of those",
    ]
    assumptions = [
        "allowlist entries hold 4- or 16-byte IPs (what net.ParseIP returns); strings are ASCII",
        "IP and port of an allowlist entry are determined by its key scheme|host|port (true of ParseAllowEntry "
        "output, checked on every parse case) - needed only for 'carve-outs of the effective policy are carve-outs "
        "of a restricted ceiling'",
        "no proxy, no redirect, no second dial path: checked by pattern on service.go (gen_transport_assumptions) "
        "and by Service.Do runs with HTTP(S)_PROXY/ALL_PROXY set and a redirecting listener, not proved",
        "forms that embed an IPv4 address but are not in the property's list are outside the floor: "
        "64:ff9b:1::/48 (RFC 8215 local-use NAT64), ISATAP interface ids, operator-chosen NAT64 prefixes",
    ]
    exhaustive_tiers = ()
    quick_search_s = 45
    thorough_search_s = 300
    coq_eval_timeout = 1500

    # ------------------------------------------------------------------ per-run obligations
    def gen_dir(self, ctx):
        return os.path.join(ctx.out, "gen")

    def extra_q(self, ctx):
        return ((self.gen_dir(ctx), "VerifGen"),)

    def _fallback_snapshot(self, gen):
        src = open(os.path.join(COQ, "Egress", "Snapshot.v")).read().replace("snapshot_", "gen_")
        open(os.path.join(gen, "GenEgress.v"), "w").write(src)

    def pre(self, ctx):
        gen = self.gen_dir(ctx)
        shutil.rmtree(gen, ignore_errors=True)
        os.makedirs(gen)
        res = []
        qs = self.extra_q(ctx)

        bok, binary, blog = core.go_build(self.harness, ctx.out)
        if not bok:
            self._fallback_snapshot(gen)
            core.coqc(os.path.join(gen, "GenEgress.v"), gen, extra_q=qs)
            return [{"name": "translator_builds", "ok": False, "log": blog[-3000:], "candidates": []}]
        env = core.go_env()
        rc, out = core.sh([binary, "--mode", "gen", "--out", gen], cwd=ctx.out, timeout=120, env=env)
        have = os.path.exists(os.path.join(gen, "GenEgress.v"))
        res.append({"name": "translator_constructs_found", "ok": rc == 0,
                    "log": "translator (harness/cmd/c18 --mode gen) on %s rc=%d\n%s" % (core.repo_path(), rc, out[-3000:]),
                    "candidates": []})
        cok = False
        if have:
            crc, cout = core.coqc(os.path.join(gen, "GenEgress.v"), gen, extra_q=qs, timeout=300)
            cok = crc == 0
            if not cok:
                res.append({"name": "generated_model_compiles", "ok": False, "log": cout[-3000:], "candidates": []})
        if not cok:
            # keep the correspondence runnable: fall back to the static copy of the pinned tree's tables
            self._fallback_snapshot(gen)
            core.coqc(os.path.join(gen, "GenEgress.v"), gen, extra_q=qs, timeout=300)
            ctx.notes.append("generated model unusable; correspondence ran against the static snapshot")

        hits = core.forbidden_scan(extra_dirs=[gen], only=[])
        if hits:
            res.append({"name": "generated_model_clean", "ok": False, "log": "\n".join(hits), "candidates": []})

        def one(name):
            path = os.path.join(gen, "Obl_%s.v" % name)
            open(path, "w").write(OBLIGATIONS[name])
            rc, out = core.coqc(path, gen, extra_q=qs, timeout=600)
            ok = rc == 0 and "Axioms:" not in out and "Closed under the global context" in out
            return name, ok, out

        # all obligations in one file first (one coqc start-up); only when that fails, one file
        # per obligation to name the broken ones
        allpath = os.path.join(gen, "Obl_all.v")
        body = HDR + "".join("Module M%d.\n%s\nEnd M%d.\n" % (i, OBLIGATIONS[n][len(HDR):], i)
                             for i, n in enumerate(OBLIGATIONS))
        open(allpath, "w").write(body)
        rc, out = core.coqc(allpath, gen, extra_q=qs, timeout=600)
        n_closed = out.count("Closed under the global context")
        n_print = body.count("Print Assumptions")
        if rc == 0 and "Axioms:" not in out and n_closed == n_print:
            results = [(n, True, "proved in Obl_all.v; every Print Assumptions: Closed under the global context")
                       for n in OBLIGATIONS]
        else:
            with cf.ThreadPoolExecutor(max_workers=len(OBLIGATIONS)) as ex:
                results = list(ex.map(one, list(OBLIGATIONS)))
        broken_cover = False
        for name, ok, out in results:
            res.append({"name": name, "ok": ok, "log": out[-3000:], "candidates": []})
            if not ok and name in ("gen_refuse_covers_floor_v4", "gen_refuse_covers_floor_v6",
                                   "gen_dial_only_public_or_carved"):
                broken_cover = True
        if broken_cover:
            cands, glog = self.gap_candidates(ctx, gen, qs)
            for r in res:
                if not r["ok"] and r["name"].startswith("gen_refuse_covers_floor"):
                    r["candidates"] = cands
                    r["log"] += "\nuncovered spec intervals (lo, hi, first uncovered point):\n" + glog
            if not any(r["candidates"] for r in res) and cands:
                res[-1]["candidates"] = cands
        return res

    def gap_candidates(self, ctx, gen, qs):
        path = os.path.join(gen, "Gaps.v")
        open(path, "w").write(GAPS)
        rc, out = core.coqc(path, gen, extra_q=qs, timeout=300)
        blocks = re.split(r"(?m)^\s*=\s*", out)[1:]
        cands, lines = [], []
        seen = set()

        def add(rep, n):
            if (rep, n) in seen:
                return
            seen.add((rep, n))
            cands.append({"kind": "refuse", "addr": {"rep": rep, "ip": str(n)}})

        for bi, b in enumerate(blocks[:2]):
            for lo, hi, p in re.findall(r"\((\d+)(?:%N)?,\s*(\d+)(?:%N)?,\s*(\d+)(?:%N)?\)", b):
                lo, hi, p = int(lo), int(hi), int(p)
                lines.append("%s: [%d, %d] first uncovered %d" % ("v4" if bi == 0 else "v6", lo, hi, p))
                for n in (p, lo, hi, (lo + hi) // 2, (p + hi) // 2):
                    if bi == 0:
                        add(4, n)
                        add(16, MAPPED + n)
                    else:
                        add(16, n)
        return cands[:400], "\n".join(lines)

    # ------------------------------------------------------------------ shards
    def shards(self, tier, seed):
        if tier == "quick":
            return [["--seed", str(seed), "--n", "2000"] for _ in range(10)]
        return [["--seed", str(seed), "--n", "4000", "--mode", "bulk=125000"] for _ in range(16)]

    def search_shards(self, tier, seed, round_no):
        return [["--seed", str(seed + 7919 * (round_no + 1)), "--n", "1500"] for _ in range(min(NCPU, 8))]

    # ------------------------------------------------------------------ evidence helpers
    def nontrivial(self, case):
        i, o = case.get("input", {}), case.get("observed", {})
        k = i.get("kind")
        if k == "refuse":
            return bool(o.get("refused")) or i.get("addr", {}).get("rep") == 16
        if k == "resolve":
            return bool(i["req"].get("enabled") and i["ceil"].get("enabled") and i["req"].get("allow"))
        if k in ("match", "carve"):
            return bool(i["pol"].get("allow"))
        if k == "parse":
            return True
        if k == "plan":
            return len(i.get("cands") or []) >= 2
        if k == "do":
            return bool(i.get("listen")) and bool(i.get("cands"))
        return False

    def sample_filter(self, case):
        return case.get("input", {}).get("kind") in ("refuse", "plan", "resolve")

    def finding_key(self, case, code):
        i, o = case.get("input", {}), case.get("observed", {})
        k = i.get("kind", "?")
        if k == "refuse":
            return "Refuse/%s" % (o.get("reason") or "not_refused")
        return {"resolve": "ResolvePolicy", "match": "Policy.MatchHostPort", "carve": "Policy.matchesCarveOut",
                "parse": "ParseAllowEntry", "plan": "Service.dialContext/dialControl", "do": "Service.Do"}.get(k, k)

    def describe(self, case, code):
        i, o = case.get("input", {}), case.get("observed", {})
        k = i.get("kind")
        bits = ("model and code disagree" if code & 1 else "") + ("; " if code == 3 else "") + \
               ("property monitor rejects the observed behaviour" if code & 2 else "")
        if k == "refuse":
            return "egress.Refuse(%s) = (%s, %r): %s (an address of the refused floor must be refused)" % (
                o.get("text"), o.get("refused"), o.get("reason"), bits)
        if k == "resolve":
            return "egress.ResolvePolicy: effective policy %s for request %s under ceiling %s: %s" % (
                o.get("eff"), i.get("req"), i.get("ceil"), bits)
        if k == "carve":
            return "Policy.matchesCarveOut(%s, port %s) = %s on %s: %s" % (i.get("addr"), i.get("port"), o.get("carved"), i.get("pol"), bits)
        if k == "plan":
            return "dialContext/dialControl let connects proceed to %s for candidates %s port %s policy %s: %s" % (
                o.get("attempts"), i.get("cands"), i.get("port"), i.get("pol"), bits)
        if k == "do":
            return "Service.Do connected to %s (other listeners hit: %s) for %s: %s" % (
                o.get("connections"), o.get("other_hits"), i, bits)
        return "%s case: %s" % (k, bits)

    def distribution(self, cases):
        d = {"by_kind": {}, "refuse_by_rep": {}, "refuse_reasons": {}, "refused": 0, "not_refused": 0,
             "bulk_go_side_compared": 0, "bulk_mismatches": 0, "plan_attempts": 0, "do_connections": 0,
             "resolve_deny_all": 0}
        for c in cases:
            i, o = c.get("input", {}), c.get("observed", {})
            k = i.get("kind", "?")
            d["by_kind"][k] = d["by_kind"].get(k, 0) + 1
            if k == "refuse":
                rep = str(i["addr"].get("rep"))
                d["refuse_by_rep"][rep] = d["refuse_by_rep"].get(rep, 0) + 1
                r = o.get("reason") or "not_refused"
                d["refuse_reasons"][r] = d["refuse_reasons"].get(r, 0) + 1
                d["refused" if o.get("refused") else "not_refused"] += 1
            elif k == "bulk":
                d["bulk_go_side_compared"] += i.get("n", 0)
                d["bulk_mismatches"] += o.get("mismatches", 0)
            elif k == "plan":
                d["plan_attempts"] += len(o.get("attempts") or [])
            elif k == "do":
                d["do_connections"] += len(o.get("connections") or [])
            elif k == "resolve":
                d["resolve_deny_all"] += not o.get("eff", {}).get("enabled")
        return d


PROP = C18()
