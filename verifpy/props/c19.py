import os
import re

from ..core import Prop, NCPU, OUT, COQ, repo_path, sh, go_env, coqc


class C19(Prop):
    id = "C19"
    harness = "c19"
    props_file = "Properties/C19.v"
    coq_modules = ["Reg/Check.v", "Reg/Steps.v"]
    level = "proof"
    coq_eval_timeout = 2400
    rule = ("distinct = distinct input JSON. non-trivial: history = >= 2 installs on one directory; clean = name with a '/' and a '.'; extract = archive with "
            ">= 2 entries, or an entry whose name has a '..' element, or a link/odd/corrupt entry; install = the run "
            "got past name resolution; hwm = a batch of >= 2 concurrent calls or a call with a version different "
            "from the mark; crash = at least one kill was delivered")
    trusted_base = [
        "Coq 8.16.1 kernel + vm_compute (no native_compute)",
        "Go harness harness/cmd/c19 (raw tar writer, tree snapshots, in-process index/artifact server, scripted "
        "verifiers, Ed25519 index signer, strace runner and log parser) and the hook file pkg/registry/verif_hooks.go",
        "python driver verifpy/core.py, translator in harness/cmd/c19 --mode gen",
        "hand-written models coq/Reg/{Path,Extract,Gate,Hwm,AtomicFile}.v tied to the code by exact differential; "
        "strace(1) signal injection for the kill experiments",
    ]
    assumptions = [
        "the extraction directory is private and empty when ExtractBinary starts (install.go extractAndGuard creates "
        "it under a fresh 0700 MkdirTemp directory) and nobody else writes into the staging directory meanwhile",
        "archive/tar and compress/gzip deliver the headers the harness wrote; '/' is the only path separator (Unix)",
        "rename(2) within one directory is atomic with respect to a process kill (hypothesis rename_atomic of "
        "C19_atomic_write_old_or_new); power loss / fsync ordering is not modelled",
        "flock(2) on index-state.json.lock serialises the critical sections of VerifyIndex (the interleaving model "
        "takes the lock as given; the harness exercises it with concurrent callers)",
        "the sha256 comparison is modelled as the fact 'digest of the staged bytes = declared digest'",
    ]
    exhaustive_tiers = ("quick", "thorough")

    def shards(self, tier, seed):
        s = str(seed)
        if tier == "quick":
            return ([["--seed", s, "--n", "100"] for _ in range(4)]
                    + [["--seed", s, "--mode", "exhaustive:%d/2" % k] for k in range(2)]
                    + [["--seed", s, "--mode", "lattice:%d/4" % k] for k in range(4)]
                    + [["--seed", s, "--mode", "crash:0/1"]])
        return ([["--seed", s, "--n", "1000"] for _ in range(6)]
                + [["--seed", s, "--mode", "exhaustive:%d/8" % k] for k in range(8)]
                + [["--seed", s, "--mode", "lattice:%d/2" % k] for k in range(2)]
                + [["--seed", s, "--mode", "crash:%d/6" % k] for k in range(6)])

    def search_shards(self, tier, seed, round_no):
        return [["--seed", str(seed + 7919 * (round_no + 1) + k), "--n", "150"] for k in range(8)]

    # ---- translator: constants and step order restated from the source on every run ----
    def extra_q(self, ctx):
        return ((os.path.join(ctx.out, "gen"), "VerifGen"),)

    def pre(self, ctx):
        gen = os.path.join(ctx.out, "gen")
        os.makedirs(gen, exist_ok=True)
        for f in os.listdir(gen):
            os.remove(os.path.join(gen, f))
        from ..core import go_build
        ok, binary, log = go_build(self.harness, ctx.out)
        if not ok:
            return [{"name": "translator builds", "ok": False, "log": log, "candidates": []}]
        rc, out = sh([binary, "--mode", "gen", "--out", gen], cwd=gen, env=dict(go_env(), VERIF_REPO=repo_path()), timeout=300)
        res = [{"name": "translator finds maxExtractedBytes, the ExtractBinary guard and the install step order",
                "ok": rc == 0, "log": out, "candidates": _gate_candidates()}]
        if rc != 0:
            return res
        q = ((gen, "VerifGen"),)
        rc1, out1 = coqc(os.path.join(gen, "GenC19.v"), gen, extra_q=q)
        tpl = open(os.path.join(COQ, "Reg", "GenObligations.v.tmpl")).read()
        open(os.path.join(gen, "GenObligations.v"), "w").write(tpl)
        rc2, out2 = coqc(os.path.join(gen, "GenObligations.v"), gen, extra_q=q) if rc1 == 0 else (1, "")
        res.append({"name": "generated step order / guard shape / cap satisfy the model's obligations (GenObligations.v)",
                    "ok": rc1 == 0 and rc2 == 0, "log": out1 + out2, "candidates": _gate_candidates()})
        return res

    def nontrivial(self, case):
        i = case["input"]
        k = i.get("kind")
        o = case.get("observed", {})
        if k == "clean":
            return 47 in i["name"] and 46 in i["name"]
        if k == "extract":
            es = i.get("entries") or []
            return len(es) >= 2 or any(e.get("type") not in ("TReg", "TDir") or _dotdot(e["name"]) for e in es)
        if k == "install":
            return i["script"].get("resolve") == "ok"
        if k == "history":
            return len(i.get("steps") or []) >= 2
        if k == "hwm":
            b = (i.get("batches") or [[]])[0]
            return len(b) >= 2 or any(x["version"] != i.get("m0") for x in b)
        if k == "crash":
            return bool(o.get("kills")) or bool(o.get("killed"))
        return True

    def finding_key(self, case, code):
        i = case["input"]
        k = i.get("kind")
        if k == "crash":
            return "crash/%s" % i["crash"].get("what")
        return "%s" % k

    def describe(self, case, code):
        i = case["input"]
        k = i.get("kind")
        mon = bool(code & 2)
        what = {
            "clean": "filepath.Clean/IsAbs/Join differ from the model",
            "extract": "ExtractBinary: " + ("something outside the extraction directory changed, a link/device was left "
                                            "inside it, or an archive with a link entry / a name leaving the directory "
                                            "was accepted" if mon else "result or extracted tree differs from the model"),
            "install": "Install: " + ("the artifact (or its manifest/audit/cache entry) appeared without the digest "
                                      "matching and the gate being passed, or verification/validation did not precede "
                                      "extraction/installation, or something outside the install directory changed"
                                      if mon else "observable events / places written differ from the model's step order"),
            "history": "Install history on one directory: " + (
                "in some step the artifact appeared without the digest matching and the gate of THAT step being "
                "passed (verifier called in that step and accepting, or unsigned install allowed) - e.g. a verdict "
                "reused from the cache" if mon else "a step's observable events differ from the model (cache hit only "
                "skips the download)"),
            "hwm": "VerifyIndex: " + ("the recorded mark decreased, is not the version of the call just accepted (root-"
                                      "signed or freshness-only), moved without an accepted call that passed every "
                                      "check, or an index older than a previously accepted version was accepted" if mon else
                                      "result classes / marks are not explained by the model"),
            "crash": ("after a kill the file at the path was neither the complete old nor the complete new content "
                      "(or an installed artifact without verification / a manifest entry without artifact)" if mon else
                      "the system calls of the writer differ from create-temp/write/fsync/close/chmod/rename"),
        }.get(k, k)
        return "%s; input %s; observed %s" % (what, _short(i), _short(case.get("observed")))

    def distribution(self, cases):
        d = {}
        for c in cases:
            i, o = c["input"], c.get("observed", {})
            k = i.get("kind")
            d[k] = d.get(k, 0) + 1
            if k == "extract":
                d["extract_accepted"] = d.get("extract_accepted", 0) + bool(o.get("ok"))
            elif k == "install":
                d["install_" + str(o.get("result"))] = d.get("install_" + str(o.get("result")), 0) + 1
                d["install_artifact_appeared"] = d.get("install_artifact_appeared", 0) + bool(o.get("end", {}).get("Final"))
            elif k == "history":
                d["history_steps"] = d.get("history_steps", 0) + len(i.get("steps") or [])
            elif k == "hwm":
                n = len((i.get("batches") or [[]])[0])
                d["hwm_concurrent_batches"] = d.get("hwm_concurrent_batches", 0) + (n >= 2)
                d["hwm_freshness_only_calls"] = d.get("hwm_freshness_only_calls", 0) + sum(
                    1 for b in (i.get("batches") or []) for x in b if x.get("root") != "good" and x.get("fsig") == "good")
            elif k == "crash":
                d["kills"] = d.get("kills", 0) + len(o.get("kills") or []) + bool(o.get("killed"))
        return d

    def sample_filter(self, case):
        return case["input"].get("kind") in ("install", "extract") and len(str(case)) < 4000


def _short(x):
    s = str(x)
    return s if len(s) < 1500 else s[:1500] + "..."


def _dotdot(name):
    return b".." in bytes(name).split(b"/")


def _gate_candidates():
    """inputs to try first when the generated step order no longer satisfies the obligations: installs in which
    exactly one gate fails (the harness fills in defaults for missing script fields)"""
    base = {"kind": "install"}
    out = []
    for nm in (b"./../a", b"a/../../x", b"..", b"../x", b"/x", b"a/../..", b"x/.././../y", b"a"):
        for flag in (48, 50, 49):
            out.append({"kind": "extract", "entries": [
                {"name": list(nm), "flag": flag, "size": 3, "avail": 3, "cid": 1, "link": list(b"../sentinel")},
                {"name": list(b"bin"), "flag": 48, "size": 2, "avail": 2, "cid": 2, "link": []}]})
    for patch in ({"digest": "wrong"}, {"verifier": "reject"}, {"verifier": "unsigned"},
                  {"allowUnsigned": True, "policy": [True, False, False, False, True, True]},
                  {"digest": "wrong", "allowUnsigned": True, "policy": [True, False, False, True, False, True]}):
        out.append(dict(base, script=patch))
    return out


PROP = C19()
