from .enginex_common import EngineProp, check_with_hangs


class C04(EngineProp):
    id = "C04"
    mode = "c04"
    props_file = "Properties/C04.v"
    monitor_text = "the positions acked to a source are not a gap-free, repeat-free prefix of what it produced"


PROP = C04()


def check(prop, tier, seed, replay):
    return check_with_hangs(prop, tier, seed, replay)
