from ..core import Prop, NCPU


class C13(Prop):
    id = "C13"
    harness = "c13"
    props_file = "Properties/C13.v"
    coq_modules = ["Swap/Check.v"]
    level = "proof"
    rule = ("lock-step cases: random environment schedules (<= 36 actions: record arrives, Reconfigure with an Open that "
            "succeeds/fails, release of the Open gate, release of the Process gate, cancel of request q, close of the "
            "input, kill) replayed against the real stream.ProcessorNode between a feeder and a collector, compared "
            "call by call with the model; every 5th case is free running (records flowing, up to 6 concurrent "
            "Reconfigure goroutines with failing Opens and timed cancels, graceful close or kill) and judged by the "
            "monitor only; every 10th case drives the real lifecycle.Service.ReconfigureProcessor (processor.Service, "
            "RunnableProcessor, running flag probed through processor.Service.Update) on a running v1 pipeline with a chain "
            "of 1-3 processors whose ids are prefixes of one another (p1, p10, p1x; every order), each stamping (id, "
            "instance) into the record, each reconfigured in turn; every processor node is judged by the monitor and every "
            "record must carry exactly one stamp per processor in chain order; "
            "every 10th case (i%10==7) is an operation history over the real processor.Service + lifecycle.Service on a "
            "v1 pipeline with 1-3 processors: Start (buildable, or the first processor's runnable cannot be built), live "
            "reconfigurations with every outcome (swap works / undispensable plugin / malformed sdk.egress.* setting / "
            "invalid condition / new plugin refuses Open) done as provisioning's in-place apply does them, StopAndWait, "
            "restart, one record through the pipeline, and after each the guards probed with ordinary Update, Delete and "
            "MakeRunnableProcessor; answers compared with the model coq/Swap/Flag.v and judged by its monitor (refused "
            "with ErrProcessorRunning exactly while a run is live, records stamped by the live runnable); "
            "thorough adds every schedule up to length 5 over {A,R1,R0,O,P,C0,C1,X}. one case checks the v2 sentinel. distinct = distinct input JSON; non-trivial = at least one record and one request whose new "
            "processor was opened by the node")
    trusted_base = [
        "Coq 8.16.1 kernel + vm_compute (no native_compute)",
        "Go harness harness/cmd/c13 (fake processors with gates, feeder, collector, quiescence detection through "
        "the read-only hook stream.(*ProcessorNode).VerifPendingSwap) and harness/lib/stopx for the service-level cases "
        "(its scripted processor registry: numbered plugin instances, an undispensable plugin name, an instance that refuses Open)",
        "hand-written model coq/Swap/Flag.v of the Instance.running bookkeeping (MakeRunnableProcessor[ForReconfigure], "
        "Teardown[ForReconfigure], Update/Delete guards, ReconfigureProcessor), one instance at a time",
        "python driver verifpy/core.py",
        "hand-written model coq/Swap/Swap.v of ProcessorNode.Run / Reconfigure / applyPendingSwap; atomicity of the "
        "model's actions rests on swapMu, on Processor being touched by the Run goroutine only and on the buffered "
        "done channel; Go's scheduler and select are modelled as arbitrary interleaving",
    ]
    assumptions = [
        "a processor's Process returns exactly one SingleRecord with an unchanged position (other reply shapes are C08/C09)",
        "generation stamps are the harness's identity of a processor instance; in free-running cases they are renamed "
        "in the order in which the node opened them",
        "progress (a staged request is eventually applied while the loop runs) is observed, not proved",
    ]
    exhaustive_tiers = ("thorough",)

    def shards(self, tier, seed):
        if tier == "quick":
            return [["--seed", str(seed), "--n", "150"] for _ in range(NCPU)]
        rnd = [["--seed", str(seed), "--n", "5000"] for _ in range(NCPU)]
        exh = [["--seed", str(seed), "--mode", "exhaustive:%d/%d" % (i, NCPU)] for i in range(NCPU)]
        return rnd + exh

    def search_shards(self, tier, seed, round_no):
        return [["--seed", str(seed + 7919 * (round_no + 1) + k), "--n", "300"] for k in range(NCPU)]

    def nontrivial(self, case):
        i = case["input"]
        o = case.get("observed") or {}
        if i.get("kind") == "v2":
            return True
        if i.get("kind") == "flag":
            # a live reconfiguration that failed, and a guard that was probed while a run was live
            per = o.get("per") or []
            return any(any(x.startswith("FReconf") and y == "RErr" for x, y in zip(p.get("ops") or [], p.get("obs") or []))
                       and "RRunning" in (p.get("obs") or []) for p in per)
        evs = list(o.get("evs") or [])
        for po in o.get("per") or []:
            evs += po.get("evs") or []
        return any(e["k"] == "open" and e["a"] > 0 for e in evs) and any(e["k"] == "proc" for e in evs)

    def finding_key(self, case, code):
        i = case["input"]
        o = case.get("observed") or {}
        what = "hang" if o.get("hung") else ("monitor" if code & 2 else "model")
        return "ProcessorNode/%s/%s" % (i.get("kind"), what)

    def describe(self, case, code):
        o = case.get("observed") or {}
        if case["input"].get("kind") == "flag":
            per = [(p.get("id"), list(zip(p.get("ops") or [], p.get("obs") or []))) for p in (o.get("per") or [])]
            if code & 2:
                return ("live reconfigure, service side: after this history the running-flag guards / the live runnable are "
                        "wrong (Update, Delete, MakeRunnableProcessor must answer ErrProcessorRunning exactly while a run is "
                        "live; a failed reconfiguration changes nothing): %s; answers per processor: %s%s"
                        % (case["input"].get("ops"), per, "; " + o["note"] if o.get("note") else ""))
            return ("live reconfigure, service side: the services left the model of the running flag for history %s; "
                    "answers per processor: %s" % (case["input"].get("ops"), per))
        if code & 2:
            return ("live reconfigure: the calls the ProcessorNode made violate the property (records %s, results %s, "
                    "note %s) for input %s" % (o.get("acks"), o.get("res"), o.get("note"), case["input"]))
        return "live reconfigure: the ProcessorNode left the model for input %s" % (case["input"],)

    def distribution(self, cases):
        d = {"lock": 0, "race": 0, "svc": 0, "flag": 0, "flag_failed_builds": 0, "flag_failed_opens": 0, "flag_swaps": 0,
             "flag_guard_probes_live": 0, "flag_guard_probes_stopped": 0, "flag_restarts": 0, "v2": 0, "with_kill": 0, "with_close": 0, "requests": 0, "swaps_applied": 0,
             "open_failed": 0, "busy": 0, "cancelled": 0, "records": 0}
        for c in cases:
            i, o = c["input"], c.get("observed") or {}
            k = i.get("kind")
            d[k] = d.get(k, 0) + 1
            if k == "flag":
                for p in o.get("per") or []:
                    pairs = list(zip(p.get("ops") or [], p.get("obs") or []))
                    d["flag_failed_builds"] += sum(1 for x, y in pairs if x.startswith("FReconf (OBuildFail") and y == "RErr")
                    d["flag_failed_opens"] += sum(1 for x, y in pairs if x == "FReconf OOpenFail" and y == "RErr")
                    d["flag_swaps"] += sum(1 for x, y in pairs if x == "FReconf OOk" and y.startswith("RGen"))
                    d["flag_guard_probes_live"] += sum(1 for x, y in pairs if x in ("FUpdate", "FDelete", "FMake") and y == "RRunning")
                    d["flag_guard_probes_stopped"] += sum(1 for x, y in pairs if x in ("FUpdate", "FDelete", "FMake") and y == "RNil")
                    d["flag_restarts"] += max(0, sum(1 for x, y in pairs if x == "FStart None" and y.startswith("RGen")) - 1)
                continue
            env = i.get("env") or []
            d["with_kill"] += ("K" in env) or (i.get("race") or {}).get("end") == "kill"
            d["with_close"] += "X" in env
            res = list(o.get("res") or [])
            for po in o.get("per") or []:
                res += po.get("res") or []
                d["records"] += po.get("taken") or 0
            d["chains_of_2_or_3"] = d.get("chains_of_2_or_3", 0) + (len(i.get("procs") or []) > 1)
            d["requests"] += len(res)
            d["swaps_applied"] += sum(1 for r in res if r["res"] == "ok")
            d["open_failed"] += sum(1 for r in res if r["res"] == "erropen")
            d["busy"] += sum(1 for r in res if r["res"] == "busy")
            d["cancelled"] += sum(1 for r in res if r["res"] == "cancelled")
            d["records"] += o.get("taken") or 0
        return d


PROP = C13()
