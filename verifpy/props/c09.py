from ..core import Prop, NCPU
from . import funnel_common as fc


class C09(Prop):
    id = "C09"
    harness = "c09"
    props_file = "Properties/C09.v"
    coq_modules = ["Funnel/Check.v", "Funnel/V1.v", "Funnel/Par.v"]
    level = "proof"
    rule = ("malformed-first stream over whole passes of the real funnel.Worker: literal plugin result vectors of "
            "any length (0, <, =, > the input), any kind mix, conditional processors (every match pattern for "
            "n <= 3 quick / 6 thorough in the 'cond' mode), nil/empty/duplicate source positions, destination "
            "replies empty/too many/wrong/duplicate/out-of-order/lost/error at any ack chunk (the 'dest' mode "
            "enumerates, for m <= 4 quick / 5 thorough records at the destination or the DLQ destination, every "
            "chunking of the acks x every chunk index x every such reply, surplus 1..m, every ack index), write "
            "errors, Source.Ack errors; a panic "
            "(recover) or a hang (per-case deadline) is an observation; distinct = distinct input JSON; non-trivial "
            "as for C08")
    trusted_base = fc.TRUSTED
    assumptions = [
        "one destination; the classic-engine nodes (stream.ProcessorNode, stream.DestinationAckerNode) and the "
        "built-in connector sandbox are driven by separate case kinds (coq/Funnel/V1.v)",
        "a hang is observed through a per-case deadline of 20 s (never-hangs is partial, runtime)",
        "classic-engine acker cases carry a feeding schedule (groups of messages handed over with the queue "
        "run empty in between, the harness sleeps 2 ms for the worker to go idle) and replies of 1..3 acks; "
        "every schedule x every cut of the ack stream into replies x exact/surplus/wrong/duplicate/negative/"
        "missing acks is enumerated for <= 3 (quick) / 4 (thorough) messages; a node found waiting in "
        "Destination.Ack after the destination delivered every ack it owes is reported as wedged",
    ]
    exhaustive_tiers = ("quick", "thorough")

    def shards(self, tier, seed):
        return fc.corpus_shards(self.id) + self.gen_shards(tier, seed)

    def gen_shards(self, tier, seed):
        if tier == "quick":
            # 16 shards with the 3 corpus files: one wave on 16 cores
            rnd = [["--seed", str(seed), "--n", "90"] for _ in range(6)]
            cond = [["--mode", "cond:%d:2" % i] for i in range(2)]
            v1 = [["--mode", "v1:%d:3" % i, "--seed", str(seed), "--n", "60"] for i in range(3)]
            dest = [["--mode", "dest:%d:2" % i] for i in range(2)]
            par = [["--mode", "par:%d:2" % i, "--seed", str(seed), "--n", "60"] for i in range(2)]
            return rnd + cond + dest + v1 + par
        rnd = [["--seed", str(seed), "--n", "2500"] for _ in range(NCPU)]
        cond = [["--mode", "cond:%d:%d" % (i, NCPU)] for i in range(NCPU)]
        v1 = [["--mode", "v1:%d:8" % i, "--seed", str(seed), "--n", "100"] for i in range(8)]
        dest = [["--mode", "dest:%d:%d" % (i, NCPU)] for i in range(NCPU)]
        par = [["--mode", "par:%d:8" % i, "--seed", str(seed), "--n", "600"] for i in range(8)]
        return rnd + cond + dest + v1 + par

    def search_shards(self, tier, seed, round_no):
        return [["--seed", str(seed + 7919 * (round_no + 1) + k), "--n", "150"] for k in range(NCPU)]

    def nontrivial(self, case):
        return fc.nontrivial(case)

    def finding_key(self, case, code):
        return fc.finding_key(case, code, self.id)

    def describe(self, case, code):
        return fc.describe(case, code)

    def distribution(self, cases):
        return fc.distribution(cases)


PROP = C09()
