from ..core import Prop, NCPU
from . import funnel_common as fc


class C08(Prop):
    id = "C08"
    harness = "c08"
    props_file = "Properties/C08.v"
    coq_modules = ["Funnel/Check.v"]
    level = "proof"
    rule = ("one case = one whole pass of the real funnel.Worker (source -> 0..4 processors, each optionally "
            "conditional through the real processor.RunnableProcessor -> 1 destination, DLQ) over a batch of 1..12 "
            "records with scripted plugin replies (result kinds same/modified/changed position/filter/error/"
            "multi(0..3)/nil, short results), per-piece destination outcomes and ack chunking, drawn from one "
            "splitmix64 state; plus the 'dest' enumeration (m <= 4 quick / 5 thorough records at the destination "
            "or the DLQ destination, every ack chunking x every chunk index x every malformed reply) for the "
            "accounting under a misbehaving destination; distinct = distinct input JSON; non-trivial = the plugins returned at least two "
            "different result kinds (or a short result, a destination nack, a DLQ write) or the pass ended in an error")
    trusted_base = fc.TRUSTED
    assumptions = [
        "one destination (fan-out and multiAckNacker are C01's)",
        "the source emits distinct non-empty positions (otherwise only the differential is evaluated; malformed "
        "sources are C09's stream)",
        "sub-batches are value copies: no caller reads the span of the parent batch a sub-batch covers again "
        "(checked by the differential)",
    ]
    quick_search_s = 60

    def shards(self, tier, seed):
        return fc.corpus_shards(self.id) + self.gen_shards(tier, seed)

    def gen_shards(self, tier, seed):
        if tier == "quick":
            return ([["--seed", str(seed), "--n", "110"] for _ in range(NCPU)]
                    + [["--mode", "dest:%d:2" % i] for i in range(2)])
        return ([["--seed", str(seed), "--n", "2500"] for _ in range(NCPU)]
                + [["--mode", "dest:%d:4" % i] for i in range(4)])

    def search_shards(self, tier, seed, round_no):
        return [["--seed", str(seed + 7919 * (round_no + 1) + k), "--n", "150"] for k in range(NCPU)]

    def nontrivial(self, case):
        return fc.nontrivial(case)

    def finding_key(self, case, code):
        return fc.finding_key(case, code, self.id)

    def describe(self, case, code):
        return fc.describe(case, code)

    def distribution(self, cases):
        return fc.distribution(cases)


PROP = C08()
