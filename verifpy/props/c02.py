from .connx_common import ConnProp, check_connx


class C02(ConnProp):
    id = "C02"
    harness = "c02"
    props_file = "Properties/C02.v"
    monitor_text = ("a plugin ack is not covered by an earlier successful store commit holding that position "
                    "(or the stored position went backwards / became empty / a healthy teardown dropped an ack)")
    rule = ("corpus/C02/*.jsonl (hand-written shapes) and schedules over Read | Ack(k) | TimerFire | Flush(ctx live/cancelled/expiring) | "
            "ReleaseCommit ok/fail oldest/newest | FailNextSet | FailNextTx | SendFail n | HoldSend | ReleaseSend | Stop | Teardown(ctx live/cancelled/expiring) (half of the teardowns are preceded by reads beyond the last ack and a Stop; one case in "
            "eight embeds a scripted multi-letter shape, a further one in nine a forced flush / teardown with a dead context "
            "behind a parked commit with the commits then released newest first) on 1-3 sources sharing one persister (gated or self-completing commits, bundle "
            "threshold 2-5 or off, retry bound 1-3, 15% of runs with a misbehaving engine), length <= 40, drawn from "
            "one splitmix64 state; thorough adds every schedule of length <= 6 over a 9-letter alphabet on one "
            "source with gated commits, and over an 8-letter alphabet (Ack, Flush, HoldSend, ReleaseSend, Teardown, SendFail, Read, Stop) with "
            "self-completing commits (letters that certainly do nothing where they stand are skipped). distinct = distinct input "
            "JSON; non-trivial = at least one engine ack, one successful commit and one plugin ack in the log")


PROP = C02()


def check(prop, tier, seed, replay):
    return check_connx(prop, tier, seed, replay)
