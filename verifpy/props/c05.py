from .enginex_common import EngineProp, check_with_hangs

CLONE_KEY = "v1/Message.Clone/filtered-flag-dropped-on-fanout"


def _shape(log):
    """(order_ok, branch_filter_ok, clone_dropped): which clause of C05 the observed log breaks"""
    last, gfilt, dfilt = {}, set(), set()
    order_ok = branch_ok = True
    clone_dropped = False
    for e in log:
        if e[0] == "F":
            (gfilt if e[1] < 0 else dfilt).add((e[1], e[2], e[3]) if e[1] >= 0 else (e[2], e[3]))
        elif e[0] == "W":
            d, s, k = e[1], e[2], e[3]
            if (d, s) in last and last[(d, s)] >= k:
                order_ok = False
            last[(d, s)] = k
            if (d, s, k) in dfilt:
                branch_ok = False
            if (s, k) in gfilt:
                clone_dropped = True
    return order_ok, branch_ok, clone_dropped


class C05(EngineProp):
    id = "C05"
    mode = "c05"
    props_file = "Properties/C05.v"
    monitor_text = ("a destination received records of one source out of read order or twice, or received a "
                    "record that a processor had filtered out")

    def finding_key(self, case, code):
        i, o = case["input"], case["observed"]
        if code & 2 and i.get("engine") == "v1" and len(i.get("dests", [])) >= 2 \
                and o.get("clone_keeps_filtered") is False:
            order_ok, branch_ok, clone_dropped = _shape(o.get("log", []))
            if order_ok and branch_ok and clone_dropped:
                return CLONE_KEY
        return super().finding_key(case, code)


PROP = C05()


def check(prop, tier, seed, replay):
    return check_with_hangs(prop, tier, seed, replay)
