from ..core import Prop, NCPU


class C12(Prop):
    id = "C12"
    harness = "c06"
    props_file = "Properties/C12.v"
    coq_modules = ["Stop/Check.v", "Stop/CheckProofs.v", "Stop/GenStop.v", "Stop/GenStopProofs.v", "Stop/GenStopSim.v",
                   "Stop/Lifecycle.v", "Stop/LifecycleProofs.v"]
    level = "proof"
    rule = ("same assembly as C06 (real lifecycle service of both engines, fake plugins); Stop(force) at a random "
            "position of a random environment schedule (quick) or at every position (thorough), gates left as they are "
            "(blocked destinations / DLQ stay blocked until the run ended); a quarter of the cases issue a graceful "
            "StopAndWait first; some make the source plugin's Stop call slow. afterwards WaitPipeline must return within "
            "5 s, the status is watched for 25 ms (recovery back-off is 1-5 ms), then everything is released and the "
            "pipeline is started again - in half of the cases after a process restart (fresh services on the same store, "
            "Init), in the other half in the SAME process, i.e. through the connector instances the force-stopped run "
            "used. In half of the cases the fake connector plugins honour the context of their Stop / Teardown calls as "
            "the built-in sandbox and gRPC transports do: called with the cancelled connector context of a force-stopped "
            "run they do their work and answer ctx.Err() (8 corpus cases are directed at this). distinct = distinct input JSON; non-trivial = records were in flight or a plugin "
            "was blocked when the force stop was called")
    trusted_base = [
        "Coq 8.16.1 kernel + vm_compute (no native_compute)",
        "Go harness harness/cmd/c06 (--mode c12) + harness/lib/stopx",
        "python driver verifpy/core.py",
        "hand-written models coq/Stop/ForceStop.v (forceStopper latch) and coq/Stop/Stop.v (force path); tie to the code: "
        "acceptor + monitor over the event log of the real services (coq/Stop/Check.v)",
    ]
    assumptions = [
        "a blocked plugin call returns when its context is cancelled (the fake plugins do); a plugin's Stop / Teardown "
        "may fail with the context's error only when the context it was called with is cancelled",
        "the force stop is the first reason the run ends (a node error that wins the race to the tomb is C10's subject)",
        "the store answers: v2 tears its sources down with a background context and waits out the 10 s flush budget "
        "when the store is stalled",
        "termination is proved for the model (fair scheduler) and observed on the runs with a 5 s deadline",
    ]
    coq_eval_timeout = 1500

    def shards(self, tier, seed):
        if tier == "quick":
            return [["--seed", str(seed), "--n", "10", "--mode", "c12"] for _ in range(NCPU)]
        return [["--seed", str(seed), "--n", "30", "--mode", "c12every"] for _ in range(NCPU)]

    def search_shards(self, tier, seed, round_no):
        return [["--seed", str(seed + 7919 * (round_no + 1) + k), "--n", "20", "--mode", "c12"] for k in range(NCPU)]

    def nontrivial(self, case):
        evs = (case.get("observed") or {}).get("evs") or []
        reads = packs = 0
        for e in evs:
            if e["k"] == "call" and e.get("x") == "force":
                return reads > packs
            reads += e["k"] == "read"
            packs += e["k"] == "pack"
        return False

    def finding_key(self, case, code):
        i = case["input"]
        o = case.get("observed") or {}
        t = i["topo"]
        sched = [s.rstrip("!") for s in i.get("sched") or []]
        noterm = any(e["k"] == "noterm" for e in o.get("evs") or [])
        if noterm and t["engine"] == "v1":
            if (t.get("workers") or 0) > 1:
                return "v1/ParallelNode/shutdown-deadlock-errs-channel"
            if "stop" in sched and ("force" not in sched or sched.index("stop") < sched.index("force")):
                return "v1/SourceNode.Stop/force-during-graceful-stop/inject-control-message-deadlock"
            return "v1/force/no-termination"
        if noterm:
            return "v2/force/no-termination"
        what = "hang" if o.get("hung") else ("monitor" if code & 2 else "acceptor")
        return "%s/force/%s" % (t["engine"], what)

    def describe(self, case, code):
        i = case["input"]
        o = case.get("observed") or {}
        if code & 2:
            return ("force stop (%s) of topology %s with schedule %s: the run did not end, an unhandled record was acked, "
                    "the status is not the force-stop failure / the pipeline restarted by itself, or the next start does "
                    "not resume at the durable position (terminated=%s, note=%s)"
                    % (i["topo"]["engine"], i["topo"], i["sched"], o.get("terminated"), o.get("note")))
        return "force stop: the observed event log is not a behaviour the model's rules allow, for %s" % (i,)

    def distribution(self, cases):
        d = {"v1": 0, "v2": 0, "force_during_graceful_stop": 0, "force_with_inflight": 0, "force_idle": 0,
             "force_at_startup": 0, "blocked_destination": 0, "terminated": 0, "not_terminated": 0,
             "ctx_honouring_plugins": 0, "restart_same_process": 0, "restart_after_reboot": 0}
        for c in cases:
            i, o = c["input"], c.get("observed") or {}
            d[i["topo"]["engine"]] += 1
            sched = [s.rstrip("!") for s in i.get("sched") or []]
            d["force_during_graceful_stop"] += "stop" in sched
            d["force_at_startup"] += len(sched) > 1 and sched[1] == "force"
            evs = o.get("evs") or []
            d["ctx_honouring_plugins"] += bool(i["topo"].get("strict_ctx"))
            d["restart_same_process"] += any(e["k"] == "sameproc" for e in evs)
            d["restart_after_reboot"] += any(e["k"] == "boot" for e in evs)
            d["terminated"] += any(e["k"] == "term" for e in evs)
            d["not_terminated"] += any(e["k"] == "noterm" for e in evs)
            if self.nontrivial(c):
                d["force_with_inflight"] += 1
            else:
                d["force_idle"] += 1
            pend = 0
            for e in evs:
                if e["k"] == "call" and e.get("x") == "force":
                    break
                pend += e["k"] == "dwrite"
                pend -= e["k"] == "dconf"
            d["blocked_destination"] += pend > 0
        return d


PROP = C12()
