from .enginex_common import EngineProp, check_with_hangs


class C01(EngineProp):
    id = "C01"
    mode = "c01"
    props_file = "Properties/C01.v"
    monitor_text = "no source ack is sent for a record that was neither filtered, nor confirmed written to the DLQ, nor confirmed by every destination"


PROP = C01()


def check(prop, tier, seed, replay):
    return check_with_hangs(prop, tier, seed, replay)
