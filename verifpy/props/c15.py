import json
import os

from .. import core
from ..core import Prop, NCPU
from ._prov_common import check_with_shrinker

import os as _os
CORPUS = _os.path.join(_os.path.dirname(_os.path.dirname(_os.path.dirname(_os.path.abspath(__file__)))), "corpus", "C15", "shapes.jsonl")

S9 = "updateConnectorAction.update/>=3-processors-changed-list"
S10 = "processor.Condition/not-exported-or-updated"
ST = "deleteConnectorAction.Rollback/state-not-restored"
FIX_BITS = [(1, S9), (2, S10), (4, ST)]

GEN_CHECK = """From Verif Require Import Prov.Fields.
From VerifGen Require Import GenProv.
(* every config field is exported, created and updated (or explicitly immutable / ignored);
   the only tolerated gap is the processor Condition of the shipped variant *)
Example fields_complete : fields_ok g_tables = true.
Proof. vm_compute. reflexivity. Qed.
Definition variant := Eval vm_compute in (gen_exp_cond g_tables, gen_upd_cond g_tables).
Print variant.
"""


def _pipe(conns, procs, name=1, dlq=(1, 1, 1, 0)):
    return {"name": name, "desc": 0, "dlq": {"plugin": dlq[0], "settings": dlq[1], "size": dlq[2], "thr": dlq[3]},
            "conns": conns, "procs": procs}


def _proc(i, plugin=1, settings=0, workers=1, cond=0):
    return {"id": i, "plugin": plugin, "settings": settings, "workers": workers, "cond": cond}


def _conn(i, src=True, plugin=1, name=1, settings=0, procs=()):
    return {"id": i, "src": src, "plugin": plugin, "name": name, "settings": settings, "procs": list(procs)}


def field_candidates():
    """two-step chains that change exactly one field of one entity: the first places to look
    when the field-list obligation over the regenerated tables breaks"""
    base = _pipe([_conn(1, procs=[_proc(1), _proc(2)]), _conn(2, src=False, name=2)], [_proc(1)])
    outs = []

    def chain(new):
        outs.append({"txn": False, "steps": [{"cfg": base, "fault": -1, "setstates": [[1, 3]]},
                                             {"cfg": new, "fault": -1, "setstates": []}]})
    for f, v in (("plugin", 2), ("settings", 1), ("workers", 2), ("cond", 1)):
        n = json.loads(json.dumps(base)); n["procs"][0][f] = v; chain(n)
        n = json.loads(json.dumps(base)); n["conns"][0]["procs"][1][f] = v; chain(n)
    for f, v in (("plugin", 2), ("settings", 1), ("name", 3), ("src", False)):
        n = json.loads(json.dumps(base)); n["conns"][0][f] = v; chain(n)
    n = json.loads(json.dumps(base)); n["name"] = 2; chain(n)
    n = json.loads(json.dumps(base)); n["desc"] = 1; chain(n)
    for d in ((2, 1, 1, 0), (1, 2, 1, 0), (1, 1, 3, 0), (1, 1, 3, 2)):
        chain(_pipe(base["conns"], base["procs"], dlq=d))
    n = json.loads(json.dumps(base)); n["conns"].reverse(); chain(n)
    n = json.loads(json.dumps(base)); n["conns"][0]["procs"].reverse(); chain(n)
    return outs


class C15(Prop):
    id = "C15"
    harness = "c15"
    props_file = "Properties/C15.v"
    coq_modules = ["Prov/Check.v", "Prov/InitCheck.v", "Prov/Fields.v"]
    level = "proof"
    rule = ("chains of 2..5 imports into one fresh real provisioning.Service (config grammar: 1..3 connectors, 0..4 "
            "processors per connector and per pipeline, conditions, workers, settings, DLQ, reorderings, type and plugin "
            "changes, added/removed entities; one injected store-write failure or one invalid config per chain); "
            "thorough adds the exhaustive 2-connector x <=3-processor x one-change grammar with every failing "
            "store-write index, through Import and through ApplyPlan's transaction. Directory family: 2..4 rounds of "
            "Service.Init over a directory of 2..4 pipeline config files (YAML written by the harness, parsed by the real "
            "parser) that stay, change, break (refused by the services half way, refused by validation, or a store write of "
            "that pipeline's import fails), vanish, come back, are duplicated (one id per directory) or collide with an "
            "API-provisioned pipeline; Init is run a second time after every error-free round. distinct = distinct input JSON; "
            "non-trivial = some step changes an existing pipeline (its plan holds an update or a delete), or some Init after "
            "the first writes to the store")
    trusted_base = [
        "Coq 8.16.1 kernel + vm_compute (no native_compute)",
        "Go harness harness/cmd/c15 + harness/lib/provx (recording fault-injecting DB wrapper, fake processor registry, "
        "token rendering of configs, translator --mode gen)",
        "python driver verifpy/core.py, verifpy/props/c15.py",
        "hand-written model coq/Prov/Import.v of export.go / import.go / import_actions.go and of the three services' "
        "mutators, tied to the code by exact differential (plan, outcome, every store write, export, plan emptiness, "
        "connector States, stored Conditions) and by the regenerated field tables (coq/Prov/Fields.v)",
    ]
    assumptions = [
        "configs are config.Enrich-ed (processor ids are prefixed by their parent's id, ids contain no ':' of their own) "
        "and empty lists are nil, as the YAML parser and the API produce them",
        "pipeline names are unique across pipelines; pipelines are stopped when Init runs (as its doc comment demands)",
        "directory family: at most one duplicated pipeline id per directory (with two, Init's findDuplicateIDs/deleteIndexes "
        "applies stale indexes in map order: nondeterministic, reported as a finding), config files are well-formed YAML, "
        "no store failure while a vanished pipeline is deleted",
        "at most one failure per import (one store write fails once, or the config is invalid); rollback writes succeed",
        "database.DB: a Set either happens or returns an error; a discarded transaction leaves no write",
    ]
    exhaustive_tiers = ("thorough",)
    quick_search_s = 60
    thorough_search_s = 300

    def shards(self, tier, seed):
        if tier == "quick":
            return ([["--replay", CORPUS]] + [["--seed", str(seed), "--n", "30"] for _ in range(16)]
                    + [["--seed", str(seed), "--mode", "dir", "--n", "20"] for _ in range(8)])
        return [["--replay", CORPUS]] + ([["--seed", str(seed), "--n", "1000"] for _ in range(NCPU)]
                + [["--seed", str(seed), "--mode", "pairs"] for _ in range(NCPU)]
                + [["--seed", str(seed), "--mode", "dir", "--n", "600"] for _ in range(NCPU)])

    def search_shards(self, tier, seed, round_no):
        return ([["--seed", str(seed + 7919 * (round_no + 1) + k), "--n", "120"] for k in range(NCPU - 4)]
                + [["--seed", str(seed + 7919 * (round_no + 1) + k), "--mode", "dir", "--n", "60"] for k in range(4)])

    # ---- translator + per-run obligation -------------------------------------------------
    def pre(self, ctx):
        res = []
        gen = os.path.join(ctx.out, "gen")
        os.makedirs(gen, exist_ok=True)
        for f in os.listdir(gen):
            os.remove(os.path.join(gen, f))
        ok, binary, blog = core.go_build(self.harness, ctx.out)
        if not ok:
            return [{"name": "translator_builds", "ok": False, "log": blog, "candidates": field_candidates()}]
        rc, out = core.sh([binary, "--mode", "gen", "--out", gen], cwd=ctx.out, env=core.go_env(), timeout=120)
        if rc != 0:
            return [{"name": "translator_finds_constructs", "ok": False, "log": out, "candidates": field_candidates()}]
        open(os.path.join(gen, "GenCheck.v"), "w").write(GEN_CHECK)
        q = [(gen, "VerifGen")]
        rc1, out1 = core.coqc(os.path.join(gen, "GenProv.v"), gen, extra_q=q, timeout=300)
        rc2, out2 = (1, "") if rc1 != 0 else core.coqc(os.path.join(gen, "GenCheck.v"), gen, extra_q=q, timeout=300)
        res.append({"name": "fields_complete", "ok": rc1 == 0 and rc2 == 0, "log": out1 + out2,
                    "candidates": field_candidates()})
        # the variant read off the source must be the variant the running code shows
        rc3, out3 = core.sh([binary, "--mode", "probe"], cwd=ctx.out, env=core.go_env(), timeout=120)
        okv, log = False, out3
        try:
            fl = json.loads(out3.strip().splitlines()[-1])
            want = "(%s, %s)" % (str(fl["exp_cond"]).lower(), str(fl["upd_cond"]).lower())
            okv = rc2 != 0 or ("variant = " + want) in out2
            log = "source says %s, running code says %s" % (out2.strip()[-60:], want)
            ctx.notes.append("variant of the tree: %s" % fl)
        except (ValueError, IndexError, KeyError):
            pass
        res.append({"name": "variant_of_source_matches_behaviour", "ok": okv, "log": log,
                    "candidates": field_candidates()})
        return res

    # ---- classification --------------------------------------------------------------------
    def nontrivial(self, case):
        steps = case.get("observed", {}).get("steps") or []
        if any(any(ch["kind"] != 0 for ch in (s.get("plan") or [])) for s in steps):
            return True
        # directory family: some Init after the first one wrote to the store (changed, rolled back or deleted something)
        rounds = case.get("observed", {}).get("rounds") or []
        return any(any(p.get("trace") for p in r.get("pls") or []) for r in rounds[1:])

    def finding_key(self, case, code):
        if code & 1:
            return "model-disagrees"
        mask = code >> 2
        keys = [k for bit, k in FIX_BITS if mask & bit]
        if not keys:
            return "unexplained"
        known = {e["key"] for e in core.known_findings(self.id)}
        unknown = [k for k in keys if k not in known]
        return unknown[0] if unknown else keys[0]

    def describe(self, case, code):
        what = []
        if case["input"].get("rounds"):
            for r, o in zip(case["input"]["rounds"], case.get("observed", {}).get("rounds") or []):
                ents = ["pl%d%s%s" % (d.get("id", 0), "(bad)" if d.get("bad") else "",
                                      "" if d.get("fault", -1) < 0 else "(fault@%d)" % d["fault"]) for d in r.get("dir") or []]
                after = ["pl%d=%s" % (k + 1, p.get("export", {}).get("kind")) for k, p in enumerate(o.get("pls") or [])]
                what.append("Init{%s} err=%s -> %s" % (" ".join(ents), o.get("err"), " ".join(after)))
            return ("directory rounds [%s] violate C15 (a pipeline still in the directory whose import fails / is duplicated / "
                    "belongs to the API is fully retained with its positions; exactly the config-provisioned pipelines that "
                    "vanished are deleted; restart with the same directory does nothing); repairs that would make the model "
                    "satisfy the monitor on this input: mask %d" % ("; ".join(what), code >> 2))
        for s, o in zip(case["input"].get("steps") or [], case.get("observed", {}).get("steps") or []):
            what.append("%s%s" % (o.get("outcome"), "" if s.get("fault", -1) < 0 else "(fault@%d)" % s["fault"]))
        return ("import chain [%s] violates C15 (converges / idempotent / fails atomically / position kept); "
                "repairs that would make the model satisfy the monitor on this input: mask %d (1=S9 copy ids, "
                "2=S10 Condition, 4=State restored on rollback)" % (", ".join(what), code >> 2))

    def distribution(self, cases):
        d = {"steps": 0, "txn": 0, "store_faults": 0, "failed_imports": 0, "ok_imports": 0, "with_conditions": 0,
             "conn_with_3plus_procs": 0, "type_changes_or_deletes": 0,
             "dir_cases": 0, "dir_inits": 0, "dir_inits_with_error": 0, "dir_entries": 0, "dir_bad_or_faulted_entries": 0,
             "dir_duplicated_ids": 0, "dir_api_pipelines": 0, "dir_pipelines_deleted": 0}
        for c in cases:
            i, o = c["input"], c.get("observed", {})
            d["txn"] += bool(i.get("txn"))
            if i.get("rounds"):
                d["dir_cases"] += 1
                d["dir_api_pipelines"] += len(i.get("api") or [])
                prev = o.get("before") or []
                for r, ro in zip(i["rounds"], o.get("rounds") or []):
                    d["dir_inits"] += 1
                    d["dir_inits_with_error"] += bool(ro.get("err"))
                    ids = [e.get("id") for e in r.get("dir") or []]
                    d["dir_entries"] += len(ids)
                    d["dir_duplicated_ids"] += len({x for x in ids if ids.count(x) > 1})
                    d["dir_bad_or_faulted_entries"] += sum(1 for e in r.get("dir") or [] if e.get("bad") or e.get("fault", -1) >= 0)
                    pls = ro.get("pls") or []
                    d["dir_pipelines_deleted"] += sum(1 for a, b in zip(prev, pls)
                                                      if a.get("export", {}).get("kind") == "ok" and b.get("export", {}).get("kind") == "none")
                    prev = pls
            for s in i.get("steps") or []:
                d["steps"] += 1
                d["store_faults"] += s.get("fault", -1) >= 0
                cfg = s["cfg"]
                ps = list(cfg.get("procs") or [])
                for k in cfg.get("conns") or []:
                    ps += k.get("procs") or []
                    d["conn_with_3plus_procs"] += len(k.get("procs") or []) >= 3
                d["with_conditions"] += any(p.get("cond") for p in ps)
            for s in o.get("steps") or []:
                d["failed_imports"] += s.get("outcome") == "failed"
                d["ok_imports"] += s.get("outcome") == "ok"
                d["type_changes_or_deletes"] += any(ch["kind"] == 2 and ch["key"].startswith("(KC")
                                                    for ch in (s.get("plan") or []))
        return d


def check(prop, tier, seed, replay):
    return check_with_shrinker(prop, tier, seed, replay)


PROP = C15()
