import os

from ..core import Prop, NCPU, VERIF

OPNAME = {
    "PlCreate": "Pipelines.Create", "PlUpdate": "Pipelines.Update", "PlDelete": "Pipelines.Delete",
    "PlUpdateDLQ": "Pipelines.UpdateDLQ",
    "CnCreate": "Connectors.Create", "CnUpdate": "Connectors.Update", "CnDelete": "Connectors.Delete",
    "PrCreate": "Processors.Create", "PrUpdate": "Processors.Update", "PrDelete": "Processors.Delete",
}
TWO_SETS = {"CnCreate", "CnDelete", "PrCreate", "PrDelete"}


def fault_label(op, step):
    """name of the store operation that was made to fail, from the store operations the real call
    made: NewTransaction | Set | Set#k (calls that write two instances) | Commit | Get | GetKeys"""
    f = op.get("f", -1)
    if f < 0:
        return None
    kinds = (step or {}).get("store_ops") or []
    if f >= len(kinds):
        return "unreached"
    kind = kinds[f]
    if kind == "Set" and op["k"] in TWO_SETS:
        return "Set#%d" % sum(1 for k in kinds[:f + 1] if k == "Set")
    return kind


class C14(Prop):
    id = "C14"
    harness = "c14"
    props_file = "Properties/C14.v"
    coq_modules = ["Api/Check.v"]
    level = "proof"
    rule = ("random histories of 1..12 API calls (create/update/delete x pipeline/connector/processor + UpdateDLQ; "
            "valid and invalid arguments; running, degraded and config-provisioned targets; processors marked running) "
            "drawn against the live in-memory view, with one injected store failure (index 0..4 of one call) in 4 of 5 "
            "histories; plus, over a 20-call alphabet on a fixed 8-entity state, every single call and half of the 2-call "
            "histories x (no fault | each store-operation index 0..3 of the last call); thorough: 30 000 random histories "
            "and the same enumeration for every history of <= 3 calls. "
            "distinct = distinct input JSON; non-trivial = at least one call succeeded and at least one was refused or failed")
    trusted_base = [
        "Coq 8.16.1 kernel + vm_compute (no native_compute)",
        "Go harness harness/cmd/c14 (fault-injecting wrapper of inmemory.DB, scripted fake plugin services, "
        "canonicalisation of ids/strings/CreatedAt, view differ, case writer)",
        "python driver verifpy/core.py, verifpy/props/c14.py (finding keys)",
        "hand-written model of the three services and the orchestrator (coq/Api/Services.v, Orch.v), tied to the code "
        "by exact differential on outcome class, in-memory view and reloaded view after every call",
        "add-only hook pkg/pipeline/verif_hooks_c14.go (reads Service.instanceNames)",
    ]
    assumptions = [
        "UpdatedAt is not part of 'exactly as it was' (every rollback by inverse operation refreshes it in memory); "
        "CreatedAt is (canonicalised to the index of the call that read the clock)",
        "one API call at a time (the orchestrator has no pipeline lock: 'TODO lock pipeline'); no concurrent writer "
        "to the store, so a transaction is write-through with undo and Commit cannot hit a conflict",
        "a failed store operation has no effect; a failed Commit applies nothing; at most one store failure per call",
        "connector/processor plugin validation is a pure function of (plugin, settings) (scripted fakes)",
        "pipelines reach status running / config provisioning only through the lifecycle and provisioning services, "
        "which the harness replaces by direct service calls when it builds the initial state; entities of a "
        "config-provisioned pipeline are config-provisioned",
    ]
    exhaustive_tiers = ("thorough",)
    coq_eval_timeout = 2400

    def shards(self, tier, seed):
        corpus = sorted(os.path.join(VERIF, "corpus", "C14", f)
                        for f in (os.listdir(os.path.join(VERIF, "corpus", "C14"))
                                  if os.path.isdir(os.path.join(VERIF, "corpus", "C14")) else [])
                        if f.endswith(".jsonl"))
        out = [["--replay", c] for c in corpus]
        if tier == "quick":
            # 600 random histories + every single call of the alphabet x (no fault | index 0..3) + half of the
            # histories of 2 calls x (no fault | index 0..3 of the last call)
            return (out + [["--seed", str(seed), "--n", "75"] for _ in range(8)]
                    + [["--mode", "exhaustive:0:1:1"]]
                    + [["--mode", "exhaustive:%d:12:2" % k] for k in range(6)])
        out += [["--seed", str(seed), "--n", "1900"] for _ in range(NCPU)]
        out += [["--mode", "exhaustive:%d:%d:3" % (k, NCPU)] for k in range(NCPU)]
        return out

    def search_shards(self, tier, seed, round_no):
        return [["--seed", str(seed + 7919 * (round_no + 1) + k), "--n", "150"] for k in range(NCPU)]

    # ---- classification ----
    def _failing_step(self, case, code):
        """(index into ops, or None for the state after the setup) of the first call the monitor rejects"""
        i = (code >> 2) - 1
        if i <= 0:
            return None
        return i - 1

    def finding_key(self, case, code):
        ops = case["input"].get("ops") or []
        steps = (case.get("observed") or {}).get("steps") or []
        suffix = "+model-disagrees" if code & 1 else ""
        if not code & 2:
            return "model-disagrees"
        j = self._failing_step(case, code)
        if j is None or j >= len(ops):
            return "initial-state" + suffix
        op = ops[j]
        lab = fault_label(op, steps[j] if j < len(steps) else None)
        name = OPNAME.get(op["k"], op["k"])
        if lab is None or lab == "unreached":
            return "%s/no-fault%s" % (name, suffix)
        return "%s/%s-fails%s" % (name, lab, suffix)

    def describe(self, case, code):
        ops = case["input"].get("ops") or []
        steps = (case.get("observed") or {}).get("steps") or []
        j = self._failing_step(case, code)
        if not code & 2:
            return "the model and the real orchestrator disagree on this history"
        if j is None or j >= len(ops):
            # (the driver passes the code of the unshrunk case together with the shrunk case)
            faulted = ["%s fault=%s" % (OPNAME.get(o["k"], o["k"]), fault_label(o, steps[i] if i < len(steps) else None))
                       for i, o in enumerate(ops) if o.get("f", -1) >= 0]
            return ("history of %d call(s) %s violates the property (not all-or-nothing, memory != reload, inexact "
                    "references or a guarded resource modified); outcomes %s" %
                    (len(ops), faulted or "without store failure", [s_["out"] for s_ in steps]))
        op = ops[j]
        out = steps[j]["out"] if j < len(steps) else "?"
        return ("call %d (%s %s, fault=%s -> %s) is not all-or-nothing / leaves memory, store or references "
                "inconsistent: key %s" % (j + 1, OPNAME.get(op["k"], op["k"]),
                                          {k: v for k, v in op.items() if k not in ("k", "f")},
                                          fault_label(op, steps[j] if j < len(steps) else None), out,
                                          self.finding_key(case, code)))

    def nontrivial(self, case):
        steps = (case.get("observed") or {}).get("steps") or []
        outs = [s["out"] for s in steps]
        return any(o == "ok" for o in outs) and any(o != "ok" for o in outs)

    def distribution(self, cases):
        d = {"ops": {}, "outcomes": {}, "fault_sites": {}, "histories_with_fault": 0, "faults_reached": 0,
             "len": {}, "init_running_or_config": 0}
        for c in cases:
            ops = c["input"].get("ops") or []
            steps = (c.get("observed") or {}).get("steps") or []
            d["len"][str(len(ops))] = d["len"].get(str(len(ops)), 0) + 1
            if any(p.get("status") == 1 or p.get("prov") == 1 for p in c["input"]["init"].get("pipelines") or []):
                d["init_running_or_config"] += 1
            hasf = False
            for j, o in enumerate(ops):
                d["ops"][o["k"]] = d["ops"].get(o["k"], 0) + 1
                if j < len(steps):
                    out = steps[j]["out"]
                    d["outcomes"][out] = d["outcomes"].get(out, 0) + 1
                    lab = fault_label(o, steps[j])
                    if lab is not None:
                        hasf = True
                        if lab != "unreached":
                            d["faults_reached"] += 1
                            k = "%s/%s" % (OPNAME.get(o["k"], o["k"]), lab)
                            d["fault_sites"][k] = d["fault_sites"].get(k, 0) + 1
            d["histories_with_fault"] += hasf
        return d


PROP = C14()
