"""Shared by C08 and C09: both drive whole passes of the real funnel.Worker (harness/lib/funnelx)
and evaluate them with coq/Funnel/Check.v.  The code a case gets is
   1 model/implementation differ, 2 monitor rejects, and clause bits
   4 panic or hang, 8 unconfirmed ack, 16 wrong set of acked positions, 32 activity after the ack,
   64 DLQ clause, 128 condition clause."""

CLAUSES = [(4, "panic-or-hang"), (8, "unconfirmed-ack"), (16, "acked-set"), (32, "after-ack"),
           (64, "dlq"), (128, "condition")]


def clause_names(code):
    return [n for b, n in CLAUSES if code & b]


def _more_results(obs):
    for e in obs.get("events") or []:
        if e.get("k") == "proc" and len(e.get("kinds") or []) > len(e.get("recs") or []):
            return True
    return False


def _empty_reply(case):
    """an Ack() call of the destination (or the DLQ destination) that was scripted to return an
    empty list was actually made"""
    i, obs = case["input"], case["observed"]
    n_d = sum(1 for e in obs.get("events") or [] if e.get("k") == "dack")
    n_q = sum(1 for e in obs.get("events") or [] if e.get("k") == "dlqack")
    for spec, n in ((i.get("dest") or {}, n_d), (i.get("dlq") or {}, n_q)):
        for a in spec.get("acts") or []:
            if a.get("act") == "empty" and a.get("call", 0) < n:
                return True
    return False


def _is_piece(rid):
    return any(x < 100 for x in (rid or [])[1:])


def _nack_unfilters_piece(case):
    """a piece of a split record was filtered by a processor and the destination later rejected
    another piece of the same record: Batch.setFlagWithErr overwrites the filtered piece's flag"""
    evs = case["observed"].get("events") or []
    filtered, failed = set(), set()
    for e in evs:
        if e.get("k") == "proc":
            for r, kd in zip(e.get("recs") or [], e.get("kinds") or []):
                if kd in (3, 5) and _is_piece(r.get("id")):
                    filtered.add((r.get("id") or [None])[0])
        if e.get("k") == "dack":
            for r in e.get("recs") or []:
                if not r.get("ok"):
                    failed.add((r.get("id") or [None])[0])
    return bool(filtered & failed)


def _nil_source_position(case):
    return any(r.get("pos") is None for r in case["input"].get("recs") or [])


def _cond_short(case):
    """a conditional processor's plugin returned fewer results than it was given"""
    procs = case["input"].get("procs") or []
    for e in case["observed"].get("events") or []:
        if e.get("k") == "proc":
            p = e.get("p", 0)
            if p < len(procs) and procs[p].get("cond") and len(e.get("kinds") or []) < len(e.get("recs") or []):
                return True
    return False


V1_ENGINES = ("v1-proc", "v1-acker", "sandbox", "v1-par")


def _surplus_acks(case):
    """a destination (or DLQ destination) reply was scripted to carry more acks than records taken"""
    i = case["input"]
    return any(a.get("act") in ("extra", "dup") for d in ("dest", "dlq") for a in (i.get(d) or {}).get("acts") or [])


def is_v1(case):
    return (case.get("input") or {}).get("engine") in V1_ENGINES


def _v1_key(case, code):
    i, obs = case["input"], case["observed"]
    agree = "model-agrees" if not (code & 1) else "model-disagrees"
    eng = i.get("engine")
    if code & 4:
        if obs.get("term") == "panic":
            d = obs.get("detail") or ""
            msg = "out-of-range" if "out of range" in d else "other"
            cause = "unknown"
            if eng == "v1-acker" and any((r.get("acks") == [] or r.get("acks") is None) and not r.get("err")
                                         for r in i.get("replies") or []):
                cause = "empty-ack-reply"
            return "panic/%s/%s/%s/%s" % (obs.get("site") or "?", msg, cause, agree)
        return "%s/hang/%s" % (eng, agree)
    if code & 2 and (_v1_wedged(case) or (eng == "v1-acker" and obs.get("term") == "err" and obs.get("ctx"))):
        return "%s/wedge/waits-for-an-ack-already-delivered/%s" % (eng, agree)
    if code & 2 and eng == "v1-acker":
        return "%s/acked-without-in-order-confirmation/%s" % (eng, agree)
    return "%s/%s/%s" % (eng, "monitor" if code & 2 else "differential", agree)


def _v1_wedged(case):
    """the acker node had to be cancelled while waiting in Destination.Ack although the destination had sent
    at least as many acks as unfiltered messages were handed to the node"""
    i, obs = case["input"], case["observed"]
    if i.get("engine") != "v1-acker" or obs.get("term") != "err" or not obs.get("ctx"):
        return False
    sent = 0
    for r in i.get("replies") or []:
        if r.get("err"):
            break
        sent += len(r.get("acks") or [])
    st = obs.get("status") or []
    handed = sum(1 for m, s in zip(i.get("msgs") or [], st) if not m.get("filtered") and s != "open")
    return sent >= handed


def _components(case, code):
    """one key component per clause of the monitor that failed (without the agree suffix)"""
    obs = case["observed"]
    parts = []
    if code & 4:
        if obs.get("term") == "panic":
            d = obs.get("detail") or ""
            if "out of range" in d:
                msg = "out-of-range"
            elif "(bug) SplitRecord" in d:
                msg = "splitrecord-no-run"
            else:
                msg = "other"
            site = obs.get("site") or "?"
            if msg == "splitrecord-no-run" and _nil_source_position(case):
                cause = "nil-source-position-split"
            elif "RunnableProcessor" in site and _cond_short(case):
                cause = "conditional-fewer-results-than-kept"
            elif _more_results(obs):
                cause = "more-results-than-records"
            elif "DestinationTask" in site and _surplus_acks(case):
                cause = "surplus-acks"
            else:
                cause = "unknown"
            parts.append("panic/%s/%s/%s" % (site, msg, cause))
        else:
            parts.append("hang")
    if code & 8:
        if _empty_reply(case):
            parts.append("unconfirmed-ack/empty-ack-reply")
        elif _nack_unfilters_piece(case):
            parts.append("unconfirmed-ack/nack-unfilters-filtered-piece")
        else:
            parts.append("unconfirmed-ack/other")
    for b, n in CLAUSES[2:]:
        if code & b:
            parts.append(n)
    if not parts:
        parts.append("differential")
    return parts


def finding_key(case, code, prop_id=None):
    """Key of the failing shape.  A pass can show several (independent) known findings at once, e.g.
    an unconfirmed ack early in the pass and a panic later: every clause gets its own component;
    the key is the first component that is NOT a known finding (so that it is reported), or the
    first component when all of them are known."""
    if is_v1(case):
        return _v1_key(case, code)
    agree = "model-agrees" if not (code & 1) else "model-disagrees"
    comps = [c + "/" + agree for c in _components(case, code)]
    if len(comps) > 1 and prop_id:
        from .. import core
        known = {e["key"] for e in core.known_findings(prop_id)}
        unknown = [c for c in comps if c not in known]
        return unknown[0] if unknown else comps[0]
    return comps[0]


def describe(case, code):
    obs = case["observed"]
    if is_v1(case):
        return "classic engine (%s): %s%s%s | terminal: %s %s" % (
            case["input"].get("engine"),
            "model and implementation disagree; " if code & 1 else "",
            "the node panicked or hung; " if code & 4 else "",
            ("the node is wedged: it waits in Destination.Ack for an acknowledgment the destination has already "
             "delivered (a graceful stop would never complete)" if _v1_wedged(case)
             else "the monitor rejects the observed behaviour") if code & 2 else "",
            obs.get("term"), obs.get("detail") or "")
    what = []
    if code & 1:
        what.append("the model of the funnel pass and the implementation disagree")
    if code & 4:
        what.append("the engine %s (%s at %s)" % ("panicked" if obs.get("term") == "panic" else "hung",
                                                   obs.get("detail"), obs.get("site")))
    if code & 8:
        what.append("a source position was acked although neither the destination confirmed all written "
                    "pieces of the record nor the DLQ confirmed the record")
    if code & 16:
        what.append("the acked positions are not exactly the original positions, once each")
    if code & 32:
        what.append("a record was still processed/written after its position had been acked")
    if code & 64:
        what.append("a record was dead-lettered twice, or a piece was dead-lettered instead of the original")
    if code & 128:
        what.append("a conditional processor received a record whose condition is false")
    acks = [e.get("pos") for e in obs.get("events") or [] if e.get("k") == "sack"]
    return "; ".join(what) + " | source acks: %s terminal: %s" % (acks, obs.get("term"))


def nontrivial(case):
    """at least two different result kinds returned by the plugins, or a split, or a retry, or a
    destination failure / malformed reply"""
    obs = case["observed"]
    if is_v1(case):
        return True
    kinds = set()
    for e in obs.get("events") or []:
        if e.get("k") == "proc":
            kinds.update(e.get("kinds") or [])
            if len(e.get("kinds") or []) != len(e.get("recs") or []):
                kinds.add(-1)
        if e.get("k") == "dack" and any(not r.get("ok") for r in e.get("recs") or []):
            kinds.add(-2)
        if e.get("k") == "dlqwrite":
            kinds.add(-3)
    return len(kinds) >= 2 or obs.get("term") != "ok"


def distribution(cases):
    d = {"passes": 0, "term_ok": 0, "term_err": 0, "term_panic": 0, "term_hang": 0, "with_condition": 0,
         "with_split": 0, "with_retry": 0, "with_filter": 0, "with_proc_error": 0, "with_dest_nack": 0,
         "with_dlq_write": 0, "short_result": 0, "more_results": 0, "empty_ack_reply": 0,
         "chain_len": {}, "batch_size": {}}
    for c in cases:
        i, o = c["input"], c["observed"]
        if is_v1(c):
            k = "v1_" + str(i.get("engine"))
            d[k] = d.get(k, 0) + 1
            d["v1_term_" + str(o.get("term"))] = d.get("v1_term_" + str(o.get("term")), 0) + 1
            continue
        d["passes"] += 1
        d["term_" + o.get("term", "ok")] = d.get("term_" + o.get("term", "ok"), 0) + 1
        d["with_condition"] += any(p.get("cond") for p in i.get("procs") or [])
        ks, short, more = set(), False, False
        for e in o.get("events") or []:
            if e.get("k") == "proc":
                ks.update(e.get("kinds") or [])
                short |= len(e.get("kinds") or []) < len(e.get("recs") or [])
                more |= len(e.get("kinds") or []) > len(e.get("recs") or [])
        d["with_split"] += 7 in ks
        d["with_retry"] += (8 in ks) or short
        d["with_filter"] += (3 in ks) or (5 in ks)
        d["with_proc_error"] += 4 in ks
        d["short_result"] += short
        d["more_results"] += more
        d["with_dest_nack"] += any(e.get("k") == "dack" and any(not r.get("ok") for r in e.get("recs") or [])
                                   for e in o.get("events") or [])
        d["with_dlq_write"] += any(e.get("k") == "dlqwrite" for e in o.get("events") or [])
        d["empty_ack_reply"] += _empty_reply(c)
        k = str(len(i.get("procs") or []))
        d["chain_len"][k] = d["chain_len"].get(k, 0) + 1
        k = str(len(i.get("recs") or []))
        d["batch_size"][k] = d["batch_size"].get(k, 0) + 1
    return d


def corpus_shards(prop_id):
    import glob
    import os
    d = os.path.join(os.path.dirname(os.path.dirname(os.path.dirname(os.path.abspath(__file__)))), "corpus", prop_id)
    out = []
    for f in sorted(glob.glob(os.path.join(d, "*.jsonl"))):
        if os.path.basename(f).startswith("v1"):
            out.append(["--mode", "v1:0:1", "--replay", f])
        else:
            out.append(["--replay", f])
    return out


TRUSTED = [
    "Coq 8.16.1 kernel + vm_compute (no native_compute)",
    "Go harness harness/lib/funnelx (scripted fake source / processor plugin / destination / DLQ destination, "
    "event log, recover + per-case deadline), harness/cmd/c08, harness/cmd/c09",
    "python driver verifpy/core.py",
    "hand-written model coq/Funnel/{Batch,Tasks,Cond,Ledger,Worker}.v of funnel/batch.go, processor.go, "
    "destination.go, run_ledger.go, dlq.go, worker.go (linear chain) and processor/runnable_processor.go, tied to "
    "the code by exact differential on whole passes through the exported funnel API",
    "hook pkg/lifecycle-poc/funnel/verif_hooks.go (reads/sets maxRetryAttempts, maxRetryStall)",
    "variant probing: the model carries one flag per repaired C08/C09 defect (coq/Funnel/Batch.v fixes); the harness "
    "runs the minimal input of each defect once on the tree it is built against and passes the observed variant to the "
    "model (harness/lib/funnelx ProbeFixes); the property monitors do not depend on the flags, so a tree that shows a "
    "shipped (defective) variant is still reported",
]
