from .. import core
from ..core import Prop, NCPU

# rule bits of Life/Mon.v (Mon_C11), in the order in which a key is chosen
RULES = [
    (2, "two-sources-open"),
    (5, "stop-finds-nothing-while-running"),
    (3, "wait-returns-while-run-is-live"),
    (4, "wait-result-does-not-match-run-end"),
    (10, "wait-returns-an-older-runs-result"),
    (6, "closing-status-written-while-a-run-is-live"),
    (8, "start-refused-after-the-end"),
    (7, "final-status-disagrees-with-runs"),
    (9, "wedged"),
]


class C11(Prop):
    id = "C11"
    harness = "c11"
    props_file = "Properties/C11.v"
    coq_modules = ["Life/Check.v"]
    level = "proof"
    rule = ("histories of Start / Stop / Stop(force) / StopAndWait / StopAll / WaitPipeline calls (one control call at a "
            "time, at most two overlapping waits) against the REAL lifecycle service of both engines, with the publication "
            "windows held open by gates (every status write after it became visible, plugin opens, plugin dispensing) and "
            "failures injected at every component; every history ends with all gates open, a user stop, and a restart. "
            "distinct = distinct input JSON; non-trivial = at least two control calls of the schedule returned and at least "
            "one run was started")
    trusted_base = [
        "Coq 8.16.1 kernel + vm_compute (no native_compute)",
        "Go harness harness/lib/lifex (gated fake connector / processor plugins, gated status-write wrapper, event log), "
        "harness/cmd/c11",
        "python driver verifpy/core.py, verifpy/props/c11.py",
        "hand-written interleaving model coq/Life/RunMap.v (atomic steps = the critical sections of both services), tied "
        "to the code by trace acceptance of every observed log (coq/Life/Accept.v)",
        "modelled, not verified: sync.Mutex / csync.Map / atomic semantics, tomb.v2 (Wait returns the first Kill reason "
        "once every goroutine returned), connector.Instance lock around Open / Teardown",
    ]
    assumptions = [
        "control calls are issued one at a time per pipeline (waits may overlap), as the property states",
        "status writes (PipelineService.UpdateStatus) succeed: store failures are outside the model",
        "one pipeline with one source, one destination, at most one pipeline-level processor, one DLQ; the connector "
        "guards of source and destination are modelled as one guard (the source's)",
        "a wedge is only counted after every gate has been opened and the per-run deadline (3 s) has passed",
    ]
    quick_search_s = 90
    thorough_search_s = 600
    coq_eval_timeout = 300

    def shards(self, tier, seed):
        if tier == "quick":
            return [["--seed", str(seed), "--n", "8"] for _ in range(NCPU)]
        procs = [1, 2, 4, 8, 16]
        return [["--seed", str(seed), "--n", str(max(1, 1200 // NCPU)), "--mode", "p%d" % procs[k % len(procs)]]
                for k in range(NCPU)]

    def search_shards(self, tier, seed, round_no):
        return [["--seed", str(seed + 7919 * (round_no + 1) + k), "--n", "30"] for k in range(NCPU)]

    def nontrivial(self, case):
        log = case.get("observed", {}).get("log") or []
        free = next((i for i, e in enumerate(log) if e["k"] == "phase"), len(log))
        rets = sum(1 for e in log[:free] if e["k"] == "ret")
        started = any(e["k"] == "open" and e.get("a") == "src" for e in log[:free])
        return rets >= 2 and started

    def _shape(self, case):
        """what the history did before the violation, as far as the key needs it"""
        log = case.get("observed", {}).get("log") or []
        free = next((i for i, e in enumerate(log) if e["k"] == "phase"), len(log))
        pre = log[:free]
        openfail = [e.get("a") for e in pre if e["k"] == "openfail"]
        status = "UserStopped"
        start_in_recovery = False
        for e in pre:
            if e["k"] == "st":
                status = e.get("a")
            if e["k"] == "call" and e.get("a") == "start" and status == "Recovering":
                start_in_recovery = True
        # how did the run that was last announced Running (before the harness' final phases) come up?
        kind, user_start = "user-start", False
        for e in pre:
            if e["k"] == "st" and e.get("a") != "Running":
                user_start = False
            elif e["k"] == "call" and e.get("a") == "start":
                user_start = True
            elif e["k"] == "st" and e.get("a") == "Running":
                kind = "user-start" if user_start else "recovery-restart"
        self._restart_kind = kind
        return openfail, start_in_recovery

    @staticmethod
    def _only_waits_inside_failing_start(log, fw):
        """every wait that was answered nil with the source still open was answered before the failing Start returned"""
        start_ret = next((i for i, e in enumerate(log) if i > fw and e["k"] == "ret" and e.get("a") == "start"), len(log))
        src_open, early = False, []
        for i, e in enumerate(log):
            if e["k"] == "open" and e.get("a") == "src":
                src_open = True
            elif e["k"] == "td" and e.get("a") == "src":
                src_open = False
            elif e["k"] == "ret" and e.get("a") == "wait" and src_open:
                early.append(i)
        return bool(early) and all(fw < i < start_ret and log[i].get("b") == "nil" for i in early)

    def finding_key(self, case, code):
        eng = case["input"]["cfg"]["engine"]
        known = {e["key"] for e in core.known_findings(self.id)}
        openfail, start_in_recovery = self._shape(case)
        keys = []
        log = case.get("observed", {}).get("log") or []
        wedged = [e.get("a", "") for e in log if e["k"] == "wedge"]
        # a failing store write of UpdateStatus(StatusRunning): every consequence is one defect per engine and place
        fw = next((i for i, e in enumerate(log) if e["k"] == "inj" and e.get("a") == "st.Running"), None)
        # (not when a user Start was admitted while Recovering in the same history: two Starts are then in flight at
        # once, which is the open finding <engine>/start-admitted-while-recovering whatever else fails; the histories
        # that decide the failed-write repairs - corpus/C11 and the two generator shapes - have no such Start)
        if fw is not None and code >> 2 and not start_in_recovery:
            inflight = 0
            for e in log[:fw]:
                if e.get("a") == "start" and e["k"] == "call":
                    inflight += 1
                elif e.get("a") == "start" and e["k"] == "ret":
                    inflight -= 1
            key = "%s/failed-running-write/%s" % (eng, "at-start" if inflight > 0 else "at-restart")
            # one specific, recorded consequence (default engine): the ONLY rule violated is "wait returned while the
            # run is live", for a wait answered nil while the failing Start itself had not returned yet (the
            # publication is rolled back before the Killed run is dead). Anything else - a run that is never wound
            # down, a wrong final status, a refused restart - keeps the plain key and is reported.
            if eng == "v1" and inflight > 0 and (code & ~3) == (1 << 3) and self._only_waits_inside_failing_start(log, fw):
                key += "/wait-answered-during-wind-down"
            return key
        lost_entry = bool(code & ((1 << 5) | (1 << 3)))
        for bit, name in RULES:
            if code & (1 << bit):
                if lost_entry and bit in (7, 8, 9) and not start_in_recovery:
                    continue  # consequences of the run that Stop / Wait could not reach
                k = "%s/%s" % (eng, name)
                if bit in (5, 3):
                    k += "/after-" + self._restart_kind
                if bit == 9:
                    what = {"call:stop": "stop-never-returns", "call:stopwait": "stop-never-returns",
                            "call:stopall": "stop-never-returns", "call:force": "stop-never-returns",
                            "call:wait": "wait-never-returns",
                            "call:start": "start-never-returns", "run": "run-never-ends"}.get(wedged[0] if wedged else "", "wedged")
                    k = "%s/%s" % (eng, what)
                    if case["input"]["cfg"].get("workers", 0) > 1:
                        k = "%s/ParallelNode/%s" % (eng, what)
                    if start_in_recovery:
                        k = "%s/start-admitted-while-recovering" % eng
                    keys.append(k)
                    continue
                if start_in_recovery:
                    # every consequence of a Start that was admitted during the back-off is one defect
                    k = "%s/start-admitted-while-recovering" % eng
                elif bit in (8, 7) and openfail:
                    k = "%s/failed-open-leaks/%s" % (eng, openfail[0])
                keys.append(k)
        if not keys:
            if code & 1 and start_in_recovery:
                # a user Start admitted while Recovering races the recovery's own nested Start (the open finding
                # <engine>/start-admitted-while-recovering). Which of the two Starts opened or lost a connector is
                # not attributable in the log, so the acceptor cannot always explain such a log although the
                # monitor accepts it: it is a consequence of that finding, not a new disagreement
                return "%s/start-admitted-while-recovering" % eng
            return "%s/model-rejects-log" % eng if code & 1 else "%s/unknown" % eng
        for k in keys:
            if k not in known:
                return k
        return keys[0]

    def describe(self, case, code):
        return "engine %s, %sviolated %s on history shape %s" % (
            case["input"]["cfg"]["engine"], "model rejects the log and " if code & 1 else "",
            self.finding_key(case, code), case["input"].get("shape"))

    def distribution(self, cases):
        d = {"v1": 0, "v2": 0, "shapes": {}, "calls": {}, "returns": {}, "gates_held": 0, "runs_started": 0}
        for c in cases:
            d[c["input"]["cfg"]["engine"]] += 1
            sh = c["input"].get("shape", "?")
            d["shapes"][sh] = d["shapes"].get(sh, 0) + 1
            d["gates_held"] += sum(1 for s in c["input"].get("steps", []) if s.get("op") == "hold")
            for e in c.get("observed", {}).get("log") or []:
                if e["k"] == "call":
                    d["calls"][e.get("a")] = d["calls"].get(e.get("a"), 0) + 1
                elif e["k"] == "ret":
                    k = "%s:%s" % (e.get("a"), e.get("b"))
                    d["returns"][k] = d["returns"].get(k, 0) + 1
                elif e["k"] == "open" and e.get("a") == "src":
                    d["runs_started"] += 1
        return d


PROP = C11()
