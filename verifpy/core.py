"""Shared driver for every property check (python3 stdlib only).

A property module (verifpy/props/cXX.py) defines a subclass of Prop and the
generic flow in `standard_check` does the rest:

  1. scan the Coq development for forbidden constructs
  2. (re)build the static Coq development (incremental, under a file lock)
  3. compile Properties/<id>.v on its own to capture `Print Assumptions`
  4. property specific `pre` step (translator: regenerate model parts from the
     source tree and re-check the theorems stated over them)
  5. build the Go harness against the source tree (VERIF_REPO, default /repo)
  6. run the harness shards -> cases_<k>.jsonl + cases_<k>.v
  7. evaluate every cases_<k>.v with coqc (vm_compute inside the kernel's VM):
     per case, bit 0 = model and implementation disagree, bit 1 = the property
     monitor rejects what the implementation did
  8. decide, search for a concrete failing input when only the tie broke,
     consult known_findings.json, print VIOLATION / KNOWN-FINDING lines
  9. write evidence/<id>.json
"""
import concurrent.futures as cf
import fcntl
import glob
import hashlib
import json
import os
import re
import shutil
import subprocess
import sys
import time

VERIF = os.path.dirname(os.path.dirname(os.path.abspath(__file__)))
COQ = os.path.join(VERIF, "coq")
HARNESS = os.path.join(VERIF, "harness")
OUT = os.path.join(VERIF, "out")
NCPU = os.cpu_count() or 4

FORBIDDEN = re.compile(
    r"\b(Admitted|admit|Axiom|Axioms|Parameter|Parameters|Conjecture|Conjectures|"
    r"Unset\s+Guard|bypass_check|Admit\s+Obligations|type-in-type|impredicative-set|"
    r"Unset\s+Universe|Unset\s+Positivity)\b")


def repo_path():
    return os.environ.get("VERIF_REPO", "/repo")


def go_env():
    env = dict(os.environ)
    env["GOFLAGS"] = "-mod=mod"
    env["GOPROXY"] = "off"
    env.pop("GOTOOLCHAIN", None)  # /repo needs go1.25.8 from the module cache: toolchain must stay "auto"
    env.pop("GOSUMDB", None)
    env.setdefault("GOCACHE", os.path.join(os.path.expanduser("~"), ".cache", "go-build"))
    return env


def sh(cmd, cwd=None, timeout=None, env=None, stdin=None):
    """Run cmd (list), return (rc, stdout+stderr). rc 124 on timeout."""
    try:
        p = subprocess.run(cmd, cwd=cwd, env=env, timeout=timeout, input=stdin,
                           stdout=subprocess.PIPE, stderr=subprocess.STDOUT, text=True)
        return p.returncode, p.stdout
    except subprocess.TimeoutExpired as e:
        out = e.stdout or ""
        if isinstance(out, bytes):
            out = out.decode("utf-8", "replace")
        return 124, out + "\n[timeout after %ss]" % timeout


class Lock:
    def __init__(self, name):
        os.makedirs(OUT, exist_ok=True)
        self.path = os.path.join(OUT, "." + name + ".lock")

    def __enter__(self):
        self.f = open(self.path, "w")
        fcntl.flock(self.f, fcntl.LOCK_EX)
        return self

    def __exit__(self, *a):
        fcntl.flock(self.f, fcntl.LOCK_UN)
        self.f.close()


# ----------------------------------------------------------------------------
# Coq side
# ----------------------------------------------------------------------------

def coq_sources():
    vs = []
    for root, _dirs, files in os.walk(COQ):
        for f in files:
            if f.endswith(".v"):
                vs.append(os.path.relpath(os.path.join(root, f), COQ))
    return sorted(vs)


def forbidden_scan(extra_dirs=(), only=None):
    """Return list of 'file:line: text' for forbidden constructs (comments stripped).
    only: restrict to these files (relative to COQ); default = whole development."""
    hits = []
    files = [os.path.join(COQ, v) for v in (only if only is not None else coq_sources())]
    for d in extra_dirs:
        files += glob.glob(os.path.join(d, "**", "*.v"), recursive=True)
    for path in files:
        try:
            src = open(path, encoding="utf-8").read()
        except OSError:
            continue
        # strip (* ... *) comments (nested)
        out, depth, i = [], 0, 0
        while i < len(src):
            if src.startswith("(*", i):
                depth += 1
                i += 2
            elif src.startswith("*)", i) and depth > 0:
                depth -= 1
                i += 2
            else:
                if depth == 0:
                    out.append(src[i])
                elif src[i] == "\n":
                    out.append("\n")
                i += 1
        for n, line in enumerate("".join(out).split("\n"), 1):
            if FORBIDDEN.search(line):
                hits.append("%s:%d: %s" % (os.path.relpath(path, VERIF), n, line.strip()))
    return hits


def coq_build(targets=None, timeout=3000):
    """Incremental .vo build of /verif/coq (full, or just the given .vo targets and what
    they depend on). Returns (ok, log)."""
    # fast path without the lock: nothing to rebuild for these targets (the usual case of a check on a
    # built tree; lets checks of unrelated properties run while a long compilation holds the lock)
    vs = coq_sources()
    proj = "-Q . Verif\n" + "\n".join(vs) + "\n"
    pf = os.path.join(COQ, "_CoqProject")
    if targets and os.path.exists(os.path.join(COQ, "Makefile")) and os.path.exists(pf) and open(pf).read() == proj:
        rc, out = sh(["make", "-q"] + list(targets), cwd=COQ, timeout=300)
        if rc == 0:
            return True, "up to date"
    with Lock("coq"):
        vs = coq_sources()
        proj = "-Q . Verif\n" + "\n".join(vs) + "\n"
        pf = os.path.join(COQ, "_CoqProject")
        old = open(pf).read() if os.path.exists(pf) else None
        if old != proj or not os.path.exists(os.path.join(COQ, "Makefile")):
            open(pf, "w").write(proj)
            rc, out = sh(["coq_makefile", "-f", "_CoqProject", "-o", "Makefile"], cwd=COQ, timeout=120)
            if rc != 0:
                return False, out
        rc, out = sh(["make", "-j%d" % NCPU] + list(targets or []), cwd=COQ, timeout=timeout)
        return rc == 0, out


def coqc(vfile, outdir, extra_q=(), timeout=1200):
    """Compile one .v file that lives in outdir against the static development."""
    cmd = ["coqc", "-Q", COQ, "Verif"]
    for d, name in extra_q:
        cmd += ["-Q", d, name]
    cmd.append(vfile)
    return sh(cmd, cwd=outdir, timeout=timeout)


def props_assumptions(prop_rel, outdir):
    """Compile Properties/<id>.v into outdir, return (ok, theorems, axioms, log).
    theorems: list of names followed by Print Assumptions; axioms: dict name -> list."""
    src = os.path.join(COQ, prop_rel)
    dst = os.path.join(outdir, "Props_" + os.path.basename(prop_rel))
    shutil.copy(src, dst)
    rc, out = coqc(dst, outdir)
    names = re.findall(r"Print Assumptions\s+([A-Za-z0-9_']+)\s*\.", open(src).read())
    # split output into blocks, one per Print Assumptions, in order
    blocks = re.split(r"(?m)^(?=Closed under the global context|Axioms:)", out)
    blocks = [b for b in blocks if b.startswith("Closed under") or b.startswith("Axioms:")]
    axioms = {}
    for i, n in enumerate(names):
        if i < len(blocks) and blocks[i].startswith("Axioms:"):
            axioms[n] = [l.split(":")[0].strip() for l in blocks[i].split("\n")[1:]
                         if l and not l.startswith(" ") and ":" in l]
        elif i < len(blocks):
            axioms[n] = []
        else:
            axioms[n] = ["<no output>"]
    return rc == 0, names, axioms, out


def dep_closure(prop_rel):
    """Static .v files (relative to COQ) that prop_rel depends on, transitively."""
    seen, todo = set(), [prop_rel]
    while todo:
        f = todo.pop()
        if f in seen or not os.path.exists(os.path.join(COQ, f)):
            continue
        seen.add(f)
        src = open(os.path.join(COQ, f)).read()
        for m in re.finditer(r"From\s+Verif\s+Require\s+(?:Import|Export)\s+([A-Za-z0-9_.\s]+?)\.(?=\s|$)", src):
            for mod in m.group(1).split():
                todo.append(mod.replace(".", "/") + ".v")
        for m in re.finditer(r"(?<!Verif\s)Require\s+(?:Import|Export)\s+([A-Za-z0-9_.\s]+?)\.(?=\s|$)", src):
            for mod in m.group(1).split():
                if mod.startswith("Verif."):
                    todo.append(mod[len("Verif."):].replace(".", "/") + ".v")
    return sorted(seen)


STMT = re.compile(r"(?m)^\s*(?:Local\s+|Global\s+|#\[[^\]]*\]\s*)?(Theorem|Lemma|Corollary|Proposition|Fact|Remark|Example)\s+([A-Za-z0-9_']+)")


def count_obligations(files):
    n = 0
    for f in files:
        n += len(STMT.findall(open(os.path.join(COQ, f)).read()))
    return n


def parse_R(out):
    """Parse 'R = [(i, k); ...]' printed by a case file."""
    m = re.search(r"R\s*=\s*(\[.*?\])\s*:\s*list", out, re.S)
    if not m:
        return None
    return [(int(a), int(b)) for a, b in re.findall(r"\((\d+)(?:%N)?,\s*(\d+)\)", m.group(1))]


# ----------------------------------------------------------------------------
# Go side
# ----------------------------------------------------------------------------

def go_build(cmd_name, outdir, timeout=1500, tags="verif"):
    """Build harness/cmd/<cmd_name> against the source tree. Returns (ok, binary, log)."""
    os.makedirs(outdir, exist_ok=True)
    repo = repo_path()
    tmpl = open(os.path.join(HARNESS, "go.mod.tmpl")).read().replace("@REPO@", repo)
    modfile = os.path.join(outdir, "go.mod")
    open(modfile, "w").write(tmpl)
    shutil.copy(os.path.join(repo, "go.sum"), os.path.join(outdir, "go.sum"))
    binary = os.path.join(outdir, "hx_" + cmd_name)
    rc, out = sh(["go", "build", "-modfile=" + modfile, "-tags", tags, "-o", binary, "./cmd/" + cmd_name],
                 cwd=HARNESS, env=go_env(), timeout=timeout)
    return rc == 0, binary, out


# ----------------------------------------------------------------------------
# Known findings
# ----------------------------------------------------------------------------

def known_findings(prop_id):
    p = os.path.join(VERIF, "known_findings.json")
    if not os.path.exists(p):
        return []
    data = json.load(open(p))
    return [e for e in data.get("findings", []) if e.get("property") == prop_id and e.get("status") == "open"]


# ----------------------------------------------------------------------------
# Property base class and the standard flow
# ----------------------------------------------------------------------------

class Prop:
    id = "C00"
    harness = None            # directory under harness/cmd
    props_file = None         # e.g. "Properties/C07.v"
    coq_modules = []          # further static .v files (relative to coq/) the case files import, e.g. "Dlq/Check.v"
    level = "proof"
    rule = ""
    trusted_base = []
    assumptions = []
    allowed_axioms = []       # std-lib axioms named in DESIGN §4 that theorems of this property may use
    quick_search_s = 60
    thorough_search_s = 600
    coq_eval_timeout = 1500

    # --- hooks -------------------------------------------------------------
    def shards(self, tier, seed):
        """list of harness argument lists, one per shard (without --out/--shard/--shards)."""
        return [["--seed", str(seed), "--n", "200"]]

    def search_shards(self, tier, seed, round_no):
        return [["--seed", str(seed + 7919 * (round_no + 1) + k), "--n", "400"] for k in range(NCPU)]

    def nontrivial(self, case):
        return True

    def finding_key(self, case, code):
        """identifies the failing shape for known_findings.json"""
        return "any"

    def describe(self, case, code):
        return "case %s code %d" % (case.get("idx"), code)

    def pre(self, ctx):
        """translator / per-run proof obligations. return list of dicts
        {name, ok, log, candidates:[json cases]}"""
        return []

    def sample_filter(self, case):
        return True

    def extra_q(self, ctx):
        return ()


class Ctx:
    def __init__(self, prop, tier, seed):
        self.prop, self.tier, self.seed = prop, tier, seed
        self.out = os.path.join(OUT, prop.id)
        self.t0 = time.time()
        self.notes = []
        self.binary = None

    def log(self, *a):
        print("[%s %6.1fs]" % (self.prop.id, time.time() - self.t0), *a, flush=True)


def run_shards(ctx, shard_args, subdir, label="cases"):
    """Run harness shards in parallel then evaluate the case files with coqc.
    Returns (cases: dict (shard, idx)->case json, failing: list ((shard, idx), code), errors)."""
    d = os.path.join(ctx.out, subdir)
    shutil.rmtree(d, ignore_errors=True)
    os.makedirs(d)
    n = len(shard_args)
    errors = []

    def one(k):
        args = [ctx.binary] + shard_args[k] + ["--out", d, "--shard", str(k), "--shards", str(n), "--tier", ctx.tier]
        rc, out = sh(args, cwd=d, timeout=ctx.prop.coq_eval_timeout, env=go_env())
        if rc != 0:
            return k, "harness shard %d failed rc=%d: %s" % (k, rc, out[-2000:]), None
        vf = os.path.join(d, "cases_%d.v" % k)
        if not os.path.exists(vf):
            return k, None, []
        rc, out = coqc(vf, d, extra_q=ctx.prop.extra_q(ctx), timeout=ctx.prop.coq_eval_timeout)
        R = parse_R(out)
        if rc != 0 or R is None:
            return k, "coqc on %s failed rc=%d: %s" % (vf, rc, out[-3000:]), None
        return k, None, R

    failing = []
    with cf.ThreadPoolExecutor(max_workers=min(NCPU, max(1, n))) as ex:
        for k, err, R in ex.map(one, range(n)):
            if err:
                errors.append(err)
            elif R:
                failing += [((k, i), c) for i, c in R]
    cases = {}
    for k in range(n):
        p = os.path.join(d, "cases_%d.jsonl" % k)
        if os.path.exists(p):
            for line in open(p):
                line = line.strip()
                if line:
                    try:
                        c = json.loads(line)
                    except ValueError:
                        continue  # truncated line of a crashed shard (reported through errors)
                    cases[(k, c["idx"])] = c
    return cases, failing, errors


def canon(x):
    return json.dumps(x, sort_keys=True, separators=(",", ":"))


def shrink(ctx, case, code_bit, budget_s=40):
    """Generic delta debugging on the JSON input: repeatedly try to delete list
    elements anywhere in case['input']; keep a candidate if the implementation,
    re-run on it, still shows the same failure bit."""
    t_end = time.time() + budget_s
    best = case
    rounds = 0
    while time.time() < t_end and rounds < 12:
        rounds += 1
        cands = list(_deletions(best["input"]))[:400]
        if not cands:
            break
        d = os.path.join(ctx.out, "shrink")
        shutil.rmtree(d, ignore_errors=True)
        os.makedirs(d)
        rf = os.path.join(d, "cands.jsonl")
        with open(rf, "w") as f:
            for i, c in enumerate(cands):
                f.write(json.dumps({"input": c, "_cand": i}) + "\n")
        saved = ctx.out
        cases, failing, errors = run_shards(ctx, [["--replay", rf]], "shrink/run")
        if errors:
            break
        still = [(key, code) for key, code in failing if code & code_bit]
        if not still:
            break
        # smallest failing candidate
        key, _ = min(still, key=lambda kc: len(canon(cases[kc[0]]["input"])))
        if len(canon(cases[key]["input"])) >= len(canon(best["input"])):
            break
        best = cases[key]
    return best


def _deletions(x, path=()):
    """yield copies of x with one list element (or one half of a list) removed"""
    def rebuild(root, path, newval):
        if not path:
            return newval
        k = path[0]
        if isinstance(root, list):
            return root[:k] + [rebuild(root[k], path[1:], newval)] + root[k + 1:]
        d = dict(root)
        d[k] = rebuild(root[k], path[1:], newval)
        return d

    def walk(node, p):
        if isinstance(node, list):
            n = len(node)
            if n >= 4:
                yield p, node[: n // 2]
                yield p, node[n // 2:]
            for i in range(n):
                yield p, node[:i] + node[i + 1:]
            for i, c in enumerate(node):
                yield from walk(c, p + (i,))
        elif isinstance(node, dict):
            for k, c in node.items():
                yield from walk(c, p + (k,))
    for p, newval in walk(x, ()):
        yield rebuild(x, p, newval)


def write_replay(ctx, kind, payload):
    d = os.path.join(VERIF, "replays")
    os.makedirs(d, exist_ok=True)
    body = {"property": ctx.prop.id, "kind": kind, "tier": ctx.tier, "seed": ctx.seed,
            "repo": repo_path()}
    body.update(payload)
    h = hashlib.sha256(canon(body).encode()).hexdigest()[:12]
    path = os.path.join(d, "%s-%s.json" % (ctx.prop.id, h))
    json.dump(body, open(path, "w"), indent=1, sort_keys=True)
    return path


def write_evidence(ctx, cov, violations, extra_assumptions=()):
    p = ctx.prop
    ev = {
        "property_id": p.id,
        "tier": ctx.tier,
        "seed": ctx.seed,
        "level": p.level,
        "coverage": cov,
        "assumptions": list(p.assumptions) + list(extra_assumptions),
        "wall_s": round(time.time() - ctx.t0, 2),
        "violations": violations,
    }
    os.makedirs(os.path.join(VERIF, "evidence"), exist_ok=True)
    path = os.path.join(VERIF, "evidence", p.id + ".json")
    if os.path.realpath(repo_path()) != "/repo":
        # a run against another source tree (seeded change in a scratch worktree) must not
        # overwrite the evidence of /repo itself
        os.makedirs(os.path.join(OUT, p.id), exist_ok=True)
        path = os.path.join(OUT, p.id, "evidence_alt_tree.json")
    json.dump(ev, open(path, "w"), indent=1, sort_keys=True)
    return path


def standard_check(prop, tier, seed, replay=None):
    # two runs of the same property share out/<id>/: serialise them
    with Lock("check_" + prop.id):
        return _standard_check(prop, tier, seed, replay)


def _standard_check(prop, tier, seed, replay=None):
    ctx = Ctx(prop, tier, seed)
    os.makedirs(ctx.out, exist_ok=True)
    violations = []      # (line, ) printed at the end
    known_lines = []
    machinery_errors = []

    # 1. forbidden constructs (in everything this property's theorems and checkers depend on)
    roots = ([prop.props_file] if prop.props_file else []) + list(prop.coq_modules)
    closure = sorted(set(f for r in roots for f in dep_closure(r)))
    hits = forbidden_scan(only=closure)
    if hits:
        machinery_errors.append("forbidden constructs in the Coq development:\n" + "\n".join(hits))

    # 2. static build of that closure (incremental; `make` with no target = everything, see setup.sh)
    ok, log = coq_build([r[:-2] + ".vo" for r in roots])
    if not ok:
        machinery_errors.append("static Coq build failed:\n" + log[-4000:])
    ctx.log("coq build ok=%s" % ok)

    # 3. property theorems + assumptions
    theorems, axioms, obligations, dep_files = [], {}, 0, []
    if ok and prop.props_file:
        pok, theorems, axioms, plog = props_assumptions(prop.props_file, ctx.out)
        if not pok:
            machinery_errors.append("Properties file failed:\n" + plog[-4000:])
        dep_files = dep_closure(prop.props_file)
        obligations = count_obligations(dep_files)
        for t, ax in axioms.items():
            bad = [a for a in ax if a not in prop.allowed_axioms]
            if bad:
                machinery_errors.append("theorem %s depends on unlisted axioms: %s" % (t, bad))
    ctx.log("theorems=%d obligations=%d" % (len(theorems), obligations))

    # 3b. thorough tier: independent re-check of the compiled closure with coqchk
    coqchk_summary = None
    if ok and prop.props_file and tier == "thorough" and not replay and not machinery_errors:
        mod = "Verif." + prop.props_file[:-2].replace("/", ".")
        with Lock("coq"):
            rc, out = sh(["coqchk", "-silent", "-o", "-Q", COQ, "Verif", mod], cwd=COQ, timeout=3600)
        m = re.search(r"\* Axioms:\s*(.*?)\n\s*\n", out, re.S)
        coqchk_summary = {"rc": rc, "axioms": (m.group(1).strip() if m else "<unparsed>")}
        ctx.log("coqchk rc=%d axioms=%s" % (rc, coqchk_summary["axioms"][:200]))
        if rc != 0:
            machinery_errors.append("coqchk failed:\n" + out[-3000:])
        elif coqchk_summary["axioms"] != "<none>":
            listed = [a.strip() for a in coqchk_summary["axioms"].split("\n") if a.strip()]
            bad = [a for a in listed if not any(a.startswith(x) for x in prop.allowed_axioms)]
            if bad:
                machinery_errors.append("coqchk lists axioms that are not on the allow-list: %s" % bad)

    if machinery_errors:
        for e in machinery_errors:
            print("MACHINERY-ERROR:", e)
        write_evidence(ctx, {"obligations": max(obligations, 1), "discharged": 0,
                             "checker_cmd": "make -C coq", "trusted_base": prop.trusted_base,
                             "explanation": "machinery error; nothing checked"}, 0)
        return 2

    # 4. per-run obligations over regenerated model parts
    pre_results = prop.pre(ctx) or []
    broken_obligations = [r for r in pre_results if not r["ok"]]
    gen_obligations = len(pre_results)
    for r in pre_results:
        ctx.log("generated obligation %s ok=%s" % (r["name"], r["ok"]))

    # 5. harness
    cases, failing, errors = {}, [], []
    tie_broken = None
    if prop.harness:
        bok, binary, blog = go_build(prop.harness, ctx.out)
        ctx.log("harness build ok=%s" % bok)
        if not bok:
            tie_broken = "harness %s no longer builds against the source tree:\n%s" % (prop.harness, blog[-3000:])
        else:
            ctx.binary = binary
            if replay:
                shard_args = [["--replay", os.path.abspath(replay)]]
            else:
                shard_args = prop.shards(tier, seed)
            cases, failing, errors = run_shards(ctx, shard_args, "run")
            ctx.log("cases=%d failing=%d errors=%d" % (len(cases), len(failing), len(errors)))
            for e in errors[:3]:
                ctx.log("error: " + e[-1500:])
            if errors:
                tie_broken = "correspondence run failed:\n" + "\n".join(errors)[-4000:]

    # 6. decide
    witnesses = [(k, c) for k, c in failing if c & 2]
    disagreements = [(k, c) for k, c in failing if not (c & 2)]
    searched = 0
    need_search = (disagreements or broken_obligations or tie_broken) and not witnesses and ctx.binary and not replay
    if need_search:
        # candidates from broken obligations first
        cand_inputs = []
        for r in broken_obligations:
            cand_inputs += r.get("candidates", [])
        if cand_inputs:
            d = os.path.join(ctx.out, "cand")
            os.makedirs(d, exist_ok=True)
            rf = os.path.join(d, "cands.jsonl")
            with open(rf, "w") as f:
                for i, c in enumerate(cand_inputs):
                    f.write(json.dumps({"input": c, "_cand": i}) + "\n")
            c2, f2, e2 = run_shards(ctx, [["--replay", rf]], "cand/run")
            searched += len(c2)
            for k, c in f2:
                if c & 2:
                    cases[("cand",) + k] = c2[k]
                    witnesses.append((("cand",) + k, c))
        budget = prop.quick_search_s if tier == "quick" else prop.thorough_search_s
        t_end = time.time() + budget
        rnd = 0
        while not witnesses and time.time() < t_end and not tie_broken:
            c2, f2, e2 = run_shards(ctx, prop.search_shards(tier, seed, rnd), "search")
            searched += len(c2)
            for k, c in f2:
                if c & 2:
                    cases[("search", rnd) + k] = c2[k]
                    witnesses.append((("search", rnd) + k, c))
            rnd += 1
            if e2:
                break
        ctx.log("search: %d more cases, witnesses=%d" % (searched, len(witnesses)))

    known = known_findings(prop.id)
    known_keys = {e["key"]: e for e in known}
    reported_keys = set()
    n_viol = 0
    for k, c in witnesses:
        case = cases[k]
        key = prop.finding_key(case, c)
        if key in reported_keys:
            continue
        reported_keys.add(key)
        if key in known_keys:
            known_lines.append("KNOWN-FINDING: property=%s %s [%s]" % (prop.id, known_keys[key]["what"], key))
            continue
        small = case
        if ctx.binary and not replay:
            try:
                small = shrink(ctx, case, 2)
            except Exception as e:  # shrinking is best effort
                ctx.log("shrink failed: %r" % (e,))
        path = write_replay(ctx, "witness", {"case": small, "original_case": case, "code": c, "key": key,
                                             "what": prop.describe(small, c)})
        violations.append("VIOLATION property=%s replay=%s" % (prop.id, path))
        n_viol += 1
    # keys of known findings are also matched against disagreement-only failures
    if not witnesses or all(prop.finding_key(cases[k], c) in known_keys for k, c in witnesses):
        unexplained = [(k, c) for k, c in disagreements
                       if prop.finding_key(cases[k], c) not in known_keys]
        if unexplained or broken_obligations or tie_broken:
            payload = {"no_failing_input_found": True, "searched_cases": searched}
            if broken_obligations:
                payload["broken_obligations"] = [{"name": r["name"], "log": r["log"][-3000:]} for r in broken_obligations]
            if tie_broken:
                payload["broken_correspondence"] = tie_broken
            if unexplained:
                k, c = unexplained[0]
                payload["broken_correspondence_case"] = cases[k]
                payload["code"] = c
                payload["what"] = "model and implementation disagree (%d cases); the property monitor accepted " \
                                  "every observed behaviour" % len(unexplained)
            path = write_replay(ctx, "tie-broken", payload)
            violations.append("VIOLATION property=%s replay=%s no-failing-input-found" % (prop.id, path))
            n_viol += 1

    # 7. evidence
    inputs = {}
    for k, c in cases.items():
        inputs.setdefault(canon(c.get("input")), c)
    nontriv = sum(1 for c in inputs.values() if prop.nontrivial(c))
    samples = [c for c in list(cases.values()) if prop.sample_filter(c)][:3]
    total_obl = obligations + gen_obligations
    cov = {
        "obligations": total_obl,
        "discharged": total_obl - len(broken_obligations),
        "checker_cmd": "coq_makefile -f _CoqProject -o Makefile && make  (coqc 8.16.1, full .vo build of /verif/coq); "
                       "per run: coqc Properties/%s.v (Print Assumptions) and coqc cases_<k>.v (vm_compute)" % prop.id,
        "trusted_base": prop.trusted_base,
        "theorems": theorems,
        "axioms": axioms,
        "model_files": dep_files,
        "evaluations": len(cases) + searched,
        "distinct_nontrivial": nontriv,
        "rule": prop.rule,
        "samples": samples,
        "traces_validated_against_impl": len(cases),
        "disagreements": len(disagreements),
        "monitor_rejections": len(witnesses),
        "known_findings_matched": len(known_lines),
        "generated_obligations": [{"name": r["name"], "ok": r["ok"]} for r in pre_results],
        "input_distribution": getattr(prop, "distribution", lambda cs: {})(list(cases.values())),
        "exhaustive": bool(getattr(prop, "exhaustive_tiers", ()) and tier in prop.exhaustive_tiers),
    }
    if coqchk_summary is not None:
        cov["coqchk"] = coqchk_summary
    write_evidence(ctx, cov, n_viol)
    for l in known_lines:
        print(l)
    for l in violations:
        print(l)
    ctx.log("done: violations=%d known=%d" % (n_viol, len(known_lines)))
    return 1 if violations else 0
