#!/usr/bin/env python3
"""Print the prompt for a seeded-change sub-agent: mut_prompt.py <Cxx> <worktree> <focus text> <test packages>"""
import json, sys
pid, wt, focus, pkgs = sys.argv[1:5]
p = [json.loads(l) for l in open('/verif/properties.jsonl') if json.loads(l)['id'] == pid][0]
print(f"""You are a careful Go engineer playing the adversary. In the git worktree {wt} (a checkout of the ConduitIO/conduit repository, Go; work ONLY inside this directory; never touch /repo or /verif, and do not look for any verification tooling outside this worktree) make ONE small, realistic change to the production code (not tests) that BREAKS the following property while the code still compiles and the EXISTING tests of the affected packages still pass:

---
Property {pid} — {p['title']}

{p['statement']}

Quantifier: {p['quantifier']['text']}

Why the existing tests cannot settle it: {p['why_tests_cant']}

Code anchors: {', '.join(p['anchors']['files'])}
---

Focus for you: {focus}
The change must need something specific to manifest — a particular interleaving, a crash or fault at a particular point, a multi-step sequence of operations, an unusual input, or two cooperating sites that each look fine alone — NOT something ordinary use or the existing tests expose at once. Think of the kind of bug a maintainer could plausibly introduce in a refactor or an optimisation.

Requirements:
1. `go build ./...` succeeds in the worktree (env: `export GOFLAGS=-mod=mod GOPROXY=off`; do NOT set GOTOOLCHAIN or GOSUMDB; no network is available).
2. The existing tests of the packages you touched (and their direct dependants among: {pkgs}) still pass: `go test -count=1 {pkgs}` (run only these, not the whole repository). If an existing test fails with your change, pick a different change. Flaky timing tests that also fail without your change do not count (check by re-running on the original code).
3. Write a demonstration: a NEW Go test file (name it zz_mut_demo_test.go in the most suitable package) that FAILS with your change and PASSES on the original code — verify both (use `git diff > /tmp/<yourname>.diff && git apply -R /tmp/<yourname>.diff` … `git apply /tmp/<yourname>.diff`; do NOT use `git stash`: the stash is shared between all worktrees of this repository and other people are working in sibling worktrees). It must exercise the real code and assert the property in its own words.
4. Deliver into {wt}/OUT/ (create it): `patch.diff` (production-code change only, `git diff` format, applies with `git apply` at the repository root), a copy of the demonstration test file, and `meta.json` with fields: property ("{pid}"), summary (what was changed and why it breaks the property), needs (what specific input/history/schedule/fault it needs to manifest), demo_path_in_repo (where the demo test file goes), ran (exact commands and outcomes: build, existing tests with the change, demo with and without the change).
Leave the worktree with your change applied; your final message should summarise the change in a few sentences.""")
