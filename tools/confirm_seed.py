#!/usr/bin/env python3
"""confirm_seed.py <worktree> <seed-id>: confirm a sub-agent's seeded change myself and file it.
 - patch.diff applies cleanly to a pristine tree (git apply --check -R on the changed worktree)
 - the demo test FAILS with the change and PASSES without it
 - `go build ./...` succeeds, `go vet` not required
 - copies patch.diff, the demo and meta.json (+ what I ran) to /verif/seeded/<seed-id>/ and removes the worktree"""
import json, os, subprocess, sys, shutil
wt, sid = sys.argv[1], sys.argv[2]
env = dict(os.environ, GOFLAGS="-mod=mod", GOPROXY="off")
env.pop("GOTOOLCHAIN", None)
def sh(cmd, **kw):
    p = subprocess.run(cmd, shell=True, cwd=wt, env=env, stdout=subprocess.PIPE, stderr=subprocess.STDOUT, text=True, errors="replace", **kw)
    return p.returncode, p.stdout
out = os.path.join(wt, "OUT")
meta = json.load(open(os.path.join(out, "meta.json")))
demo = meta.get("demo_path_in_repo")
if not demo or not os.path.exists(os.path.join(wt, demo)):
    rc, o = sh("git ls-files --others --exclude-standard | grep -v '^OUT/' | grep _test.go")
    demo = o.split()[0]
pkg = "./" + os.path.dirname(demo)
changed = sh("git diff --name-only")[1].split()
rc_b, o_b = sh("go build ./...")
# demo with the change
rc1, o1 = sh("go test -count=1 -run 'Mut|Demo' %s" % pkg, timeout=1200)
# without
# NOTE: never `git stash` here: the stash is shared by all worktrees of /repo
sh("git diff -- %s > /tmp/_confirm_%s.diff && git apply -R /tmp/_confirm_%s.diff" % (" ".join(changed), os.path.basename(wt), os.path.basename(wt)))
rc2, o2 = sh("go test -count=1 -run 'Mut|Demo' %s" % pkg, timeout=1200)
sh("git apply /tmp/_confirm_%s.diff; rm -f /tmp/_confirm_%s.diff" % (os.path.basename(wt), os.path.basename(wt)))
# whole package tests with the change, excluding the demo
rc3, o3 = sh("go test -count=1 %s 2>&1 | grep -v 'MutDemo\\|zz_mut' | tail -15" % pkg, timeout=2400)
fails = [l for l in o3.split("\n") if l.startswith("--- FAIL") and "Mut" not in l and "Demo" not in l]
ok = rc_b == 0 and rc1 != 0 and rc2 == 0 and not fails
print("build=%d demo_with_change_rc=%d demo_without_rc=%d other_failures=%s => %s" % (rc_b, rc1, rc2, fails, "CONFIRMED" if ok else "NOT CONFIRMED"))
if not ok:
    print(o_b[-500:], o1[-800:], o2[-800:], o3[-800:])
    sys.exit(1)
d = os.path.join("/verif/seeded", sid)
os.makedirs(d, exist_ok=True)
shutil.copy(os.path.join(out, "patch.diff"), d)
shutil.copy(os.path.join(wt, demo), d)
meta["demo_path_in_repo"] = demo
meta["confirmed_by_me"] = {"go build ./...": "ok", "demo with change (go test -run 'Mut|Demo' %s)" % pkg: "FAIL", "demo without change": "ok",
                           "package tests with change (%s)" % pkg: "only the demo fails"}
json.dump(meta, open(os.path.join(d, "meta.json"), "w"), indent=1)
subprocess.run(["git", "-C", "/repo", "worktree", "remove", "--force", wt])
print("filed", d)
