#!/usr/bin/env python3
"""Run the registered checks against every seeded change under /verif/seeded/<id>/.

For each seeded change: scratch worktree of /repo (outside /repo and /verif), apply
patch.diff, copy the untracked verif hook files of /repo (until they are committed there),
run `VERIF_REPO=<worktree> ./check <prop> --tier <tier>` for the property it breaks (and any
listed under "also_check"), record whether a VIOLATION line was printed, remove the worktree.
Results: seeded/RESULTS.json + a table on stdout.   usage: run_seeded.py [id ...] [--tier quick]
"""
import json, os, subprocess, sys, shutil, time

VERIF = os.path.dirname(os.path.dirname(os.path.abspath(__file__)))
SEEDED = os.path.join(VERIF, "seeded")


def sh(cmd, **kw):
    return subprocess.run(cmd, stdout=subprocess.PIPE, stderr=subprocess.STDOUT, text=True, **kw)


def main():
    args = [a for a in sys.argv[1:] if not a.startswith("--")]
    tier = "quick"
    if "--tier" in sys.argv:
        tier = sys.argv[sys.argv.index("--tier") + 1]
        args = [a for a in args if a != tier]
    ids = args or sorted(d for d in os.listdir(SEEDED) if os.path.isdir(os.path.join(SEEDED, d)))
    results = {}
    rp = os.path.join(SEEDED, "RESULTS.json")
    if os.path.exists(rp):
        results = json.load(open(rp))
    for sid in ids:
        d = os.path.join(SEEDED, sid)
        meta = json.load(open(os.path.join(d, "meta.json")))
        wt = "/tmp/seedwt-" + sid
        sh(["git", "-C", "/repo", "worktree", "remove", "--force", wt])
        r = sh(["git", "-C", "/repo", "worktree", "add", "--detach", wt, "HEAD"])
        if r.returncode != 0:
            print(sid, "worktree failed", r.stdout); continue
        try:
            # untracked hook files of /repo
            u = sh(["git", "-C", "/repo", "ls-files", "--others", "--exclude-standard"]).stdout.split()
            for f in u:
                if "verif" in os.path.basename(f):
                    os.makedirs(os.path.dirname(os.path.join(wt, f)), exist_ok=True)
                    shutil.copy(os.path.join("/repo", f), os.path.join(wt, f))
            r = sh(["git", "-C", wt, "apply", os.path.join(d, "patch.diff")])
            if r.returncode != 0:
                print(sid, "patch does not apply:", r.stdout); continue
            res = {}
            for prop in [meta["property"]] + list(meta.get("also_check", [])):
                env = dict(os.environ, VERIF_REPO=wt)
                t0 = time.time()
                r = sh([os.path.join(VERIF, "check"), prop, "--tier", tier], env=env, cwd=VERIF)
                lines = [l for l in r.stdout.split("\n") if l.startswith("VIOLATION") or l.startswith("KNOWN-FINDING")]
                res[prop] = {"exit": r.returncode, "lines": lines, "wall_s": round(time.time() - t0, 1),
                             "caught": r.returncode == 1 and any(l.startswith("VIOLATION") for l in lines),
                             "with_witness": any(l.startswith("VIOLATION") and "no-failing-input-found" not in l for l in lines)}
                # keep the replay file next to the seeded change for reference
                for l in lines:
                    if "replay=" in l:
                        p = l.split("replay=")[1].split()[0]
                        if os.path.exists(p):
                            shutil.copy(p, os.path.join(d, "replay_%s.json" % prop))
                print("%-28s %-4s exit=%d caught=%s witness=%s (%.0fs)" % (sid, prop, r.returncode, res[prop]["caught"], res[prop]["with_witness"], res[prop]["wall_s"]), flush=True)
            results[sid] = {"property": meta["property"], "tier": tier, "checks": res}
            # several streams may run side by side: merge into the file under a lock after every seed
            import fcntl
            with open(rp + ".lock", "w") as lk:
                fcntl.flock(lk, fcntl.LOCK_EX)
                cur = json.load(open(rp)) if os.path.exists(rp) else {}
                cur[sid] = results[sid]
                json.dump(cur, open(rp, "w"), indent=1, sort_keys=True)
        finally:
            sh(["git", "-C", "/repo", "worktree", "remove", "--force", wt])


if __name__ == "__main__":
    main()
