#!/usr/bin/env python3
"""Print the markdown tables of DESIGN.md §12.5 (seeded changes) and §12.4 (findings) from the files on disk."""
import json, os
V = os.path.dirname(os.path.dirname(os.path.abspath(__file__)))
res = json.load(open(os.path.join(V, "seeded", "RESULTS.json")))
print("| seeded change | breaks | needs | result of `./check` (quick tier) |")
print("|---|---|---|---|")
for sid in sorted(os.listdir(os.path.join(V, "seeded"))):
    d = os.path.join(V, "seeded", sid)
    if not os.path.isdir(d):
        continue
    m = json.load(open(os.path.join(d, "meta.json")))
    needs = " ".join(str(m.get("needs", "")).split())[:230]
    r = res.get(sid, {}).get("checks", {})
    cells = []
    for p, c in r.items():
        cells.append("%s: %s" % (p, "VIOLATION with witness" if c["with_witness"] else ("VIOLATION (no-failing-input-found)" if c["caught"] else "not reported")))
    print("| `%s` | %s | %s | %s |" % (sid, m["property"], needs.replace("|", "/"), "; ".join(cells)))
print()
kf = json.load(open(os.path.join(V, "known_findings.json")))
print("| property | key | what fails |")
print("|---|---|---|")
for e in kf["findings"]:
    print("| %s | `%s` | %s |" % (e["property"], e["key"], " ".join(e["what"].split())[:300].replace("|", "/")))
print()
for f in kf["fixed"]:
    print("* " + " ".join(str(f).split())[:330])
