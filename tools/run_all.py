#!/usr/bin/env python3
"""Run every check registered in MANIFEST.json (quick or thorough) and summarise.
usage: run_all.py [--tier quick|thorough] [--jobs N] [ids...]"""
import json, os, subprocess, sys, time, concurrent.futures as cf

VERIF = os.path.dirname(os.path.dirname(os.path.abspath(__file__)))


def main():
    tier = "quick"
    jobs = 2
    a = sys.argv[1:]
    if "--tier" in a:
        tier = a[a.index("--tier") + 1]; a.remove("--tier"); a.remove(tier)
    if "--jobs" in a:
        jobs = int(a[a.index("--jobs") + 1]); a.remove("--jobs"); a.remove(str(jobs))
    man = json.load(open(os.path.join(VERIF, "MANIFEST.json")))
    checks = [c for c in man["checks"] if not a or c["property_id"] in a]

    def one(c):
        cmd = c["quick_cmd"] if tier == "quick" else c.get("thorough_cmd", c["quick_cmd"])
        ev = os.path.join(VERIF, c["evidence_file"])
        if os.path.exists(ev):
            os.remove(ev)
        t0 = time.time()
        p = subprocess.run(cmd, shell=True, cwd=VERIF, stdout=subprocess.PIPE, stderr=subprocess.STDOUT, text=True)
        lines = [l for l in p.stdout.split("\n") if l.startswith(("VIOLATION", "KNOWN-FINDING", "MACHINERY"))]
        evok = "missing"
        if os.path.exists(ev):
            v = subprocess.run(["python3-vt", "-c", "import json,jsonschema,sys;jsonschema.validate(json.load(open(sys.argv[1])),json.load(open('/root/.vp/EVIDENCE.schema.json')))", ev],
                               stdout=subprocess.PIPE, stderr=subprocess.STDOUT, text=True)
            evok = "valid" if v.returncode == 0 else "INVALID: " + v.stdout[-300:]
        open(os.path.join(VERIF, "out", "runall_%s.log" % c["property_id"]), "w").write(p.stdout)
        return c["property_id"], p.returncode, round(time.time() - t0), evok, lines

    os.makedirs(os.path.join(VERIF, "out"), exist_ok=True)
    bad = 0
    with cf.ThreadPoolExecutor(max_workers=jobs) as ex:
        for pid, rc, wall, evok, lines in ex.map(one, checks):
            print("%-4s exit=%d %4ds evidence=%s" % (pid, rc, wall, evok), flush=True)
            for l in lines:
                print("     " + l[:300])
            bad += rc != 0 or evok != "valid"
    print("checks=%d not-clean=%d" % (len(checks), bad))
    sys.exit(1 if bad else 0)


if __name__ == "__main__":
    main()
