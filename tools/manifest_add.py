#!/usr/bin/env python3
"""manifest_add.py <Cxx> <category> <technique> <level text> <level note>  -- claim a property in MANIFEST.json"""
import json, sys
pid, cat, tech, text, note = sys.argv[1:6]
m = json.load(open('/verif/MANIFEST.json'))
m['checks'] = [c for c in m['checks'] if c['property_id'] != pid]
m['checks'].append({
    "property_id": pid,
    "quick_cmd": "./check %s --tier quick" % pid,
    "thorough_cmd": "./check %s --tier thorough" % pid,
    "evidence_file": "evidence/%s.json" % pid,
    "replay_cmd_template": "./check %s --replay {path}" % pid,
    "engine": "coq-proof+differential",
    "level_claimed": {"category": cat, "text": text, "design_ref": "DESIGN.md §6 %s, §12" % pid},
    "level_note": note,
    "technique": tech,
})
m['checks'].sort(key=lambda c: c['property_id'])
m['not_applicable'] = [n for n in m.get('not_applicable', []) if n['property_id'] != pid]
for e in m['engines']:
    e['serves_properties'] = sorted(c['property_id'] for c in m['checks'])
json.dump(m, open('/verif/MANIFEST.json', 'w'), indent=1)
print("claimed", pid, "checks:", [c['property_id'] for c in m['checks']])
