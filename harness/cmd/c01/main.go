// Harness for C01, C04 and C05: one event log per run of a real pipeline
// engine (v1 stream node graph / v2 funnel workers) against gated fake
// connectors; the three properties read the same log with different monitors
// (--mode c01|c04|c05 selects the checker applied to the cases).
package main

import (
	"flag"
	"fmt"
	"os"
	"path/filepath"
	"sort"
	"strconv"
	"time"

	"verifharness/lib/enginex"
	"verifharness/lib/hx"
)

func main() {
	engine := flag.String("engine", "both", "v1|v2|both")
	maxprocs := flag.Int("gomaxprocs", 0, "force GOMAXPROCS of every generated case (0 = generated)")
	level := flag.String("level", "", "service = every generated case runs the real lifecycle services")
	family := flag.String("family", "", "masks = run the exhaustive filter-mask enumeration instead of random cases")
	corpus := flag.String("corpus", "", "directory of *.jsonl regression inputs that are run before the generated cases")
	child := flag.Bool("child", false, "internal: run cases from stdin (the engines run in a child process)")
	o := hx.ParseFlags()
	deadline := 2500 * time.Millisecond
	if o.Replay != "" {
		// replays are mostly shrink candidates: give up on a hanging candidate sooner
		deadline = time.Second
	}
	if *child {
		if os.Getenv("VERIF_ENGINEX_DEADLINE_MS") != "" {
			if ms, err := strconv.Atoi(os.Getenv("VERIF_ENGINEX_DEADLINE_MS")); err == nil && ms > 0 {
				deadline = time.Duration(ms) * time.Millisecond
			}
		}
		enginex.Serve(os.Stdin, os.Stdout, deadline)
		return
	}
	os.Setenv("VERIF_ENGINEX_DEADLINE_MS", strconv.Itoa(int(deadline/time.Millisecond)))
	chk := "chk01"
	switch o.Mode {
	case "c04":
		chk = "chk04"
	case "c05":
		chk = "chk05"
	}
	w, err := hx.NewWriter(o, "From Verif Require Import Base.CaseCheck Multi.Trace Multi.Accept Multi.Check.", "ecase")
	if err != nil {
		fmt.Fprintln(os.Stderr, err)
		os.Exit(2)
	}
	runner := enginex.NewRunner()
	defer runner.Close()
	emit := func(c enginex.Case) {
		obs := runner.Run(c)
		oj := obs.JSON()
		if c.Engine == "v1" {
			oj["clone_keeps_filtered"] = runner.CloneKeepsFiltered()
		}
		w.Add(map[string]any{"input": c, "observed": oj}, enginex.CoqCase(c, obs, runner.CloneKeepsFiltered()))
	}
	if o.Replay != "" {
		cs, err := hx.ReadJSONL(o.Replay)
		if err != nil {
			fmt.Fprintln(os.Stderr, err)
			os.Exit(2)
		}
		if len(cs) > 8 {
			// a batch of shrink candidates: a candidate that hangs (the change under test may
			// deadlock the engine once it has misbehaved) must not cost a second each; the
			// partial log of a run that is given up is still checked
			// (each also costs a fresh child process), and the whole batch gets 30 s: candidates
			// that were not reached are simply not reported
			runner.Close()
			os.Setenv("VERIF_ENGINEX_DEADLINE_MS", "300")
		}
		t0 := time.Now()
		for _, m := range cs {
			var c enginex.Case
			if !hx.Try(func() { c = enginex.CaseFromJSON(m) }) {
				continue
			}
			if len(cs) > 8 && time.Since(t0) > 30*time.Second {
				break
			}
			emit(c)
		}
	} else if *family == "masks" {
		for _, c := range enginex.MaskCases() {
			emit(c)
		}
	} else {
		if *corpus != "" {
			files, _ := filepath.Glob(filepath.Join(*corpus, "*.jsonl"))
			sort.Strings(files)
			for _, f := range files {
				cs, err := hx.ReadJSONL(f)
				if err != nil {
					continue
				}
				for _, m := range cs {
					var c enginex.Case
					if hx.Try(func() { c = enginex.CaseFromJSON(m) }) {
						emit(c)
					}
				}
			}
		}
		root := hx.NewRand(o.Seed)
		for i := 0; i < o.N; i++ {
			r := root.Fork(uint64(o.Shard)<<32 | uint64(i))
			eng := *engine
			if eng == "both" {
				eng = []string{"v1", "v2"}[i%2]
			}
			// the malformed stream (empty destination ack replies) is separate and small
			mal := r.Chance(1, 30)
			malformed := mal && eng == "v2" && chk == "chk01"
			c := enginex.Gen(r, eng, malformed)
			if i%16 == 12 || i%16 == 13 {
				// a fixed 1 in 8 of the cases of each engine: cancel in the middle of a fan-out
				c = enginex.GenDirected(r, eng)
			}
			if i%16 == 10 || i%16 == 11 {
				// 1 in 8 of the cases of each engine: the real lifecycle services (plugin-level acks)
				c = enginex.GenService(r, eng)
				if eng == "v1" && (i/16+o.Shard)%2 == 0 {
					c = enginex.GenServiceCut(r)
				}
			}
			if i%16 == 7 || i%16 == 9 {
				// 1 in 4 of the v2 cases: retry groups in the middle of a batch (short / holed processor replies)
				c = enginex.GenRetry(r)
			}
			if i%16 == 6 || i%16 == 14 {
				// 1 in 4 of the v1 cases: head-of-line blocking in a parallel processor fed by several sources
				c = enginex.GenParallelHol(r)
			}
			if *level == "service" {
				c = enginex.GenService(r, eng)
			} else if i%16 == 15 {
				// 1 in 8 of the v2 cases: large batches through filter -> transform
				c = enginex.GenFilterChain(r)
			}
			if *maxprocs > 0 {
				c.GoMaxProcs = *maxprocs
			}
			emit(c)
		}
		if chk == "chk05" && *level == "" && *maxprocs == 0 && o.Shard%4 == 1 {
			// LARGE-BATCH family (C05 only): one case in every fourth shard, from its own RNG
			// stream so that the cases above stay what they were
			emit(enginex.GenBig(hx.NewRand(o.Seed ^ 0xb16ba7c4).Fork(uint64(o.Shard))))
		}
	}
	if err := w.Close(chk); err != nil {
		fmt.Fprintln(os.Stderr, err)
		os.Exit(2)
	}
	fmt.Printf("cases=%d\n", w.Count())
}
