// Translator for C20 (--mode gen): regenerates the tables of the model from
// the Go sources under $VERIF_REPO and cross-checks each of them with the live
// behaviour of the packages this binary was built against.
//
//	pkg/conduit/exitcode/exitcode.go   const block, switch of fromGRPCCode, isEnvironmentSentinel,
//	                                   the returns of ExitCode
//	every non-test .go file            conduiterr.Register("reason", codes.X)
//	pkg/http/api/status/status.go      switch arms of the four boundary functions and of codeFromError
//
// Output: <out>/GenExit.v (Definition gen_tables : tables) and <out>/tables.json.
// A construct that is no longer found is an error (exit 3), never skipped.
package main

import (
	"encoding/json"
	"fmt"
	"go/ast"
	"go/parser"
	"go/token"
	"io/fs"
	"os"
	"path/filepath"
	"sort"
	"strconv"
	"strings"

	"github.com/conduitio/conduit/pkg/conduit/exitcode"
	"github.com/conduitio/conduit/pkg/foundation/cerrors/conduiterr"
	"google.golang.org/grpc/codes"
	grpcstatus "google.golang.org/grpc/status"

	"verifharness/lib/hx"
)

var grpcCodeByName = map[string]codes.Code{
	"OK": codes.OK, "Canceled": codes.Canceled, "Unknown": codes.Unknown, "InvalidArgument": codes.InvalidArgument,
	"DeadlineExceeded": codes.DeadlineExceeded, "NotFound": codes.NotFound, "AlreadyExists": codes.AlreadyExists,
	"PermissionDenied": codes.PermissionDenied, "ResourceExhausted": codes.ResourceExhausted,
	"FailedPrecondition": codes.FailedPrecondition, "Aborted": codes.Aborted, "OutOfRange": codes.OutOfRange,
	"Unimplemented": codes.Unimplemented, "Internal": codes.Internal, "Unavailable": codes.Unavailable,
	"DataLoss": codes.DataLoss, "Unauthenticated": codes.Unauthenticated,
}

const (
	conduiterrPath = "github.com/conduitio/conduit/pkg/foundation/cerrors/conduiterr"
	grpcCodesPath  = "google.golang.org/grpc/codes"
)

type genErr struct{ msg string }

func failf(format string, a ...any) { panic(genErr{fmt.Sprintf(format, a...)}) }

type pair struct {
	K int `json:"k"`
	V int `json:"v"`
}

type regEntry struct {
	Reason string `json:"reason"`
	Cat    int    `json:"cat"`
	File   string `json:"file"`
}

type tablesJ struct {
	Buckets      []pair     `json:"buckets"`
	Default      int        `json:"default"`
	ExitOK       int        `json:"exit_ok"`
	ExitEnv      int        `json:"exit_env"`
	ExitFallback int        `json:"exit_fallback"`
	OKSentinels  []int      `json:"ok_sentinels"`
	EnvSentinels []int      `json:"env_sentinels"`
	Registry     []regEntry `json:"registry"`
	Unknown      string     `json:"unknown"`
	APIPre       [][]pair   `json:"api_pre"`
	APICommon    []pair     `json:"api_common"`
	APIDefault   int        `json:"api_default"`
	NSent        int        `json:"nsent"`
	Sentinels    []string   `json:"sentinels"`
	LiveCodes    int        `json:"live_codes"`
}

// imports of a file: local name -> import path
func importsOf(f *ast.File) map[string]string {
	m := map[string]string{}
	for _, imp := range f.Imports {
		p, err := strconv.Unquote(imp.Path.Value)
		if err != nil {
			continue
		}
		name := p[strings.LastIndex(p, "/")+1:]
		if imp.Name != nil {
			name = imp.Name.Name
		}
		m[name] = p
	}
	return m
}

// canonical name of a sentinel expression: pkg.Name -> <import path>.Name, &pkg.T{} -> &<import path>.T{}
func sentinelName(e ast.Expr, imps map[string]string) string {
	switch x := e.(type) {
	case *ast.SelectorExpr:
		if id, ok := x.X.(*ast.Ident); ok {
			if p, ok := imps[id.Name]; ok {
				return p + "." + x.Sel.Name
			}
		}
	case *ast.UnaryExpr:
		if x.Op == token.AND {
			if cl, ok := x.X.(*ast.CompositeLit); ok && len(cl.Elts) == 0 {
				if n := sentinelName(cl.Type, imps); n != "" {
					return "&" + n + "{}"
				}
			}
		}
	}
	failf("cannot name the sentinel expression %T", e)
	return ""
}

func sentinelIDOf(e ast.Expr, imps map[string]string, where string) int {
	n := sentinelName(e, imps)
	id := sentinelID(n)
	if id < 0 {
		failf("%s: sentinel %s is not in the harness' sentinel table", where, n)
	}
	return id
}

// codes.X -> numeric value
func grpcCodeOf(e ast.Expr, imps map[string]string, where string) int {
	if sel, ok := e.(*ast.SelectorExpr); ok {
		if id, ok := sel.X.(*ast.Ident); ok && imps[id.Name] == grpcCodesPath {
			if c, ok := grpcCodeByName[sel.Sel.Name]; ok {
				return int(c)
			}
		}
	}
	failf("%s: not a codes.<Name> expression", where)
	return 0
}

func funcDecl(f *ast.File, name string) *ast.FuncDecl {
	for _, d := range f.Decls {
		if fd, ok := d.(*ast.FuncDecl); ok && fd.Recv == nil && fd.Name.Name == name && fd.Body != nil {
			return fd
		}
	}
	failf("function %s not found", name)
	return nil
}

// isCall(e, "cerrors", "Is") with second argument returned
func cerrorsIsTarget(e ast.Expr) (ast.Expr, bool) {
	call, ok := e.(*ast.CallExpr)
	if !ok || len(call.Args) != 2 {
		return nil, false
	}
	sel, ok := call.Fun.(*ast.SelectorExpr)
	if !ok || sel.Sel.Name != "Is" {
		return nil, false
	}
	if id, ok := sel.X.(*ast.Ident); !ok || id.Name != "cerrors" {
		return nil, false
	}
	return call.Args[1], true
}

// a || b || c -> [a b c]
func disjuncts(e ast.Expr) []ast.Expr {
	if p, ok := e.(*ast.ParenExpr); ok {
		return disjuncts(p.X)
	}
	if b, ok := e.(*ast.BinaryExpr); ok && b.Op == token.LOR {
		return append(disjuncts(b.X), disjuncts(b.Y)...)
	}
	return []ast.Expr{e}
}

func singleReturnIdent(body *ast.BlockStmt, where string) string {
	if len(body.List) == 1 {
		if r, ok := body.List[0].(*ast.ReturnStmt); ok && len(r.Results) == 1 {
			if id, ok := r.Results[0].(*ast.Ident); ok {
				return id.Name
			}
		}
	}
	failf("%s: expected a single `return <ident>`", where)
	return ""
}

func genExitcode(repo string, t *tablesJ) {
	path := filepath.Join(repo, "pkg/conduit/exitcode/exitcode.go")
	fset := token.NewFileSet()
	f, err := parser.ParseFile(fset, path, nil, 0)
	if err != nil {
		failf("parse %s: %v", path, err)
	}
	imps := importsOf(f)

	// const block: OK / Runtime / Validation / Environment = <int literal>
	consts := map[string]int{}
	for _, d := range f.Decls {
		gd, ok := d.(*ast.GenDecl)
		if !ok || gd.Tok != token.CONST {
			continue
		}
		for _, s := range gd.Specs {
			vs := s.(*ast.ValueSpec)
			for i, n := range vs.Names {
				if i < len(vs.Values) {
					if lit, ok := vs.Values[i].(*ast.BasicLit); ok && lit.Kind == token.INT {
						v, _ := strconv.Atoi(lit.Value)
						consts[n.Name] = v
					}
				}
			}
		}
	}
	val := func(name, where string) int {
		v, ok := consts[name]
		if !ok {
			failf("%s: %s is not an integer constant of the package", where, name)
		}
		return v
	}

	// fromGRPCCode: switch c { case codes.A, codes.B: return X ... default: return Y }
	fd := funcDecl(f, "fromGRPCCode")
	var sw *ast.SwitchStmt
	for _, st := range fd.Body.List {
		if s, ok := st.(*ast.SwitchStmt); ok {
			sw = s
		}
	}
	if sw == nil || len(fd.Body.List) != 1 {
		failf("fromGRPCCode: body is no longer a single switch")
	}
	seen := map[int]bool{}
	hasDefault := false
	for _, cc := range sw.Body.List {
		clause := cc.(*ast.CaseClause)
		ret := val(singleReturnIdent(&ast.BlockStmt{List: clause.Body}, "fromGRPCCode arm"), "fromGRPCCode")
		if clause.List == nil {
			t.Default, hasDefault = ret, true
			continue
		}
		for _, e := range clause.List {
			g := grpcCodeOf(e, imps, "fromGRPCCode")
			if seen[g] {
				failf("fromGRPCCode: category %d listed twice", g)
			}
			seen[g] = true
			t.Buckets = append(t.Buckets, pair{g, ret})
		}
	}
	if !hasDefault {
		failf("fromGRPCCode: no default arm")
	}

	// isEnvironmentSentinel: return cerrors.Is(err, A) || cerrors.Is(err, B) ...
	fd = funcDecl(f, "isEnvironmentSentinel")
	if len(fd.Body.List) != 1 {
		failf("isEnvironmentSentinel: body is no longer a single return")
	}
	ret, ok := fd.Body.List[0].(*ast.ReturnStmt)
	if !ok || len(ret.Results) != 1 {
		failf("isEnvironmentSentinel: body is no longer a single return")
	}
	for _, d := range disjuncts(ret.Results[0]) {
		tgt, ok := cerrorsIsTarget(d)
		if !ok {
			failf("isEnvironmentSentinel: a disjunct is not cerrors.Is(err, <sentinel>)")
		}
		t.EnvSentinels = append(t.EnvSentinels, sentinelIDOf(tgt, imps, "isEnvironmentSentinel"))
	}

	// ExitCode: if err == nil || cerrors.Is(err, S).. { return A } ; ...; if isEnvironmentSentinel(err) { return B }; return C
	fd = funcDecl(f, "ExitCode")
	gotOK, gotEnv, gotLast := false, false, false
	for i, st := range fd.Body.List {
		switch s := st.(type) {
		case *ast.IfStmt:
			if s.Init != nil {
				continue // the `if x, ok := ...; ok` steps: logic, modelled by hand and tied by the differential
			}
			ds := disjuncts(s.Cond)
			if b, ok := ds[0].(*ast.BinaryExpr); ok && b.Op == token.EQL && i == 0 {
				for _, d := range ds[1:] {
					tgt, ok := cerrorsIsTarget(d)
					if !ok {
						failf("ExitCode: first condition has a disjunct that is not cerrors.Is(err, <sentinel>)")
					}
					t.OKSentinels = append(t.OKSentinels, sentinelIDOf(tgt, imps, "ExitCode"))
				}
				t.ExitOK = val(singleReturnIdent(s.Body, "ExitCode nil arm"), "ExitCode")
				gotOK = true
			} else if call, ok := s.Cond.(*ast.CallExpr); ok {
				if id, ok := call.Fun.(*ast.Ident); ok && id.Name == "isEnvironmentSentinel" {
					t.ExitEnv = val(singleReturnIdent(s.Body, "ExitCode environment arm"), "ExitCode")
					gotEnv = true
				}
			}
		case *ast.ReturnStmt:
			if i == len(fd.Body.List)-1 && len(s.Results) == 1 {
				if id, ok := s.Results[0].(*ast.Ident); ok {
					t.ExitFallback = val(id.Name, "ExitCode")
					gotLast = true
				}
			}
		}
	}
	if !gotOK || !gotEnv || !gotLast {
		failf("ExitCode: nil/cancelled arm, environment arm or final return not recognised (%v %v %v)", gotOK, gotEnv, gotLast)
	}
}

func genRegistry(repo string, t *tablesJ) {
	fset := token.NewFileSet()
	byReason := map[string]regEntry{}
	err := filepath.WalkDir(repo, func(path string, d fs.DirEntry, err error) error {
		if err != nil {
			return err
		}
		if d.IsDir() {
			name := d.Name()
			if name == "node_modules" || name == "testdata" || name == "vendor" || (path != repo && strings.HasPrefix(name, ".")) {
				return filepath.SkipDir
			}
			if path != repo {
				if _, e := os.Stat(filepath.Join(path, "go.mod")); e == nil {
					return filepath.SkipDir
				}
			}
			return nil
		}
		if !strings.HasSuffix(path, ".go") || strings.HasSuffix(path, "_test.go") {
			return nil
		}
		src, e := os.ReadFile(path)
		if e != nil {
			return e
		}
		if !strings.Contains(string(src), "Register(") {
			return nil
		}
		f, e := parser.ParseFile(fset, path, src, 0)
		if e != nil {
			return nil // not part of the build if it does not parse; the Go build catches real breakage
		}
		imps := importsOf(f)
		self := f.Name.Name == "conduiterr" && strings.HasSuffix(filepath.Dir(path), "cerrors/conduiterr")
		rel, _ := filepath.Rel(repo, path)
		ast.Inspect(f, func(n ast.Node) bool {
			call, ok := n.(*ast.CallExpr)
			if !ok {
				return true
			}
			isReg := false
			switch fn := call.Fun.(type) {
			case *ast.SelectorExpr:
				if id, ok := fn.X.(*ast.Ident); ok && fn.Sel.Name == "Register" && imps[id.Name] == conduiterrPath {
					isReg = true
				}
			case *ast.Ident:
				isReg = self && fn.Name == "Register"
			}
			if !isReg {
				return true
			}
			if len(call.Args) != 2 {
				failf("%s: Register call with %d arguments", rel, len(call.Args))
			}
			lit, ok := call.Args[0].(*ast.BasicLit)
			if !ok || lit.Kind != token.STRING {
				if self {
					return true // the definition's own body / doc examples
				}
				failf("%s: Register with a non-literal reason", rel)
			}
			reason, _ := strconv.Unquote(lit.Value)
			cat := grpcCodeOf(call.Args[1], imps, rel+": Register("+reason+")")
			if old, dup := byReason[reason]; dup {
				failf("reason %s registered twice (%s, %s)", reason, old.File, rel)
			}
			byReason[reason] = regEntry{reason, cat, rel}
			return true
		})
		return nil
	})
	if err != nil {
		failf("walking %s: %v", repo, err)
	}
	for _, e := range byReason {
		t.Registry = append(t.Registry, e)
	}
	sort.Slice(t.Registry, func(i, j int) bool { return t.Registry[i].Reason < t.Registry[j].Reason })
	if len(t.Registry) == 0 {
		failf("no conduiterr.Register call found under %s", repo)
	}
}

// arms of `switch { case cerrors.Is(err, S): code = codes.X / return codes.X ... }`
func switchArms(fd *ast.FuncDecl, imps map[string]string, wantDefaultCode bool) (arms []pair, def int, hasDef bool) {
	var sw *ast.SwitchStmt
	ast.Inspect(fd.Body, func(n ast.Node) bool {
		if s, ok := n.(*ast.SwitchStmt); ok && sw == nil {
			sw = s
		}
		return sw == nil
	})
	if sw == nil {
		return nil, 0, false
	}
	if sw.Tag != nil {
		failf("%s: switch has a tag", fd.Name.Name)
	}
	for _, cc := range sw.Body.List {
		clause := cc.(*ast.CaseClause)
		if len(clause.Body) != 1 {
			failf("%s: switch arm with %d statements", fd.Name.Name, len(clause.Body))
		}
		var codeExpr ast.Expr
		switch s := clause.Body[0].(type) {
		case *ast.ReturnStmt:
			if len(s.Results) == 1 {
				codeExpr = s.Results[0]
			}
		case *ast.AssignStmt:
			if len(s.Rhs) == 1 {
				codeExpr = s.Rhs[0]
			}
		}
		if clause.List == nil {
			if call, ok := codeExpr.(*ast.CallExpr); ok { // default: code = codeFromError(err)
				if id, ok := call.Fun.(*ast.Ident); ok && id.Name == "codeFromError" {
					continue
				}
			}
			if !wantDefaultCode {
				failf("%s: default arm is not codeFromError(err)", fd.Name.Name)
			}
			def, hasDef = grpcCodeOf(codeExpr, imps, fd.Name.Name+" default"), true
			continue
		}
		if len(clause.List) != 1 {
			failf("%s: case with %d expressions", fd.Name.Name, len(clause.List))
		}
		tgt, ok := cerrorsIsTarget(clause.List[0])
		if !ok {
			failf("%s: case is not cerrors.Is(err, <sentinel>)", fd.Name.Name)
		}
		arms = append(arms, pair{sentinelIDOf(tgt, imps, fd.Name.Name), grpcCodeOf(codeExpr, imps, fd.Name.Name)})
	}
	return arms, def, hasDef
}

func genAPI(repo string, t *tablesJ) {
	path := filepath.Join(repo, "pkg/http/api/status/status.go")
	fset := token.NewFileSet()
	f, err := parser.ParseFile(fset, path, nil, 0)
	if err != nil {
		failf("parse %s: %v", path, err)
	}
	imps := importsOf(f)
	for _, name := range []string{"PipelineError", "ConnectorError", "ProcessorError", "PluginError"} {
		arms, _, _ := switchArms(funcDecl(f, name), imps, false)
		if arms == nil {
			arms = []pair{}
		}
		t.APIPre = append(t.APIPre, arms)
	}
	var ok bool
	t.APICommon, t.APIDefault, ok = switchArms(funcDecl(f, "codeFromError"), imps, true)
	if !ok {
		failf("codeFromError: no default arm")
	}
}

// ---------- live cross-checks: the tables read from the sources against the running packages ----------

func liveChecks(t *tablesJ) (problems []string) {
	bad := func(format string, a ...any) { problems = append(problems, fmt.Sprintf(format, a...)) }
	bucket := func(g int) int {
		for _, p := range t.Buckets {
			if p.K == g {
				return p.V
			}
		}
		return t.Default
	}
	// fromGRPCCode through a grpc status error (g >= 1) and through a coded error (every g)
	for g := 0; g <= 20; g++ {
		if g > 0 {
			if got := exitcode.ExitCode(grpcstatus.Error(codes.Code(g), "x")); got != bucket(g) {
				bad("fromGRPCCode: sources say category %d -> %d, the built package returns %d", g, bucket(g), got)
			}
		}
		ce := conduiterr.WithUnknownReason(nil, codes.Code(g))
		if got := exitcode.ExitCode(ce); got != bucket(g) {
			bad("fromGRPCCode (coded): sources say category %d -> %d, the built package returns %d", g, bucket(g), got)
		}
	}
	in := func(l []int, x int) bool {
		for _, y := range l {
			if x == y {
				return true
			}
		}
		return false
	}
	for i := 1; i < len(sentinels); i++ {
		got := exitcode.ExitCode(sentinels[i].mk())
		want := t.ExitFallback
		if in(t.OKSentinels, i) {
			want = t.ExitOK
		} else if in(t.EnvSentinels, i) {
			want = t.ExitEnv
		}
		if got != want {
			bad("ExitCode(%s): sources say %d, the built package returns %d", sentinels[i].name, want, got)
		}
	}
	if got := exitcode.ExitCode(nil); got != t.ExitOK {
		bad("ExitCode(nil): sources say %d, the built package returns %d", t.ExitOK, got)
	}
	// registry: every live code is in the source registry with the same category
	src := map[string]int{}
	for _, e := range t.Registry {
		src[e.Reason] = e.Cat
	}
	live := conduiterr.Codes()
	t.LiveCodes = len(live)
	for _, c := range live {
		cat, ok := src[c.Reason()]
		if !ok {
			bad("registry: live code %s is not found by the source scan", c.Reason())
		} else if cat != int(c.GRPCCode()) {
			bad("registry: %s is category %d in the sources, %d in the built package", c.Reason(), cat, int(c.GRPCCode()))
		}
	}
	if len(live) < 20 {
		bad("registry: only %d live codes", len(live))
	}
	return problems
}

func coqPairs(ps []pair) string {
	items := make([]string, len(ps))
	for i, p := range ps {
		items[i] = hx.Pair(hx.Nat(p.K), hx.Nat(p.V))
	}
	return hx.List(items)
}

func runGen(o hx.Opts) (rc int) {
	repo := os.Getenv("VERIF_REPO")
	if repo == "" {
		repo = "/repo"
	}
	defer func() {
		if r := recover(); r != nil {
			if ge, ok := r.(genErr); ok {
				fmt.Println("TRANSLATOR-ERROR:", ge.msg)
				rc = 3
				return
			}
			panic(r)
		}
	}()
	t := &tablesJ{Unknown: conduiterr.CodeUnknown.Reason(), NSent: len(sentinels) - 1}
	for _, s := range sentinels {
		t.Sentinels = append(t.Sentinels, s.name)
	}
	genExitcode(repo, t)
	genRegistry(repo, t)
	genAPI(repo, t)
	problems := liveChecks(t)

	if err := os.MkdirAll(o.Out, 0o755); err != nil {
		fmt.Println("TRANSLATOR-ERROR:", err)
		return 3
	}
	reg := make([]string, len(t.Registry))
	for i, e := range t.Registry {
		reg[i] = hx.Pair(hx.Str(e.Reason), hx.Nat(e.Cat))
	}
	pre := make([]string, len(t.APIPre))
	for i, a := range t.APIPre {
		pre[i] = coqPairs(a)
	}
	var b strings.Builder
	fmt.Fprintf(&b, "(* GENERATED by harness/cmd/c20 --mode gen from %s - do not edit *)\n", repo)
	b.WriteString("From Verif Require Import Err.Tree.\n\nDefinition gen_tables : tables := mkTables\n")
	fmt.Fprintf(&b, "  (* fromGRPCCode *) %s\n  (* default *) %d\n", coqPairs(t.Buckets), t.Default)
	fmt.Fprintf(&b, "  (* ExitCode ok / environment / fallback *) %d %d %d\n", t.ExitOK, t.ExitEnv, t.ExitFallback)
	fmt.Fprintf(&b, "  (* ok sentinels *) %s\n  (* environment sentinels *) %s\n", hx.Nats(t.OKSentinels), hx.Nats(t.EnvSentinels))
	fmt.Fprintf(&b, "  (* registry: %d codes *)\n  [%s]\n", len(reg), strings.Join(reg, ";\n   "))
	fmt.Fprintf(&b, "  (* CodeUnknown reason *) %s\n", hx.Str(t.Unknown))
	fmt.Fprintf(&b, "  (* api: Pipeline/Connector/Processor/PluginError *) %s\n", hx.List(pre))
	fmt.Fprintf(&b, "  (* codeFromError *) %s\n  (* default *) %d\n  (* sentinels *) %d.\n", coqPairs(t.APICommon), t.APIDefault, t.NSent)
	if err := os.WriteFile(filepath.Join(o.Out, "GenExit.v"), []byte(b.String()), 0o644); err != nil {
		fmt.Println("TRANSLATOR-ERROR:", err)
		return 3
	}
	js, _ := json.MarshalIndent(t, "", " ")
	if err := os.WriteFile(filepath.Join(o.Out, "tables.json"), js, 0o644); err != nil {
		fmt.Println("TRANSLATOR-ERROR:", err)
		return 3
	}
	fmt.Printf("translator: %d switch arms, %d registered codes in the sources (%d live), %d+%d api arms\n",
		len(t.Buckets), len(t.Registry), t.LiveCodes, len(t.APIPre[0])+len(t.APIPre[1])+len(t.APIPre[2])+len(t.APIPre[3]), len(t.APICommon))
	if len(problems) > 0 {
		for _, p := range problems {
			fmt.Println("TRANSLATOR-MISMATCH:", p)
		}
		return 4
	}
	return 0
}
