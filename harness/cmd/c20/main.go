// Harness for C20 (error classification is stable under wrapping).
//
// Builds error values with the REAL constructors of the code base
// (cerrors.New/Errorf/Join/FatalError, conduiterr.New/Wrap/WithCode/FromStatus,
// grpc status.Error) from a builder expression, then records what the real
// classifiers say about the value and about the same value under n plain
// wrappers: cerrors.IsFatalError, conduiterr.Get, cerrors.Is for every
// sentinel of the table below, grpc status.FromError, exitcode.ExitCode,
// conduiterr.ToStatus -> FromStatus, and the four boundary functions of
// pkg/http/api/status together with the exit code a client would compute
// from their result.
//
// --mode gen is the translator: it regenerates out/C20/gen/GenExit.v from
// the sources under $VERIF_REPO (go/ast) and cross-checks every table with
// the live values of the packages this binary was built against.
package main

import (
	"context"
	"flag"
	"fmt"
	"io"
	"os"
	"sort"
	"strings"
	"syscall"

	"github.com/conduitio/conduit/pkg/conduit/exitcode"
	"github.com/conduitio/conduit/pkg/connector"
	"github.com/conduitio/conduit/pkg/foundation/cerrors"
	"github.com/conduitio/conduit/pkg/foundation/cerrors/conduiterr"
	apistatus "github.com/conduitio/conduit/pkg/http/api/status"
	"github.com/conduitio/conduit/pkg/orchestrator"
	"github.com/conduitio/conduit/pkg/pipeline"
	connplugin "github.com/conduitio/conduit/pkg/plugin/connector"
	"github.com/conduitio/conduit/pkg/processor"
	"google.golang.org/genproto/googleapis/rpc/errdetails"
	"google.golang.org/grpc/codes"
	grpcstatus "google.golang.org/grpc/status"

	// imported for their conduiterr.Register(...) initialisers only: the live
	// registry is compared with the one the translator reads from the sources
	_ "github.com/conduitio/conduit/pkg/lifecycle-poc"
	_ "github.com/conduitio/conduit/pkg/lifecycle-poc/funnel"
	_ "github.com/conduitio/conduit/pkg/provisioning"
	_ "github.com/conduitio/conduit/pkg/provisioning/config"
	_ "github.com/conduitio/conduit/pkg/registry"
	_ "github.com/conduitio/conduit/pkg/registry/index"
	_ "github.com/conduitio/conduit/pkg/registry/policy"
	_ "github.com/conduitio/conduit/pkg/registry/trust"
	_ "github.com/conduitio/conduit/pkg/scaffold"

	"verifharness/lib/hx"
)

// ---------- sentinel table (index = sentinel id of the model; 0 = fresh value) ----------

type sent struct {
	name   string       // canonical: <import path>.<Name>, or &<import path>.<Type>{}
	mk     func() error // the value put into a tree
	target error        // the target handed to cerrors.Is
}

func fixed(e error) func() error { return func() error { return e } }

const cpath = "github.com/conduitio/conduit/pkg/"

var sentinels = []sent{
	{name: "<fresh>"},
	{"context.Canceled", fixed(context.Canceled), context.Canceled},
	{"syscall.ECONNREFUSED", fixed(syscall.ECONNREFUSED), syscall.ECONNREFUSED},
	{"syscall.EADDRINUSE", fixed(syscall.EADDRINUSE), syscall.EADDRINUSE},
	{"context.DeadlineExceeded", fixed(context.DeadlineExceeded), context.DeadlineExceeded},
	{"syscall.ECONNRESET", fixed(syscall.ECONNRESET), syscall.ECONNRESET},
	{"syscall.ENOENT", fixed(syscall.ENOENT), syscall.ENOENT},
	{"io.EOF", fixed(io.EOF), io.EOF},
	{cpath + "foundation/cerrors.ErrNotImpl", fixed(cerrors.ErrNotImpl), cerrors.ErrNotImpl},
	{cpath + "foundation/cerrors.ErrEmptyID", fixed(cerrors.ErrEmptyID), cerrors.ErrEmptyID},
	{cpath + "pipeline.ErrNameMissing", fixed(pipeline.ErrNameMissing), pipeline.ErrNameMissing},
	{cpath + "pipeline.ErrInstanceNotFound", fixed(pipeline.ErrInstanceNotFound), pipeline.ErrInstanceNotFound},
	{cpath + "pipeline.ErrPipelineRunning", fixed(pipeline.ErrPipelineRunning), pipeline.ErrPipelineRunning},
	{cpath + "pipeline.ErrPipelineNotRunning", fixed(pipeline.ErrPipelineNotRunning), pipeline.ErrPipelineNotRunning},
	{cpath + "pipeline.ErrNameAlreadyExists", fixed(pipeline.ErrNameAlreadyExists), pipeline.ErrNameAlreadyExists},
	{cpath + "connector.ErrInvalidConnectorType", fixed(connector.ErrInvalidConnectorType), connector.ErrInvalidConnectorType},
	{cpath + "connector.ErrInstanceNotFound", fixed(connector.ErrInstanceNotFound), connector.ErrInstanceNotFound},
	{cpath + "connector.ErrConnectorRunning", fixed(connector.ErrConnectorRunning), connector.ErrConnectorRunning},
	{"&" + cpath + "plugin/connector.ValidationError{}",
		func() error { return &connplugin.ValidationError{Err: cerrors.New("invalid")} }, &connplugin.ValidationError{}},
	{cpath + "orchestrator.ErrInvalidProcessorParentType", fixed(orchestrator.ErrInvalidProcessorParentType), orchestrator.ErrInvalidProcessorParentType},
	{cpath + "processor.ErrInstanceNotFound", fixed(processor.ErrInstanceNotFound), processor.ErrInstanceNotFound},
	{cpath + "orchestrator.ErrPipelineHasConnectorsAttached", fixed(orchestrator.ErrPipelineHasConnectorsAttached), orchestrator.ErrPipelineHasConnectorsAttached},
	{cpath + "orchestrator.ErrPipelineHasProcessorsAttached", fixed(orchestrator.ErrPipelineHasProcessorsAttached), orchestrator.ErrPipelineHasProcessorsAttached},
	{cpath + "orchestrator.ErrConnectorHasProcessorsAttached", fixed(orchestrator.ErrConnectorHasProcessorsAttached), orchestrator.ErrConnectorHasProcessorsAttached},
	{cpath + "orchestrator.ErrImmutableProvisionedByConfig", fixed(orchestrator.ErrImmutableProvisionedByConfig), orchestrator.ErrImmutableProvisionedByConfig},
}

func sentinelID(name string) int {
	for i, s := range sentinels {
		if i > 0 && s.name == name {
			return i
		}
	}
	return -1
}

// ---------- builder expressions ----------

// Node is one constructor call. Kinds: nil leaf grpc wrap opaque multiw join
// fatal new cwrap withcode fromstatus. Children are a list for every kind so
// that the generic shrinker (which deletes list elements) yields well-formed
// expressions: a missing operand is a nil error.
type Node struct {
	K string  `json:"k"`
	S int     `json:"s,omitempty"` // leaf: sentinel id; wrap: format style
	G int     `json:"g,omitempty"` // grpc code / category of the code
	R string  `json:"r,omitempty"` // reason of the code ("" with fromstatus: no ErrorInfo detail)
	C []*Node `json:"c,omitempty"`
}

func (n *Node) child(i int) *Node {
	if n == nil || i >= len(n.C) {
		return nil
	}
	return n.C[i]
}

const errorDomain = "conduit" // conduiterr's ErrorInfo domain

func mkStatus(g int, reason string) *grpcstatus.Status {
	st := grpcstatus.New(codes.Code(g), "status message")
	if reason != "" && g != 0 {
		if d, err := st.WithDetails(&errdetails.ErrorInfo{Reason: reason, Domain: errorDomain}); err == nil {
			st = d
		}
	}
	return st
}

// codeFor obtains a conduiterr.Code value through the exported API: the
// registered one when (reason, category) is registered; CodeUnknown's reason
// with another category through WithUnknownReason; an unregistered reason
// through FromStatus.
func codeFor(reason string, g int) conduiterr.Code {
	if c, ok := conduiterr.LookupCode(reason); ok {
		if int(c.GRPCCode()) == g || reason != conduiterr.CodeUnknown.Reason() {
			return c
		}
		return conduiterr.WithUnknownReason(nil, codes.Code(g)).Code
	}
	if g == 0 || reason == "" {
		return conduiterr.WithUnknownReason(nil, codes.Code(g)).Code
	}
	return conduiterr.FromStatus(mkStatus(g, reason)).Code
}

var wrapFormats = []string{"ctx: %w", "%w: ctx", "step %d of %s failed: %w", "%w"}

func build(n *Node) error {
	if n == nil {
		return nil
	}
	switch n.K {
	case "nil":
		return nil
	case "leaf":
		if n.S <= 0 || n.S >= len(sentinels) {
			return cerrors.New("fresh error")
		}
		return sentinels[n.S].mk()
	case "grpc":
		return grpcstatus.Error(codes.Code(n.G), "rpc failed")
	case "wrap":
		c := build(n.child(0))
		switch n.S % len(wrapFormats) {
		case 0:
			return cerrors.Errorf("ctx: %w", c)
		case 1:
			return cerrors.Errorf("%w: ctx", c)
		case 2:
			return cerrors.Errorf("step %d of %s failed: %w", 3, "run", c)
		default:
			return cerrors.Errorf("%w", c)
		}
	case "opaque":
		return cerrors.Errorf("ctx: %v", build(n.child(0)))
	case "multiw":
		args := make([]any, len(n.C))
		verbs := make([]string, len(n.C))
		for i := range n.C {
			args[i] = build(n.C[i])
			verbs[i] = "%w"
		}
		return cerrors.Errorf("several: "+strings.Join(verbs, " | "), args...)
	case "join":
		es := make([]error, len(n.C))
		for i := range n.C {
			es[i] = build(n.C[i])
		}
		return cerrors.Join(es...)
	case "fatal":
		return cerrors.FatalError(build(n.child(0)))
	case "new":
		return conduiterr.New(codeFor(n.R, n.G), "coded error")
	case "cwrap":
		return conduiterr.Wrap(codeFor(n.R, n.G), "boundary message", build(n.child(0)))
	case "withcode":
		return conduiterr.WithCode(build(n.child(0)), codeFor(n.R, n.G))
	case "fromstatus":
		return conduiterr.FromStatus(mkStatus(n.G, n.R))
	}
	panic("unknown node kind " + n.K)
}

// normalise rewrites the expression so that it says what was really built:
// codes carry the (reason, category) the API handed out, ill-formed parts are
// made explicit. The Coq term and the JSON of a case are rendered from this.
func normalise(n *Node) *Node {
	if n == nil {
		return &Node{K: "nil"}
	}
	out := &Node{K: n.K}
	unary := func() { out.C = []*Node{normalise(n.child(0))} }
	switch n.K {
	case "nil":
	case "leaf":
		if n.S > 0 && n.S < len(sentinels) {
			out.S = n.S
		}
	case "grpc":
		out.G = n.G
	case "wrap":
		out.S = n.S % len(wrapFormats)
		unary()
	case "opaque", "fatal":
		unary()
	case "multiw", "join":
		out.C = make([]*Node, len(n.C))
		for i := range n.C {
			out.C[i] = normalise(n.C[i])
		}
	case "new", "cwrap", "withcode":
		c := codeFor(n.R, n.G)
		out.R, out.G = c.Reason(), int(c.GRPCCode())
		if n.K != "new" {
			unary()
		}
	case "fromstatus":
		out.G, out.R = n.G, n.R
		if n.G == 0 {
			out.R = ""
		}
	default:
		panic("unknown node kind " + n.K)
	}
	return out
}

// Coq string literals are slow to elaborate (one constructor per bit), so every
// distinct reason string of a shard is defined once in the header of the case
// file and referred to by name.
var (
	reasonIdent = map[string]string{}
	reasonDefs  []string
)

func coqStr(r string) string {
	id, ok := reasonIdent[r]
	if !ok {
		id = fmt.Sprintf("rs%d", len(reasonIdent))
		reasonIdent[r] = id
		reasonDefs = append(reasonDefs, fmt.Sprintf("Definition %s := %s.", id, hx.Str(r)))
	}
	return id
}

func coqCode(r string, g int) string { return fmt.Sprintf("(mkCode %s %d)", coqStr(r), g) }

func coqNode(n *Node) string {
	sub := func() string { return coqNode(n.child(0)) }
	switch n.K {
	case "nil":
		return "BNil"
	case "leaf":
		return fmt.Sprintf("(BLeaf %d)", n.S)
	case "grpc":
		return fmt.Sprintf("(BGrpc %d)", n.G)
	case "wrap":
		return "(BWrap " + sub() + ")"
	case "opaque":
		return "(BOpaque " + sub() + ")"
	case "fatal":
		return "(BFatal " + sub() + ")"
	case "multiw", "join":
		items := make([]string, len(n.C))
		for i := range n.C {
			items[i] = coqNode(n.C[i])
		}
		if n.K == "join" {
			return "(BJoin " + hx.List(items) + ")"
		}
		return "(BMultiW " + hx.List(items) + ")"
	case "new":
		return "(BNew " + coqCode(n.R, n.G) + ")"
	case "cwrap":
		return "(BCWrap " + coqCode(n.R, n.G) + " " + sub() + ")"
	case "withcode":
		return "(BWithCode " + coqCode(n.R, n.G) + " " + sub() + ")"
	case "fromstatus":
		return "(BFromStatus " + coqWire(wireJ{n.G, n.R, n.R != ""}) + ")"
	}
	panic("unknown node kind " + n.K)
}

// ---------- observation ----------

type codeJ struct {
	R string `json:"r"`
	G int    `json:"g"`
}

type wireJ struct {
	G      int    `json:"g"`
	R      string `json:"r,omitempty"`
	HasInf bool   `json:"info"`
}

type obsJ struct {
	Nil     bool    `json:"nil"`
	Fatal   bool    `json:"fatal"`
	Code    *codeJ  `json:"code,omitempty"`
	Is      []int   `json:"is"`
	Grpc    *int    `json:"grpc,omitempty"`
	Exit    int     `json:"exit"`
	Wire    *wireJ  `json:"wire,omitempty"`
	Back    *codeJ  `json:"back,omitempty"`
	API     []wireJ `json:"api"`
	APIExit []int   `json:"api_exit"`
	Panic   string  `json:"panic,omitempty"`
}

func wireOf(st *grpcstatus.Status) wireJ {
	w := wireJ{G: int(st.Code())}
	for _, d := range st.Details() {
		if info, ok := d.(*errdetails.ErrorInfo); ok && info.GetDomain() == errorDomain {
			w.R, w.HasInf = info.GetReason(), true
			break
		}
	}
	return w
}

func wireOfErr(err error) wireJ {
	if err == nil {
		return wireJ{}
	}
	st, _ := grpcstatus.FromError(err)
	return wireOf(st)
}

var apiFuncs = []func(error) error{
	apistatus.PipelineError, apistatus.ConnectorError, apistatus.ProcessorError, apistatus.PluginError,
}

func observe(err error) (o obsJ) {
	defer func() {
		if r := recover(); r != nil {
			o.Panic = fmt.Sprint(r)
			o.Exit = 999
		}
	}()
	o.Is = []int{}
	o.Nil = err == nil
	o.Fatal = cerrors.IsFatalError(err)
	if ce, ok := conduiterr.Get(err); ok {
		o.Code = &codeJ{ce.Code.Reason(), int(ce.Code.GRPCCode())}
		st := conduiterr.ToStatus(ce)
		w := wireOf(st)
		o.Wire = &w
		back := conduiterr.FromStatus(st)
		o.Back = &codeJ{back.Code.Reason(), int(back.Code.GRPCCode())}
	}
	for i := 1; i < len(sentinels); i++ {
		if cerrors.Is(err, sentinels[i].target) {
			o.Is = append(o.Is, i)
		}
	}
	if err != nil {
		if st, ok := grpcstatus.FromError(err); ok {
			g := int(st.Code())
			o.Grpc = &g
		}
	}
	o.Exit = exitcode.ExitCode(err)
	for _, f := range apiFuncs {
		res := f(err)
		o.API = append(o.API, wireOfErr(res))
		o.APIExit = append(o.APIExit, exitcode.ExitCode(res))
	}
	return o
}

func coqWire(w wireJ) string {
	r := hx.None
	if w.HasInf {
		r = hx.Some(coqStr(w.R))
	}
	return hx.Pair(hx.Nat(w.G), r)
}

func coqObs(o obsJ) string {
	optCode := func(c *codeJ) string {
		if c == nil {
			return hx.None
		}
		return hx.Some(coqCode(c.R, c.G))
	}
	grpc, wire := hx.None, hx.None
	if o.Grpc != nil {
		grpc = hx.Some(hx.Nat(*o.Grpc))
	}
	if o.Wire != nil {
		wire = hx.Some(coqWire(*o.Wire))
	}
	api := make([]string, len(o.API))
	for i, w := range o.API {
		api[i] = coqWire(w)
	}
	return fmt.Sprintf("(mkObs %s %s %s %s %s %d %s %s %s %s)", hx.Bool(o.Nil), hx.Bool(o.Fatal), optCode(o.Code),
		hx.Nats(o.Is), grpc, o.Exit, wire, optCode(o.Back), hx.List(api), hx.Nats(o.APIExit))
}

// ---------- cases ----------

type ecase struct {
	Wraps int     `json:"wraps"`
	Trees []*Node `json:"trees"`
}

type pairJ struct {
	Plain   obsJ `json:"plain"`
	Wrapped obsJ `json:"wrapped"`
}

func wrapN(err error, n int) error {
	if err == nil {
		return nil // Errorf on nil is not a wrapper of anything: observe nil twice
	}
	for i := 0; i < n; i++ {
		switch i % 3 {
		case 0:
			err = cerrors.Errorf("layer %d: %w", i, err)
		case 1:
			err = cerrors.Errorf("%w (layer %d)", err, i)
		default:
			err = cerrors.Errorf("could not finish: %w", err)
		}
	}
	return err
}

type pending struct {
	js  map[string]any
	coq string
}

var buffered []pending

func emit(c ecase) {
	if c.Wraps < 0 {
		c.Wraps = 0
	}
	if c.Wraps > 64 {
		c.Wraps = 64
	}
	norm := ecase{Wraps: c.Wraps}
	var pairs []pairJ
	var coqTrees, coqPairs []string
	for _, t := range c.Trees {
		nt := normalise(t)
		norm.Trees = append(norm.Trees, nt)
		var p pairJ
		var err error
		if !hx.Try(func() { err = build(nt) }) {
			p.Plain = obsJ{Panic: "constructor panicked", Exit: 999, Is: []int{}}
			p.Wrapped = p.Plain
		} else {
			p.Plain = observe(err)
			p.Wrapped = observe(wrapN(err, c.Wraps))
		}
		pairs = append(pairs, p)
		coqTrees = append(coqTrees, coqNode(nt))
		plain, wrapped := coqObs(p.Plain), coqObs(p.Wrapped)
		if plain == wrapped {
			wrapped = hx.None
		} else {
			wrapped = hx.Some(wrapped)
		}
		coqPairs = append(coqPairs, hx.Pair(plain, wrapped))
	}
	buffered = append(buffered, pending{map[string]any{"input": norm, "observed": map[string]any{"values": pairs}},
		fmt.Sprintf("ECase %d %s %s", c.Wraps, hx.List(coqTrees), hx.List(coqPairs))})
}

func nodeFromJSON(x any) *Node {
	m, ok := x.(map[string]any)
	if !ok {
		return nil
	}
	n := &Node{}
	n.K, _ = m["k"].(string)
	if n.K == "" {
		return nil
	}
	num := func(k string) int {
		f, _ := m[k].(float64)
		return int(f)
	}
	n.S, n.G = num("s"), num("g")
	n.R, _ = m["r"].(string)
	if cs, ok := m["c"].([]any); ok {
		for _, c := range cs {
			n.C = append(n.C, nodeFromJSON(c))
		}
	}
	return n
}

func caseFromJSON(m map[string]any) ecase {
	if c, ok := m["case"].(map[string]any); ok { // a replay file written by the driver
		m = c
	}
	in, ok := m["input"].(map[string]any)
	if !ok {
		in = m
	}
	var c ecase
	f, _ := in["wraps"].(float64)
	c.Wraps = int(f)
	for _, t := range in["trees"].([]any) {
		c.Trees = append(c.Trees, nodeFromJSON(t))
	}
	return c
}

// ---------- generation ----------

type gen struct {
	r     *hx.Rand
	codes []codeJ // constructible codes: live registry + unknown-reason fallbacks + unregistered reasons
}

func liveCodes() []codeJ {
	var out []codeJ
	for _, c := range conduiterr.Codes() {
		out = append(out, codeJ{c.Reason(), int(c.GRPCCode())})
	}
	sort.Slice(out, func(i, j int) bool { return out[i].R < out[j].R })
	return out
}

func newGen(r *hx.Rand) *gen {
	g := &gen{r: r}
	live := liveCodes()
	// one registered code per category first (so that every category is frequent), then all
	seen := map[int]bool{}
	for _, c := range live {
		if !seen[c.G] {
			seen[c.G] = true
			g.codes = append(g.codes, c, c)
		}
	}
	g.codes = append(g.codes, live...)
	unk := conduiterr.CodeUnknown.Reason()
	for _, cat := range []int{0, 1, 2, 3, 5, 7, 12, 14, 16, 23} {
		g.codes = append(g.codes, codeJ{unk, cat})
	}
	for i, cat := range []int{3, 4, 10, 14, 15, 2, 11, 99} {
		g.codes = append(g.codes, codeJ{fmt.Sprintf("plugin.unregistered_reason_%d", i), cat})
	}
	return g
}

func (g *gen) code() codeJ { return g.codes[g.r.Intn(len(g.codes))] }

func (g *gen) grpcCode() int {
	if g.r.Chance(1, 12) {
		return []int{0, 17, 42}[g.r.Intn(3)]
	}
	return g.r.Range(1, 16)
}

func (g *gen) sentinel() int {
	switch g.r.Intn(6) {
	case 0:
		return 1 // context.Canceled
	case 1:
		return g.r.Range(2, 3) // environment sentinels
	case 2:
		return 0 // fresh
	default:
		return g.r.Range(1, len(sentinels)-1)
	}
}

func (g *gen) leaf() *Node {
	switch g.r.Intn(12) {
	case 0:
		return &Node{K: "nil"}
	case 1, 2:
		return &Node{K: "grpc", G: g.grpcCode()}
	case 3, 4, 5:
		c := g.code()
		return &Node{K: "new", R: c.R, G: c.G}
	case 6:
		if g.r.Bool() {
			c := g.code()
			return &Node{K: "fromstatus", R: c.R, G: c.G}
		}
		return &Node{K: "fromstatus", G: g.grpcCode()}
	default:
		return &Node{K: "leaf", S: g.sentinel()}
	}
}

// tree generates an expression of depth <= d using at most *budget constructor calls.
func (g *gen) tree(d int, budget *int) *Node {
	*budget--
	if d <= 1 || *budget <= 0 || g.r.Chance(1, 7) {
		return g.leaf()
	}
	switch g.r.Intn(16) {
	case 0, 1, 2, 3:
		return &Node{K: "wrap", S: g.r.Intn(len(wrapFormats)), C: []*Node{g.tree(d-1, budget)}}
	case 4, 5, 6:
		return &Node{K: "fatal", C: []*Node{g.tree(d-1, budget)}}
	case 7, 8:
		c := g.code()
		return &Node{K: "cwrap", R: c.R, G: c.G, C: []*Node{g.tree(d-1, budget)}}
	case 9:
		c := g.code()
		return &Node{K: "withcode", R: c.R, G: c.G, C: []*Node{g.tree(d-1, budget)}}
	case 10:
		if g.r.Chance(1, 3) {
			return &Node{K: "opaque", C: []*Node{g.tree(d-1, budget)}}
		}
		fallthrough
	case 11, 12, 13, 14:
		k := g.r.Range(0, 4)
		n := &Node{K: "join"}
		for i := 0; i < k; i++ {
			if g.r.Chance(1, 6) {
				n.C = append(n.C, &Node{K: "nil"})
			} else {
				n.C = append(n.C, g.tree(d-1, budget))
			}
		}
		return n
	default:
		if !g.r.Chance(1, 3) { // multi-%w is rare: it is the known defect, most cases stay clear of it
			return &Node{K: "wrap", S: 1, C: []*Node{g.tree(d-1, budget)}}
		}
		k := g.r.Range(0, 3)
		n := &Node{K: "multiw"}
		for i := 0; i < k; i++ {
			n.C = append(n.C, g.tree(d-1, budget))
		}
		return n
	}
}

func clone(n *Node) *Node {
	if n == nil {
		return nil
	}
	c := *n
	c.C = nil
	for _, x := range n.C {
		c.C = append(c.C, clone(x))
	}
	return &c
}

// rewrap puts t into a context that should not change (most of) its classification
func (g *gen) rewrap(t *Node) *Node {
	t = clone(t)
	for i, k := 0, g.r.Range(1, 3); i < k; i++ {
		switch g.r.Intn(5) {
		case 0:
			t = &Node{K: "wrap", S: g.r.Intn(4), C: []*Node{t}}
		case 1:
			t = &Node{K: "join", C: []*Node{{K: "nil"}, t}}
		case 2:
			t = &Node{K: "join", C: []*Node{t, {K: "leaf", S: 0}}}
		case 3:
			c := g.code()
			t = &Node{K: "cwrap", R: c.R, G: c.G, C: []*Node{t}}
		default:
			t = &Node{K: "join", C: []*Node{{K: "leaf", S: g.r.Range(4, len(sentinels)-1)}, t}}
		}
	}
	return t
}

func (g *gen) randomCase() ecase {
	c := ecase{Wraps: g.r.Range(1, 5)}
	if g.r.Chance(1, 10) {
		c.Wraps = g.r.Range(6, 40)
	}
	budget := g.r.Range(4, 40)
	t := g.tree(g.r.Range(1, 8), &budget)
	c.Trees = append(c.Trees, t)
	switch g.r.Intn(3) {
	case 0:
		c.Trees = append(c.Trees, g.rewrap(t))
	case 1:
		b2 := g.r.Range(2, 20)
		c.Trees = append(c.Trees, g.tree(g.r.Range(1, 6), &b2))
	}
	return c
}

// ---------- exhaustive small scope ----------

// every expression of depth <= 3 over a small alphabet that has one
// representative of every class of leaf and of every constructor
func exhaustive(emitCase func(ecase), shard, shards int) {
	nf, vd := "common.not_found", "common.unavailable"
	leaves := []*Node{
		{K: "nil"}, {K: "leaf", S: 0}, {K: "leaf", S: 1}, {K: "leaf", S: 2}, {K: "leaf", S: 11},
		{K: "grpc", G: 5}, {K: "grpc", G: 14},
		{K: "new", R: nf, G: 5}, {K: "new", R: vd, G: 14}, {K: "fromstatus", G: 3},
	}
	level := [][]*Node{leaves}
	for d := 2; d <= 3; d++ {
		prev := level[len(level)-1]
		var all []*Node
		all = append(all, leaves...)
		for _, t := range prev {
			all = append(all,
				&Node{K: "wrap", C: []*Node{t}},
				&Node{K: "fatal", C: []*Node{t}},
				&Node{K: "cwrap", R: "internal.error", G: 13, C: []*Node{t}},
				&Node{K: "withcode", R: "common.invalid_argument", G: 3, C: []*Node{t}},
				&Node{K: "opaque", C: []*Node{t}},
			)
		}
		for _, a := range prev {
			for _, b := range prev {
				all = append(all, &Node{K: "join", C: []*Node{a, b}})
				if d == 2 {
					all = append(all, &Node{K: "multiw", C: []*Node{a, b}})
				}
			}
		}
		level = append(level, all)
	}
	top := level[len(level)-1]
	// two expressions per case (neighbours in the enumeration) so that the pair monitor has work
	for i := 0; i < len(top); i++ {
		if i%shards != shard {
			continue
		}
		emitCase(ecase{Wraps: 1 + i%3, Trees: []*Node{top[i], top[(i+7919)%len(top)]}})
	}
}

func main() {
	// the exhaustive enumeration is partitioned by its own flags: --shard/--shards count ALL shards of a run
	part := flag.Int("part", 0, "exhaustive mode: index of this partition")
	parts := flag.Int("parts", 1, "exhaustive mode: number of partitions")
	o := hx.ParseFlags()
	if o.Mode == "gen" {
		os.Exit(runGen(o))
	}
	switch {
	case o.Replay != "":
		cs, err := hx.ReadJSONL(o.Replay)
		if err != nil {
			fmt.Fprintln(os.Stderr, err)
			os.Exit(2)
		}
		for _, m := range cs {
			var c ecase
			if !hx.Try(func() { c = caseFromJSON(m) }) {
				continue
			}
			hx.Try(func() { emit(c) })
		}
	case o.Mode == "exhaustive":
		exhaustive(emit, *part, *parts)
	default:
		root := hx.NewRand(o.Seed)
		for i := 0; i < o.N; i++ {
			g := newGen(root.Fork(uint64(o.Shard)<<32 | uint64(i)))
			emit(g.randomCase())
		}
	}
	header := "From Verif Require Import Base.CaseCheck Err.Tree Err.Check.\nFrom VerifGen Require Import GenExit.\n" +
		strings.Join(reasonDefs, "\n")
	w, err := hx.NewWriter(o, header, "ecase")
	if err != nil {
		fmt.Fprintln(os.Stderr, err)
		os.Exit(2)
	}
	for _, p := range buffered {
		w.Add(p.js, p.coq)
	}
	if err := w.Close("(chk gen_tables)"); err != nil {
		fmt.Fprintln(os.Stderr, err)
		os.Exit(2)
	}
	fmt.Printf("cases=%d\n", w.Count())
}
