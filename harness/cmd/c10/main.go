// Harness for C10 ("fatal failures degrade, transient ones recover (bounded), stopped stays
// stopped"): drives the REAL lifecycle service of both engines (lib/lifex) through generated
// environment schedules that inject failures at every component and issue stop / shutdown calls at
// generated instants, and writes the observed event log of every history as a Coq case.
package main

import (
	"os"
	"path/filepath"

	"verifharness/lib/lifex"
)

func main() {
	corpus := os.Getenv("VERIF_CORPUS_C10")
	if corpus == "" {
		corpus = filepath.Join("/verif/corpus/C10", "regress.jsonl")
	}
	lifex.Main("chk10", lifex.GenC10, corpus)
}
