// Harness for C03 (a crash at any instant loses no record): the C02 run plus a restart of
// fresh services on the store snapshot of every commit point. See harness/lib/connx.
package main

import "verifharness/lib/connx"

func main() { connx.Main("C03") }
