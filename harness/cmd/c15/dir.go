// Directory family of C15: rounds of provisioning.Service.Init over a directory
// of several pipeline config files, on one set of real services (in-memory DB
// behind the fault-injecting wrapper).  Exposes: per-pipeline isolation (a
// failing import of one pipeline leaves its previous configuration and
// positions, and every other pipeline, intact), deletion of exactly the
// config-provisioned pipelines that vanished from the directory (a pipeline
// that is still there but fails to import, is duplicated, or belongs to the
// API is retained), and restart with the same directory = nothing to do.
package main

import (
	"fmt"
	"os"
	"path/filepath"
	"sort"
	"strings"

	"github.com/conduitio/conduit/pkg/foundation/cerrors"
	"github.com/conduitio/conduit/pkg/pipeline"
	"github.com/conduitio/conduit/pkg/provisioning/config"

	"verifharness/lib/hx"
	"verifharness/lib/provx"
)

var plPool = []int{1, 2, 3, 4}

type dirEntry struct {
	ID    int        `json:"id"`
	Cfg   provx.Pipe `json:"cfg"`
	Fault int        `json:"fault"` // index of the store write of this pipeline's import that fails; -1 none
	Bad   bool       `json:"bad"`   // rendered with an invalid status: config.Validate rejects it
}

type roundIn struct {
	Dir       []dirEntry `json:"dir"`
	SetStates [][3]int   `json:"setstates"` // pipeline, connector, position token
}

type apiIn struct {
	ID  int        `json:"id"`
	Cfg provx.Pipe `json:"cfg"`
}

type plObs struct {
	Export exportObs  `json:"export"`
	States []cstate   `json:"states"`
	ByCfg  bool       `json:"by_config"`
	Inst   instances  `json:"inst"`
	Trace  []provx.Op `json:"trace"`
}

type roundObs struct {
	StatesBefore [][]cstate `json:"states_before"`
	Err          bool       `json:"err"`
	Pls          []plObs    `json:"pls"`
	ReErr        bool       `json:"re_err"`
	ReOps        int        `json:"re_ops"`
	Aux          string     `json:"aux,omitempty"`
}

func plID(n int) string { return fmt.Sprintf("pl%d", n) }

// rawOf renders a token config for pipeline n as a config file would state it.
// Pipeline names are unique across pipelines (the pipeline service insists):
// the name token is rendered with the pipeline id appended.
func rawOf(n int, p provx.Pipe) config.Pipeline {
	cfg := provx.RawID(plID(n), p)
	if cfg.Name != "" {
		cfg.Name += "-" + cfg.ID
	}
	return cfg
}

func observePl(e *provx.Env, n int, per map[string][]provx.Op) plObs {
	id := plID(n)
	o := plObs{States: []cstate{}, Inst: instances{Conns: []int{}, Procs: [][2]int{}}, Trace: []provx.Op{}}
	c, err := e.Prov.Export(ctx, id)
	switch {
	case err == nil:
		c.Name = strings.TrimSuffix(c.Name, "-"+id)
		p := provx.Canon(c)
		o.Export = exportObs{Kind: "ok", Cfg: &p}
	case cerrors.Is(err, pipeline.ErrInstanceNotFound):
		o.Export = exportObs{Kind: "none"}
	default:
		o.Export = exportObs{Kind: "err"}
	}
	if pl, err := e.Pl.Get(ctx, id); err == nil {
		o.ByCfg = pl.ProvisionedBy == pipeline.ProvisionTypeConfig
		for _, cid := range pl.ConnectorIDs {
			st := -1
			if inst, err := e.Conn.Get(ctx, cid); err == nil {
				st = provx.StateTok(inst.State)
			}
			o.States = append(o.States, cstate{Conn: provx.ConnTok(cid), State: st})
		}
	}
	for cid := range e.Conn.List(ctx) {
		if pl, c, _ := provx.SplitID(cid); pl == id {
			o.Inst.Conns = append(o.Inst.Conns, c)
		}
	}
	sort.Ints(o.Inst.Conns)
	for pid := range e.Proc.List(ctx) {
		if pl, c, p := provx.SplitID(pid); pl == id {
			o.Inst.Procs = append(o.Inst.Procs, [2]int{c, p})
		}
	}
	sort.Slice(o.Inst.Procs, func(i, j int) bool {
		if o.Inst.Procs[i][0] != o.Inst.Procs[j][0] {
			return o.Inst.Procs[i][0] < o.Inst.Procs[j][0]
		}
		return o.Inst.Procs[i][1] < o.Inst.Procs[j][1]
	})
	if per != nil && per[id] != nil {
		o.Trace = per[id]
	}
	return o
}

func observeAll(e *provx.Env, per map[string][]provx.Op) []plObs {
	out := make([]plObs, len(plPool))
	for i, n := range plPool {
		out[i] = observePl(e, n, per)
	}
	return out
}

func initOnce(e *provx.Env, faults map[string]int) (failed bool, per map[string][]provx.Op, aux string) {
	defer func() {
		if r := recover(); r != nil {
			per = e.DB.DisarmPer()
			failed, aux = true, fmt.Sprintf("panic: %v;", r)
		}
	}()
	e.DB.ArmPer(faults)
	err := e.Prov.Init(ctx)
	return err != nil, e.DB.DisarmPer(), ""
}

func runDir(c caseIn) ([]plObs, []roundObs) {
	dir, err := os.MkdirTemp("", "c15dir")
	if err != nil {
		panic(err)
	}
	defer os.RemoveAll(dir)
	e := provx.NewEnvDir(dir)
	for _, a := range c.API {
		_ = e.Prov.Import(ctx, config.Enrich(rawOf(a.ID, a.Cfg)))
	}
	obs0 := observeAll(e, nil)
	out := make([]roundObs, 0, len(c.Rounds))
	for _, r := range c.Rounds {
		old, _ := filepath.Glob(filepath.Join(dir, "*.yml"))
		for _, f := range old {
			_ = os.Remove(f)
		}
		faults := map[string]int{}
		for i, d := range r.Dir {
			cfg := rawOf(d.ID, d.Cfg)
			if d.Bad {
				cfg.Status = "halted"
			}
			if err := os.WriteFile(filepath.Join(dir, fmt.Sprintf("%02d.yml", i)), []byte(provx.YAML(cfg)), 0o600); err != nil {
				panic(err)
			}
			if _, seen := faults[cfg.ID]; d.Fault >= 0 && !seen {
				faults[cfg.ID] = d.Fault
			}
		}
		var o roundObs
		for _, p := range observeAll(e, nil) {
			o.StatesBefore = append(o.StatesBefore, p.States)
		}
		var per map[string][]provx.Op
		o.Err, per, o.Aux = initOnce(e, faults)
		o.Pls = observeAll(e, per)
		if !o.Err {
			var per2 map[string][]provx.Op
			var aux string
			o.ReErr, per2, aux = initOnce(e, nil)
			o.Aux += aux
			for _, ops := range per2 {
				o.ReOps += len(ops)
			}
		}
		for _, s := range r.SetStates {
			id := fmt.Sprintf("%s:c%d", plID(s[0]), s[1])
			if inst, err := e.Conn.Get(ctx, id); err == nil {
				_, _ = e.Conn.SetState(ctx, id, provx.StateOf(inst.Type, s[2]))
			}
		}
		out = append(out, o)
	}
	return obs0, out
}

// ---------------------------------------------------------------- Coq rendering

func coqPlObs(o plObs) string {
	tr := make([]string, len(o.Trace))
	for j, x := range o.Trace {
		tr[j] = fmt.Sprintf("(mkSop %s %s %s)", provx.CoqKeyAny(x.Key), hx.Bool(x.Del), hx.Bool(x.Failed))
	}
	return fmt.Sprintf("(mkPObs %s %s %s %s %s)", coqExport(o.Export), coqStates(o.States), hx.Bool(o.ByCfg),
		coqInst(o.Inst), hx.List(tr))
}

func coqPlObsList(os []plObs) string {
	s := make([]string, len(os))
	for i, o := range os {
		s[i] = coqPlObs(o)
	}
	return hx.List(s)
}

func coqDirCase(f flags, c caseIn, obs0 []plObs, obs []roundObs) string {
	api := make([]string, len(c.API))
	for i, a := range c.API {
		api[i] = hx.Pair(hx.Nat(a.ID), provx.CoqPipe(a.Cfg))
	}
	rounds := make([]string, len(c.Rounds))
	for i, r := range c.Rounds {
		ds := make([]string, len(r.Dir))
		for j, d := range r.Dir {
			ds[j] = fmt.Sprintf("(mkD %d %s %s %s)", d.ID, provx.CoqPipe(d.Cfg), coqFault(d.Fault), hx.Bool(d.Bad))
		}
		ss := make([]string, len(r.SetStates))
		for j, x := range r.SetStates {
			ss[j] = hx.Pair(hx.Nat(x[0]), hx.Pair(hx.Nat(x[1]), hx.Nat(x[2])))
		}
		rounds[i] = fmt.Sprintf("(mkRound %s %s)", hx.List(ds), hx.List(ss))
	}
	os := make([]string, len(obs))
	for i, o := range obs {
		sb := make([]string, len(o.StatesBefore))
		for j, x := range o.StatesBefore {
			sb[j] = coqStates(x)
		}
		os[i] = fmt.Sprintf("(mkRObs %s %s %s %s %d)", hx.List(sb), hx.Bool(o.Err), coqPlObsList(o.Pls), hx.Bool(o.ReErr), o.ReOps)
	}
	return fmt.Sprintf("Dir (mkFlags %s %s %s %s) %s %s %s %s", hx.Bool(f.CopyIDs), hx.Bool(f.ExpCond), hx.Bool(f.UpdCond),
		hx.Bool(f.RestoreState), hx.List(api), hx.List(rounds), coqPlObsList(obs0), hx.List(os))
}

// ---------------------------------------------------------------- generation

func genDirStates(r *hx.Rand, dir []dirEntry) [][3]int {
	out := [][3]int{}
	for _, d := range dir {
		for _, c := range d.Cfg.Conns {
			if r.Chance(2, 3) {
				out = append(out, [3]int{d.ID, c.ID, 1 + r.Intn(9)})
			}
		}
	}
	return out
}

// genDirCase: 2..4 restarts over a directory that evolves: configs stay, change,
// break (invalid for the services, rejected by validation, or a store write of
// their import fails), vanish, come back, get duplicated; optionally one
// pipeline of the pool belongs to the API.
func genDirCase(r *hx.Rand) caseIn {
	g := genCfg{conds: false, small: true}
	c := caseIn{API: []apiIn{}, Rounds: []roundIn{}}
	if r.Chance(1, 3) {
		c.API = append(c.API, apiIn{ID: plPool[r.Intn(len(plPool))], Cfg: genPipe(r, g)})
	}
	cur := map[int]provx.Pipe{} // last good config per pipeline in the directory
	for _, id := range pick(r, plPool, r.Range(2, 3)) {
		cur[id] = genPipe(r, g)
	}
	n := r.Range(2, 4)
	for k := 0; k < n; k++ {
		rd := roundIn{Dir: []dirEntry{}}
		// several ids may be duplicated in one directory (before 348ceac Init deleted the duplicates one id at a
		// time with indexes into the original slice: panic or wrong configs dropped, by map order)
		dupHeavy := r.Chance(1, 6)
		ids := make([]int, 0, len(cur))
		for id := range cur {
			ids = append(ids, id)
		}
		sort.Ints(ids)
		for _, id := range ids {
			d := dirEntry{ID: id, Cfg: cur[id], Fault: -1}
			if k > 0 {
				switch x := r.Intn(12); {
				case x < 3: // edited
					d.Cfg = mutate(r, g, cur[id], false)
					cur[id] = d.Cfg
				case x < 5: // edited into something the services refuse half way
					d.Cfg = mutate(r, g, cur[id], true)
				case x == 5: // edited into something validation refuses
					d.Cfg = mutate(r, g, cur[id], false)
					d.Bad = true
				case x == 6: // a store write of its import fails
					d.Cfg = mutate(r, g, cur[id], false)
					d.Fault = r.Intn(10)
				case x == 7: // vanishes
					delete(cur, id)
					continue
				}
			} else if r.Chance(1, 8) {
				d.Fault = r.Intn(6)
			}
			rd.Dir = append(rd.Dir, d)
			if r.Chance(1, 12) || (dupHeavy && r.Chance(2, 3)) { // the same id in a second file
				rd.Dir = append(rd.Dir, dirEntry{ID: id, Cfg: genPipe(r, g), Fault: -1})
			}
		}
		if r.Chance(1, 3) {
			if id := freeID(ids, plPool, r); id != 0 {
				cur[id] = genPipe(r, g)
				rd.Dir = append(rd.Dir, dirEntry{ID: id, Cfg: cur[id], Fault: -1})
			}
		}
		if len(rd.Dir) > 1 && r.Chance(1, 4) { // file order is not pipeline order
			i, j := r.Intn(len(rd.Dir)), r.Intn(len(rd.Dir))
			rd.Dir[i], rd.Dir[j] = rd.Dir[j], rd.Dir[i]
		}
		rd.SetStates = genDirStates(r, rd.Dir)
		c.Rounds = append(c.Rounds, rd)
	}
	return c
}
