// Harness for C15 (import converges, is idempotent, fails atomically).
//
// Drives the REAL provisioning.Service (Plan / Import / ApplyPlan / Export) on the
// real pipeline, connector and processor services over an in-memory database
// wrapped by a recording, fault-injecting DB (lib/provx).  A case is a chain of
// imports of token configs into one fresh set of services; per step it records
// the plan, the outcome, every store write, the export, plan emptiness, the
// connector States and the stored processor Conditions.
//
//	--mode gen     translator: field lists / constants of the provisioning code -> GenProv.v
//	--mode probe   prints which variant (shipped / repaired) of four behaviours the tree has
//	--mode pairs   exhaustive small-scope grammar x every failing store-operation index
//	--mode dir     directory family: rounds of Service.Init over several pipeline config files (dir.go)
package main

import (
	"context"
	"encoding/json"
	"fmt"
	"os"
	"sort"
	"strings"

	"github.com/conduitio/conduit/pkg/foundation/cerrors"
	"github.com/conduitio/conduit/pkg/pipeline"
	"github.com/conduitio/conduit/pkg/provisioning"

	"verifharness/lib/hx"
	"verifharness/lib/provx"
)

type stepIn struct {
	Cfg       provx.Pipe `json:"cfg"`
	Fault     int        `json:"fault"` // index of the store write of this import that fails; -1 none
	SetStates [][2]int   `json:"setstates"`
}

type caseIn struct {
	Steps []stepIn `json:"steps"`
	Txn   bool     `json:"txn"` // import through ApplyPlan (one DB transaction) instead of Import
	// directory family (dir.go): a case with rounds is a chain of Service.Init calls
	API    []apiIn   `json:"api,omitempty"`
	Rounds []roundIn `json:"rounds,omitempty"`
}

type change struct {
	Kind int    `json:"kind"` // 0 create 1 update 2 delete
	Key  string `json:"key"`  // Coq ekey
}

type cstate struct {
	Conn  int `json:"conn"`
	State int `json:"state"` // -1 nil
}

type exportObs struct {
	Kind string      `json:"kind"` // none | err | ok
	Cfg  *provx.Pipe `json:"cfg,omitempty"`
}

type stepObs struct {
	Plan         []change   `json:"plan"`
	PlanErr      bool       `json:"plan_err"`
	StatesBefore []cstate   `json:"states_before"`
	Outcome      string     `json:"outcome"` // ok | failed | export_err
	Trace        []provx.Op `json:"trace"`
	Export       exportObs  `json:"export"`
	PlanEmpty    bool       `json:"plan_empty"`
	States       []cstate   `json:"states"`
	Conds        []int      `json:"conds"`
	ReOutcome    string     `json:"re_outcome"`
	ReOps        int        `json:"re_ops"`
	InstBefore   instances  `json:"inst_before"` // connector / processor instances held by the services
	Inst         instances  `json:"inst"`
	Aux          string     `json:"aux,omitempty"`
}

type flags struct {
	CopyIDs      bool `json:"copy_ids"`
	ExpCond      bool `json:"exp_cond"`
	UpdCond      bool `json:"upd_cond"`
	RestoreState bool `json:"restore_state"`
}

var ctx = context.Background()

// ---------------------------------------------------------------- observation helpers

func states(e *provx.Env) []cstate {
	out := []cstate{}
	pl, err := e.Pl.Get(ctx, provx.PipelineID)
	if err != nil {
		return out
	}
	for _, id := range pl.ConnectorIDs {
		st := -1
		if inst, err := e.Conn.Get(ctx, id); err == nil {
			st = provx.StateTok(inst.State)
		}
		out = append(out, cstate{Conn: provx.ConnTok(id), State: st})
	}
	return out
}

func condTok(s string) int {
	if s == "" {
		return 0
	}
	var n int
	if _, err := fmt.Sscanf(s, "cond-%d", &n); err == nil {
		return n
	}
	return 9999
}

func conds(e *provx.Env) []int {
	out := []int{}
	pl, err := e.Pl.Get(ctx, provx.PipelineID)
	if err != nil {
		return out
	}
	procs := func(ids []string) {
		for _, id := range ids {
			if p, err := e.Proc.Get(ctx, id); err == nil {
				out = append(out, condTok(p.Condition))
			}
		}
	}
	for _, id := range pl.ConnectorIDs {
		if inst, err := e.Conn.Get(ctx, id); err == nil {
			procs(inst.ProcessorIDs)
		}
	}
	procs(pl.ProcessorIDs)
	return out
}

func export(e *provx.Env) exportObs {
	c, err := e.Prov.Export(ctx, provx.PipelineID)
	switch {
	case err == nil:
		p := provx.Canon(c)
		return exportObs{Kind: "ok", Cfg: &p}
	case cerrors.Is(err, pipeline.ErrInstanceNotFound):
		return exportObs{Kind: "none"}
	}
	return exportObs{Kind: "err"}
}

func planChanges(d provisioning.Diff) []change {
	out := []change{}
	for _, c := range d.Changes {
		k := map[provisioning.ChangeAction]int{provisioning.ChangeActionCreate: 0, provisioning.ChangeActionUpdate: 1,
			provisioning.ChangeActionDelete: 2}[c.Action]
		key := "KP"
		switch c.Resource {
		case provisioning.ResourceConnector:
			key = fmt.Sprintf("(KC %d)", provx.ConnTok(c.ID))
		case provisioning.ResourceProcessor:
			key = provx.CoqProcKey(c.ID)
		}
		out = append(out, change{Kind: k, Key: key})
	}
	return out
}

// instances lists the ids of every connector and processor instance the services
// hold, in the order of the model (connector ids ascending; processors by parent -
// pipeline first, then connector id - and local id).
type instances struct {
	Conns []int    `json:"conns"`
	Procs [][2]int `json:"procs"` // parent connector (-1 = pipeline), local id
}

func listInstances(e *provx.Env) instances {
	out := instances{Conns: []int{}, Procs: [][2]int{}}
	for id := range e.Conn.List(ctx) {
		out.Conns = append(out.Conns, provx.ConnTok(id))
	}
	sort.Ints(out.Conns)
	for id := range e.Proc.List(ctx) {
		par, local := provx.ProcKey(id)
		out.Procs = append(out.Procs, [2]int{par, local})
	}
	sort.Slice(out.Procs, func(i, j int) bool {
		if out.Procs[i][0] != out.Procs[j][0] {
			return out.Procs[i][0] < out.Procs[j][0]
		}
		return out.Procs[i][1] < out.Procs[j][1]
	})
	return out
}

func coqInst(x instances) string {
	ps := make([]string, len(x.Procs))
	for i, p := range x.Procs {
		par := hx.None
		if p[0] >= 0 {
			par = hx.Some(hx.Nat(p[0]))
		}
		ps[i] = hx.Pair(par, hx.Nat(p[1]))
	}
	return hx.Pair(hx.Nats(x.Conns), hx.List(ps))
}

// ---------------------------------------------------------------- one case

func runStep(e *provx.Env, txn bool, s stepIn) (o stepObs) {
	defer func() {
		if r := recover(); r != nil {
			e.DB.Disarm()
			o.Aux += fmt.Sprintf("panic: %v;", r)
			if o.Outcome == "" {
				o.Outcome = "failed"
			}
			if o.ReOutcome == "" {
				o.ReOutcome = "ok"
			}
		}
	}()
	cfg := provx.Render(s.Cfg)
	d, perr := e.Prov.Plan(ctx, cfg)
	o.PlanErr = perr != nil
	if perr == nil {
		o.Plan = planChanges(d)
	}
	o.StatesBefore = states(e)
	o.InstBefore = listInstances(e)
	exportBroken := export(e).Kind == "err"

	e.DB.Arm(s.Fault)
	var err error
	if txn {
		_, err = e.Prov.ApplyPlan(ctx, cfg, d.Hash)
	} else {
		err = e.Prov.Import(ctx, cfg)
	}
	o.Trace = e.DB.Disarm()
	if o.Trace == nil {
		o.Trace = []provx.Op{}
	}
	switch {
	case err == nil:
		o.Outcome = "ok"
	case exportBroken:
		o.Outcome = "export_err"
	default:
		o.Outcome = "failed"
	}
	o.Export = export(e)
	if d2, err := e.Prov.Plan(ctx, cfg); err == nil {
		o.PlanEmpty = d2.Empty()
	}
	o.States = states(e)
	o.Conds = conds(e)
	o.Inst = listInstances(e)
	o.ReOutcome = "ok"
	if o.Outcome == "ok" {
		e.DB.Arm(-1)
		err := e.Prov.Import(ctx, cfg)
		o.ReOps = len(e.DB.Disarm())
		if err != nil {
			o.ReOutcome = "failed"
		}
	}
	for _, cs := range s.SetStates {
		id := fmt.Sprintf("%s:c%d", provx.PipelineID, cs[0])
		if inst, err := e.Conn.Get(ctx, id); err == nil {
			_, _ = e.Conn.SetState(ctx, id, provx.StateOf(inst.Type, cs[1]))
		}
	}
	return o
}

func run(c caseIn) []stepObs {
	e := provx.NewEnv(nil, nil)
	out := make([]stepObs, 0, len(c.Steps))
	for _, s := range c.Steps {
		out = append(out, runStep(e, c.Txn, s))
	}
	return out
}

// ---------------------------------------------------------------- probes: which variant is the tree?

func pr(id, plugin, settings, workers, cond int) provx.Proc {
	return provx.Proc{ID: id, Plugin: plugin, Settings: settings, Workers: workers, Cond: cond}
}

func basePipe(conns []provx.Conn, procs []provx.Proc) provx.Pipe {
	return provx.Pipe{Name: 1, Desc: 0, DLQ: provx.DLQ{Plugin: 1, Settings: 1, Size: 1, Thr: 0}, Conns: conns, Procs: procs}
}

func probe() flags {
	var f flags
	hx.Try(func() { // S9: reorder three processors of a connector
		e := provx.NewEnv(nil, nil)
		a := basePipe([]provx.Conn{{ID: 1, Src: true, Plugin: 1, Name: 1, Procs: []provx.Proc{pr(1, 1, 0, 1, 0), pr(2, 1, 0, 1, 0), pr(3, 1, 0, 1, 0)}}}, nil)
		b := basePipe([]provx.Conn{{ID: 1, Src: true, Plugin: 1, Name: 1, Procs: []provx.Proc{pr(3, 1, 0, 1, 0), pr(2, 1, 0, 1, 0), pr(1, 1, 0, 1, 0)}}}, nil)
		if e.Prov.Import(ctx, provx.Render(a)) == nil && e.Prov.Import(ctx, provx.Render(b)) == nil {
			f.CopyIDs = true
		}
	})
	hx.Try(func() { // S10: is a condition exported, is a changed condition stored
		e := provx.NewEnv(nil, nil)
		a := basePipe(nil, []provx.Proc{pr(1, 1, 0, 1, 1)})
		b := basePipe(nil, []provx.Proc{pr(1, 1, 0, 1, 2)})
		if e.Prov.Import(ctx, provx.Render(a)) != nil {
			return
		}
		if x := export(e); x.Kind == "ok" && len(x.Cfg.Procs) == 1 && x.Cfg.Procs[0].Cond == 1 {
			f.ExpCond = true
		}
		if e.Prov.Import(ctx, provx.Render(b)) != nil {
			return
		}
		if c := conds(e); len(c) == 1 && c[0] == 2 {
			f.UpdCond = true
		}
	})
	hx.Try(func() { // rollback of a connector delete: is the State back
		e := provx.NewEnv(nil, nil)
		a := basePipe([]provx.Conn{{ID: 1, Src: true, Plugin: 1, Name: 1}, {ID: 2, Src: false, Plugin: 1, Name: 2}}, nil)
		b := basePipe([]provx.Conn{{ID: 2, Src: false, Plugin: 1, Name: 2}}, []provx.Proc{pr(1, 100, 0, 1, 0)})
		if e.Prov.Import(ctx, provx.Render(a)) != nil {
			return
		}
		id := provx.PipelineID + ":c1"
		inst, err := e.Conn.Get(ctx, id)
		if err != nil {
			return
		}
		_, _ = e.Conn.SetState(ctx, id, provx.StateOf(inst.Type, 7))
		if e.Prov.Import(ctx, provx.Render(b)) == nil {
			return
		}
		if inst, err := e.Conn.Get(ctx, id); err == nil && provx.StateTok(inst.State) == 7 {
			f.RestoreState = true
		}
	})
	return f
}

// ---------------------------------------------------------------- Coq rendering

func coqFault(n int) string {
	if n < 0 {
		return hx.None
	}
	return hx.Some(hx.Nat(n))
}

func coqStates(cs []cstate) string {
	s := make([]string, len(cs))
	for i, c := range cs {
		v := hx.None
		if c.State >= 0 {
			v = hx.Some(hx.Nat(c.State))
		}
		s[i] = hx.Pair(hx.Nat(c.Conn), v)
	}
	return hx.List(s)
}

func coqOutcome(s string) string {
	switch s {
	case "ok":
		return "OOk"
	case "export_err":
		return "OExportErr"
	}
	return "OFailed"
}

func coqExport(x exportObs) string {
	switch x.Kind {
	case "none":
		return "ENone"
	case "err":
		return "EErr"
	}
	return "(EOk " + provx.CoqPipe(*x.Cfg) + ")"
}

func coqCase(f flags, c caseIn, os []stepObs) string {
	steps := make([]string, len(c.Steps))
	for i, s := range c.Steps {
		ss := make([]string, len(s.SetStates))
		for j, x := range s.SetStates {
			ss[j] = hx.Pair(hx.Nat(x[0]), hx.Nat(x[1]))
		}
		steps[i] = fmt.Sprintf("(mkStep %s %s %s)", provx.CoqPipe(s.Cfg), coqFault(s.Fault), hx.List(ss))
	}
	obs := make([]string, len(os))
	for i, o := range os {
		plan := hx.None
		if !o.PlanErr {
			ch := make([]string, len(o.Plan))
			for j, x := range o.Plan {
				ch[j] = hx.Pair(hx.Nat(x.Kind), x.Key)
			}
			plan = hx.Some(hx.List(ch))
		}
		tr := make([]string, len(o.Trace))
		for j, x := range o.Trace {
			tr[j] = fmt.Sprintf("(mkSop %s %s %s)", provx.CoqKey(x.Key), hx.Bool(x.Del), hx.Bool(x.Failed))
		}
		obs[i] = fmt.Sprintf("(mkObs %s %s %s %s %s %s %s %s %s %d %s %s)", plan, coqStates(o.StatesBefore), coqOutcome(o.Outcome),
			hx.List(tr), coqExport(o.Export), hx.Bool(o.PlanEmpty), coqStates(o.States), hx.Nats(o.Conds),
			coqOutcome(o.ReOutcome), o.ReOps, coqInst(o.InstBefore), coqInst(o.Inst))
	}
	return fmt.Sprintf("Case (mkFlags %s %s %s %s) %s %s", hx.Bool(f.CopyIDs), hx.Bool(f.ExpCond), hx.Bool(f.UpdCond),
		hx.Bool(f.RestoreState), hx.List(steps), hx.List(obs))
}

// ---------------------------------------------------------------- generation

func pick(r *hx.Rand, from []int, n int) []int {
	p := append([]int(nil), from...)
	for i := len(p) - 1; i > 0; i-- {
		j := r.Intn(i + 1)
		p[i], p[j] = p[j], p[i]
	}
	if n > len(p) {
		n = len(p)
	}
	return p[:n]
}

type genCfg struct {
	conds bool // may processors carry conditions
	small bool // directory family: at most 2 connectors and 2 processors per list
}

func genProc(r *hx.Rand, g genCfg, id int) provx.Proc {
	p := provx.Proc{ID: id, Plugin: 1 + r.Intn(3), Settings: r.Intn(3), Workers: 1}
	if r.Chance(1, 4) {
		p.Workers = 2 + r.Intn(2)
	}
	if g.conds && r.Chance(1, 3) {
		p.Cond = 1 + r.Intn(2)
	}
	return p
}

func genProcs(r *hx.Rand, g genCfg, max int) []provx.Proc {
	if g.small && max > 2 {
		max = 2
	}
	ids := pick(r, []int{1, 2, 3, 4, 5}, r.Range(0, max))
	out := make([]provx.Proc, len(ids))
	for i, id := range ids {
		out[i] = genProc(r, g, id)
	}
	return out
}

func genConn(r *hx.Rand, g genCfg, id int) provx.Conn {
	return provx.Conn{ID: id, Src: r.Bool(), Plugin: 1 + r.Intn(2), Name: 1 + r.Intn(3), Settings: r.Intn(3), Procs: genProcs(r, g, 4)}
}

func genDLQ(r *hx.Rand) provx.DLQ {
	d := provx.DLQ{Plugin: 1 + r.Intn(2), Settings: 1 + r.Intn(2), Size: r.Intn(4)}
	if d.Size > 0 {
		d.Thr = r.Intn(d.Size)
	} else {
		d.Thr = r.Intn(3)
	}
	return d
}

func genPipe(r *hx.Rand, g genCfg) provx.Pipe {
	p := provx.Pipe{Name: 1 + r.Intn(2), Desc: r.Intn(3), DLQ: genDLQ(r)}
	nc := 3
	if g.small {
		nc = 2
	}
	for _, id := range pick(r, []int{1, 2, 3, 4}, r.Range(1, nc)) {
		p.Conns = append(p.Conns, genConn(r, g, id))
	}
	p.Procs = genProcs(r, g, 4)
	return p
}

func clone(p provx.Pipe) provx.Pipe {
	b, _ := json.Marshal(p)
	var q provx.Pipe
	_ = json.Unmarshal(b, &q)
	return q
}

func shuffleProcs(r *hx.Rand, ps []provx.Proc) {
	for i := len(ps) - 1; i > 0; i-- {
		j := r.Intn(i + 1)
		ps[i], ps[j] = ps[j], ps[i]
	}
}

func freeID(used []int, pool []int, r *hx.Rand) int {
	var free []int
	for _, x := range pool {
		ok := true
		for _, u := range used {
			if u == x {
				ok = false
			}
		}
		if ok {
			free = append(free, x)
		}
	}
	if len(free) == 0 {
		return 0
	}
	return free[r.Intn(len(free))]
}

func procIDs(ps []provx.Proc) []int {
	out := make([]int, len(ps))
	for i, p := range ps {
		out[i] = p.ID
	}
	return out
}

// editProcs applies one edit to a processor list.
func editProcs(r *hx.Rand, g genCfg, ps []provx.Proc, bad bool) []provx.Proc {
	switch k := r.Intn(9); {
	case k == 0 && len(ps) > 1:
		shuffleProcs(r, ps)
	case k == 1 && len(ps) > 0:
		i := r.Intn(len(ps))
		ps = append(ps[:i:i], ps[i+1:]...)
	case k == 2 || len(ps) == 0:
		if id := freeID(procIDs(ps), []int{1, 2, 3, 4, 5}, r); id != 0 {
			p := genProc(r, g, id)
			if bad {
				p.Plugin = 100
			}
			at := r.Intn(len(ps) + 1)
			ps = append(ps[:at:at], append([]provx.Proc{p}, ps[at:]...)...)
		}
	case k == 3:
		ps[r.Intn(len(ps))].Settings = r.Intn(3)
	case k == 4:
		ps[r.Intn(len(ps))].Workers = 1 + r.Intn(3)
	case k == 5:
		ps[r.Intn(len(ps))].Plugin = 1 + r.Intn(3)
	case k == 6 && g.conds:
		ps[r.Intn(len(ps))].Cond = r.Intn(3)
	case k == 7 && len(ps) > 1: // rotate: every id keeps its place in the set, order changes
		ps = append(ps[1:len(ps):len(ps)], ps[0])
	default:
		ps[r.Intn(len(ps))].Settings = r.Intn(3)
	}
	return ps
}

func connIDs(cs []provx.Conn) []int {
	out := make([]int, len(cs))
	for i, c := range cs {
		out[i] = c.ID
	}
	return out
}

// mutate derives the next config of a chain. bad makes the result an invalid
// config (a natural failure somewhere inside the import).
func mutate(r *hx.Rand, g genCfg, p provx.Pipe, bad bool) provx.Pipe {
	q := clone(p)
	n := r.Range(1, 3)
	for e := 0; e < n; e++ {
		switch r.Intn(12) {
		case 0:
			q.Name = 1 + r.Intn(3)
		case 1:
			q.Desc = r.Intn(3)
		case 2:
			q.DLQ = genDLQ(r)
		case 3:
			q.Procs = editProcs(r, g, q.Procs, false)
		case 4, 5, 6:
			if len(q.Conns) > 0 {
				i := r.Intn(len(q.Conns))
				q.Conns[i].Procs = editProcs(r, g, q.Conns[i].Procs, false)
			}
		case 7:
			if len(q.Conns) > 0 {
				i := r.Intn(len(q.Conns))
				switch r.Intn(4) {
				case 0:
					q.Conns[i].Src = !q.Conns[i].Src
				case 1:
					q.Conns[i].Plugin = 1 + r.Intn(3)
				case 2:
					q.Conns[i].Name = 1 + r.Intn(3)
				case 3:
					q.Conns[i].Settings = r.Intn(3)
				}
			}
		case 8:
			if len(q.Conns) > 1 {
				i := r.Intn(len(q.Conns))
				q.Conns = append(q.Conns[:i:i], q.Conns[i+1:]...)
			}
		case 9:
			if id := freeID(connIDs(q.Conns), []int{1, 2, 3, 4}, r); id != 0 && len(q.Conns) < 3 {
				at := r.Intn(len(q.Conns) + 1)
				q.Conns = append(q.Conns[:at:at], append([]provx.Conn{genConn(r, g, id)}, q.Conns[at:]...)...)
			}
		case 10:
			if len(q.Conns) > 1 {
				i, j := r.Intn(len(q.Conns)), r.Intn(len(q.Conns))
				q.Conns[i], q.Conns[j] = q.Conns[j], q.Conns[i]
			}
		case 11:
			return genPipe(r, g)
		}
	}
	if bad {
		switch r.Intn(3) {
		case 0:
			q.DLQ.Size, q.DLQ.Thr = 2, 2+r.Intn(2)
		case 1:
			q.Procs = append(q.Procs, provx.Proc{ID: freeOr(procIDs(q.Procs), 6), Plugin: 100, Workers: 1})
		case 2:
			if len(q.Conns) > 0 {
				i := r.Intn(len(q.Conns))
				q.Conns[i].Procs = append(q.Conns[i].Procs, provx.Proc{ID: freeOr(procIDs(q.Conns[i].Procs), 6), Plugin: 100, Workers: 1})
			} else {
				q.DLQ.Size, q.DLQ.Thr = 1, 1
			}
		}
	}
	return q
}

func freeOr(used []int, dflt int) int {
	for x := 1; x <= 5; x++ {
		ok := true
		for _, u := range used {
			if u == x {
				ok = false
			}
		}
		if ok {
			return x
		}
	}
	return dflt
}

func genStates(r *hx.Rand, p provx.Pipe) [][2]int {
	out := [][2]int{}
	for _, c := range p.Conns {
		if r.Chance(2, 3) {
			out = append(out, [2]int{c.ID, 1 + r.Intn(9)})
		}
	}
	return out
}

func genCase(r *hx.Rand) caseIn {
	g := genCfg{conds: r.Chance(1, 4)}
	c := caseIn{Txn: r.Chance(1, 3)}
	n := r.Range(2, 5)
	cur := genPipe(r, g)
	faultStep := -1
	if r.Chance(1, 2) {
		faultStep = r.Intn(n)
	}
	for i := 0; i < n; i++ {
		s := stepIn{Cfg: cur, Fault: -1}
		if i == faultStep {
			if r.Chance(1, 4) && i > 0 {
				s.Cfg = mutate(r, g, c.Steps[i-1].Cfg, true) // natural failure
			} else {
				s.Fault = r.Intn(14)
			}
		}
		s.SetStates = genStates(r, s.Cfg)
		c.Steps = append(c.Steps, s)
		cur = mutate(r, g, cur, false)
	}
	return c
}

// ---------------------------------------------------------------- exhaustive small scope

// pairs enumerates (old, new) over a 2-connector x <=3-processor grammar with one
// change, and for every pair every failing store-write index.
func pairs(emit func(caseIn), shard, shards int) {
	mk := func(n1, n2 int) provx.Pipe {
		procs := func(n int) []provx.Proc {
			out := []provx.Proc{}
			for i := 1; i <= n; i++ {
				out = append(out, pr(i, 1, 0, 1, 0))
			}
			return out
		}
		return basePipe([]provx.Conn{
			{ID: 1, Src: true, Plugin: 1, Name: 1, Procs: procs(n1)},
			{ID: 2, Src: false, Plugin: 1, Name: 2, Procs: procs(n2)},
		}, procs(1))
	}
	var news []func(provx.Pipe) provx.Pipe
	edit := func(f func(*provx.Pipe)) {
		news = append(news, func(p provx.Pipe) provx.Pipe { q := clone(p); f(&q); return q })
	}
	edit(func(q *provx.Pipe) { q.Name = 2 })
	edit(func(q *provx.Pipe) { q.DLQ = provx.DLQ{Plugin: 2, Settings: 2, Size: 3, Thr: 1} })
	edit(func(q *provx.Pipe) { q.Conns[0].Settings = 1 })
	edit(func(q *provx.Pipe) { q.Conns[0].Plugin = 2 })
	edit(func(q *provx.Pipe) { q.Conns[0].Src = false })
	edit(func(q *provx.Pipe) { q.Conns = q.Conns[1:] })
	edit(func(q *provx.Pipe) { q.Conns[0], q.Conns[1] = q.Conns[1], q.Conns[0] })
	edit(func(q *provx.Pipe) {
		q.Conns = append(q.Conns, provx.Conn{ID: 3, Src: false, Plugin: 1, Name: 3, Procs: []provx.Proc{pr(1, 1, 0, 1, 0)}})
	})
	edit(func(q *provx.Pipe) {
		ps := q.Conns[0].Procs
		if len(ps) > 1 {
			ps[0], ps[len(ps)-1] = ps[len(ps)-1], ps[0]
		}
	})
	edit(func(q *provx.Pipe) {
		if len(q.Conns[0].Procs) > 0 {
			q.Conns[0].Procs = q.Conns[0].Procs[1:]
		}
	})
	edit(func(q *provx.Pipe) { q.Conns[0].Procs = append(q.Conns[0].Procs, pr(5, 2, 1, 1, 0)) })
	edit(func(q *provx.Pipe) {
		if len(q.Conns[1].Procs) > 0 {
			q.Conns[1].Procs[0].Workers = 2
		}
	})
	edit(func(q *provx.Pipe) {
		if len(q.Conns[1].Procs) > 0 {
			q.Conns[1].Procs[0].Cond = 1
		}
	})
	edit(func(q *provx.Pipe) { q.Procs = nil })
	edit(func(q *provx.Pipe) { q.Procs = append(q.Procs, pr(2, 1, 0, 1, 0)) })
	edit(func(q *provx.Pipe) { q.Procs[0].Plugin = 2 })
	k := 0
	for n1 := 0; n1 <= 3; n1++ {
		for n2 := 0; n2 <= 3; n2++ {
			old := mk(n1, n2)
			for _, f := range news {
				k++
				if k%shards != shard {
					continue
				}
				nw := f(old)
				st := [][2]int{{1, 3}, {2, 4}}
				base := caseIn{Steps: []stepIn{{Cfg: old, Fault: -1, SetStates: st}, {Cfg: nw, Fault: -1, SetStates: [][2]int{}}}}
				obs := run(base)
				emit(base)
				nops := len(obs[1].Trace)
				for i := 0; i < nops; i++ {
					for _, txn := range []bool{false, true} {
						emit(caseIn{Txn: txn, Steps: []stepIn{{Cfg: old, Fault: -1, SetStates: st}, {Cfg: nw, Fault: i, SetStates: [][2]int{}}}})
					}
				}
			}
		}
	}
}

// ---------------------------------------------------------------- main

func caseFromJSON(m map[string]any) caseIn {
	in, ok := m["input"]
	if !ok {
		in = m
	}
	b, err := json.Marshal(in)
	if err != nil {
		panic(err)
	}
	var c caseIn
	dec := json.NewDecoder(strings.NewReader(string(b)))
	if err := dec.Decode(&c); err != nil {
		panic(err)
	}
	for i := range c.Steps {
		if c.Steps[i].SetStates == nil {
			c.Steps[i].SetStates = [][2]int{}
		}
	}
	for i := range c.Rounds {
		if c.Rounds[i].SetStates == nil {
			c.Rounds[i].SetStates = [][3]int{}
		}
		if c.Rounds[i].Dir == nil {
			c.Rounds[i].Dir = []dirEntry{}
		}
	}
	return c
}

func main() {
	o := hx.ParseFlags()
	switch o.Mode {
	case "gen":
		if err := genMode(o.Out); err != nil {
			fmt.Fprintln(os.Stderr, err)
			os.Exit(3)
		}
		return
	case "probe":
		b, _ := json.Marshal(probe())
		fmt.Println(string(b))
		return
	}
	w, err := hx.NewWriter(o, "From Verif Require Import Base.CaseCheck Prov.Import Prov.Check Prov.Init Prov.InitCheck.", "dcase")
	if err != nil {
		fmt.Fprintln(os.Stderr, err)
		os.Exit(2)
	}
	fl := probe()
	emit := func(c caseIn) {
		if len(c.Rounds) > 0 {
			obs0, obs := runDir(c)
			w.Add(map[string]any{"input": c, "observed": map[string]any{"flags": fl, "before": obs0, "rounds": obs}},
				coqDirCase(fl, c, obs0, obs))
			return
		}
		obs := run(c)
		w.Add(map[string]any{"input": c, "observed": map[string]any{"flags": fl, "steps": obs}}, "Imp ("+coqCase(fl, c, obs)+")")
	}
	switch {
	case o.Replay != "":
		cs, err := hx.ReadJSONL(o.Replay)
		if err != nil {
			fmt.Fprintln(os.Stderr, err)
			os.Exit(2)
		}
		for _, m := range cs {
			if inner, ok := m["case"].(map[string]any); ok { // a replay file written by the driver
				m = inner
			}
			var c caseIn
			if !hx.Try(func() { c = caseFromJSON(m) }) {
				continue
			}
			emit(c)
		}
	case o.Mode == "pairs":
		pairs(emit, o.Shard, o.Shards)
	case o.Mode == "dir":
		root := hx.NewRand(o.Seed ^ 0x5d1f)
		for i := 0; i < o.N; i++ {
			emit(genDirCase(root.Fork(uint64(o.Shard)<<32 | uint64(i))))
		}
	default:
		root := hx.NewRand(o.Seed)
		for i := 0; i < o.N; i++ {
			emit(genCase(root.Fork(uint64(o.Shard)<<32 | uint64(i))))
		}
	}
	if err := w.Close("chkd"); err != nil {
		fmt.Fprintln(os.Stderr, err)
		os.Exit(2)
	}
	fmt.Printf("cases=%d\n", w.Count())
}
