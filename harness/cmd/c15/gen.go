package main

// Translator for C15: reads the provisioning sources of $VERIF_REPO with go/parser
// and emits GenProv.v: the config struct field lists, the mutable / immutable /
// ignored field classes, the field list of every *ToConfig export literal, the
// config fields every create / update action hands to the services, and
// pipeline.DefaultDLQ's window constants.

import (
	"fmt"
	"go/ast"
	"go/parser"
	"go/token"
	"os"
	"path/filepath"
	"sort"
	"strconv"
	"strings"
)

func repoRoot() string {
	if r := os.Getenv("VERIF_REPO"); r != "" {
		return r
	}
	return "/repo"
}

func parseFile(rel string) (*ast.File, error) {
	return parser.ParseFile(token.NewFileSet(), filepath.Join(repoRoot(), rel), nil, 0)
}

func structFields(f *ast.File, name string) ([]string, error) {
	var out []string
	found := false
	ast.Inspect(f, func(n ast.Node) bool {
		ts, ok := n.(*ast.TypeSpec)
		if !ok || ts.Name.Name != name {
			return true
		}
		st, ok := ts.Type.(*ast.StructType)
		if !ok {
			return true
		}
		found = true
		for _, fld := range st.Fields.List {
			for _, id := range fld.Names {
				out = append(out, id.Name)
			}
		}
		return false
	})
	if !found {
		return nil, fmt.Errorf("struct %s not found", name)
	}
	return out, nil
}

func stringSliceVar(f *ast.File, name string) ([]string, error) {
	var out []string
	found := false
	ast.Inspect(f, func(n ast.Node) bool {
		vs, ok := n.(*ast.ValueSpec)
		if !ok {
			return true
		}
		for i, id := range vs.Names {
			if id.Name != name || i >= len(vs.Values) {
				continue
			}
			cl, ok := vs.Values[i].(*ast.CompositeLit)
			if !ok {
				continue
			}
			found = true
			for _, e := range cl.Elts {
				if bl, ok := e.(*ast.BasicLit); ok && bl.Kind == token.STRING {
					s, _ := strconv.Unquote(bl.Value)
					out = append(out, s)
				}
			}
		}
		return true
	})
	if !found {
		return nil, fmt.Errorf("var %s not found", name)
	}
	return out, nil
}

func recvName(fd *ast.FuncDecl) string {
	if fd.Recv == nil || len(fd.Recv.List) == 0 {
		return ""
	}
	t := fd.Recv.List[0].Type
	if s, ok := t.(*ast.StarExpr); ok {
		t = s.X
	}
	if id, ok := t.(*ast.Ident); ok {
		return id.Name
	}
	return ""
}

func findFunc(f *ast.File, recv, name string) *ast.FuncDecl {
	for _, d := range f.Decls {
		if fd, ok := d.(*ast.FuncDecl); ok && fd.Name.Name == name && (recv == "" || recvName(fd) == recv) {
			return fd
		}
	}
	return nil
}

// literalKeys returns the keys of the first composite literal of type config.<typ> in fd.
func literalKeys(fd *ast.FuncDecl, typ string) ([]string, error) {
	var out []string
	found := false
	ast.Inspect(fd, func(n ast.Node) bool {
		cl, ok := n.(*ast.CompositeLit)
		if !ok || found {
			return !found
		}
		se, ok := cl.Type.(*ast.SelectorExpr)
		if !ok || se.Sel.Name != typ {
			return true
		}
		found = true
		for _, e := range cl.Elts {
			if kv, ok := e.(*ast.KeyValueExpr); ok {
				if id, ok := kv.Key.(*ast.Ident); ok {
					// "Connectors: nil, // extracted separately" still counts: Export fills it
					out = append(out, id.Name)
				}
			}
		}
		return false
	})
	if !found {
		return nil, fmt.Errorf("no config.%s literal in %s", typ, fd.Name.Name)
	}
	return out, nil
}

// cfgRefs collects the config fields a function reads: selector chains rooted at
// the identifier cfg or at a.cfg ("Name", "DLQ.Plugin", ...).
func cfgRefs(fd *ast.FuncDecl) []string {
	set := map[string]bool{}
	var chain func(e ast.Expr) ([]string, bool)
	chain = func(e ast.Expr) ([]string, bool) {
		switch x := e.(type) {
		case *ast.Ident:
			return nil, x.Name == "cfg"
		case *ast.SelectorExpr:
			if id, ok := x.X.(*ast.Ident); ok && id.Name == "a" && x.Sel.Name == "cfg" {
				return nil, true
			}
			p, ok := chain(x.X)
			if !ok {
				return nil, false
			}
			return append(p, x.Sel.Name), true
		case *ast.StarExpr:
			return chain(x.X)
		case *ast.ParenExpr:
			return chain(x.X)
		}
		return nil, false
	}
	ast.Inspect(fd, func(n ast.Node) bool {
		if se, ok := n.(*ast.SelectorExpr); ok {
			if p, ok := chain(se); ok && len(p) > 0 {
				set[p[0]] = true
				if len(p) > 1 && p[0] == "DLQ" {
					set["DLQ."+p[1]] = true
				}
			}
		}
		return true
	})
	out := make([]string, 0, len(set))
	for k := range set {
		out = append(out, k)
	}
	sort.Strings(out)
	return out
}

func coqStrs(ss []string) string {
	q := make([]string, len(ss))
	for i, s := range ss {
		q[i] = "\"" + s + "\""
	}
	return "[" + strings.Join(q, "; ") + "]"
}

func intField(f *ast.File, varName, field string) (int, error) {
	res, found := 0, false
	ast.Inspect(f, func(n ast.Node) bool {
		vs, ok := n.(*ast.ValueSpec)
		if !ok {
			return true
		}
		for i, id := range vs.Names {
			if id.Name != varName || i >= len(vs.Values) {
				continue
			}
			cl, ok := vs.Values[i].(*ast.CompositeLit)
			if !ok {
				continue
			}
			for _, e := range cl.Elts {
				kv, ok := e.(*ast.KeyValueExpr)
				if !ok {
					continue
				}
				if k, ok := kv.Key.(*ast.Ident); ok && k.Name == field {
					if bl, ok := kv.Value.(*ast.BasicLit); ok && bl.Kind == token.INT {
						res, _ = strconv.Atoi(bl.Value)
						found = true
					}
				}
			}
		}
		return true
	})
	if !found {
		return 0, fmt.Errorf("%s.%s not found", varName, field)
	}
	return res, nil
}

func genMode(out string) error {
	if err := os.MkdirAll(out, 0o755); err != nil {
		return err
	}
	var b strings.Builder
	b.WriteString("(* GENERATED from " + repoRoot() + " by harness/cmd/c15 --mode gen. Do not edit. *)\n")
	b.WriteString("From Coq Require Import List String.\nImport ListNotations.\nOpen Scope string_scope.\n")
	b.WriteString("From Verif Require Import Prov.Fields.\n\n")

	pf, err := parseFile("pkg/provisioning/config/parser.go")
	if err != nil {
		return err
	}
	def := func(name string, v []string, err error) error {
		if err != nil {
			return fmt.Errorf("%s: %w", name, err)
		}
		fmt.Fprintf(&b, "Definition %s : list string := %s.\n", name, coqStrs(v))
		return nil
	}
	for _, s := range [][2]string{{"g_pipeline_fields", "Pipeline"}, {"g_connector_fields", "Connector"},
		{"g_processor_fields", "Processor"}, {"g_dlq_fields", "DLQ"}} {
		v, err := structFields(pf, s[1])
		if err := def(s[0], v, err); err != nil {
			return err
		}
	}
	for _, s := range [][2]string{{"g_pipeline_mutable", "PipelineMutableFields"}, {"g_pipeline_ignored", "PipelineIgnoredFields"},
		{"g_connector_immutable", "ConnectorImmutableFields"}, {"g_connector_mutable", "ConnectorMutableFields"}} {
		v, err := stringSliceVar(pf, s[1])
		if err := def(s[0], v, err); err != nil {
			return err
		}
	}

	ef, err := parseFile("pkg/provisioning/export.go")
	if err != nil {
		return err
	}
	for _, s := range [][3]string{{"g_exp_pipeline", "pipelineToConfig", "Pipeline"}, {"g_exp_dlq", "dlqToConfig", "DLQ"},
		{"g_exp_connector", "connectorToConfig", "Connector"}, {"g_exp_processor", "processorToConfig", "Processor"}} {
		fd := findFunc(ef, "", s[1])
		if fd == nil {
			return fmt.Errorf("export.go: func %s not found", s[1])
		}
		v, err := literalKeys(fd, s[2])
		if err := def(s[0], v, err); err != nil {
			return err
		}
	}

	af, err := parseFile("pkg/provisioning/import_actions.go")
	if err != nil {
		return err
	}
	for _, s := range [][3]string{
		{"g_create_pipeline", "createPipelineAction", "Do"}, {"g_update_pipeline", "updatePipelineAction", "update"},
		{"g_create_connector", "createConnectorAction", "Do"}, {"g_update_connector", "updateConnectorAction", "update"},
		{"g_create_processor", "createProcessorAction", "Do"}, {"g_update_processor", "updateProcessorAction", "update"}} {
		fd := findFunc(af, s[1], s[2])
		if fd == nil {
			return fmt.Errorf("import_actions.go: method %s.%s not found", s[1], s[2])
		}
		if err := def(s[0], cfgRefs(fd), nil); err != nil {
			return err
		}
	}

	inf, err := parseFile("pkg/pipeline/instance.go")
	if err != nil {
		return err
	}
	ws, err := intField(inf, "DefaultDLQ", "WindowSize")
	if err != nil {
		return err
	}
	wt, err := intField(inf, "DefaultDLQ", "WindowNackThreshold")
	if err != nil {
		return err
	}
	fmt.Fprintf(&b, "Definition g_default_dlq_size : nat := %d.\nDefinition g_default_dlq_thr : nat := %d.\n\n", ws, wt)

	b.WriteString(`Definition g_tables : tables :=
  mkTables g_pipeline_fields g_connector_fields g_processor_fields g_dlq_fields
           g_pipeline_mutable g_pipeline_ignored g_connector_immutable g_connector_mutable
           g_exp_pipeline g_exp_dlq g_exp_connector g_exp_processor
           g_create_pipeline g_update_pipeline g_create_connector g_update_connector
           g_create_processor g_update_processor g_default_dlq_size g_default_dlq_thr.
`)
	return os.WriteFile(filepath.Join(out, "GenProv.v"), []byte(b.String()), 0o644)
}
