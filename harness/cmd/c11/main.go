// Harness for C11 ("start, stop and wait always act on the one live run and report its true
// result"): drives the REAL lifecycle service of both engines (lib/lifex) through generated
// histories of control calls with the publication windows (status writes, plugin opens, plugin
// dispensing) held open by gates, and writes the observed event log of every history as a Coq case.
package main

import (
	"os"
	"path/filepath"

	"verifharness/lib/lifex"
)

func main() {
	corpus := os.Getenv("VERIF_CORPUS_C11")
	if corpus == "" {
		corpus = filepath.Join("/verif/corpus/C11", "regress.jsonl")
	}
	lifex.Main("chk11", lifex.GenC11, corpus)
}
