// Case writer of the C18 harness. Same files and same contract as hx.Writer
// (cases_<shard>.jsonl with {"idx","input","observed"} per line, cases_<shard>.v
// printing  R = [(idx, code); ...]), but the .v file is laid out for fast
// elaboration: every distinct string literal is defined once and referred to by
// name, and the case list is cut into chunks of 100 (one big list literal of a few
// thousand cases costs Coq several times more than the evaluation itself).
package main

import (
	"bufio"
	"encoding/json"
	"fmt"
	"os"
	"path/filepath"
	"regexp"
	"strings"

	"verifharness/lib/hx"
)

type caseWriter struct {
	jf     *os.File
	jw     *bufio.Writer
	vpath  string
	header string
	ctype  string
	terms  []string
	n      int
}

func newCaseWriter(o hx.Opts, header, ctype string) (*caseWriter, error) {
	if err := os.MkdirAll(o.Out, 0o755); err != nil {
		return nil, err
	}
	base := filepath.Join(o.Out, fmt.Sprintf("cases_%d", o.Shard))
	jf, err := os.Create(base + ".jsonl")
	if err != nil {
		return nil, err
	}
	return &caseWriter{jf: jf, jw: bufio.NewWriter(jf), vpath: base + ".v", header: header, ctype: ctype}, nil
}

func (w *caseWriter) Add(js map[string]any, coq string) int {
	idx := w.n
	js["idx"] = idx
	b, err := json.Marshal(js)
	if err != nil {
		panic(err)
	}
	w.jw.Write(b)
	w.jw.WriteByte('\n')
	w.terms = append(w.terms, fmt.Sprintf("(%d%%N, %s)", idx, coq))
	w.n++
	return idx
}

func (w *caseWriter) Count() int { return w.n }

var strLit = regexp.MustCompile(`"(?:[^"]|"")*"%string`)

func (w *caseWriter) Close(chk string) error {
	if err := w.jw.Flush(); err != nil {
		return err
	}
	if err := w.jf.Close(); err != nil {
		return err
	}
	names := map[string]string{}
	var order []string
	for i, t := range w.terms {
		w.terms[i] = strLit.ReplaceAllStringFunc(t, func(lit string) string {
			n, ok := names[lit]
			if !ok {
				n = fmt.Sprintf("str_%d", len(order))
				names[lit] = n
				order = append(order, lit)
			}
			return n
		})
	}
	var b strings.Builder
	b.WriteString(w.header)
	b.WriteString("\n")
	for _, lit := range order {
		fmt.Fprintf(&b, "Definition %s := %s.\n", names[lit], lit)
	}
	const chunk = 100
	var parts []string
	for i := 0; i < len(w.terms); i += chunk {
		j := i + chunk
		if j > len(w.terms) {
			j = len(w.terms)
		}
		name := fmt.Sprintf("cases_%d", i/chunk)
		fmt.Fprintf(&b, "Definition %s : list (N * %s) := [\n%s\n].\n", name, w.ctype, strings.Join(w.terms[i:j], ";\n"))
		parts = append(parts, fmt.Sprintf("failing %s %s", chk, name))
	}
	if len(parts) == 0 {
		parts = []string{"(@nil (N * nat))"}
	}
	fmt.Fprintf(&b, "Definition R := Eval vm_compute in (%s).\nPrint R.\n", strings.Join(parts, "\n  ++ "))
	return os.WriteFile(w.vpath, []byte(b.String()), 0o644)
}
