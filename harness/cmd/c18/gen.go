// Translator for C18: reads the Go sources of pkg/plugin/processor/egress in the
// tree under test and extracts, as data, what the model is parameterised by:
//
//	ipguard.go  refusedV4 / refusedV6 CIDR literals with their reasons, the
//	            package-level nets (nat64Net, v4TranslatedNet), the ordered guards of
//	            classifyV4 and of Refuse (range-over-table, net.Contains, byte tests,
//	            isV4Compatible), the reason constants
//	policy.go   DefaultTimeout, DefaultMaxResponseBytes
//	service.go  reservedHeaders keys, Transport{Proxy: nil, DialContext: s.dialContext(base)},
//	            Dialer{Control: s.dialControl}, CheckRedirect returning an error
//
// Only go/parser, go/ast, go/token, go/printer are used. A construct that is not
// recognised is an error ("lost construct"), never silently skipped.
package main

import (
	"bytes"
	"fmt"
	"go/ast"
	"go/parser"
	"go/printer"
	"go/token"
	"math/big"
	"net"
	"os"
	"path/filepath"
	"sort"
	"strconv"
	"strings"
)

// ---------- the extracted configuration ----------

type Cidr struct {
	Bits   int      // 32 or 128
	Base   *big.Int // network address
	Plen   int
	Reason string
	Lit    string // the literal as written
}

type BTest struct {
	Idx int
	Op  string // == != >= > <= <
	Val int64
}

type Guard struct {
	Kind   string // table | cidr | bytes | compat
	Table  []Cidr // table
	Net    Cidr   // cidr
	Tests  []BTest
	Reason string
	Src    string // where it came from (for messages)
}

type Cfg struct {
	G4, G6        []Guard
	RUnparseable  string
	RMapped       string
	RNone         string
	DefTimeout    int64
	DefMaxResp    int64
	Reserved      []string
	ProxyNil      bool
	RedirectErr   bool
	ControlHooked bool
	DialHooked    bool
	NoOtherDialer bool
	Problems      []string // lost constructs
}

type genState struct {
	fset    *token.FileSet
	consts  map[string]string // string constants (reasons, header names)
	tables  map[string][]Cidr
	nets    map[string]Cidr
	cfg     *Cfg
	srcByFn map[string]*ast.FuncDecl
}

func (g *genState) problem(format string, a ...any) {
	g.cfg.Problems = append(g.cfg.Problems, fmt.Sprintf(format, a...))
}

func (g *genState) text(n ast.Node) string {
	var b bytes.Buffer
	_ = printer.Fprint(&b, g.fset, n)
	return strings.Join(strings.Fields(b.String()), " ")
}

func parseCIDRLit(lit string) (Cidr, error) {
	ip, n, err := net.ParseCIDR(lit)
	if err != nil {
		return Cidr{}, err
	}
	_ = ip
	ones, bits := n.Mask.Size()
	if bits != 32 && bits != 128 {
		return Cidr{}, fmt.Errorf("non-canonical mask in %q", lit)
	}
	base := new(big.Int).SetBytes(n.IP)
	if strings.Contains(lit, ":") && bits == 32 {
		return Cidr{}, fmt.Errorf("v6 literal %q parsed as v4", lit)
	}
	return Cidr{Bits: bits, Base: base, Plen: ones, Lit: lit}, nil
}

// mustCIDR("lit") -> Cidr
func (g *genState) cidrCall(e ast.Expr) (Cidr, bool) {
	c, ok := e.(*ast.CallExpr)
	if !ok || len(c.Args) != 1 {
		return Cidr{}, false
	}
	id, ok := c.Fun.(*ast.Ident)
	if !ok || id.Name != "mustCIDR" {
		return Cidr{}, false
	}
	bl, ok := c.Args[0].(*ast.BasicLit)
	if !ok || bl.Kind != token.STRING {
		return Cidr{}, false
	}
	s, err := strconv.Unquote(bl.Value)
	if err != nil {
		return Cidr{}, false
	}
	cd, err := parseCIDRLit(s)
	if err != nil {
		g.problem("CIDR literal %s: %v", bl.Value, err)
		return Cidr{}, false
	}
	return cd, true
}

func (g *genState) collectDecls(f *ast.File) {
	for _, d := range f.Decls {
		switch d := d.(type) {
		case *ast.FuncDecl:
			name := d.Name.Name
			if d.Recv != nil && len(d.Recv.List) == 1 {
				name = g.text(d.Recv.List[0].Type) + "." + name
			}
			g.srcByFn[name] = d
		case *ast.GenDecl:
			for _, sp := range d.Specs {
				vs, ok := sp.(*ast.ValueSpec)
				if !ok {
					continue
				}
				for i, nm := range vs.Names {
					if i >= len(vs.Values) {
						continue
					}
					v := vs.Values[i]
					if d.Tok == token.CONST {
						if bl, ok := v.(*ast.BasicLit); ok && bl.Kind == token.STRING {
							if s, err := strconv.Unquote(bl.Value); err == nil {
								g.consts[nm.Name] = s
							}
						}
						continue
					}
					// var X = mustCIDR("...")
					if cd, ok := g.cidrCall(v); ok {
						g.nets[nm.Name] = cd
						continue
					}
					// var T = []struct{...}{ {mustCIDR("..."), reason}, ... }
					if cl, ok := v.(*ast.CompositeLit); ok {
						if _, isArr := cl.Type.(*ast.ArrayType); isArr && strings.HasPrefix(nm.Name, "refused") {
							var tbl []Cidr
							good := true
							for _, el := range cl.Elts {
								row, ok := el.(*ast.CompositeLit)
								if !ok || len(row.Elts) != 2 {
									good = false
									break
								}
								cd, ok := g.cidrCall(row.Elts[0])
								if !ok {
									good = false
									break
								}
								rid, ok := row.Elts[1].(*ast.Ident)
								if !ok {
									good = false
									break
								}
								r, ok := g.consts[rid.Name]
								if !ok {
									g.problem("table %s: unknown reason constant %s", nm.Name, rid.Name)
									good = false
									break
								}
								cd.Reason = r
								tbl = append(tbl, cd)
							}
							if good {
								g.tables[nm.Name] = tbl
							} else {
								g.problem("table %s: row shape not recognised", nm.Name)
							}
						}
					}
				}
			}
		}
	}
}

// the reason returned by a `return [true,] reasonX` statement
func (g *genState) returnReason(s ast.Stmt, rowVar string) (reason string, isRow bool, ok bool) {
	rs, ok2 := s.(*ast.ReturnStmt)
	if !ok2 || len(rs.Results) == 0 || len(rs.Results) > 2 {
		return "", false, false
	}
	last := rs.Results[len(rs.Results)-1]
	if len(rs.Results) == 2 {
		if id, ok := rs.Results[0].(*ast.Ident); !ok || id.Name != "true" {
			return "", false, false
		}
	}
	switch e := last.(type) {
	case *ast.Ident:
		if r, ok := g.consts[e.Name]; ok {
			return r, false, true
		}
	case *ast.SelectorExpr:
		if x, ok := e.X.(*ast.Ident); ok && rowVar != "" && x.Name == rowVar && e.Sel.Name == "reason" {
			return "", true, true
		}
	}
	return "", false, false
}

func opString(t token.Token) (string, bool) {
	switch t {
	case token.EQL:
		return "==", true
	case token.NEQ:
		return "!=", true
	case token.GEQ:
		return ">=", true
	case token.GTR:
		return ">", true
	case token.LEQ:
		return "<=", true
	case token.LSS:
		return "<", true
	}
	return "", false
}

// cond as a conjunction of  X[i] op const
func (g *genState) byteTests(e ast.Expr, varName string, bits int) ([]BTest, bool) {
	if p, ok := e.(*ast.ParenExpr); ok {
		return g.byteTests(p.X, varName, bits)
	}
	be, ok := e.(*ast.BinaryExpr)
	if !ok {
		return nil, false
	}
	if be.Op == token.LAND {
		l, ok1 := g.byteTests(be.X, varName, bits)
		r, ok2 := g.byteTests(be.Y, varName, bits)
		if !ok1 || !ok2 {
			return nil, false
		}
		return append(l, r...), true
	}
	op, ok := opString(be.Op)
	if !ok {
		return nil, false
	}
	ix, ok := be.X.(*ast.IndexExpr)
	if !ok {
		return nil, false
	}
	x, ok := ix.X.(*ast.Ident)
	if !ok || x.Name != varName {
		return nil, false
	}
	il, ok := ix.Index.(*ast.BasicLit)
	if !ok || il.Kind != token.INT {
		return nil, false
	}
	idx, err := strconv.ParseInt(il.Value, 0, 32)
	if err != nil || idx < 0 || int(idx) >= bits/8 {
		return nil, false
	}
	vl, ok := be.Y.(*ast.BasicLit)
	if !ok || vl.Kind != token.INT {
		return nil, false
	}
	val, err := strconv.ParseInt(vl.Value, 0, 64)
	if err != nil || val < 0 || val > 255 {
		return nil, false
	}
	return []BTest{{Idx: int(idx), Op: op, Val: val}}, true
}

// one guard statement of classifyV4 / Refuse
func (g *genState) guardOf(s ast.Stmt, varName string, bits int, where string) (Guard, bool) {
	switch s := s.(type) {
	case *ast.RangeStmt:
		tid, ok := s.X.(*ast.Ident)
		if !ok {
			return Guard{}, false
		}
		tbl, ok := g.tables[tid.Name]
		if !ok {
			return Guard{}, false
		}
		rv, ok := s.Value.(*ast.Ident)
		if !ok || len(s.Body.List) != 1 {
			return Guard{}, false
		}
		is, ok := s.Body.List[0].(*ast.IfStmt)
		if !ok || is.Init != nil || is.Else != nil || len(is.Body.List) != 1 {
			return Guard{}, false
		}
		if g.text(is.Cond) != rv.Name+".net.Contains("+varName+")" {
			return Guard{}, false
		}
		if _, isRow, ok := g.returnReason(is.Body.List[0], rv.Name); !ok || !isRow {
			return Guard{}, false
		}
		for _, c := range tbl {
			if c.Bits != bits {
				g.problem("%s: table %s holds %s which is not a %d-bit network", where, tid.Name, c.Lit, bits)
			}
		}
		return Guard{Kind: "table", Table: tbl, Src: tid.Name}, true
	case *ast.IfStmt:
		if s.Init != nil || s.Else != nil || len(s.Body.List) != 1 {
			return Guard{}, false
		}
		reason, isRow, ok := g.returnReason(s.Body.List[0], "")
		if !ok || isRow {
			return Guard{}, false
		}
		if nr, has := g.consts["reasonNotRefused"]; !has || reason == nr {
			return Guard{}, false // an allow-exception is not a refusing guard
		}
		// someNet.Contains(x)
		if c, ok := s.Cond.(*ast.CallExpr); ok {
			if sel, ok := c.Fun.(*ast.SelectorExpr); ok && sel.Sel.Name == "Contains" && len(c.Args) == 1 {
				if nid, ok := sel.X.(*ast.Ident); ok && g.text(c.Args[0]) == varName {
					if cd, ok := g.nets[nid.Name]; ok {
						if cd.Bits != bits {
							g.problem("%s: %s is not a %d-bit network", where, nid.Name, bits)
						}
						cd.Reason = reason
						return Guard{Kind: "cidr", Net: cd, Reason: reason, Src: nid.Name}, true
					}
				}
			}
			if fid, ok := c.Fun.(*ast.Ident); ok && fid.Name == "isV4Compatible" && len(c.Args) == 1 && g.text(c.Args[0]) == varName && bits == 128 {
				return Guard{Kind: "compat", Reason: reason, Src: "isV4Compatible"}, true
			}
			return Guard{}, false
		}
		if ts, ok := g.byteTests(s.Cond, varName, bits); ok {
			return Guard{Kind: "bytes", Tests: ts, Reason: reason, Src: g.text(s.Cond)}, true
		}
	}
	return Guard{}, false
}

const (
	wantClassifyHead1 = `v4 := ip.To4()`
	wantClassifyHead2 = `if v4 == nil { return reasonUnparseable }`
	wantRefuseHead1   = `if ip == nil { return true, reasonUnparseable }`
	wantRefuseHead2   = `ip16 := ip.To16()`
	wantRefuseHead3   = `if ip16 == nil { return true, reasonUnparseable }`
	wantRefuseV4      = `if v4 := ip.To4(); v4 != nil { if r := classifyV4(v4); r != reasonNotRefused { if len(ip) == net.IPv6len && !isRawV4(ip) { return true, reasonV4Mapped } return true, r } return false, reasonNotRefused }`
	wantIsRawV4       = `{ return len(ip) == net.IPv4len }`
	wantCompat        = `{ for i := 0; i < 12; i++ { if ip16[i] != 0 { return false } } last4 := ip16[12:16] return last4[0] != 0 || last4[1] != 0 || last4[2] != 0 || (last4[3] != 0 && last4[3] != 1) }`
)

// strip comments: printer.Fprint on a node without the file's comment map prints none
func (g *genState) expectStmt(where string, s ast.Stmt, want string) {
	if got := g.text(s); got != want {
		g.problem("%s: expected `%s`, found `%s`", where, want, got)
	}
}

func (g *genState) doIpguard() {
	// classifyV4
	fn := g.srcByFn["classifyV4"]
	if fn == nil || fn.Body == nil || len(fn.Body.List) < 3 {
		g.problem("classifyV4 not found")
	} else {
		l := fn.Body.List
		g.expectStmt("classifyV4", l[0], wantClassifyHead1)
		g.expectStmt("classifyV4", l[1], wantClassifyHead2)
		for _, s := range l[2 : len(l)-1] {
			gd, ok := g.guardOf(s, "v4", 32, "classifyV4")
			if !ok {
				g.problem("classifyV4: statement not recognised: `%s`", g.text(s))
				continue
			}
			g.cfg.G4 = append(g.cfg.G4, gd)
		}
		g.expectStmt("classifyV4", l[len(l)-1], "return reasonNotRefused")
	}
	// Refuse
	fn = g.srcByFn["Refuse"]
	if fn == nil || fn.Body == nil || len(fn.Body.List) < 5 {
		g.problem("Refuse not found")
	} else {
		l := fn.Body.List
		g.expectStmt("Refuse", l[0], wantRefuseHead1)
		g.expectStmt("Refuse", l[1], wantRefuseHead2)
		g.expectStmt("Refuse", l[2], wantRefuseHead3)
		g.expectStmt("Refuse", l[3], wantRefuseV4)
		for _, s := range l[4 : len(l)-1] {
			gd, ok := g.guardOf(s, "ip16", 128, "Refuse")
			if !ok {
				g.problem("Refuse: statement not recognised: `%s`", g.text(s))
				continue
			}
			g.cfg.G6 = append(g.cfg.G6, gd)
		}
		g.expectStmt("Refuse", l[len(l)-1], "return false, reasonNotRefused")
	}
	if fn := g.srcByFn["isRawV4"]; fn == nil || g.text(fn.Body) != wantIsRawV4 {
		g.problem("isRawV4: body not recognised")
	}
	if fn := g.srcByFn["isV4Compatible"]; fn == nil || g.text(fn.Body) != wantCompat {
		got := ""
		if fn != nil {
			got = g.text(fn.Body)
		}
		g.problem("isV4Compatible: body not recognised: `%s`", got)
	}
	for name, dst := range map[string]*string{"reasonUnparseable": &g.cfg.RUnparseable, "reasonV4Mapped": &g.cfg.RMapped, "reasonNotRefused": &g.cfg.RNone} {
		v, ok := g.consts[name]
		if !ok {
			g.problem("constant %s not found", name)
		}
		*dst = v
	}
}

// integer constant expressions of policy.go:  30 * time.Second,  4 << 20
func evalConst(e ast.Expr) (int64, bool) {
	switch e := e.(type) {
	case *ast.BasicLit:
		if e.Kind == token.INT {
			v, err := strconv.ParseInt(e.Value, 0, 64)
			return v, err == nil
		}
	case *ast.ParenExpr:
		return evalConst(e.X)
	case *ast.SelectorExpr:
		if x, ok := e.X.(*ast.Ident); ok && x.Name == "time" {
			switch e.Sel.Name {
			case "Nanosecond":
				return 1, true
			case "Microsecond":
				return 1e3, true
			case "Millisecond":
				return 1e6, true
			case "Second":
				return 1e9, true
			case "Minute":
				return 60e9, true
			case "Hour":
				return 3600e9, true
			}
		}
	case *ast.BinaryExpr:
		a, ok1 := evalConst(e.X)
		b, ok2 := evalConst(e.Y)
		if !ok1 || !ok2 {
			return 0, false
		}
		switch e.Op {
		case token.MUL:
			return a * b, true
		case token.ADD:
			return a + b, true
		case token.SUB:
			return a - b, true
		case token.SHL:
			return a << uint(b), true
		case token.QUO:
			if b != 0 {
				return a / b, true
			}
		}
	}
	return 0, false
}

func (g *genState) doPolicy(f *ast.File) {
	found := map[string]bool{}
	for _, d := range f.Decls {
		gd, ok := d.(*ast.GenDecl)
		if !ok || gd.Tok != token.CONST {
			continue
		}
		for _, sp := range gd.Specs {
			vs := sp.(*ast.ValueSpec)
			for i, nm := range vs.Names {
				if i >= len(vs.Values) {
					continue
				}
				switch nm.Name {
				case "DefaultTimeout", "DefaultMaxResponseBytes":
					v, ok := evalConst(vs.Values[i])
					if !ok {
						g.problem("policy.go: cannot evaluate %s = %s", nm.Name, g.text(vs.Values[i]))
						continue
					}
					found[nm.Name] = true
					if nm.Name == "DefaultTimeout" {
						g.cfg.DefTimeout = v
					} else {
						g.cfg.DefMaxResp = v
					}
				}
			}
		}
	}
	for _, n := range []string{"DefaultTimeout", "DefaultMaxResponseBytes"} {
		if !found[n] {
			g.problem("policy.go: constant %s not found", n)
		}
	}
}

func (g *genState) doService(f *ast.File) {
	// reservedHeaders
	foundRes := false
	ast.Inspect(f, func(n ast.Node) bool {
		vs, ok := n.(*ast.ValueSpec)
		if !ok || len(vs.Names) != 1 || vs.Names[0].Name != "reservedHeaders" || len(vs.Values) != 1 {
			return true
		}
		cl, ok := vs.Values[0].(*ast.CompositeLit)
		if !ok {
			return true
		}
		foundRes = true
		for _, el := range cl.Elts {
			kv, ok := el.(*ast.KeyValueExpr)
			if !ok {
				g.problem("reservedHeaders: element not key:value")
				continue
			}
			switch k := kv.Key.(type) {
			case *ast.Ident:
				if s, ok := g.consts[k.Name]; ok {
					g.cfg.Reserved = append(g.cfg.Reserved, s)
				} else {
					g.problem("reservedHeaders: unknown constant %s", k.Name)
				}
			case *ast.BasicLit:
				if s, err := strconv.Unquote(k.Value); err == nil {
					g.cfg.Reserved = append(g.cfg.Reserved, s)
				}
			default:
				g.problem("reservedHeaders: key not recognised")
			}
		}
		return false
	})
	if !foundRes {
		g.problem("service.go: reservedHeaders not found")
	}
	sort.Strings(g.cfg.Reserved)

	fn := g.srcByFn["New"]
	if fn == nil {
		g.problem("service.go: func New not found")
		return
	}
	g.cfg.NoOtherDialer = true
	sawTransport, sawDialer, sawClient := false, false, false
	ast.Inspect(fn, func(n ast.Node) bool {
		cl, ok := n.(*ast.CompositeLit)
		if !ok {
			return true
		}
		switch g.text(cl.Type) {
		case "http.Transport":
			sawTransport = true
			for _, el := range cl.Elts {
				kv, ok := el.(*ast.KeyValueExpr)
				if !ok {
					continue
				}
				key := g.text(kv.Key)
				val := g.text(kv.Value)
				switch key {
				case "Proxy":
					g.cfg.ProxyNil = val == "nil"
				case "DialContext":
					g.cfg.DialHooked = val == "s.dialContext(base)"
				case "Dial", "DialTLS", "DialTLSContext":
					g.cfg.NoOtherDialer = false
				}
			}
			// Proxy absent means nil as well
			hasProxy := false
			for _, el := range cl.Elts {
				if kv, ok := el.(*ast.KeyValueExpr); ok && g.text(kv.Key) == "Proxy" {
					hasProxy = true
				}
			}
			if !hasProxy {
				g.cfg.ProxyNil = true
			}
		case "net.Dialer":
			sawDialer = true
			for _, el := range cl.Elts {
				if kv, ok := el.(*ast.KeyValueExpr); ok && g.text(kv.Key) == "Control" {
					g.cfg.ControlHooked = g.text(kv.Value) == "s.dialControl"
				}
			}
		case "http.Client":
			sawClient = true
			for _, el := range cl.Elts {
				kv, ok := el.(*ast.KeyValueExpr)
				if !ok || g.text(kv.Key) != "CheckRedirect" {
					continue
				}
				fl, ok := kv.Value.(*ast.FuncLit)
				if !ok || len(fl.Body.List) != 1 {
					continue
				}
				if rs, ok := fl.Body.List[0].(*ast.ReturnStmt); ok && len(rs.Results) == 1 {
					r := g.text(rs.Results[0])
					g.cfg.RedirectErr = r != "nil" && r != "http.ErrUseLastResponse"
				}
			}
		}
		return true
	})
	if !sawTransport || !sawDialer || !sawClient {
		g.problem("service.go: New no longer builds http.Transport / net.Dialer / http.Client literals")
	}
	// the transport must be the one the client uses, and no other client may exist
	if !strings.Contains(g.text(fn.Body), "Transport: transport") {
		g.problem("service.go: http.Client does not use the gated transport")
	}
}

func loadCfg(repo string) (*Cfg, error) {
	dir := filepath.Join(repo, "pkg", "plugin", "processor", "egress")
	g := &genState{fset: token.NewFileSet(), consts: map[string]string{}, tables: map[string][]Cidr{},
		nets: map[string]Cidr{}, cfg: &Cfg{}, srcByFn: map[string]*ast.FuncDecl{}}
	files := map[string]*ast.File{}
	for _, name := range []string{"ipguard.go", "policy.go", "service.go"} {
		f, err := parser.ParseFile(g.fset, filepath.Join(dir, name), nil, parser.SkipObjectResolution)
		if err != nil {
			return nil, err
		}
		files[name] = f
	}
	// constants first (tables refer to them), then the rest
	for _, name := range []string{"ipguard.go", "service.go", "policy.go"} {
		for _, d := range files[name].Decls {
			if gd, ok := d.(*ast.GenDecl); ok && gd.Tok == token.CONST {
				for _, sp := range gd.Specs {
					vs := sp.(*ast.ValueSpec)
					for i, nm := range vs.Names {
						if i < len(vs.Values) {
							if bl, ok := vs.Values[i].(*ast.BasicLit); ok && bl.Kind == token.STRING {
								if s, err := strconv.Unquote(bl.Value); err == nil {
									g.consts[nm.Name] = s
								}
							}
						}
					}
				}
			}
		}
	}
	for _, name := range []string{"ipguard.go", "policy.go", "service.go"} {
		g.collectDecls(files[name])
	}
	g.doIpguard()
	g.doPolicy(files["policy.go"])
	g.doService(files["service.go"])
	return g.cfg, nil
}

// ---------- Coq rendering ----------

func coqStr(s string) string { return "\"" + strings.ReplaceAll(s, "\"", "\"\"") + "\"" }

func coqCidr(c Cidr) string { return fmt.Sprintf("(%s, %d)", c.Base.String(), c.Plen) }

func coqOp(op string) string {
	switch op {
	case "==":
		return "Ceq"
	case "!=":
		return "Cne"
	case ">=":
		return "Cge"
	case ">":
		return "Cgt"
	case "<=":
		return "Cle"
	}
	return "Clt"
}

func coqGuard(gd Guard) string {
	switch gd.Kind {
	case "table":
		rows := make([]string, len(gd.Table))
		for i, c := range gd.Table {
			rows[i] = fmt.Sprintf("(%s, %s)  (* %s *)", coqCidr(c), coqStr(c.Reason), c.Lit)
		}
		// the comment of the last row must not swallow the bracket
		return "GTable [\n      " + strings.Join(rows, ";\n      ") + "\n    ]"
	case "cidr":
		return fmt.Sprintf("GCidr %s %s  (* %s = %s *)", coqCidr(gd.Net), coqStr(gd.Reason), gd.Src, gd.Net.Lit)
	case "bytes":
		ts := make([]string, len(gd.Tests))
		for i, t := range gd.Tests {
			ts[i] = fmt.Sprintf("(%d%%nat, %s, %d)", t.Idx, coqOp(t.Op), t.Val)
		}
		return fmt.Sprintf("GBytes [%s] %s", strings.Join(ts, "; "), coqStr(gd.Reason))
	}
	return fmt.Sprintf("GCompat %s", coqStr(gd.Reason))
}

func coqGuards(gs []Guard) string {
	items := make([]string, len(gs))
	for i, gd := range gs {
		s := coqGuard(gd)
		// move trailing comments of single-line guards out of the separator's way
		if j := strings.Index(s, "  (* "); j >= 0 && gd.Kind != "table" {
			s = s[:j]
		}
		items[i] = "    " + s
	}
	return "[\n" + strings.Join(items, ";\n") + "\n  ]"
}

func coqBool(b bool) string {
	if b {
		return "true"
	}
	return "false"
}

func renderCoq(c *Cfg, repo, modName string) string {
	var b strings.Builder
	fmt.Fprintf(&b, "(* GENERATED by harness/cmd/c18 --mode gen from %s/pkg/plugin/processor/egress\n   (ipguard.go, policy.go, service.go). Do not edit. *)\n", repo)
	b.WriteString("From Verif Require Import Egress.Ip Egress.Policy.\nLocal Open Scope string_scope.\nLocal Open Scope N_scope.\n\n")
	fmt.Fprintf(&b, "Definition %scfg : guard_cfg := mkCfg\n  (* classifyV4 *)\n  %s\n  (* Refuse, after the To4 branch *)\n  %s\n  %s %s %s.\n\n",
		modName, coqGuards(c.G4), coqGuards(c.G6), coqStr(c.RUnparseable), coqStr(c.RMapped), coqStr(c.RNone))
	fmt.Fprintf(&b, "Definition %sconsts : consts := mkConsts %d%%Z %d%%Z.\n\n", modName, c.DefTimeout, c.DefMaxResp)
	hs := make([]string, len(c.Reserved))
	for i, h := range c.Reserved {
		hs[i] = coqStr(h)
	}
	fmt.Fprintf(&b, "Definition %sreserved_headers : list string := [%s].\n", modName, strings.Join(hs, "; "))
	fmt.Fprintf(&b, "Definition %sproxy_nil : bool := %s.\n", modName, coqBool(c.ProxyNil))
	fmt.Fprintf(&b, "Definition %sredirect_refused : bool := %s.\n", modName, coqBool(c.RedirectErr))
	fmt.Fprintf(&b, "Definition %scontrol_hooked : bool := %s.\n", modName, coqBool(c.ControlHooked))
	fmt.Fprintf(&b, "Definition %sdialcontext_hooked : bool := %s.\n", modName, coqBool(c.DialHooked))
	fmt.Fprintf(&b, "Definition %sno_other_dialer : bool := %s.\n", modName, coqBool(c.NoOtherDialer))
	return b.String()
}

func runGen(repo, out, file, prefix string) int {
	cfg, err := loadCfg(repo)
	if err != nil {
		fmt.Fprintln(os.Stderr, "translator:", err)
		return 3
	}
	if err := os.MkdirAll(out, 0o755); err != nil {
		fmt.Fprintln(os.Stderr, err)
		return 3
	}
	if err := os.WriteFile(filepath.Join(out, file), []byte(renderCoq(cfg, repo, prefix)), 0o644); err != nil {
		fmt.Fprintln(os.Stderr, err)
		return 3
	}
	for _, p := range cfg.Problems {
		fmt.Println("LOST-CONSTRUCT:", p)
	}
	fmt.Printf("guards4=%d guards6=%d problems=%d\n", len(cfg.G4), len(cfg.G6), len(cfg.Problems))
	if len(cfg.Problems) > 0 {
		return 4
	}
	return 0
}
