// Go transcription of the Coq model (coq/Egress/Ip.v: refuse over a guard
// configuration) and of the independent floor, used for (a) generating boundary
// inputs and (b) the bulk volume of random addresses in the thorough tier. It is
// NOT the authority: every mismatch it finds, and a sample of everything else, is
// written as a Coq case and decided by the Coq model and monitor.
package main

import (
	"math/big"
	"net"
)

// Addr mirrors the Coq type addr: Rep 4 / 16 / 0 (bad), value as a number.
type Addr struct {
	Rep int
	N   *big.Int
	Bad int // for Rep 0: byte length of the slice (0 = nil)
}

var (
	one      = big.NewInt(1)
	two32    = new(big.Int).Lsh(one, 32)
	two128   = new(big.Int).Lsh(one, 128)
	mapBase  = new(big.Int).Lsh(big.NewInt(0xffff), 32)
	max32    = new(big.Int).Sub(two32, one)
	max128   = new(big.Int).Sub(two128, one)
	bigZero  = big.NewInt(0)
	ffffffff = big.NewInt(0xffffffff)
)

func bi(s string) *big.Int {
	n, ok := new(big.Int).SetString(s, 0)
	if !ok {
		panic("bad number " + s)
	}
	return n
}

func (a Addr) IP() net.IP {
	switch a.Rep {
	case 4:
		b := make([]byte, 4)
		a.N.FillBytes(b)
		return net.IP(b)
	case 16:
		b := make([]byte, 16)
		a.N.FillBytes(b)
		return net.IP(b)
	}
	if a.Bad == 0 {
		return nil
	}
	return net.IP(make([]byte, a.Bad))
}

func addrOfIP(ip net.IP) Addr {
	switch len(ip) {
	case 4:
		return Addr{Rep: 4, N: new(big.Int).SetBytes(ip)}
	case 16:
		return Addr{Rep: 16, N: new(big.Int).SetBytes(ip)}
	}
	return Addr{Rep: 0, Bad: len(ip)}
}

func (a Addr) Coq() string {
	switch a.Rep {
	case 4:
		return "(A4 " + a.N.String() + "%N)"
	case 16:
		return "(A16 " + a.N.String() + "%N)"
	}
	return "Abad"
}

func (a Addr) JSON() map[string]any {
	if a.Rep == 0 {
		return map[string]any{"rep": 0, "badlen": a.Bad}
	}
	return map[string]any{"rep": a.Rep, "ip": a.N.String()}
}

// reparse: ip.String() then net.ParseIP -> 16-byte form
func (a Addr) Reparse() Addr {
	switch a.Rep {
	case 4:
		return Addr{Rep: 16, N: new(big.Int).Add(mapBase, a.N)}
	case 16:
		return a
	}
	return a
}

func shr(x *big.Int, n uint) *big.Int { return new(big.Int).Rsh(x, n) }

func byteOf(bits int, x *big.Int, i int) int64 {
	sh := bits - 8*(i+1)
	if sh < 0 {
		sh = 0
	}
	return new(big.Int).And(shr(x, uint(sh)), big.NewInt(255)).Int64()
}

func inCidr(bits int, c Cidr, x *big.Int) bool {
	s := bits - c.Plen
	if s < 0 {
		s = 0
	}
	return shr(x, uint(s)).Cmp(shr(c.Base, uint(s))) == 0
}

func cmpOp(op string, x, v int64) bool {
	switch op {
	case "==":
		return x == v
	case "!=":
		return x != v
	case ">=":
		return x >= v
	case ">":
		return x > v
	case "<=":
		return x <= v
	}
	return x < v
}

func v4compat(x *big.Int) bool {
	for i := 0; i < 12; i++ {
		if byteOf(128, x, i) != 0 {
			return false
		}
	}
	b := func(i int) int64 { return byteOf(128, x, i) }
	return b(12) != 0 || b(13) != 0 || b(14) != 0 || (b(15) != 0 && b(15) != 1)
}

func firstReason(bits int, x *big.Int, gs []Guard) (string, bool) {
	for _, g := range gs {
		switch g.Kind {
		case "table":
			for _, c := range g.Table {
				if inCidr(bits, c, x) {
					return c.Reason, true
				}
			}
		case "cidr":
			if inCidr(bits, g.Net, x) {
				return g.Reason, true
			}
		case "bytes":
			all := true
			for _, t := range g.Tests {
				if !cmpOp(t.Op, byteOf(bits, x, t.Idx), t.Val) {
					all = false
					break
				}
			}
			if all {
				return g.Reason, true
			}
		case "compat":
			if bits == 128 && v4compat(x) {
				return g.Reason, true
			}
		}
	}
	return "", false
}

func to4(a Addr) (*big.Int, bool) {
	switch a.Rep {
	case 4:
		return a.N, true
	case 16:
		if shr(a.N, 32).Cmp(big.NewInt(0xffff)) == 0 {
			return new(big.Int).And(a.N, ffffffff), true
		}
	}
	return nil, false
}

func goRefuse(c *Cfg, a Addr) (bool, string) {
	if a.Rep == 0 {
		return true, c.RUnparseable
	}
	if v4, ok := to4(a); ok {
		if r, hit := firstReason(32, v4, c.G4); hit {
			if a.Rep == 16 {
				return true, c.RMapped
			}
			return true, r
		}
		return false, c.RNone
	}
	if r, hit := firstReason(128, a.N, c.G6); hit {
		return true, r
	}
	return false, c.RNone
}

// ---------- the independent floor (RFC ranges), mirrors floor4/floor6 of Ip.v ----------

func ip4(a, b, c, d int64) *big.Int { return big.NewInt(a<<24 | b<<16 | c<<8 | d) }

// closed intervals of the v4 floor
var spec4 = [][2]*big.Int{
	{ip4(0, 0, 0, 0), ip4(0, 255, 255, 255)},
	{ip4(10, 0, 0, 0), ip4(10, 255, 255, 255)},
	{ip4(100, 64, 0, 0), ip4(100, 127, 255, 255)},
	{ip4(127, 0, 0, 0), ip4(127, 255, 255, 255)},
	{ip4(169, 254, 0, 0), ip4(169, 254, 255, 255)},
	{ip4(172, 16, 0, 0), ip4(172, 31, 255, 255)},
	{ip4(192, 168, 0, 0), ip4(192, 168, 255, 255)},
	{ip4(224, 0, 0, 0), ip4(255, 255, 255, 255)},
}

func goFloor4(x *big.Int) bool {
	for _, iv := range spec4 {
		if x.Cmp(iv[0]) >= 0 && x.Cmp(iv[1]) <= 0 {
			return true
		}
	}
	return false
}

// embedding forms: prefix value p above (s+32) bits, v4 at bit offset s
type form struct {
	Name string
	P    *big.Int
	S    uint
}

var forms = []form{
	{"v4-mapped", big.NewInt(0xffff), 0},
	{"v4-compatible", big.NewInt(0), 0},
	{"v4-translated", big.NewInt(0xffff0000), 0},
	{"nat64", bi("0x64ff9b0000000000000000"), 0},
	{"6to4", big.NewInt(0x2002), 80},
	{"teredo-server", big.NewInt(0x20010000), 64},
}

func embed(f form, v4 *big.Int, low *big.Int) *big.Int {
	x := new(big.Int).Lsh(f.P, f.S+32)
	x.Add(x, new(big.Int).Lsh(v4, f.S))
	if f.S > 0 && low != nil {
		m := new(big.Int).Sub(new(big.Int).Lsh(one, f.S), one)
		x.Add(x, new(big.Int).And(low, m))
	}
	return x
}

func goFloor6(x *big.Int) bool {
	if x.Cmp(one) <= 0 {
		return true
	}
	if t := shr(x, 118).Int64(); shr(x, 118).IsInt64() && (t == 0x3fa || t == 0x3fb) {
		return true
	}
	if shr(x, 121).Cmp(big.NewInt(0x7e)) == 0 || shr(x, 120).Cmp(big.NewInt(0xff)) == 0 {
		return true
	}
	for _, f := range forms {
		if shr(x, f.S+32).Cmp(f.P) == 0 && goFloor4(new(big.Int).And(shr(x, f.S), ffffffff)) {
			return true
		}
	}
	if shr(x, 96).Cmp(big.NewInt(0x20010000)) == 0 {
		inv := new(big.Int).Sub(ffffffff, new(big.Int).And(x, ffffffff))
		if goFloor4(inv) {
			return true
		}
	}
	return false
}

func goFloor(a Addr) bool {
	switch a.Rep {
	case 4:
		return goFloor4(a.N)
	case 16:
		return goFloor6(a.N)
	}
	return true
}

// intervals of the configuration (for boundary generation only)
func cidrIv(bits int, c Cidr) [2]*big.Int {
	s := uint(bits - c.Plen)
	lo := new(big.Int).Lsh(shr(c.Base, s), s)
	hi := new(big.Int).Add(lo, new(big.Int).Sub(new(big.Int).Lsh(one, s), one))
	return [2]*big.Int{lo, hi}
}

func guardIvs(bits int, gs []Guard) [][2]*big.Int {
	var out [][2]*big.Int
	for _, g := range gs {
		switch g.Kind {
		case "table":
			for _, c := range g.Table {
				out = append(out, cidrIv(bits, c))
			}
		case "cidr":
			out = append(out, cidrIv(bits, g.Net))
		case "bytes":
			n := bits / 8
			lo, hi := new(big.Int), new(big.Int)
			for k := 0; k < n; k++ {
				mn, mx := int64(0), int64(255)
				for _, t := range g.Tests {
					if t.Idx != k {
						continue
					}
					switch t.Op {
					case "==":
						if t.Val > mn {
							mn = t.Val
						}
						if t.Val < mx {
							mx = t.Val
						}
					case ">=":
						if t.Val > mn {
							mn = t.Val
						}
					case ">":
						if t.Val+1 > mn {
							mn = t.Val + 1
						}
					case "<=":
						if t.Val < mx {
							mx = t.Val
						}
					case "<":
						if t.Val-1 < mx {
							mx = t.Val - 1
						}
					}
				}
				lo.Lsh(lo, 8).Add(lo, big.NewInt(mn))
				hi.Lsh(hi, 8).Add(hi, big.NewInt(mx))
			}
			out = append(out, [2]*big.Int{lo, hi})
		case "compat":
			out = append(out, [2]*big.Int{big.NewInt(2), new(big.Int).Set(max32)})
		}
	}
	return out
}
