// Case kinds of the C18 harness: each runs REAL code of
// github.com/conduitio/conduit/pkg/plugin/processor/egress on a generated input
// and records what it did; the Coq side (coq/Egress/Check.v) compares with the
// model and evaluates the property monitor.
package main

import (
	"context"
	"errors"
	"fmt"
	"math/big"
	"net"
	"net/http"
	"sort"
	"strings"
	"sync"
	"syscall"
	"time"

	"github.com/conduitio/conduit-processor-sdk/pprocutils"
	"github.com/conduitio/conduit/pkg/foundation/log"
	"github.com/conduitio/conduit/pkg/plugin/processor/egress"

	"verifharness/lib/hx"
)

// ---------- policy / entry mirror types ----------

type Entry struct {
	Scheme, Host, Port string
	IP                 *Addr
}

type Pol struct {
	Enabled  bool
	Allow    []Entry
	Secrets  []string
	Timeout  int64
	MaxResp  int64
}

func (e Entry) JSON() map[string]any {
	m := map[string]any{"scheme": e.Scheme, "host": e.Host, "port": e.Port, "ip": nil}
	if e.IP != nil {
		m["ip"] = e.IP.JSON()
	}
	return m
}

func entriesJSON(es []Entry) []any {
	out := make([]any, len(es))
	for i, e := range es {
		out[i] = e.JSON()
	}
	return out
}

func (p Pol) JSON() map[string]any {
	s := make([]any, len(p.Secrets))
	for i, x := range p.Secrets {
		s[i] = x
	}
	return map[string]any{"enabled": p.Enabled, "allow": entriesJSON(p.Allow), "secrets": s,
		"timeout": p.Timeout, "maxresp": p.MaxResp}
}

func (e Entry) Coq() string {
	ip := "None"
	if e.IP != nil {
		ip = hx.Some(e.IP.Coq())
	}
	return fmt.Sprintf("(mkEntry %s %s %s %s)", hx.Str(e.Scheme), hx.Str(e.Host), hx.Str(e.Port), ip)
}

func entriesCoq(es []Entry) string {
	s := make([]string, len(es))
	for i, e := range es {
		s[i] = e.Coq()
	}
	return hx.List(s)
}

func strsCoq(ss []string) string {
	s := make([]string, len(ss))
	for i, x := range ss {
		s[i] = hx.Str(x)
	}
	return hx.List(s)
}

func addrsCoq(as []Addr) string {
	s := make([]string, len(as))
	for i, a := range as {
		s[i] = a.Coq()
	}
	return hx.List(s)
}

func addrsJSON(as []Addr) []any {
	out := make([]any, len(as))
	for i, a := range as {
		out[i] = a.JSON()
	}
	return out
}

func (p Pol) Coq() string {
	return fmt.Sprintf("(mkPolicy %s %s %s %s %s)", hx.Bool(p.Enabled), entriesCoq(p.Allow), strsCoq(p.Secrets), hx.Z(p.Timeout), hx.Z(p.MaxResp))
}

func (p Pol) Real() egress.Policy {
	out := egress.Policy{Enabled: p.Enabled, Timeout: time.Duration(p.Timeout), MaxResponseBytes: p.MaxResp}
	for _, e := range p.Allow {
		ae := egress.AllowEntry{Scheme: e.Scheme, Host: e.Host, Port: e.Port}
		if e.IP != nil {
			ae.IP = e.IP.IP()
		}
		out.Allowlist = append(out.Allowlist, ae)
	}
	if p.Secrets != nil {
		out.SecretRefs = map[string]struct{}{}
		for _, s := range p.Secrets {
			out.SecretRefs[s] = struct{}{}
		}
	}
	return out
}

func entryOfReal(e egress.AllowEntry) Entry {
	out := Entry{Scheme: e.Scheme, Host: e.Host, Port: e.Port}
	if e.IP != nil {
		a := addrOfIP(e.IP)
		out.IP = &a
	}
	return out
}

func polOfReal(p egress.Policy) Pol {
	out := Pol{Enabled: p.Enabled, Timeout: int64(p.Timeout), MaxResp: p.MaxResponseBytes}
	for _, e := range p.Allowlist {
		out.Allow = append(out.Allow, entryOfReal(e))
	}
	for s := range p.SecretRefs {
		out.Secrets = append(out.Secrets, s)
	}
	sort.Strings(out.Secrets)
	return out
}

// ---------- JSON -> inputs (replay / shrink candidates; panics on ill-formed input) ----------

func addrFromJSON(x any) Addr {
	m := x.(map[string]any)
	rep := int(m["rep"].(float64))
	if rep == 0 {
		bl := 0
		if v, ok := m["badlen"].(float64); ok {
			bl = int(v)
		}
		if bl == 4 || bl == 16 || bl < 0 || bl > 64 {
			panic("bad badlen")
		}
		return Addr{Rep: 0, Bad: bl}
	}
	n, ok := new(big.Int).SetString(m["ip"].(string), 10)
	if !ok || n.Sign() < 0 {
		panic("bad ip")
	}
	if rep == 4 && n.Cmp(max32) > 0 || rep == 16 && n.Cmp(max128) > 0 || (rep != 4 && rep != 16) {
		panic("ip out of range")
	}
	return Addr{Rep: rep, N: n}
}

func addrsFromJSON(x any) []Addr {
	var out []Addr
	if x == nil {
		return out
	}
	for _, e := range x.([]any) {
		out = append(out, addrFromJSON(e))
	}
	return out
}

func entryFromJSON(x any) Entry {
	m := x.(map[string]any)
	e := Entry{Scheme: m["scheme"].(string), Host: m["host"].(string), Port: m["port"].(string)}
	if m["ip"] != nil {
		a := addrFromJSON(m["ip"])
		e.IP = &a
	}
	return e
}

func polFromJSON(x any) Pol {
	m := x.(map[string]any)
	p := Pol{Enabled: m["enabled"].(bool), Timeout: int64(m["timeout"].(float64)), MaxResp: int64(m["maxresp"].(float64))}
	if m["allow"] != nil {
		for _, e := range m["allow"].([]any) {
			p.Allow = append(p.Allow, entryFromJSON(e))
		}
	}
	if m["secrets"] != nil {
		seen := map[string]bool{}
		for _, s := range m["secrets"].([]any) {
			if !seen[s.(string)] {
				seen[s.(string)] = true
				p.Secrets = append(p.Secrets, s.(string))
			}
		}
		sort.Strings(p.Secrets)
	}
	return p
}

func optStr(x any) *string {
	if x == nil {
		return nil
	}
	s := x.(string)
	return &s
}

func optStrCoq(s *string) string {
	if s == nil {
		return "None"
	}
	return hx.Some(hx.Str(*s))
}

func optStrJSON(s *string) any {
	if s == nil {
		return nil
	}
	return *s
}

func asciiOK(ss ...string) {
	for _, s := range ss {
		for i := 0; i < len(s); i++ {
			if s[i] < 0x20 || s[i] > 0x7e {
				panic("non-printable or non-ASCII string in case")
			}
		}
	}
}

func polASCII(p Pol) {
	for _, e := range p.Allow {
		asciiOK(e.Scheme, e.Host, e.Port)
	}
	asciiOK(p.Secrets...)
}

// ---------- running the real code, one function per case kind ----------

type runner struct {
	cfg *Cfg
	w   *caseWriter
	// bulk statistics (Go-side comparisons)
	bulkN, bulkMismatch int
}

func (r *runner) add(in map[string]any, obs map[string]any, coq string) {
	r.w.Add(map[string]any{"input": in, "observed": obs}, coq)
}

// Refuse(ip)
func observeRefuse(a Addr) (bool, string) {
	refused, reason := egress.Refuse(a.IP())
	return refused, string(reason)
}

func (r *runner) caseRefuse(a Addr) {
	refused, reason := observeRefuse(a)
	asciiOK(reason)
	in := map[string]any{"kind": "refuse", "addr": a.JSON()}
	r.add(in, map[string]any{"refused": refused, "reason": reason, "text": a.IP().String()},
		fmt.Sprintf("CRefuse %s %s %s", a.Coq(), hx.Bool(refused), hx.Str(reason)))
}

// bulk: compare Go-side; anything suspicious becomes a full Coq case
func (r *runner) bulkRefuse(a Addr) {
	refused, reason := observeRefuse(a)
	mr, mreason := goRefuse(r.cfg, a)
	r.bulkN++
	if refused != mr || reason != mreason || (goFloor(a) && !refused) {
		r.bulkMismatch++
		r.caseRefuse(a)
	}
}

func (r *runner) caseResolve(req, ceil Pol) {
	polASCII(req)
	polASCII(ceil)
	eff, dropped := egress.ResolvePolicy(req.Real(), ceil.Real())
	e := polOfReal(eff)
	var d []Entry
	for _, x := range dropped {
		d = append(d, entryOfReal(x))
	}
	in := map[string]any{"kind": "resolve", "req": req.JSON(), "ceil": ceil.JSON()}
	r.add(in, map[string]any{"eff": e.JSON(), "dropped": entriesJSON(d)},
		fmt.Sprintf("CResolve %s %s %s %s", req.Coq(), ceil.Coq(), e.Coq(), entriesCoq(d)))
}

func parseIPOpt(host string) *Addr {
	ip := net.ParseIP(host)
	if ip == nil {
		return nil
	}
	a := addrOfIP(ip)
	return &a
}

func optAddrCoq(a *Addr) string {
	if a == nil {
		return "None"
	}
	return hx.Some(a.Coq())
}

func optAddrJSON(a *Addr) any {
	if a == nil {
		return nil
	}
	return a.JSON()
}

func (r *runner) caseMatch(p Pol, scheme, host, port string) {
	polASCII(p)
	asciiOK(scheme, host, port)
	got := p.Real().MatchHostPort(scheme, host, port)
	reqip := parseIPOpt(strings.ToLower(host))
	in := map[string]any{"kind": "match", "pol": p.JSON(), "scheme": scheme, "host": host, "port": port}
	r.add(in, map[string]any{"match": got, "reqip": optAddrJSON(reqip)},
		fmt.Sprintf("CMatch %s %s %s %s %s %s", p.Coq(), hx.Str(scheme), hx.Str(host), hx.Str(port), optAddrCoq(reqip), hx.Bool(got)))
}

func (r *runner) caseCarve(p Pol, a Addr, port string) {
	polASCII(p)
	asciiOK(port)
	got := p.Real().VerifMatchesCarveOut(a.IP(), port)
	in := map[string]any{"kind": "carve", "pol": p.JSON(), "addr": a.JSON(), "port": port}
	r.add(in, map[string]any{"carved": got},
		fmt.Sprintf("CCarve %s %s %s %s", p.Coq(), a.Coq(), hx.Str(port), hx.Bool(got)))
}

// ParseAllowEntry on a rendering of (scheme?, host, port?); style picks the rendering
func renderEntry(scheme *string, host string, port *string, style int) string {
	h := host
	isV6 := strings.Contains(host, ":")
	if isV6 && (port != nil || scheme != nil || style&1 == 1) {
		h = "[" + host + "]"
	}
	if style&2 == 2 {
		h = strings.ToUpper(h)
	}
	s := h
	if port != nil {
		s += ":" + *port
	}
	if scheme != nil {
		sc := *scheme
		if style&4 == 4 {
			sc = strings.ToUpper(sc)
		}
		s = sc + "://" + s
		if style&8 == 8 {
			s += "/"
		}
	}
	if style&16 == 16 {
		s = "  " + s + " "
	}
	return s
}

func (r *runner) caseParse(scheme *string, host string, port *string, style int) {
	asciiOK(host)
	if scheme != nil {
		asciiOK(*scheme)
	}
	if port != nil {
		asciiOK(*port)
		if *port == "" {
			panic("empty port")
		}
	}
	if host != strings.ToLower(host) || strings.ContainsAny(host, "[]*/ \t") {
		panic("host must be lower case without brackets")
	}
	raw := renderEntry(scheme, host, port, style)
	e, err := egress.ParseAllowEntry(raw)
	ip := parseIPOpt(host)
	obs := "None"
	om := map[string]any{"ok": err == nil, "raw": raw, "hostip": optAddrJSON(ip)}
	if err == nil {
		oe := entryOfReal(e)
		asciiOK(oe.Scheme, oe.Host, oe.Port)
		obs = hx.Some(oe.Coq())
		om["entry"] = oe.JSON()
	}
	in := map[string]any{"kind": "parse", "scheme": optStrJSON(scheme), "host": host, "port": optStrJSON(port), "style": style}
	r.add(in, om, fmt.Sprintf("CParse %s %s %s %s %s", optStrCoq(scheme), hx.Str(host), optStrCoq(port), optAddrCoq(ip), obs))
}

// fixed resolver
type fixedResolver struct{ ips []net.IP }

func (f fixedResolver) LookupIP(context.Context, string) ([]net.IP, error) { return f.ips, nil }

var errAbort = errors.New("verif: connect suppressed")

// dialContext + dialControl on arbitrary candidates, no packet leaves: the base
// dialer's Control hook records what reaches it, asks the real dialControl, and
// then aborts the dial before connect(2).
func (r *runner) casePlan(p Pol, port string, cands []Addr, literal bool) {
	polASCII(p)
	asciiOK(port)
	ips := make([]net.IP, len(cands))
	for i, c := range cands {
		ips[i] = c.IP()
	}
	svc := egress.New(p.Real(), log.Nop(), egress.WithResolver(fixedResolver{ips}))
	var mu sync.Mutex
	var seen, attempts []Addr
	base := &net.Dialer{Timeout: 2 * time.Second, Control: func(network, address string, _ syscall.RawConn) error {
		host, _, err := net.SplitHostPort(address)
		var a Addr
		if err != nil {
			a = Addr{Rep: 0}
		} else if pa := parseIPOpt(host); pa != nil {
			a = *pa
		}
		mu.Lock()
		seen = append(seen, a)
		if svc.VerifDialControl(network, address) {
			attempts = append(attempts, a)
		}
		mu.Unlock()
		return errAbort
	}}
	dc := svc.VerifDialContext(base)
	ctx, cancel := context.WithTimeout(context.Background(), 5*time.Second)
	defer cancel()
	target := net.JoinHostPort("svc.test", port)
	if literal && len(cands) == 1 && cands[0].Rep != 0 {
		target = net.JoinHostPort(cands[0].IP().String(), port)
	} else {
		literal = false
	}
	conn, _ := dc(ctx, "tcp", target)
	if conn != nil {
		conn.Close()
	}
	if literal {
		// the literal is parsed by dialContext itself: the candidate it sees is the 16-byte form
		cands = []Addr{cands[0].Reparse()}
	}
	in := map[string]any{"kind": "plan", "pol": p.JSON(), "port": port, "cands": addrsJSON(cands), "literal": literal}
	r.add(in, map[string]any{"attempts": addrsJSON(attempts), "control_seen": addrsJSON(seen)},
		fmt.Sprintf("CPlan %s %s %s %s", p.Coq(), hx.Str(port), addrsCoq(cands), addrsCoq(attempts)))
}

// ---------- Service.Do against local listeners ----------

type hit struct {
	IP   Addr
	Port string // symbolic
}

type doCase struct {
	Pol      Pol // ports symbolic ("P1".."P4")
	Scheme   string
	Host     string // "svc.test" or an IP literal
	Port     string // symbolic
	Cands    []Addr // resolver answer for a hostname
	Listen   []hit  // listeners
	Redirect *hit   // listeners answer 302 to http://ip:port/ (nil: 200)
}

func (d doCase) JSON() map[string]any {
	ls := make([]any, len(d.Listen))
	for i, l := range d.Listen {
		ls[i] = map[string]any{"ip": l.IP.JSON(), "port": l.Port}
	}
	m := map[string]any{"kind": "do", "pol": d.Pol.JSON(), "scheme": d.Scheme, "host": d.Host, "port": d.Port,
		"cands": addrsJSON(d.Cands), "listen": ls, "redirect": nil}
	if d.Redirect != nil {
		m["redirect"] = map[string]any{"ip": d.Redirect.IP.JSON(), "port": d.Redirect.Port}
	}
	return m
}

func doFromJSON(m map[string]any) doCase {
	d := doCase{Pol: polFromJSON(m["pol"]), Scheme: m["scheme"].(string), Host: m["host"].(string), Port: m["port"].(string),
		Cands: addrsFromJSON(m["cands"])}
	if m["listen"] != nil {
		for _, x := range m["listen"].([]any) {
			lm := x.(map[string]any)
			d.Listen = append(d.Listen, hit{IP: addrFromJSON(lm["ip"]), Port: lm["port"].(string)})
		}
	}
	if m["redirect"] != nil {
		lm := m["redirect"].(map[string]any)
		d.Redirect = &hit{IP: addrFromJSON(lm["ip"]), Port: lm["port"].(string)}
	}
	return d
}

// the proxy listener named in HTTP_PROXY / HTTPS_PROXY / ALL_PROXY (set in main before any
// HTTP client exists): a hit there means the transport honoured the environment
var (
	proxyLn   net.Listener
	proxyHits int
	proxyMu   sync.Mutex
)

func startProxyTrap() string {
	ln, err := net.Listen("tcp4", "127.0.0.1:0")
	if err != nil {
		return ""
	}
	proxyLn = ln
	go func() {
		for {
			c, err := ln.Accept()
			if err != nil {
				return
			}
			proxyMu.Lock()
			proxyHits++
			proxyMu.Unlock()
			c.Close()
		}
	}()
	return "http://" + ln.Addr().String()
}

func isLoopback(a Addr) bool {
	if a.Rep == 0 {
		return false
	}
	v4, ok := to4(a)
	if ok {
		return shr(v4, 24).Int64() == 127
	}
	return a.N.Cmp(one) == 0 // ::1
}

func (r *runner) caseDo(d doCase) {
	polASCII(d.Pol)
	asciiOK(d.Scheme, d.Host, d.Port)
	// safety of the harness itself: only loopback listeners, and every address that could be
	// connected to is loopback (no packet leaves the machine)
	for _, l := range d.Listen {
		if !isLoopback(l.IP) {
			panic("listener not on loopback")
		}
	}
	for _, e := range d.Pol.Allow {
		if e.IP != nil && !isLoopback(*e.IP) {
			panic("carve-out not on loopback")
		}
	}
	if ip := net.ParseIP(d.Host); ip != nil && !isLoopback(addrOfIP(ip)) {
		panic("literal target not on loopback")
	}
	for _, c := range d.Cands {
		if c.Rep != 0 && !isLoopback(c) && !goFloor(c) {
			panic("public candidate in a do case")
		}
	}
	sym := map[string]string{} // symbolic -> real port
	rev := map[string]string{}
	var mu sync.Mutex
	var conns []hit
	other := 0
	var lns []net.Listener
	var srvs []*http.Server
	// one listener per (ip, symbolic port); the first listener of a symbolic port fixes its number
	portOf := func(s string) string { return sym[s] }
	need := map[string]bool{d.Port: true}
	for _, l := range d.Listen {
		need[l.Port] = true
	}
	for _, e := range d.Pol.Allow {
		need[e.Port] = true
	}
	if d.Redirect != nil {
		need[d.Redirect.Port] = true
	}
	var names []string
	for s := range need {
		names = append(names, s)
	}
	sort.Strings(names)
	// reserve a distinct free port number for every symbolic port
	for _, s := range names {
		if !strings.HasPrefix(s, "P") {
			panic("ports of a do case are symbolic (P1, P2, ...)")
		}
		if s == "PX" { // the port of the proxy trap named in HTTP(S)_PROXY
			if proxyLn == nil {
				panic("no proxy trap")
			}
			_, p, _ := net.SplitHostPort(proxyLn.Addr().String())
			sym[s] = p
			rev[p] = s
			continue
		}
		ln, err := net.Listen("tcp4", "127.0.0.1:0")
		if err != nil {
			panic(err)
		}
		_, p, _ := net.SplitHostPort(ln.Addr().String())
		ln.Close()
		sym[s] = p
		rev[p] = s
	}
	redirectURL := ""
	if d.Redirect != nil {
		redirectURL = "http://" + net.JoinHostPort(d.Redirect.IP.IP().String(), portOf(d.Redirect.Port)) + "/"
	}
	isTarget := func(l hit) bool {
		return d.Redirect != nil && l.Port == d.Redirect.Port && l.IP.Reparse().N.Cmp(d.Redirect.IP.Reparse().N) == 0 && l.Port != d.Port
	}
	for _, l := range d.Listen {
		l := l
		network := "tcp4"
		if _, is4 := to4(l.IP); !is4 {
			network = "tcp6"
		}
		ln, err := net.Listen(network, net.JoinHostPort(l.IP.IP().String(), portOf(l.Port)))
		if err != nil {
			continue // address not available here (e.g. no ::1): simply no listener
		}
		lns = append(lns, ln)
		srv := &http.Server{Handler: http.HandlerFunc(func(w http.ResponseWriter, req *http.Request) {
			if redirectURL != "" && !isTarget(l) {
				http.Redirect(w, req, redirectURL, http.StatusFound)
				return
			}
			w.WriteHeader(200)
			_, _ = w.Write([]byte("ok"))
		}), ConnState: func(c net.Conn, st http.ConnState) {
			if st != http.StateNew {
				return
			}
			mu.Lock()
			defer mu.Unlock()
			if isTarget(l) {
				other++
				return
			}
			conns = append(conns, hit{IP: l.IP.Reparse(), Port: l.Port})
		}}
		srvs = append(srvs, srv)
		go func() { _ = srv.Serve(ln) }()
	}
	// which listeners really exist (a tcp6 listen may have failed)
	var listening []Addr
	for _, ln := range lns {
		h, p, _ := net.SplitHostPort(ln.Addr().String())
		if rev[p] == d.Port {
			listening = append(listening, addrOfIP(net.ParseIP(h)))
		}
	}

	// the policy with real port numbers
	rp := d.Pol
	rp.Allow = nil
	for _, e := range d.Pol.Allow {
		e2 := e
		e2.Port = portOf(e.Port)
		rp.Allow = append(rp.Allow, e2)
	}
	if rp.Timeout <= 0 || rp.Timeout > int64(3*time.Second) {
		rp.Timeout = int64(3 * time.Second)
		d.Pol.Timeout = rp.Timeout
	}
	ips := make([]net.IP, len(d.Cands))
	for i, c := range d.Cands {
		ips[i] = c.IP()
	}
	proxyMu.Lock()
	before := proxyHits
	proxyMu.Unlock()
	svc := egress.New(rp.Real(), log.Nop(), egress.WithResolver(fixedResolver{ips}))
	host := d.Host
	if strings.Contains(host, ":") {
		host = "[" + host + "]"
	}
	url := d.Scheme + "://" + host + ":" + portOf(d.Port) + "/v1/embeddings"
	ctx, cancel := context.WithTimeout(context.Background(), 6*time.Second)
	resp, err := svc.Do(ctx, pprocutils.HTTPRequest{Method: "POST", URL: url, Body: []byte(`{"x":1}`)})
	cancel()
	status := "ok"
	switch {
	case err == nil:
		status = fmt.Sprintf("http-%d", resp.StatusCode)
	case errors.Is(err, pprocutils.ErrHTTPEgressDisabled):
		status = "disabled"
	case errors.Is(err, pprocutils.ErrHTTPForbidden):
		status = "forbidden"
	case errors.Is(err, pprocutils.ErrHTTPDNS):
		status = "dns"
	case errors.Is(err, pprocutils.ErrHTTPTimeout):
		status = "timeout"
	case errors.Is(err, pprocutils.ErrHTTPInvalidRequest):
		status = "invalid"
	default:
		status = "transport"
	}
	for _, s := range srvs {
		_ = s.Close()
	}
	time.Sleep(2 * time.Millisecond)
	proxyMu.Lock()
	other += proxyHits - before
	proxyMu.Unlock()
	mu.Lock()
	defer mu.Unlock()

	reqip := parseIPOpt(strings.ToLower(d.Host))
	cands := d.Cands
	if reqip != nil {
		cands = []Addr{*reqip} // dialContext takes the literal itself as the only candidate
	}
	cs := make([]string, len(conns))
	cj := make([]any, len(conns))
	for i, c := range conns {
		cs[i] = hx.Pair(c.IP.Coq(), hx.Str(c.Port))
		cj[i] = map[string]any{"ip": c.IP.JSON(), "port": c.Port}
	}
	r.add(d.JSON(), map[string]any{"connections": cj, "status": status, "other_hits": other,
		"reqip": optAddrJSON(reqip), "listening": addrsJSON(listening)},
		fmt.Sprintf("CDo %s %s %s %s %s %s %s %s %d", d.Pol.Coq(), hx.Str(d.Scheme), hx.Str(d.Host), hx.Str(d.Port),
			optAddrCoq(reqip), addrsCoq(cands), addrsCoq(listening), hx.List(cs), other))
}

// ---------- replay ----------

func (r *runner) replayOne(m map[string]any) {
	in, ok := m["input"].(map[string]any)
	if !ok {
		if c, ok2 := m["case"].(map[string]any); ok2 { // a replay file written by the driver
			in = c["input"].(map[string]any)
		} else {
			in = m
		}
	}
	switch in["kind"].(string) {
	case "refuse":
		r.caseRefuse(addrFromJSON(in["addr"]))
	case "resolve":
		r.caseResolve(polFromJSON(in["req"]), polFromJSON(in["ceil"]))
	case "match":
		r.caseMatch(polFromJSON(in["pol"]), in["scheme"].(string), in["host"].(string), in["port"].(string))
	case "carve":
		r.caseCarve(polFromJSON(in["pol"]), addrFromJSON(in["addr"]), in["port"].(string))
	case "parse":
		r.caseParse(optStr(in["scheme"]), in["host"].(string), optStr(in["port"]), int(in["style"].(float64)))
	case "plan":
		lit, _ := in["literal"].(bool)
		r.casePlan(polFromJSON(in["pol"]), in["port"].(string), addrsFromJSON(in["cands"]), lit)
	case "do":
		r.caseDo(doFromJSON(in))
	case "bulk":
		// nothing to re-run: its mismatches were written as refuse cases
	default:
		panic("unknown kind")
	}
}
