// Harness for C18 (processor egress): translator (--mode gen) and correspondence
// cases. Real code driven: egress.Refuse, egress.ResolvePolicy,
// Policy.MatchHostPort, Policy.matchesCarveOut (hook), egress.ParseAllowEntry,
// Service.dialContext + Service.dialControl (hooks, no packet leaves), and
// egress.New + Service.Do against listeners on 127.0.0.0/8.
//
//	--mode gen          write <out>/GenEgress.v from $VERIF_REPO sources
//	--mode bulk=<k>     additionally compare k random addresses Go-side
//	(default)           deterministic boundary cases (sharded) + --n random cases
package main

import (
	"fmt"
	"math/big"
	"os"
	"sort"
	"strconv"
	"strings"
	"time"

	"github.com/conduitio/conduit/pkg/plugin/processor/egress"

	"verifharness/lib/hx"
)

func repoPath() string {
	if p := os.Getenv("VERIF_REPO"); p != "" {
		return p
	}
	return "/repo"
}

// ---------- address generators ----------

func randBig(r *hx.Rand, bits uint) *big.Int {
	x := new(big.Int)
	for i := uint(0); i < bits; i += 64 {
		x.Lsh(x, 64).Or(x, new(big.Int).SetUint64(r.U64()))
	}
	return x.And(x, new(big.Int).Sub(new(big.Int).Lsh(one, bits), one))
}

func randIn(r *hx.Rand, lo, hi *big.Int) *big.Int {
	span := new(big.Int).Sub(hi, lo)
	span.Add(span, one)
	x := randBig(r, 130)
	return x.Mod(x, span).Add(x, lo)
}

func clamp(x, lo, hi *big.Int) *big.Int {
	if x.Cmp(lo) < 0 {
		return new(big.Int).Set(lo)
	}
	if x.Cmp(hi) > 0 {
		return new(big.Int).Set(hi)
	}
	return x
}

// v4 intervals of interest: the spec's and the configuration's
func ivs4(c *Cfg) [][2]*big.Int {
	return append(append([][2]*big.Int{}, spec4...), guardIvs(32, c.G4)...)
}

var base6 = [][2]*big.Int{
	{big.NewInt(0), big.NewInt(1)},
	{bi("0xfe800000000000000000000000000000"), bi("0xfebfffffffffffffffffffffffffffff")},
	{bi("0xfec00000000000000000000000000000"), bi("0xfeffffffffffffffffffffffffffffff")},
	{bi("0xfc000000000000000000000000000000"), bi("0xfdffffffffffffffffffffffffffffff")},
	{bi("0xff000000000000000000000000000000"), bi("0xffffffffffffffffffffffffffffffff")},
	// blocks worth probing although the floor does not list them
	{bi("0x20010db8000000000000000000000000"), bi("0x20010db8ffffffffffffffffffffffff")}, // documentation
	{bi("0x0064ff9b000100000000000000000000"), bi("0x0064ff9b0001ffffffffffffffffffff")}, // 64:ff9b:1::/48 local-use NAT64
	{bi("0x20000000000000000000000000000000"), bi("0x3fffffffffffffffffffffffffffffff")}, // global unicast
}

func ivs6(c *Cfg) [][2]*big.Int {
	out := append([][2]*big.Int{}, base6...)
	out = append(out, guardIvs(128, c.G6)...)
	for _, f := range forms {
		lo := new(big.Int).Lsh(f.P, f.S+32)
		hi := new(big.Int).Add(lo, new(big.Int).Sub(new(big.Int).Lsh(one, f.S+32), one))
		out = append(out, [2]*big.Int{lo, hi})
	}
	return out
}

func neighbours(iv [2]*big.Int, max *big.Int) []*big.Int {
	pts := []*big.Int{
		new(big.Int).Sub(iv[0], one), iv[0], new(big.Int).Add(iv[0], one),
		new(big.Int).Sub(iv[1], one), iv[1], new(big.Int).Add(iv[1], one),
	}
	var out []*big.Int
	for _, p := range pts {
		if p.Sign() >= 0 && p.Cmp(max) <= 0 {
			out = append(out, p)
		}
	}
	return out
}

// every embedded form of one v4 address (plus both plain representations)
func allForms(v4 *big.Int, low *big.Int) []Addr {
	out := []Addr{{Rep: 4, N: v4}}
	for _, f := range forms {
		out = append(out, Addr{Rep: 16, N: embed(f, v4, low)})
	}
	// Teredo client: v4 stored inverted in the low 32 bits
	inv := new(big.Int).Sub(ffffffff, v4)
	t := new(big.Int).Lsh(big.NewInt(0x20010000), 96)
	if low != nil {
		t.Add(t, new(big.Int).Lsh(new(big.Int).And(low, new(big.Int).Sub(new(big.Int).Lsh(one, 64), one)), 32))
	}
	out = append(out, Addr{Rep: 16, N: t.Add(t, inv)})
	return out
}

func dedup(as []Addr) []Addr {
	seen := map[string]bool{}
	var out []Addr
	for _, a := range as {
		k := a.Coq()
		if a.Rep == 0 {
			k = fmt.Sprintf("bad%d", a.Bad)
		}
		if !seen[k] {
			seen[k] = true
			out = append(out, a)
		}
	}
	return out
}

// the deterministic part: both neighbours of every boundary, in every form
func boundaryAddrs(c *Cfg) []Addr {
	var out []Addr
	allOnes80 := new(big.Int).Sub(new(big.Int).Lsh(one, 80), one)
	for _, iv := range ivs4(c) {
		for _, p := range neighbours(iv, max32) {
			out = append(out, allForms(p, nil)...)
			out = append(out, allForms(p, allOnes80)...)
		}
	}
	for _, iv := range ivs6(c) {
		for _, p := range neighbours(iv, max128) {
			out = append(out, Addr{Rep: 16, N: p})
		}
	}
	// well-known single addresses
	for _, s := range []string{"169.254.169.254", "127.0.0.1", "0.0.0.0", "255.255.255.255", "100.100.100.200", "192.0.0.192",
		"8.8.8.8", "1.1.1.1", "93.184.216.34", "223.255.255.255", "224.0.0.1", "198.18.0.1", "192.0.2.1"} {
		v := new(big.Int).SetBytes(mustV4(s))
		out = append(out, allForms(v, nil)...)
	}
	out = append(out, Addr{Rep: 0, Bad: 0}, Addr{Rep: 0, Bad: 5}, Addr{Rep: 0, Bad: 3}, Addr{Rep: 0, Bad: 17})
	return dedup(out)
}

func mustV4(s string) []byte {
	var b [4]byte
	parts := strings.Split(s, ".")
	for i := range b {
		n, _ := strconv.Atoi(parts[i])
		b[i] = byte(n)
	}
	return b[:]
}

func randV4(r *hx.Rand, c *Cfg) *big.Int {
	iv := ivs4(c)
	switch r.Intn(4) {
	case 0:
		return randBig(r, 32)
	case 1: // inside an interval of interest
		i := iv[r.Intn(len(iv))]
		return clamp(randIn(r, i[0], i[1]), bigZero, max32)
	case 2: // near a boundary
		i := iv[r.Intn(len(iv))]
		b := i[r.Intn(2)]
		d := big.NewInt(int64(r.Range(-300, 300)))
		return clamp(new(big.Int).Add(b, d), bigZero, max32)
	}
	// same first octet as an interval, rest random (catches narrowed prefixes)
	i := iv[r.Intn(len(iv))]
	hi8 := new(big.Int).Lsh(shr(i[0], 24), 24)
	return hi8.Add(hi8, randBig(r, 24))
}

func randAddr(r *hx.Rand, c *Cfg) Addr {
	switch r.Intn(10) {
	case 0, 1:
		return Addr{Rep: 4, N: randV4(r, c)}
	case 2:
		return Addr{Rep: 16, N: new(big.Int).Add(mapBase, randV4(r, c))}
	case 3, 4, 5: // an embedded form
		fs := allForms(randV4(r, c), randBig(r, 80))
		return fs[1+r.Intn(len(fs)-1)]
	case 6:
		return Addr{Rep: 16, N: randBig(r, 128)}
	case 7, 8:
		iv := ivs6(c)
		i := iv[r.Intn(len(iv))]
		if r.Bool() {
			return Addr{Rep: 16, N: clamp(randIn(r, i[0], i[1]), bigZero, max128)}
		}
		b := i[r.Intn(2)]
		return Addr{Rep: 16, N: clamp(new(big.Int).Add(b, big.NewInt(int64(r.Range(-300, 300)))), bigZero, max128)}
	}
	if r.Chance(1, 8) {
		return Addr{Rep: 0, Bad: []int{0, 1, 5, 8, 15, 17, 32}[r.Intn(7)]}
	}
	return Addr{Rep: 16, N: randBig(r, uint(r.Range(1, 128)))}
}

// ---------- policy generators ----------

var (
	hostPool   = []string{"api.example.com", "svc.test", "a", "a|b", "models.internal", "x.y"}
	ipPool     = []string{"127.0.0.1", "10.0.0.5", "::1", "169.254.169.254", "8.8.8.8", "::ffff:127.0.0.1", "192.168.1.10", "2001:db8::1", "100.64.0.1"}
	portPool   = []string{"443", "80", "8080", "11434", "6379", "b|443"}
	secretPool = []string{"OPENAI_KEY", "HF_TOKEN", "S3", "db", "k1"}
	timePool   = []int64{-5e9, 0, 1, 1e9, 10e9, 30e9, 60e9, 1 << 50}
	sizePool   = []int64{-1, 0, 1, 1024, 4 << 20, 8 << 20, 1 << 40}
)

func randEntry(r *hx.Rand, c *Cfg) Entry {
	e := Entry{Scheme: []string{"https", "https", "http"}[r.Intn(3)], Port: portPool[r.Intn(len(portPool))]}
	if r.Bool() {
		e.Host = hostPool[r.Intn(len(hostPool))]
		if r.Chance(1, 12) { // ill-formed on purpose: hostname entry carrying an IP
			a := randAddr(r, c)
			if a.Rep != 0 {
				e.IP = &a
			}
		}
		return e
	}
	e.Host = ipPool[r.Intn(len(ipPool))]
	a := parseIPOpt(e.Host)
	if r.Chance(1, 3) { // 4-byte representation of the same address where there is one
		if v4, ok := to4(*a); ok {
			a = &Addr{Rep: 4, N: v4}
		}
	}
	if r.Chance(1, 12) { // ill-formed on purpose: IP differs from the host text
		x := randAddr(r, c)
		if x.Rep != 0 {
			a = &x
		}
	}
	e.IP = a
	return e
}

func subset(r *hx.Rand, pool []string) []string {
	var out []string
	for _, s := range pool {
		if r.Chance(2, 5) {
			out = append(out, s)
		}
	}
	return out
}

func randPol(r *hx.Rand, c *Cfg, maxEntries int) Pol {
	p := Pol{Enabled: r.Chance(5, 6), Timeout: timePool[r.Intn(len(timePool))], MaxResp: sizePool[r.Intn(len(sizePool))]}
	n := r.Range(0, maxEntries)
	for i := 0; i < n; i++ {
		p.Allow = append(p.Allow, randEntry(r, c))
	}
	p.Secrets = subset(r, secretPool)
	sort.Strings(p.Secrets) // a SecretRefs map is represented by the sorted list of its keys
	return p
}

// a ceiling that shares entries with req, so that intersections are not trivially empty
func randCeil(r *hx.Rand, c *Cfg, req Pol) Pol {
	p := randPol(r, c, 3)
	if r.Chance(1, 4) {
		p.Allow = nil // enabled but unrestricted
	}
	for _, e := range req.Allow {
		if r.Chance(1, 2) {
			e2 := e
			if r.Chance(1, 6) { // same key, different IP field
				e2.IP = nil
			}
			p.Allow = append(p.Allow, e2)
		} else if r.Chance(1, 3) {
			// a DIFFERENT entry whose scheme, host and port read the same once written next to each other
			// (127.0.0.1 + 11434 / 127.0.0.11 + 1434, http + sapi.test / https + api.test): it must not make the
			// request's entry pass the intersection
			if t, ok := twin(r, e); ok {
				p.Allow = append(p.Allow, t)
			}
		}
	}
	return p
}

func isDigit(b byte) bool { return b >= '0' && b <= '9' }

// twin returns an entry that differs from e but concatenates to the same text: one character is moved across
// the host/port boundary (digits only, the port stays a number) or across the scheme/host boundary.
func twin(r *hx.Rand, e Entry) (Entry, bool) {
	t := e
	switch r.Intn(3) {
	case 0: // first digit of the port goes to the end of the host
		if len(e.Port) < 2 || !isDigit(e.Port[0]) || e.Host == "" {
			return t, false
		}
		t.Host, t.Port = e.Host+e.Port[:1], e.Port[1:]
	case 1: // last digit of the host goes to the front of the port
		if len(e.Host) < 2 || !isDigit(e.Host[len(e.Host)-1]) || e.Port == "" || !isDigit(e.Port[0]) {
			return t, false
		}
		t.Host, t.Port = e.Host[:len(e.Host)-1], e.Host[len(e.Host)-1:]+e.Port
	default: // the s of https
		if e.Scheme == "https" {
			t.Scheme, t.Host = "http", "s"+e.Host
		} else if e.Scheme == "http" && strings.HasPrefix(e.Host, "s") && len(e.Host) > 1 {
			t.Scheme, t.Host = "https", e.Host[1:]
		} else {
			return t, false
		}
	}
	t.IP = parseIPOpt(t.Host) // an IP-literal host keeps a matching IP field; anything else is a host name entry
	return t, true
}

func textForms(a Addr) []string {
	ip := a.IP()
	out := []string{ip.String()}
	if v4, ok := to4(a); ok {
		b := make([]byte, 4)
		v4.FillBytes(b)
		out = append(out, fmt.Sprintf("::ffff:%d.%d.%d.%d", b[0], b[1], b[2], b[3]), fmt.Sprintf("::FFFF:%02x%02x:%02x%02x", b[0], b[1], b[2], b[3]))
	} else {
		out = append(out, strings.ToUpper(ip.String()))
	}
	return out
}

// request via egress.PolicyFromSettings, ceiling via egress.ParseAllowlist (the way
// pkg/processor/service.go and pkg/conduit build them), from rendered config text
var allowText = []string{"api.example.com", "svc.test:8080", "https://models.internal", "http://127.0.0.1:11434",
	"http://10.0.0.5:8080", "[::1]:443", "8.8.8.8", "HTTPS://API.EXAMPLE.COM:443", "https://svc.test:8080/", "http://[::1]:11434"}

func parsedPolicies(r *hx.Rand) (Pol, Pol, bool) {
	settings := map[string]string{egress.ConfigKeyAllow: strings.Join(subset(r, allowText), []string{",", " ", ", "}[r.Intn(3)])}
	if r.Bool() {
		settings[egress.ConfigKeyTimeout] = []string{"1s", "10s", "45s", "2m"}[r.Intn(4)]
	}
	if r.Bool() {
		settings[egress.ConfigKeyMaxResponseBytes] = []string{"1", "1024", "8388608"}[r.Intn(3)]
	}
	if r.Bool() {
		settings[egress.ConfigKeySecretRefs] = strings.Join(subset(r, secretPool), ",")
	}
	req, err := egress.PolicyFromSettings(settings)
	if err != nil {
		return Pol{}, Pol{}, false
	}
	cl, err := egress.ParseAllowlist(strings.Join(subset(r, allowText), ","))
	if err != nil {
		return Pol{}, Pol{}, false
	}
	ceil := egress.Policy{Enabled: r.Chance(5, 6), Allowlist: cl, Timeout: time.Duration(timePool[r.Intn(len(timePool))]),
		MaxResponseBytes: sizePool[r.Intn(len(sizePool))]}
	if refs := subset(r, secretPool); len(refs) > 0 {
		ceil.SecretRefs = map[string]struct{}{}
		for _, x := range refs {
			ceil.SecretRefs[x] = struct{}{}
		}
	}
	return polOfReal(req), polOfReal(ceil), true
}

// ---------- one shard ----------

func (r *runner) randomCases(root *hx.Rand, o hx.Opts) {
	c := r.cfg
	for i := 0; i < o.N; i++ {
		rr := root.Fork(uint64(o.Shard)<<32 | uint64(i))
		r.caseRefuse(randAddr(rr, c))
	}
	for i := 0; i < o.N/12; i++ {
		rr := root.Fork(1<<40 | uint64(o.Shard)<<32 | uint64(i))
		req := randPol(rr, c, 5)
		ceil := randCeil(rr, c, req)
		if rr.Chance(1, 3) { // both policies produced by the real parsers from config text
			if q, cl, ok := parsedPolicies(rr); ok {
				req, ceil = q, cl
			}
		}
		r.caseResolve(req, ceil)
	}
	for i := 0; i < o.N/25; i++ {
		rr := root.Fork(2<<40 | uint64(o.Shard)<<32 | uint64(i))
		p := randPol(rr, c, 5)
		scheme := []string{"https", "http"}[rr.Intn(2)]
		port := portPool[rr.Intn(len(portPool))]
		host := hostPool[rr.Intn(len(hostPool))]
		if len(p.Allow) > 0 && rr.Chance(3, 4) {
			e := p.Allow[rr.Intn(len(p.Allow))]
			scheme, port, host = e.Scheme, e.Port, e.Host
			if e.IP != nil && e.IP.Rep != 0 {
				tf := textForms(*e.IP)
				host = tf[rr.Intn(len(tf))]
			} else if rr.Bool() {
				host = strings.ToUpper(host)
			}
			if rr.Chance(1, 5) {
				port = portPool[rr.Intn(len(portPool))]
			}
			if rr.Chance(1, 8) {
				scheme = []string{"https", "http"}[rr.Intn(2)]
			}
		}
		r.caseMatch(p, scheme, host, port)
	}
	for i := 0; i < o.N/12; i++ {
		rr := root.Fork(3<<40 | uint64(o.Shard)<<32 | uint64(i))
		p := randPol(rr, c, 5)
		a := randAddr(rr, c)
		port := portPool[rr.Intn(len(portPool))]
		if len(p.Allow) > 0 && rr.Chance(4, 5) {
			e := p.Allow[rr.Intn(len(p.Allow))]
			if e.IP != nil {
				a = *e.IP
				if rr.Bool() { // the other representation of the same address
					if v4, ok := to4(a); ok && a.Rep == 16 {
						a = Addr{Rep: 4, N: v4}
					} else if a.Rep == 4 {
						a = a.Reparse()
					}
				}
			}
			if rr.Chance(2, 3) {
				port = e.Port
			}
		}
		r.caseCarve(p, a, port)
	}
	for i := 0; i < o.N/25; i++ {
		rr := root.Fork(4<<40 | uint64(o.Shard)<<32 | uint64(i))
		var scheme, port *string
		if rr.Chance(2, 3) {
			s := []string{"https", "http"}[rr.Intn(2)]
			scheme = &s
		}
		if rr.Chance(1, 2) {
			p := []string{"443", "80", "8080", "11434"}[rr.Intn(4)]
			port = &p
		}
		host := []string{"api.example.com", "svc.test", "localhost"}[rr.Intn(3)]
		if rr.Chance(2, 3) {
			a := randAddr(rr, c)
			if a.Rep != 0 {
				host = a.IP().String()
			}
		}
		r.caseParse(scheme, host, port, rr.Intn(32))
	}
	for i := 0; i < o.N/12; i++ {
		rr := root.Fork(5<<40 | uint64(o.Shard)<<32 | uint64(i))
		p := randPol(rr, c, 4)
		p.Enabled = true
		port := []string{"443", "80", "8080", "11434", "6379"}[rr.Intn(5)]
		n := rr.Range(0, 6)
		var cands []Addr
		for j := 0; j < n; j++ {
			a := randAddr(rr, c)
			if len(p.Allow) > 0 && rr.Chance(1, 3) {
				if e := p.Allow[rr.Intn(len(p.Allow))]; e.IP != nil {
					a = *e.IP
					if rr.Bool() && a.Rep == 4 {
						a = a.Reparse()
					}
				}
			}
			cands = append(cands, a)
		}
		// make some carve-outs hit: give an IP entry this port
		if len(p.Allow) > 0 && rr.Chance(1, 2) {
			p.Allow[rr.Intn(len(p.Allow))].Port = port
		}
		r.casePlan(p, port, cands, rr.Chance(1, 5))
	}
	nDo := o.N / 40
	if nDo < 4 {
		nDo = 4
	}
	for i := 0; i < nDo; i++ {
		rr := root.Fork(6<<40 | uint64(o.Shard)<<32 | uint64(i))
		r.caseDo(randDo(rr, o.Shard))
	}
}

// loopback addresses of this shard: 127.(20+shard).0.k
func lo(shard, k int) Addr {
	return Addr{Rep: 4, N: big.NewInt(int64(127)<<24 | int64(20+shard%200)<<16 | int64(k))}
}

func randDo(r *hx.Rand, shard int) doCase {
	ports := []string{"P1", "P2", "P3"}
	d := doCase{Scheme: "http", Host: "svc.test", Port: ports[r.Intn(2)]}
	d.Pol = Pol{Enabled: r.Chance(9, 10), Timeout: int64(2e9), MaxResp: 1 << 20}
	// stage-1 entry for the hostname (hand-built: ParseAllowEntry refuses http for names)
	if r.Chance(9, 10) {
		d.Pol.Allow = append(d.Pol.Allow, Entry{Scheme: "http", Host: "svc.test", Port: d.Port})
	}
	// carve-outs: some loopback (ip, port) pairs
	for k := 1; k <= 5; k++ {
		if r.Chance(2, 5) {
			a := lo(shard, k)
			if r.Bool() {
				a = a.Reparse()
			}
			d.Pol.Allow = append(d.Pol.Allow, Entry{Scheme: "http", Host: lo(shard, k).IP().String(), Port: ports[r.Intn(3)], IP: &a})
		}
	}
	// sometimes the operator also allowed the exact pair on which the proxy named in the
	// environment listens (127.0.0.1:PX): irrelevant unless the transport honours the
	// environment, in which case the connection shows up at the trap
	if r.Chance(1, 3) {
		a := Addr{Rep: 4, N: ip4(127, 0, 0, 1)}
		d.Pol.Allow = append(d.Pol.Allow, Entry{Scheme: "http", Host: "127.0.0.1", Port: "PX", IP: &a})
	}
	// listeners
	for k := 1; k <= 5; k++ {
		for _, p := range ports {
			if r.Chance(1, 2) {
				d.Listen = append(d.Listen, hit{IP: lo(shard, k), Port: p})
			}
		}
	}
	// resolver answer: loopback addresses of this shard in both representations, and
	// never-admissible private / metadata / embedded addresses in between
	never := []Addr{
		{Rep: 4, N: ip4(169, 254, 169, 254)}, {Rep: 4, N: ip4(10, 0, 0, 7)}, {Rep: 16, N: new(big.Int).Add(mapBase, ip4(192, 168, 0, 1))},
		{Rep: 16, N: embed(forms[3], ip4(169, 254, 169, 254), nil)}, {Rep: 16, N: bi("0xfe800000000000000000000000000001")}, {Rep: 0, Bad: 0},
	}
	n := r.Range(1, 5)
	for j := 0; j < n; j++ {
		if r.Chance(1, 4) {
			d.Cands = append(d.Cands, never[r.Intn(len(never))])
			continue
		}
		a := lo(shard, r.Range(1, 6))
		if r.Bool() {
			a = a.Reparse()
		}
		d.Cands = append(d.Cands, a)
	}
	// most cases contain one reachable, exactly carved-out target among the candidates, so
	// that a connection is expected after the decoys in front of it have been skipped
	if r.Chance(2, 3) {
		k := r.Range(1, 5)
		a := lo(shard, k)
		d.Pol.Allow = append(d.Pol.Allow, Entry{Scheme: "http", Host: a.IP().String(), Port: d.Port, IP: &a})
		d.Listen = append(d.Listen, hit{IP: a, Port: d.Port})
		c := a
		if r.Bool() {
			c = a.Reparse()
		}
		pos := r.Intn(len(d.Cands) + 1)
		d.Cands = append(d.Cands[:pos], append([]Addr{c}, d.Cands[pos:]...)...)
	}
	if r.Chance(1, 4) { // IP-literal URL
		k := r.Range(1, 5)
		d.Host = lo(shard, k).IP().String()
		if r.Bool() {
			d.Host = "::ffff:" + d.Host
		}
	}
	if r.Chance(1, 4) {
		t := hit{IP: lo(shard, r.Range(1, 5)), Port: "P3"}
		d.Redirect = &t
		d.Listen = append(d.Listen, t)
	}
	return d
}

func main() {
	o := hx.ParseFlags()
	if o.Mode == "gen" {
		os.Exit(runGen(repoPath(), o.Out, "GenEgress.v", "gen_"))
	}
	if o.Mode == "snapshot" { // the static copy coq/Egress/Snapshot.v is made with this
		os.Exit(runGen(repoPath(), o.Out, "Snapshot.v", "snapshot_"))
	}
	// the proxy environment must be in place before net/http reads it (once per process)
	if trap := startProxyTrap(); trap != "" {
		for _, k := range []string{"HTTP_PROXY", "HTTPS_PROXY", "ALL_PROXY", "http_proxy", "https_proxy", "all_proxy"} {
			os.Setenv(k, trap)
		}
		os.Unsetenv("NO_PROXY")
		os.Unsetenv("no_proxy")
	}
	cfg, err := loadCfg(repoPath())
	if err != nil {
		fmt.Fprintln(os.Stderr, "translator:", err)
		os.Exit(2)
	}
	w, err := newCaseWriter(o, "From Verif Require Import Base.CaseCheck Egress.Ip Egress.Policy Egress.Check.\nFrom VerifGen Require Import GenEgress.", "ecase")
	if err != nil {
		fmt.Fprintln(os.Stderr, err)
		os.Exit(2)
	}
	r := &runner{cfg: cfg, w: w}
	switch {
	case o.Replay != "":
		cs, err := hx.ReadJSONL(o.Replay)
		if err != nil {
			fmt.Fprintln(os.Stderr, err)
			os.Exit(2)
		}
		for _, m := range cs {
			m := m
			hx.Try(func() { r.replayOne(m) })
		}
	default:
		// deterministic boundary cases, sharded
		for i, a := range boundaryAddrs(cfg) {
			if i%o.Shards == o.Shard {
				r.caseRefuse(a)
			}
		}
		root := hx.NewRand(o.Seed)
		r.randomCases(root, o)
		if strings.HasPrefix(o.Mode, "bulk=") {
			k, _ := strconv.Atoi(strings.TrimPrefix(o.Mode, "bulk="))
			for i := 0; i < k; i++ {
				rr := root.Fork(7<<40 | uint64(o.Shard)<<32 | uint64(i))
				r.bulkRefuse(randAddr(rr, cfg))
			}
			r.add(map[string]any{"kind": "bulk", "n": r.bulkN}, map[string]any{"mismatches": r.bulkMismatch},
				fmt.Sprintf("CBulk %d%%N %d%%N", r.bulkN, r.bulkMismatch))
		}
	}
	if err := w.Close("(chk gen_cfg gen_consts)"); err != nil {
		fmt.Fprintln(os.Stderr, err)
		os.Exit(2)
	}
	fmt.Printf("cases=%d bulk=%d bulk_mismatch=%d\n", w.Count(), r.bulkN, r.bulkMismatch)
}
