// Harness for C07 (DLQ window): drives the real window code of both engines
// through their exported entry points and records the decision taken for every
// outcome.
//
//	v1: stream.DLQHandlerNode  Run / Ack / Nack   (one outcome per call)
//	v2: funnel.DLQ             Ack / Nack         (counted, batch at a time)
package main

import (
	"context"
	"errors"
	"fmt"
	"os"
	"strconv"
	"strings"
	"sync"
	"sync/atomic"
	"time"

	sdk "github.com/conduitio/conduit-processor-sdk"

	"github.com/conduitio/conduit-commons/opencdc"
	"github.com/conduitio/conduit/pkg/connector"
	"github.com/conduitio/conduit/pkg/foundation/cerrors"
	"github.com/conduitio/conduit/pkg/foundation/log"
	"github.com/conduitio/conduit/pkg/foundation/metrics"
	"github.com/conduitio/conduit/pkg/foundation/metrics/noop"
	"github.com/conduitio/conduit/pkg/lifecycle-poc/funnel"
	"github.com/conduitio/conduit/pkg/lifecycle/stream"

	"verifharness/lib/hx"
)

// ---------- fakes ----------

type v1Handler struct {
	mu     sync.Mutex
	writes []string
}

func (h *v1Handler) Open(context.Context) error { return nil }
func (h *v1Handler) Write(_ context.Context, r opencdc.Record) error {
	h.mu.Lock()
	defer h.mu.Unlock()
	h.writes = append(h.writes, string(r.Position))
	return nil
}
func (h *v1Handler) Close(context.Context) error { return nil }

type v2Dest struct {
	pending []opencdc.Record
	writes  []string
}

func (d *v2Dest) ID() string                     { return "dlq" }
func (d *v2Dest) Open(context.Context) error     { return nil }
func (d *v2Dest) Teardown(context.Context) error { return nil }
func (d *v2Dest) Errors() <-chan error           { return nil }
func (d *v2Dest) Write(_ context.Context, rs []opencdc.Record) error {
	d.pending = append(d.pending, rs...)
	for _, r := range rs {
		d.writes = append(d.writes, string(r.Position))
	}
	return nil
}
func (d *v2Dest) Ack(context.Context) ([]connector.DestinationAck, error) {
	out := make([]connector.DestinationAck, len(d.pending))
	for i, r := range d.pending {
		out[i] = connector.DestinationAck{Position: r.Position}
	}
	d.pending = nil
	return out, nil
}

// ---------- one case ----------

type wcase struct {
	Engine string   `json:"engine"`
	Size   int      `json:"size"`
	Thr    int      `json:"thr"`
	Ops    []bool   `json:"ops,omitempty"`    // v1: true = nack
	Chunks [][2]int `json:"chunks,omitempty"` // v2: (isNack, count)
}

type wobs struct {
	Decisions []bool   `json:"decisions"`
	Writes    []string `json:"writes"`
	Fatal     []bool   `json:"fatal"` // per refused nack: was the error fatal
	Aux       string   `json:"aux,omitempty"`
}

func rec(i int) opencdc.Record {
	return opencdc.Record{
		Position:  opencdc.Position(fmt.Sprintf("p%04d", i)),
		Operation: opencdc.OperationCreate,
		Metadata:  opencdc.Metadata{},
		Key:       opencdc.RawData("k"),
		Payload:   opencdc.Change{After: opencdc.RawData("v")},
	}
}

func runV1(c wcase) wobs {
	ctx, cancel := context.WithTimeout(context.Background(), 20*time.Second)
	defer cancel()
	h := &v1Handler{}
	node := &stream.DLQHandlerNode{
		Name:                "dlq",
		Handler:             h,
		WindowSize:          c.Size,
		WindowNackThreshold: c.Thr,
		Timer:               noop.Timer{},
		Histogram:           metrics.NewRecordBytesHistogram(noop.Histogram{}),
	}
	node.SetLogger(log.Nop())
	node.Add(1)
	done := make(chan error, 1)
	go func() { done <- node.Run(ctx) }()
	var o wobs
	for i, nack := range c.Ops {
		msg := &stream.Message{Ctx: ctx, Record: rec(i)}
		if !nack {
			node.Ack(msg)
			o.Decisions = append(o.Decisions, true)
			continue
		}
		reason := cerrors.New("boom")
		err := node.Nack(msg, stream.NackMetadata{Reason: reason, NodeID: "n"})
		o.Decisions = append(o.Decisions, err == nil)
		if err != nil {
			o.Fatal = append(o.Fatal, cerrors.IsFatalError(err))
		}
	}
	node.Done()
	if err := <-done; err != nil {
		o.Aux = "run: " + err.Error()
	}
	h.mu.Lock()
	o.Writes = append(o.Writes, h.writes...)
	h.mu.Unlock()
	return o
}

func runV2(c wcase) wobs {
	ctx := context.Background()
	d := &v2Dest{}
	dlq := funnel.NewDLQ("dlq", d, log.Nop(), funnel.NoOpConnectorMetrics{}, c.Size, c.Thr)
	var o wobs
	next := 0
	for _, ch := range c.Chunks {
		n := ch[1]
		recs := make([]opencdc.Record, n)
		for i := range recs {
			recs[i] = rec(next)
			next++
		}
		b := funnel.NewBatch(recs)
		if ch[0] == 0 {
			dlq.Ack(ctx, b)
			for i := 0; i < n; i++ {
				o.Decisions = append(o.Decisions, true)
			}
			continue
		}
		errs := make([]error, n)
		for i := range errs {
			errs[i] = cerrors.New("boom")
		}
		if n > 0 {
			b.Nack(0, errs...)
		}
		k, err := dlq.Nack(ctx, b, "task")
		for i := 0; i < n; i++ {
			o.Decisions = append(o.Decisions, i < k)
		}
		if k < n {
			if err == nil {
				o.Aux += fmt.Sprintf("chunk accepted %d of %d with nil error;", k, n)
			}
			o.Fatal = append(o.Fatal, cerrors.IsFatalError(err))
		} else if err != nil {
			o.Aux += "all accepted but error: " + err.Error() + ";"
		}
	}
	o.Writes = append(o.Writes, d.writes...)
	return o
}

// ---------- routing: records to DLQ, acks to source ----------

type rcase struct {
	Engine  string     `json:"engine"` // r1 | r2
	Size    int        `json:"size"`
	Thr     int        `json:"thr"`
	Recs    [][2]bool  `json:"recs,omitempty"`    // r1: (rejected, dlq write fails) in source order
	Batches [][][2]bool `json:"batches,omitempty"` // r2: the same, cut into source batches
	Order   []int      `json:"order,omitempty"`   // r1: order in which Ack()/Nack() are called
	// NilReason: rejections come from a processor that returns sdk.ErrorRecord{Error: nil}
	// (v1: msg.Nack(nil, node) exactly as ProcessorNode does; v2: a ProcessorTask in front
	// of the destination)
	NilReason bool `json:"nil_reason,omitempty"`
}

type revent struct {
	Kind string `json:"k"` // dlq | ack
	Idx  int    `json:"i"`
}

type robs struct {
	Events  []revent `json:"events"`
	Stopped bool     `json:"stopped"`
	Fatal   bool     `json:"fatal"`
	Panic   bool     `json:"panic,omitempty"`
	Aux     string   `json:"aux,omitempty"`
}

type evlog struct {
	mu sync.Mutex
	ev []revent
}

func (l *evlog) add(k string, i int) {
	l.mu.Lock()
	l.ev = append(l.ev, revent{k, i})
	l.mu.Unlock()
}

func posIdx(p opencdc.Position) int {
	// positions are "pNNNN"; v1 DLQ records carry the message id "<source>/pNNNN"
	str := string(p)
	if len(str) < 4 {
		return -1
	}
	n, err := strconv.Atoi(str[len(str)-4:])
	if err != nil {
		return -1
	}
	return n
}

// --- v1 fakes
type r1Source struct{ log *evlog }

func (s *r1Source) ID() string                                         { return "src" }
func (s *r1Source) Open(context.Context) error                         { return nil }
func (s *r1Source) Read(context.Context) ([]opencdc.Record, error)     { return nil, nil }
func (s *r1Source) Stop(context.Context) (opencdc.Position, error)     { return nil, nil }
func (s *r1Source) Teardown(context.Context) error                     { return nil }
func (s *r1Source) Errors() <-chan error                               { return nil }
func (s *r1Source) Ack(_ context.Context, ps []opencdc.Position) error {
	for _, p := range ps {
		s.log.add("ack", posIdx(p))
	}
	return nil
}

type r1Handler struct {
	log  *evlog
	fail map[int]bool
}

func (h *r1Handler) Open(context.Context) error  { return nil }
func (h *r1Handler) Close(context.Context) error { return nil }
func (h *r1Handler) Write(_ context.Context, r opencdc.Record) error {
	i := posIdx(r.Position)
	if h.fail[i] {
		return cerrors.New("dlq write failed")
	}
	h.log.add("dlq", i)
	return nil
}

func runR1(c rcase) robs {
	ctx, cancel := context.WithTimeout(context.Background(), 30*time.Second)
	defer cancel()
	lg := &evlog{}
	h := &r1Handler{log: lg, fail: map[int]bool{}}
	for i, r := range c.Recs {
		if r[1] {
			h.fail[i] = true
		}
	}
	dlq := &stream.DLQHandlerNode{
		Name: "dlq", Handler: h, WindowSize: c.Size, WindowNackThreshold: c.Thr,
		Timer: noop.Timer{}, Histogram: metrics.NewRecordBytesHistogram(noop.Histogram{}),
	}
	dlq.SetLogger(log.Nop())
	acker := &stream.SourceAckerNode{Name: "acker", Source: &r1Source{log: lg}, DLQHandlerNode: dlq}
	acker.SetLogger(log.Nop())
	dlq.Add(1) // the acker node depends on the DLQ node, as lifecycle.buildNodes registers it
	in := make(chan *stream.Message)
	acker.Sub(in)
	out := acker.Pub()
	dlqDone := make(chan error, 1)
	ackerDone := make(chan error, 1)
	go func() { dlqDone <- dlq.Run(ctx) }()
	go func() { ackerDone <- acker.Run(ctx) }()

	msgs := make([]*stream.Message, len(c.Recs))
	for i := range c.Recs {
		m := &stream.Message{Ctx: ctx, Record: rec(i)}
		select {
		case in <- m:
		case <-ctx.Done():
			return robs{Aux: "timeout feeding"}
		}
		select {
		case msgs[i] = <-out:
		case <-ctx.Done():
			return robs{Aux: "timeout receiving"}
		}
	}
	// call Ack()/Nack() in the generated order, each from its own goroutine (a handler
	// blocks until all earlier tickets were released)
	errs := make([]error, len(msgs))
	var wg sync.WaitGroup
	var panicked atomic.Bool
	order := c.Order
	if len(order) != len(msgs) {
		order = make([]int, len(msgs))
		for i := range order {
			order[i] = i
		}
	}
	for _, i := range order {
		if i < 0 || i >= len(msgs) {
			continue
		}
		wg.Add(1)
		started := make(chan struct{})
		go func(i int) {
			defer wg.Done()
			close(started)
			defer func() {
				if r := recover(); r != nil {
					panicked.Store(true)
					errs[i] = cerrors.Errorf("panic: %v", r)
				}
			}()
			if c.Recs[i][0] {
				var reason error = cerrors.New("rejected")
				if c.NilReason {
					reason = nil
				}
				errs[i] = msgs[i].Nack(reason, "dest")
			} else {
				errs[i] = msgs[i].Ack()
			}
		}(i)
		<-started
		time.Sleep(50 * time.Microsecond)
	}
	wg.Wait()
	close(in)
	var o robs
	o.Panic = panicked.Load()
	if o.Panic {
		// a panicking handler never releases its ticket: do not wait for the nodes
		cancel()
	}
	select {
	case <-ackerDone:
	case <-ctx.Done():
		o.Aux += "acker did not stop;"
	}
	select {
	case <-dlqDone:
	case <-ctx.Done():
		o.Aux += "dlq node did not stop;"
	}
	for _, e := range errs {
		if e != nil {
			o.Stopped = true
			o.Fatal = cerrors.IsFatalError(e)
			break
		}
	}
	o.Events = lg.ev
	return o
}

// --- v2 fakes
var errScriptDone = errors.New("script done")

type r2Source struct {
	log     *evlog
	batches [][]opencdc.Record
	next    int
}

func (s *r2Source) ID() string                     { return "src" }
func (s *r2Source) Open(context.Context) error     { return nil }
func (s *r2Source) Teardown(context.Context) error { return nil }
func (s *r2Source) Errors() <-chan error           { return nil }
func (s *r2Source) Read(context.Context) ([]opencdc.Record, error) {
	if s.next >= len(s.batches) {
		return nil, errScriptDone
	}
	b := s.batches[s.next]
	s.next++
	return b, nil
}
func (s *r2Source) Ack(_ context.Context, ps []opencdc.Position) error {
	for _, p := range ps {
		s.log.add("ack", posIdx(p))
	}
	return nil
}

// r2Dest is used both as the destination (rejects per script) and as the DLQ
// destination (its acks carry an error for records whose DLQ write "fails").
type r2Dest struct {
	id      string
	log     *evlog
	bad     map[int]bool
	isDLQ   bool
	pending []opencdc.Record
}

func (d *r2Dest) ID() string                     { return d.id }
func (d *r2Dest) Open(context.Context) error     { return nil }
func (d *r2Dest) Teardown(context.Context) error { return nil }
func (d *r2Dest) Errors() <-chan error           { return nil }
func (d *r2Dest) Write(_ context.Context, rs []opencdc.Record) error {
	d.pending = append(d.pending, rs...)
	return nil
}
func (d *r2Dest) Ack(context.Context) ([]connector.DestinationAck, error) {
	out := make([]connector.DestinationAck, len(d.pending))
	for i, r := range d.pending {
		idx := posIdx(r.Position)
		out[i] = connector.DestinationAck{Position: r.Position}
		if d.bad[idx] {
			out[i].Error = cerrors.New("rejected")
		} else if d.isDLQ {
			d.log.add("dlq", idx)
		}
	}
	d.pending = nil
	return out, nil
}

// r2Proc rejects records per script with an ErrorRecord (nil Error when asked to)
type r2Proc struct {
	bad map[int]bool
	nil bool
}

func (p *r2Proc) Open(context.Context) error     { return nil }
func (p *r2Proc) Teardown(context.Context) error { return nil }
func (p *r2Proc) Process(_ context.Context, rs []opencdc.Record) []sdk.ProcessedRecord {
	out := make([]sdk.ProcessedRecord, len(rs))
	for i, r := range rs {
		if p.bad[posIdx(r.Position)] {
			if p.nil {
				out[i] = sdk.ErrorRecord{Error: nil}
			} else {
				out[i] = sdk.ErrorRecord{Error: cerrors.New("rejected")}
			}
		} else {
			out[i] = sdk.SingleRecord(r)
		}
	}
	return out
}

func runR2(c rcase) robs {
	ctx, cancel := context.WithTimeout(context.Background(), 30*time.Second)
	defer cancel()
	lg := &evlog{}
	src := &r2Source{log: lg}
	dest := &r2Dest{id: "dest", log: lg, bad: map[int]bool{}}
	dlqd := &r2Dest{id: "dlq", log: lg, bad: map[int]bool{}, isDLQ: true}
	k := 0
	for _, b := range c.Batches {
		var rs []opencdc.Record
		for _, r := range b {
			rs = append(rs, rec(k))
			if r[0] {
				dest.bad[k] = true
			}
			if r[1] {
				dlqd.bad[k] = true
			}
			k++
		}
		if len(rs) > 0 {
			src.batches = append(src.batches, rs)
		}
	}
	lgr := log.Nop()
	dlq := funnel.NewDLQ("dlq", dlqd, lgr, funnel.NoOpConnectorMetrics{}, c.Size, c.Thr)
	destNode := &funnel.TaskNode{Task: funnel.NewDestinationTask("dest", dest, lgr, funnel.NoOpConnectorMetrics{})}
	srcNode := &funnel.TaskNode{Task: funnel.NewSourceTask("src", src, lgr, funnel.NoOpConnectorMetrics{}), Next: []*funnel.TaskNode{destNode}}
	if c.NilReason {
		// rejections come from a processor instead of the destination
		proc := &r2Proc{bad: dest.bad, nil: true}
		dest.bad = map[int]bool{}
		procNode := &funnel.TaskNode{Task: funnel.NewProcessorTask("proc", proc, lgr, funnel.NoOpProcessorMetrics{}), Next: []*funnel.TaskNode{destNode}}
		srcNode.Next = []*funnel.TaskNode{procNode}
	}
	w, err := funnel.NewWorker(srcNode, dlq, lgr, noop.Timer{})
	if err != nil {
		return robs{Aux: "NewWorker: " + err.Error()}
	}
	done := make(chan error, 1)
	var panicked atomic.Bool
	go func() {
		defer func() {
			if r := recover(); r != nil {
				panicked.Store(true)
				done <- cerrors.Errorf("panic: %v", r)
			}
		}()
		done <- w.Do(ctx)
	}()
	var o robs
	select {
	case err = <-done:
	case <-ctx.Done():
		return robs{Aux: "worker hung"}
	}
	o.Panic = panicked.Load()
	if !errors.Is(err, errScriptDone) {
		o.Stopped = true
		o.Fatal = cerrors.IsFatalError(err)
		if err == nil {
			o.Aux = "Do returned nil"
		}
	}
	o.Events = lg.ev
	return o
}

func coqRecs(rs [][2]bool) string {
	items := make([]string, len(rs))
	for i, r := range rs {
		items[i] = hx.Pair(hx.Bool(r[0]), hx.Bool(r[1]))
	}
	return hx.List(items)
}

func coqEvents(es []revent) string {
	items := make([]string, len(es))
	for i, e := range es {
		if e.Kind == "dlq" {
			items[i] = fmt.Sprintf("DlqOk %d", e.Idx)
		} else {
			items[i] = fmt.Sprintf("SrcAck %d", e.Idx)
		}
	}
	return hx.List(items)
}

func emitR(w *hx.Writer, c rcase) {
	var o robs
	var term string
	if c.Engine == "r1" {
		o = runR1(c)
		term = fmt.Sprintf("R1 %d %d %s %s %s %s %s", c.Size, c.Thr, coqRecs(c.Recs), coqEvents(o.Events), hx.Bool(o.Stopped), hx.Bool(o.Fatal), hx.Bool(o.Panic))
	} else {
		o = runR2(c)
		bs := make([]string, 0, len(c.Batches))
		for _, b := range c.Batches {
			if len(b) > 0 {
				bs = append(bs, coqRecs(b))
			}
		}
		term = fmt.Sprintf("R2 %d %d %s %s %s %s %s %s", c.Size, c.Thr, hx.List(bs), hx.Bool(c.NilReason), coqEvents(o.Events), hx.Bool(o.Stopped), hx.Bool(o.Fatal), hx.Bool(o.Panic))
	}
	w.Add(map[string]any{"input": c, "observed": o}, term)
}

func genRecs(r *hx.Rand, maxLen int) [][2]bool {
	n := r.Range(1, maxLen)
	den := []int{2, 3, 5, 8}[r.Intn(4)]
	failDen := []int{0, 0, 4, 10}[r.Intn(4)]
	rs := make([][2]bool, n)
	for i := range rs {
		rs[i][0] = r.Chance(1, den)
		if failDen > 0 {
			rs[i][1] = r.Chance(1, failDen)
		}
	}
	return rs
}

func genRouting(r *hx.Rand) rcase {
	size, thr := r.Range(0, 8), r.Range(0, 8)
	if r.Chance(1, 3) && size > 0 {
		thr = r.Range(0, size-1)
	}
	rs := genRecs(r, 30)
	nilReason := r.Chance(1, 8)
	if nilReason {
		for i := range rs { // keep these about the nil reason only
			rs[i][1] = false
		}
	}
	if r.Bool() {
		order := make([]int, len(rs))
		for i := range order {
			order[i] = i
		}
		if r.Chance(2, 3) { // shuffle: completion order differs from source order
			for i := len(order) - 1; i > 0; i-- {
				j := r.Intn(i + 1)
				order[i], order[j] = order[j], order[i]
			}
		}
		return rcase{Engine: "r1", Size: size, Thr: thr, Recs: rs, Order: order, NilReason: nilReason}
	}
	var bs [][][2]bool
	for i := 0; i < len(rs); {
		n := r.Range(1, 8)
		if i+n > len(rs) {
			n = len(rs) - i
		}
		bs = append(bs, rs[i:i+n])
		i += n
	}
	return rcase{Engine: "r2", Size: size, Thr: thr, Batches: bs, NilReason: nilReason}
}

// ---------- generation ----------

func genOps(r *hx.Rand, maxLen int) []bool {
	n := r.Range(0, maxLen)
	// nack density varies per case so that windows both trip and survive
	den := []int{2, 3, 5, 8, 12}[r.Intn(5)]
	ops := make([]bool, n)
	for i := range ops {
		ops[i] = r.Chance(1, den)
	}
	return ops
}

func chunkify(r *hx.Rand, ops []bool) [][2]int {
	var out [][2]int
	i := 0
	for i < len(ops) {
		j := i + 1
		for j < len(ops) && ops[j] == ops[i] && r.Chance(3, 4) {
			j++
		}
		v := 0
		if ops[i] {
			v = 1
		}
		out = append(out, [2]int{v, j - i})
		i = j
	}
	if r.Chance(1, 6) {
		out = append(out, [2]int{r.Intn(2), 0}) // empty batch
	}
	return out
}

func coqCase(c wcase, o wobs) string {
	if c.Engine == "v1" {
		return fmt.Sprintf("W1 %d %d %s %s", c.Size, c.Thr, hx.Bools(c.Ops), hx.Bools(o.Decisions))
	}
	items := make([]string, len(c.Chunks))
	for i, ch := range c.Chunks {
		items[i] = hx.Pair(hx.Bool(ch[0] == 1), hx.Nat(ch[1]))
	}
	return fmt.Sprintf("W2 %d %d %s %s", c.Size, c.Thr, hx.List(items), hx.Bools(o.Decisions))
}

func run(c wcase) wobs {
	if c.Engine == "v1" {
		return runV1(c)
	}
	return runV2(c)
}

func emit(w *hx.Writer, c wcase) {
	o := run(c)
	w.Add(map[string]any{"input": c, "observed": o}, coqCase(c, o))
}

// all bool vectors of length n
func allVecs(n int) [][]bool {
	out := make([][]bool, 0, 1<<n)
	for m := 0; m < 1<<n; m++ {
		v := make([]bool, n)
		for i := range v {
			v[i] = m>>i&1 == 1
		}
		out = append(out, v)
	}
	return out
}

func main() {
	o := hx.ParseFlags()
	w, err := hx.NewWriter(o, "From Verif Require Import Base.CaseCheck Dlq.Window Dlq.WindowRle Dlq.Routing Dlq.Check.", "wcase")
	if err != nil {
		fmt.Fprintln(os.Stderr, err)
		os.Exit(2)
	}
	switch {
	case o.Replay != "":
		cs, err := hx.ReadJSONL(o.Replay)
		if err != nil {
			fmt.Fprintln(os.Stderr, err)
			os.Exit(2)
		}
		for _, m := range cs {
			in, ok := m["input"].(map[string]any)
			if !ok {
				in = m
			}
			if e, _ := in["engine"].(string); e == "l1" || e == "l2" {
				var lc lcase
				if hx.Try(func() { lc = lcaseFromJSON(in) }) {
					emitL(w, lc)
				}
				continue
			}
			if e, _ := in["engine"].(string); e == "r1" || e == "r2" {
				var rc rcase
				if hx.Try(func() { rc = rcaseFromJSON(in) }) {
					emitR(w, rc)
				}
				continue
			}
			var c wcase
			if !hx.Try(func() { c = caseFromJSON(m) }) {
				continue // not a well-formed case (e.g. a shrink candidate)
			}
			emit(w, c)
		}
	case o.Mode == "large":
		// large windows / long histories (see large.go)
		root := hx.NewRand(o.Seed ^ 0x4c41524745)
		for i := 0; i < o.N; i++ {
			emitL(w, genLarge(root.Fork(uint64(o.Shard)<<32|uint64(i)), o.Tier))
		}
	case strings.HasPrefix(o.Mode, "exhaustive"):
		// mode = exhaustive/<parts>/<part>
		parts, part := o.Shards, o.Shard
		fmt.Sscanf(o.Mode, "exhaustive/%d/%d", &parts, &part)
		// every size,thr in 0..4 and every outcome vector up to length L; the
		// shard takes every shards-th vector. v2 gets two partitions of each.
		L := 9
		r := hx.NewRand(o.Seed)
		k := 0
		for size := 0; size <= 4; size++ {
			for thr := 0; thr <= 4; thr++ {
				for n := 0; n <= L; n++ {
					for _, v := range allVecs(n) {
						k++
						if k%parts != part {
							continue
						}
						emit(w, wcase{Engine: "v1", Size: size, Thr: thr, Ops: v})
						emit(w, wcase{Engine: "v2", Size: size, Thr: thr, Chunks: chunkify(r, v)})
					}
				}
				// routing: every (rejected, dlq-fails) vector up to length 5
				for n := 1; n <= 5 && size <= 3 && thr <= 3; n++ {
					for m := 0; m < 1<<(2*n); m++ {
						k++
						if k%parts != part {
							continue
						}
						rs := make([][2]bool, n)
						for i := range rs {
							rs[i] = [2]bool{m>>(2*i)&1 == 1, m>>(2*i+1)&1 == 1}
						}
						emitR(w, rcase{Engine: "r1", Size: size, Thr: thr, Recs: rs})
						cut := r.Range(1, n)
						bs := [][][2]bool{rs[:cut]}
						if cut < n {
							bs = append(bs, rs[cut:])
						}
						emitR(w, rcase{Engine: "r2", Size: size, Thr: thr, Batches: bs})
					}
				}
			}
		}
	default:
		root := hx.NewRand(o.Seed)
		for i := 0; i < o.N; i++ {
			r := root.Fork(uint64(o.Shard)<<32 | uint64(i))
			size, thr := r.Range(0, 12), r.Range(0, 12)
			if r.Chance(1, 3) { // the combinations UpdateDLQ admits
				size = r.Range(0, 12)
				if size > 0 {
					thr = r.Range(0, size-1)
				}
			}
			if i%2 == 1 {
				emitR(w, genRouting(r))
				continue
			}
			ops := genOps(r, 60)
			if r.Bool() {
				emit(w, wcase{Engine: "v1", Size: size, Thr: thr, Ops: ops})
			} else {
				emit(w, wcase{Engine: "v2", Size: size, Thr: thr, Chunks: chunkify(r, ops)})
			}
		}
	}
	if err := w.Close("chk"); err != nil {
		fmt.Fprintln(os.Stderr, err)
		os.Exit(2)
	}
	fmt.Printf("cases=%d\n", w.Count())
}

func pairs(x any) [][2]bool {
	var out [][2]bool
	for _, e := range x.([]any) {
		p := e.([]any)
		out = append(out, [2]bool{p[0].(bool), p[1].(bool)})
	}
	return out
}

func rcaseFromJSON(in map[string]any) rcase {
	c := rcase{Engine: in["engine"].(string), Size: int(in["size"].(float64)), Thr: int(in["thr"].(float64))}
	if c.Size < 0 || c.Thr < 0 {
		panic("negative")
	}
	if rs, ok := in["recs"].([]any); ok {
		c.Recs = pairs(rs)
	}
	if bs, ok := in["batches"].([]any); ok {
		for _, b := range bs {
			c.Batches = append(c.Batches, pairs(b))
		}
	}
	if b, ok := in["nil_reason"].(bool); ok {
		c.NilReason = b
	}
	if os, ok := in["order"].([]any); ok {
		for _, x := range os {
			c.Order = append(c.Order, int(x.(float64)))
		}
	}
	return c
}

func caseFromJSON(m map[string]any) wcase {
	in, ok := m["input"].(map[string]any)
	if !ok {
		in = m
	}
	c := wcase{Engine: in["engine"].(string), Size: int(in["size"].(float64)), Thr: int(in["thr"].(float64))}
	if ops, ok := in["ops"].([]any); ok {
		for _, x := range ops {
			c.Ops = append(c.Ops, x.(bool))
		}
	}
	if chs, ok := in["chunks"].([]any); ok {
		for _, x := range chs {
			p := x.([]any)
			c.Chunks = append(c.Chunks, [2]int{int(p[0].(float64)), int(p[1].(float64))})
		}
	}
	return c
}
