// Harness for C07 (DLQ window): drives the real window code of both engines
// through their exported entry points and records the decision taken for every
// outcome.
//
//	v1: stream.DLQHandlerNode  Run / Ack / Nack   (one outcome per call)
//	v2: funnel.DLQ             Ack / Nack         (counted, batch at a time)
package main

import (
	"context"
	"fmt"
	"os"
	"sync"
	"time"

	"github.com/conduitio/conduit-commons/opencdc"
	"github.com/conduitio/conduit/pkg/connector"
	"github.com/conduitio/conduit/pkg/foundation/cerrors"
	"github.com/conduitio/conduit/pkg/foundation/log"
	"github.com/conduitio/conduit/pkg/foundation/metrics"
	"github.com/conduitio/conduit/pkg/foundation/metrics/noop"
	"github.com/conduitio/conduit/pkg/lifecycle-poc/funnel"
	"github.com/conduitio/conduit/pkg/lifecycle/stream"

	"verifharness/lib/hx"
)

// ---------- fakes ----------

type v1Handler struct {
	mu     sync.Mutex
	writes []string
}

func (h *v1Handler) Open(context.Context) error { return nil }
func (h *v1Handler) Write(_ context.Context, r opencdc.Record) error {
	h.mu.Lock()
	defer h.mu.Unlock()
	h.writes = append(h.writes, string(r.Position))
	return nil
}
func (h *v1Handler) Close(context.Context) error { return nil }

type v2Dest struct {
	pending []opencdc.Record
	writes  []string
}

func (d *v2Dest) ID() string                     { return "dlq" }
func (d *v2Dest) Open(context.Context) error     { return nil }
func (d *v2Dest) Teardown(context.Context) error { return nil }
func (d *v2Dest) Errors() <-chan error           { return nil }
func (d *v2Dest) Write(_ context.Context, rs []opencdc.Record) error {
	d.pending = append(d.pending, rs...)
	for _, r := range rs {
		d.writes = append(d.writes, string(r.Position))
	}
	return nil
}
func (d *v2Dest) Ack(context.Context) ([]connector.DestinationAck, error) {
	out := make([]connector.DestinationAck, len(d.pending))
	for i, r := range d.pending {
		out[i] = connector.DestinationAck{Position: r.Position}
	}
	d.pending = nil
	return out, nil
}

// ---------- one case ----------

type wcase struct {
	Engine string   `json:"engine"`
	Size   int      `json:"size"`
	Thr    int      `json:"thr"`
	Ops    []bool   `json:"ops,omitempty"`    // v1: true = nack
	Chunks [][2]int `json:"chunks,omitempty"` // v2: (isNack, count)
}

type wobs struct {
	Decisions []bool   `json:"decisions"`
	Writes    []string `json:"writes"`
	Fatal     []bool   `json:"fatal"` // per refused nack: was the error fatal
	Aux       string   `json:"aux,omitempty"`
}

func rec(i int) opencdc.Record {
	return opencdc.Record{
		Position:  opencdc.Position(fmt.Sprintf("p%04d", i)),
		Operation: opencdc.OperationCreate,
		Metadata:  opencdc.Metadata{},
		Key:       opencdc.RawData("k"),
		Payload:   opencdc.Change{After: opencdc.RawData("v")},
	}
}

func runV1(c wcase) wobs {
	ctx, cancel := context.WithTimeout(context.Background(), 20*time.Second)
	defer cancel()
	h := &v1Handler{}
	node := &stream.DLQHandlerNode{
		Name:                "dlq",
		Handler:             h,
		WindowSize:          c.Size,
		WindowNackThreshold: c.Thr,
		Timer:               noop.Timer{},
		Histogram:           metrics.NewRecordBytesHistogram(noop.Histogram{}),
	}
	node.SetLogger(log.Nop())
	node.Add(1)
	done := make(chan error, 1)
	go func() { done <- node.Run(ctx) }()
	var o wobs
	for i, nack := range c.Ops {
		msg := &stream.Message{Ctx: ctx, Record: rec(i)}
		if !nack {
			node.Ack(msg)
			o.Decisions = append(o.Decisions, true)
			continue
		}
		reason := cerrors.New("boom")
		err := node.Nack(msg, stream.NackMetadata{Reason: reason, NodeID: "n"})
		o.Decisions = append(o.Decisions, err == nil)
		if err != nil {
			o.Fatal = append(o.Fatal, cerrors.IsFatalError(err))
		}
	}
	node.Done()
	if err := <-done; err != nil {
		o.Aux = "run: " + err.Error()
	}
	h.mu.Lock()
	o.Writes = append(o.Writes, h.writes...)
	h.mu.Unlock()
	return o
}

func runV2(c wcase) wobs {
	ctx := context.Background()
	d := &v2Dest{}
	dlq := funnel.NewDLQ("dlq", d, log.Nop(), funnel.NoOpConnectorMetrics{}, c.Size, c.Thr)
	var o wobs
	next := 0
	for _, ch := range c.Chunks {
		n := ch[1]
		recs := make([]opencdc.Record, n)
		for i := range recs {
			recs[i] = rec(next)
			next++
		}
		b := funnel.NewBatch(recs)
		if ch[0] == 0 {
			dlq.Ack(ctx, b)
			for i := 0; i < n; i++ {
				o.Decisions = append(o.Decisions, true)
			}
			continue
		}
		errs := make([]error, n)
		for i := range errs {
			errs[i] = cerrors.New("boom")
		}
		if n > 0 {
			b.Nack(0, errs...)
		}
		k, err := dlq.Nack(ctx, b, "task")
		for i := 0; i < n; i++ {
			o.Decisions = append(o.Decisions, i < k)
		}
		if k < n {
			if err == nil {
				o.Aux += fmt.Sprintf("chunk accepted %d of %d with nil error;", k, n)
			}
			o.Fatal = append(o.Fatal, cerrors.IsFatalError(err))
		} else if err != nil {
			o.Aux += "all accepted but error: " + err.Error() + ";"
		}
	}
	o.Writes = append(o.Writes, d.writes...)
	return o
}

// ---------- generation ----------

func genOps(r *hx.Rand, maxLen int) []bool {
	n := r.Range(0, maxLen)
	// nack density varies per case so that windows both trip and survive
	den := []int{2, 3, 5, 8, 12}[r.Intn(5)]
	ops := make([]bool, n)
	for i := range ops {
		ops[i] = r.Chance(1, den)
	}
	return ops
}

func chunkify(r *hx.Rand, ops []bool) [][2]int {
	var out [][2]int
	i := 0
	for i < len(ops) {
		j := i + 1
		for j < len(ops) && ops[j] == ops[i] && r.Chance(3, 4) {
			j++
		}
		v := 0
		if ops[i] {
			v = 1
		}
		out = append(out, [2]int{v, j - i})
		i = j
	}
	if r.Chance(1, 6) {
		out = append(out, [2]int{r.Intn(2), 0}) // empty batch
	}
	return out
}

func coqCase(c wcase, o wobs) string {
	if c.Engine == "v1" {
		return fmt.Sprintf("W1 %d %d %s %s", c.Size, c.Thr, hx.Bools(c.Ops), hx.Bools(o.Decisions))
	}
	items := make([]string, len(c.Chunks))
	for i, ch := range c.Chunks {
		items[i] = hx.Pair(hx.Bool(ch[0] == 1), hx.Nat(ch[1]))
	}
	return fmt.Sprintf("W2 %d %d %s %s", c.Size, c.Thr, hx.List(items), hx.Bools(o.Decisions))
}

func run(c wcase) wobs {
	if c.Engine == "v1" {
		return runV1(c)
	}
	return runV2(c)
}

func emit(w *hx.Writer, c wcase) {
	o := run(c)
	w.Add(map[string]any{"input": c, "observed": o}, coqCase(c, o))
}

// all bool vectors of length n
func allVecs(n int) [][]bool {
	out := make([][]bool, 0, 1<<n)
	for m := 0; m < 1<<n; m++ {
		v := make([]bool, n)
		for i := range v {
			v[i] = m>>i&1 == 1
		}
		out = append(out, v)
	}
	return out
}

func main() {
	o := hx.ParseFlags()
	w, err := hx.NewWriter(o, "From Verif Require Import Base.CaseCheck Dlq.Window Dlq.Check.", "wcase")
	if err != nil {
		fmt.Fprintln(os.Stderr, err)
		os.Exit(2)
	}
	switch {
	case o.Replay != "":
		cs, err := hx.ReadJSONL(o.Replay)
		if err != nil {
			fmt.Fprintln(os.Stderr, err)
			os.Exit(2)
		}
		for _, m := range cs {
			var c wcase
			if !hx.Try(func() { c = caseFromJSON(m) }) {
				continue // not a well-formed case (e.g. a shrink candidate)
			}
			emit(w, c)
		}
	case o.Mode == "exhaustive":
		// every size,thr in 0..4 and every outcome vector up to length L; the
		// shard takes every shards-th vector. v2 gets two partitions of each.
		L := 9
		r := hx.NewRand(o.Seed)
		k := 0
		for size := 0; size <= 4; size++ {
			for thr := 0; thr <= 4; thr++ {
				for n := 0; n <= L; n++ {
					for _, v := range allVecs(n) {
						k++
						if k%o.Shards != o.Shard {
							continue
						}
						emit(w, wcase{Engine: "v1", Size: size, Thr: thr, Ops: v})
						emit(w, wcase{Engine: "v2", Size: size, Thr: thr, Chunks: chunkify(r, v)})
					}
				}
			}
		}
	default:
		root := hx.NewRand(o.Seed)
		for i := 0; i < o.N; i++ {
			r := root.Fork(uint64(o.Shard)<<32 | uint64(i))
			size, thr := r.Range(0, 12), r.Range(0, 12)
			if r.Chance(1, 3) { // the combinations UpdateDLQ admits
				size = r.Range(0, 12)
				if size > 0 {
					thr = r.Range(0, size-1)
				}
			}
			ops := genOps(r, 60)
			if r.Bool() {
				emit(w, wcase{Engine: "v1", Size: size, Thr: thr, Ops: ops})
			} else {
				emit(w, wcase{Engine: "v2", Size: size, Thr: thr, Chunks: chunkify(r, ops)})
			}
		}
	}
	if err := w.Close("chk"); err != nil {
		fmt.Fprintln(os.Stderr, err)
		os.Exit(2)
	}
	fmt.Printf("cases=%d\n", w.Count())
}

func caseFromJSON(m map[string]any) wcase {
	in, ok := m["input"].(map[string]any)
	if !ok {
		in = m
	}
	c := wcase{Engine: in["engine"].(string), Size: int(in["size"].(float64)), Thr: int(in["thr"].(float64))}
	if ops, ok := in["ops"].([]any); ok {
		for _, x := range ops {
			c.Ops = append(c.Ops, x.(bool))
		}
	}
	if chs, ok := in["chunks"].([]any); ok {
		for _, x := range chs {
			p := x.([]any)
			c.Chunks = append(c.Chunks, [2]int{int(p[0].(float64)), int(p[1].(float64))})
		}
	}
	return c
}
