// Large windows and long histories for C07.
//
// The small-scope differential of main.go uses window sizes 0..12. Everything that
// depends on the magnitude of the configuration (a clamp or cap of the ring buffer,
// a narrower integer type for the cursor or a counter, a modulo that goes wrong
// past a power of two, a threshold that saturates, an "optimisation" for big
// windows or big batches) is invisible there. This file drives the REAL window
// code of both engines, outcome by outcome (v1) and batch by batch (v2), through
// histories of 10^4..10^6 outcomes for window sizes and thresholds around and above
// 2^8, 2^12, 2^15, 2^16, 2^17, ... The histories and the observed decisions are
// run-length encoded; the Coq side evaluates the run-length-encoded timestamp-queue
// form of the rule (Dlq/WindowRle.v, proved equal to the sliding-window spec and to
// both engine models for every size, threshold and history).
package main

import (
	"context"
	"fmt"
	"os"
	"time"

	"github.com/conduitio/conduit-commons/opencdc"
	"github.com/conduitio/conduit/pkg/connector"
	"github.com/conduitio/conduit/pkg/foundation/cerrors"
	"github.com/conduitio/conduit/pkg/foundation/log"
	"github.com/conduitio/conduit/pkg/foundation/metrics"
	"github.com/conduitio/conduit/pkg/foundation/metrics/noop"
	"github.com/conduitio/conduit/pkg/lifecycle-poc/funnel"
	"github.com/conduitio/conduit/pkg/lifecycle/stream"

	"verifharness/lib/hx"
)

// maxLargeOutcomes bounds one case (hand-written and shrunk inputs included).
const maxLargeOutcomes = 8_000_000

type lcase struct {
	Engine string   `json:"engine"` // l1 (stream.DLQHandlerNode) | l2 (funnel.DLQ)
	Size   int      `json:"size"`
	Thr    int      `json:"thr"`
	Runs   [][2]int `json:"runs,omitempty"`   // l1: (isNack, count), driven one outcome at a time
	Chunks [][2]int `json:"chunks,omitempty"` // l2: (isNack, count), one chunk = one batch
	Plan   string   `json:"plan,omitempty"`   // how the generator built it (not interpreted)
}

type lobs struct {
	Decisions [][2]int `json:"decisions_rle"` // (tolerated, count), canonical run-length encoding
	Outcomes  int      `json:"outcomes"`
	Writes    int      `json:"dlq_writes"`
	Refused   int      `json:"refused"`
	Fatal     int      `json:"refused_fatal"`
	Aux       string   `json:"aux,omitempty"`
}

type rleAcc struct{ runs [][2]int }

func (a *rleAcc) add(v bool, n int) {
	if n <= 0 {
		return
	}
	x := 0
	if v {
		x = 1
	}
	if k := len(a.runs); k > 0 && a.runs[k-1][0] == x {
		a.runs[k-1][1] += n
		return
	}
	a.runs = append(a.runs, [2]int{x, n})
}

type countHandler struct{ n int }

func (h *countHandler) Open(context.Context) error  { return nil }
func (h *countHandler) Close(context.Context) error { return nil }
func (h *countHandler) Write(context.Context, opencdc.Record) error {
	h.n++
	return nil
}

// runL1 drives stream.DLQHandlerNode through every single outcome of the history.
func runL1(c lcase) (lobs, bool) {
	ctx, cancel := context.WithTimeout(context.Background(), 10*time.Minute)
	defer cancel()
	h := &countHandler{}
	node := &stream.DLQHandlerNode{
		Name:                "dlq",
		Handler:             h,
		WindowSize:          c.Size,
		WindowNackThreshold: c.Thr,
		Timer:               noop.Timer{},
		Histogram:           metrics.NewRecordBytesHistogram(noop.Histogram{}),
	}
	node.SetLogger(log.Nop())
	node.Add(1)
	done := make(chan error, 1)
	go func() { done <- node.Run(ctx) }()
	var o lobs
	var acc rleAcc
	ackMsg := &stream.Message{Ctx: ctx, Record: rec(0)}
	reason := cerrors.New("boom")
	i := 0
	for _, run := range c.Runs {
		for j := 0; j < run[1]; j++ {
			i++
			if run[0] == 0 {
				node.Ack(ackMsg)
				acc.add(true, 1)
				continue
			}
			msg := &stream.Message{Ctx: ctx, Record: rec(i)}
			err := node.Nack(msg, stream.NackMetadata{Reason: reason, NodeID: "n"})
			acc.add(err == nil, 1)
			if err != nil {
				o.Refused++
				if cerrors.IsFatalError(err) {
					o.Fatal++
				}
			}
		}
	}
	complete := ctx.Err() == nil
	node.Done()
	if err := <-done; err != nil {
		o.Aux = "run: " + err.Error()
	}
	o.Outcomes = i
	o.Writes = h.n
	o.Decisions = acc.runs
	return o, complete
}

type leanDest struct {
	pending []opencdc.Record
	n       int
}

func (d *leanDest) ID() string                     { return "dlq" }
func (d *leanDest) Open(context.Context) error     { return nil }
func (d *leanDest) Teardown(context.Context) error { return nil }
func (d *leanDest) Errors() <-chan error           { return nil }
func (d *leanDest) Write(_ context.Context, rs []opencdc.Record) error {
	d.pending = append(d.pending, rs...)
	d.n += len(rs)
	return nil
}
func (d *leanDest) Ack(context.Context) ([]connector.DestinationAck, error) {
	out := make([]connector.DestinationAck, len(d.pending))
	for i, r := range d.pending {
		out[i] = connector.DestinationAck{Position: r.Position}
	}
	d.pending = d.pending[:0]
	return out, nil
}

// runL2 drives funnel.DLQ through the history, one batch per chunk.
func runL2(c lcase) (lobs, bool) {
	ctx := context.Background()
	d := &leanDest{}
	dlq := funnel.NewDLQ("dlq", d, log.Nop(), funnel.NoOpConnectorMetrics{}, c.Size, c.Thr)
	var o lobs
	var acc rleAcc
	next := 0
	for _, ch := range c.Chunks {
		n := ch[1]
		recs := make([]opencdc.Record, n)
		for i := range recs {
			recs[i] = rec(next)
			next++
		}
		b := funnel.NewBatch(recs)
		if ch[0] == 0 {
			dlq.Ack(ctx, b)
			acc.add(true, n)
			continue
		}
		if n > 0 {
			errs := make([]error, n)
			e := cerrors.New("boom")
			for i := range errs {
				errs[i] = e
			}
			b.Nack(0, errs...)
		}
		k, err := dlq.Nack(ctx, b, "task")
		if k < 0 || k > n {
			o.Aux += fmt.Sprintf("chunk of %d: accepted count %d out of range;", n, k)
			if k < 0 {
				k = 0
			} else {
				k = n
			}
		}
		acc.add(true, k)
		acc.add(false, n-k)
		if k < n {
			o.Refused += n - k
			if err == nil {
				o.Aux += fmt.Sprintf("chunk accepted %d of %d with nil error;", k, n)
			}
			if cerrors.IsFatalError(err) {
				o.Fatal += n - k
			}
		} else if err != nil {
			o.Aux += "all accepted but error: " + err.Error() + ";"
		}
	}
	o.Outcomes = next
	o.Writes = d.n
	o.Decisions = acc.runs
	return o, true
}

func coqRuns(rs [][2]int) string {
	items := make([]string, len(rs))
	for i, r := range rs {
		items[i] = hx.Pair(hx.Bool(r[0] == 1), hx.N(uint64(r[1])))
	}
	return hx.List(items)
}

func emitL(w *hx.Writer, c lcase) {
	var o lobs
	var complete bool
	var term string
	if c.Engine == "l1" {
		o, complete = runL1(c)
		term = fmt.Sprintf("L1 %s %s %s %s", hx.N(uint64(c.Size)), hx.N(uint64(c.Thr)), coqRuns(c.Runs), coqRuns(o.Decisions))
	} else {
		o, complete = runL2(c)
		term = fmt.Sprintf("L2 %s %s %s %s", hx.N(uint64(c.Size)), hx.N(uint64(c.Thr)), coqRuns(c.Chunks), coqRuns(o.Decisions))
	}
	if !complete {
		// an observation cut short by the harness's own deadline says nothing about the code
		fmt.Fprintf(os.Stderr, "c07: large case skipped (deadline): size=%d thr=%d\n", c.Size, c.Thr)
		return
	}
	w.Add(map[string]any{"input": c, "observed": o}, term)
}

func lcaseFromJSON(in map[string]any) lcase {
	c := lcase{Engine: in["engine"].(string), Size: int(in["size"].(float64)), Thr: int(in["thr"].(float64))}
	if c.Size < 0 || c.Thr < 0 || c.Size > 1<<26 {
		panic("out of range")
	}
	total := 0
	get := func(x any) [][2]int {
		var out [][2]int
		for _, e := range x.([]any) {
			p := e.([]any)
			if len(p) != 2 {
				panic("run shape")
			}
			v, n := int(p[0].(float64)), int(p[1].(float64))
			if (v != 0 && v != 1) || n < 0 {
				panic("run value")
			}
			total += n
			if total > maxLargeOutcomes {
				panic("too long")
			}
			out = append(out, [2]int{v, n})
		}
		return out
	}
	if x, ok := in["runs"]; ok && x != nil {
		c.Runs = get(x)
	}
	if x, ok := in["chunks"]; ok && x != nil {
		c.Chunks = get(x)
	}
	if s, ok := in["plan"].(string); ok {
		c.Plan = s
	}
	return c
}

// ---------- generation ----------

var sizeAnchors = []int{
	255, 256, 257, 1000, 4096, 4097, 32767, 32768, 65535, 65536, 65537, 65600,
	70000, 100000, 131071, 131072, 131073, 200000, 262145,
}
var sizeAnchorsThorough = []int{500000, 1<<20 - 1, 1 << 20, 1<<20 + 1}

type runBuilder struct {
	runs          [][2]int
	now           int // outcomes so far
	nacks         int
	maxOut, maxNk int
}

func (b *runBuilder) add(nack bool, n int) {
	if n <= 0 {
		return
	}
	if b.now+n > b.maxOut {
		n = b.maxOut - b.now
	}
	if nack && b.nacks+n > b.maxNk {
		n = b.maxNk - b.nacks
	}
	if n <= 0 {
		return
	}
	v := 0
	if nack {
		v = 1
		b.nacks += n
	}
	b.now += n
	if k := len(b.runs); k > 0 && b.runs[k-1][0] == v {
		b.runs[k-1][1] += n
		return
	}
	b.runs = append(b.runs, [2]int{v, n})
}

func pick(r *hx.Rand, xs ...int) int { return xs[r.Intn(len(xs))] }

func max0(x int) int {
	if x < 0 {
		return 0
	}
	return x
}

// ackLen / nackLen: run lengths that put the next outcome next to a boundary of the window
func ackLen(r *hx.Rand, size, thr int) int {
	switch r.Intn(7) {
	case 0:
		return r.Range(1, 5)
	case 1:
		return size/3 + r.Range(0, 3)
	case 2:
		return max0(size - thr - 1 + r.Range(-2, 2))
	case 3:
		return max0(size + r.Range(-2, 2))
	case 4:
		return max0(size/2 + r.Range(-1, 1))
	case 5:
		return max0(65536 + r.Range(-2, 2)) // a popular place for caps and narrow integers
	default:
		return r.Range(0, size)
	}
}

func nackLen(r *hx.Rand, thr int) int {
	switch r.Intn(5) {
	case 0, 1:
		return r.Range(1, 3)
	case 2:
		return max0(thr/2 + r.Range(-1, 1))
	case 3:
		return max0(thr + r.Range(-1, 2))
	default:
		return r.Range(1, 2+thr/4)
	}
}

func genLarge(r *hx.Rand, tier string) lcase {
	anchors := sizeAnchors
	if tier == "thorough" && r.Chance(1, 4) {
		anchors = sizeAnchorsThorough
	}
	size := anchors[r.Intn(len(anchors))]
	if r.Chance(1, 4) {
		size += r.Range(-3, 3)
	}
	var thr int
	switch pick(r, 0, 0, 0, 0, 0, 1, 1, 2, 3, 3, 4, 5) {
	case 0:
		thr = r.Range(1, 5)
	case 1:
		thr = r.Range(6, 300)
	case 2:
		thr = size - 1 - r.Range(0, 2) // the largest values UpdateDLQ admits
	case 3:
		if size > 65537 { // thresholds no 16-bit quantity can hold
			hi := size - 1
			if hi > 140000 {
				hi = 140000
			}
			thr = r.Range(65536, hi)
		} else {
			thr = size / 2
		}
	case 4:
		thr = 0
	default:
		thr = size + r.Range(0, 2) // not admitted by UpdateDLQ, accepted by both constructors
	}
	b := &runBuilder{maxOut: 3*size + 1000, maxNk: 300000}
	plan := pick(r, 0, 0, 0, 1, 1, 2, 2)
	if plan == 0 && (thr == 0 || thr >= size) {
		plan = 2
	}
	name := ""
	switch plan {
	case 0:
		// probe: exactly thr tolerated rejections, then acknowledgments until the oldest of them
		// is d outcomes away from leaving the window, then reject again: refused for d <= 0,
		// tolerated for d >= 1 - whatever the size is
		name = "probe"
		b.add(false, r.Range(0, size+5)) // rotate the ring cursor first
		p0 := b.now
		groups := r.Range(1, 4)
		if groups > thr {
			groups = thr
		}
		left := thr
		for g := 0; g < groups; g++ {
			n := left
			if g < groups-1 {
				n = r.Range(1, left-(groups-1-g))
			}
			b.add(true, n)
			left -= n
			if g < groups-1 {
				b.add(false, r.Range(0, max0((size-thr)/(2*groups))))
			}
		}
		d := pick(r, -1, 0, 0, 1, 1, 2)
		b.add(false, p0+size-1+d-b.now)
		b.add(true, r.Range(1, 3))
		for k := r.Range(0, 4); k > 0; k-- {
			b.add(false, ackLen(r, size, thr))
			b.add(true, nackLen(r, thr))
		}
	case 1:
		// flood: the pipeline in which (almost) every record is rejected
		name = "flood"
		b.add(false, r.Range(0, 2*size))
		n := thr + 1 + r.Range(0, 3)
		if thr >= size {
			n = size + r.Range(0, 100)
		}
		b.add(true, n)
		b.add(false, ackLen(r, size, thr))
		b.add(true, r.Range(1, 3))
	default:
		name = "random"
		for k := r.Range(3, 8); k > 0; k-- {
			b.add(false, ackLen(r, size, thr))
			b.add(true, nackLen(r, thr))
		}
	}
	c := lcase{Size: size, Thr: thr, Plan: name}
	if r.Bool() {
		c.Engine = "l1"
		c.Runs = b.runs
		return c
	}
	// v2: cut the runs into batches; a batch may be far larger than the window
	c.Engine = "l2"
	maxBatch := pick(r, 7, 100, 1000, 4096, 65536, 65537, 1<<20)
	if lo := b.now / 1500; maxBatch < lo+1 {
		maxBatch = lo + 1 // keep the case file small
	}
	for _, run := range b.runs {
		for left := run[1]; left > 0; {
			n := r.Range(maxBatch/2+1, maxBatch)
			if n > left {
				n = left
			}
			c.Chunks = append(c.Chunks, [2]int{run[0], n})
			left -= n
		}
	}
	if r.Chance(1, 6) {
		c.Chunks = append(c.Chunks, [2]int{r.Intn(2), 0}) // empty batch
	}
	return c
}
