// Harness for C08 (funnel record accounting): whole passes of the real
// funnel.Worker over generated batches, processor chains and destination
// scripts; see harness/lib/funnelx.
package main

import (
	"verifharness/lib/funnelx"
)

func main() { funnelx.Main("C08") }
