// Harness for C16 (live apply never applies a stale plan and loses nothing).
//
// Drives the REAL provisioning.Service.ApplyPlanLive on the real pipeline,
// connector and processor services (so Plan, the hash, Export and the imports are
// the real ones) with
//   - a recording, scripted LifecycleService (StopAndWait / Start /
//     ReconfigureProcessor outcomes come from the case),
//   - a DB wrapper that records every transaction (= one transactionalImport) and
//     can make it fail,
//   - a pipeline-service wrapper that sets the running status exactly where the
//     code samples it.
//
// Decision cases: every combination of the decision inputs (exhaustive in
// --mode all).  Lock cases: two concurrent applies to the same / to different
// pipeline ids, with the fake lifecycle calls of the first one held open so that
// the second one would interleave if nothing serialised them.
package main

import (
	"context"
	"encoding/json"
	"fmt"
	"os"
	"reflect"
	"strings"
	"sync"
	"time"

	"github.com/conduitio/conduit-commons/database"
	"github.com/conduitio/conduit-commons/database/inmemory"
	"github.com/conduitio/conduit/pkg/foundation/cerrors"
	"github.com/conduitio/conduit/pkg/foundation/cerrors/conduiterr"
	"github.com/conduitio/conduit/pkg/lifecycle"
	"github.com/conduitio/conduit/pkg/pipeline"
	"github.com/conduitio/conduit/pkg/provisioning"
	"github.com/conduitio/conduit/pkg/provisioning/config"

	"verifharness/lib/hx"
	"verifharness/lib/provx"
)

// ---------------------------------------------------------------- case types

type decIn struct {
	Shape      string `json:"shape"`  // live | restart | empty
	NSwaps     int    `json:"nswaps"` // live: number of processors whose settings change (1..3)
	NameToo    bool   `json:"name_too"`
	Stale      int    `json:"stale"` // 0 fresh hash, 1 junk hash, 2 state changed after the plan was shown (another step), 3 state changed inside an entity the plan already updates (same steps, other fields)
	Run1       bool   `json:"run1"`
	Run2       bool   `json:"run2"`
	Auth       bool   `json:"auth"`
	ImpInplace bool   `json:"imp_inplace"`
	Swaps      []int  `json:"swaps"` // 0 ok, 1 not live-reconfigurable, 2 error
	RbImp      bool   `json:"rb_imp"`
	RbSwaps    []bool `json:"rb_swaps"`
	Stop       bool   `json:"stop"`
	Imp        bool   `json:"imp"`
	Start      bool   `json:"start"`
}

type lockIn struct {
	SameID bool `json:"same_id"`
	Second bool `json:"second_restart"` // shape of the second apply: restart (true) or live
}

type caseIn struct {
	Kind string  `json:"kind"` // dec | lock | e2e
	Dec  *decIn  `json:"dec,omitempty"`
	Lock *lockIn `json:"lock,omitempty"`
	E2E  *e2eIn  `json:"e2e,omitempty"`
}

type event struct {
	Kind   string `json:"kind"` // import | stop | start | reconf
	Target string `json:"target,omitempty"`
	OK     bool   `json:"ok"`
	Idx    int    `json:"idx,omitempty"`
	RC     int    `json:"rc,omitempty"`
}

type decObs struct {
	HashOK       bool    `json:"hash_ok"`
	Empty        bool    `json:"empty"`
	Live         bool    `json:"live"`
	Events       []event `json:"events"`
	Result       string  `json:"result"` // ok:<mode> | stale | unauth | err
	RunningAfter bool    `json:"running_after"`
	CfgAfter     int     `json:"cfg_after"` // 0 old, 1 new, 2 neither
	FixFallback  bool    `json:"fix_fallback"`
	Aux          string  `json:"aux,omitempty"`
}

type lockObs struct {
	Log     []int  `json:"log"`
	Overlap bool   `json:"overlap"`
	Aux     string `json:"aux,omitempty"`
}

// ---------------------------------------------------------------- the scripted world

type applyKey struct{}

func applyOf(ctx context.Context) int {
	if v, ok := ctx.Value(applyKey{}).(int); ok {
		return v
	}
	return -1
}

type world struct {
	mu  sync.Mutex
	env *provx.Env
	in  decIn

	events   []event
	procIdx  map[string]int // processor id -> index among the processor-update changes
	rbPhase  bool
	rbSwapAt int
	gets     int
	live     bool

	// lock cases
	log      []int
	hold     time.Duration
	lockMode bool
}

func (w *world) touch(ctx context.Context) {
	if !w.lockMode {
		return
	}
	if a := applyOf(ctx); a >= 0 {
		w.mu.Lock()
		w.log = append(w.log, a)
		w.mu.Unlock()
	}
}

// waitForOther holds a lifecycle call open until another apply shows up in the log.
func (w *world) waitForOther(ctx context.Context) {
	if !w.lockMode {
		return
	}
	me := applyOf(ctx)
	w.mu.Lock()
	start := len(w.log)
	w.mu.Unlock()
	deadline := time.Now().Add(w.hold)
	for time.Now().Before(deadline) {
		w.mu.Lock()
		seen := false
		for _, a := range w.log[start:] {
			if a != me {
				seen = true
			}
		}
		w.mu.Unlock()
		if seen {
			time.Sleep(5 * time.Millisecond) // let the other one get a few more calls in
			return
		}
		time.Sleep(2 * time.Millisecond)
	}
}

func (w *world) last() *event {
	if len(w.events) == 0 {
		return nil
	}
	return &w.events[len(w.events)-1]
}

func (w *world) status(id string) pipeline.Status {
	inst, err := w.env.Pl.Get(context.Background(), id)
	if err != nil {
		return pipeline.StatusUserStopped
	}
	return inst.GetStatus()
}

func (w *world) setStatus(id string, running bool) {
	inst, err := w.env.Pl.Get(context.Background(), id)
	if err != nil {
		return
	}
	if running {
		inst.SetStatus(pipeline.StatusRunning)
	} else {
		inst.SetStatus(pipeline.StatusUserStopped)
	}
}

// ---- lifecycle fake

type life struct{ w *world }

func (l life) Stop(context.Context, string, bool) error { return cerrors.New("unexpected Stop") }

func (l life) StopAndWait(ctx context.Context, id string) error {
	w := l.w
	w.touch(ctx)
	w.waitForOther(ctx)
	w.mu.Lock()
	ok := w.in.Stop
	w.events = append(w.events, event{Kind: "stop", OK: ok})
	w.mu.Unlock()
	w.touch(ctx)
	if !ok {
		return cerrors.New("scripted StopAndWait failure")
	}
	w.setStatus(id, false)
	return nil
}

func (l life) Start(ctx context.Context, id string) error {
	w := l.w
	w.touch(ctx)
	w.waitForOther(ctx)
	w.mu.Lock()
	ok := w.in.Start
	w.events = append(w.events, event{Kind: "start", OK: ok})
	w.mu.Unlock()
	w.touch(ctx)
	if !ok {
		return cerrors.New("scripted Start failure")
	}
	w.setStatus(id, true)
	return nil
}

func (l life) ReconfigureProcessor(ctx context.Context, _ string, procID string) error {
	w := l.w
	w.touch(ctx)
	w.mu.Lock()
	defer w.mu.Unlock()
	idx, ok := w.procIdx[procID]
	if !ok {
		idx = 99
	}
	rc := 0
	if w.rbPhase {
		if w.rbSwapAt < len(w.in.RbSwaps) && !w.in.RbSwaps[w.rbSwapAt] {
			rc = 2
		}
		w.rbSwapAt++
	} else if idx < len(w.in.Swaps) {
		rc = w.in.Swaps[idx]
	}
	w.events = append(w.events, event{Kind: "reconf", Idx: idx, RC: rc, OK: rc == 0})
	switch rc {
	case 1:
		return cerrors.Errorf("%w: scripted", lifecycle.ErrProcessorNotLiveReconfigurable)
	case 2:
		return cerrors.New("scripted ReconfigureProcessor failure")
	}
	return nil
}

// ---- pipeline service wrapper: running status where the code samples it

type plWrap struct {
	*pipeline.Service
	w *world
}

func (p plWrap) Get(ctx context.Context, id string) (*pipeline.Instance, error) {
	w := p.w
	w.touch(ctx)
	if applyOf(ctx) >= 0 && !w.lockMode {
		w.mu.Lock()
		w.gets++
		n := w.gets
		w.mu.Unlock()
		// Get #1: Plan's Export. #2: isRunning. #3: the second isRunning (only if #2 said no).
		if n == 3 && !w.in.Run1 && len(w.events) == 0 {
			w.setStatus(id, w.in.Run2)
		}
	}
	return p.Service.Get(ctx, id)
}

// ---- DB wrapper: one transaction = one transactionalImport

type txDB struct {
	database.DB
	w *world
}

type txn struct {
	database.Transaction
	w      *world
	ctx    context.Context
	fail   bool
	target string
	sets   int
	done   bool
}

type txnKey struct{}

func (d *txDB) NewTransaction(ctx context.Context, update bool) (database.Transaction, context.Context, error) {
	w := d.w
	w.touch(ctx)
	inner, tctx, err := d.DB.NewTransaction(ctx, update)
	if err != nil {
		return nil, nil, err
	}
	t := &txn{Transaction: inner, w: w, ctx: ctx, target: "new"}
	if applyOf(ctx) >= 0 && !w.lockMode {
		w.mu.Lock()
		last := w.last()
		switch {
		case last != nil && ((last.Kind == "reconf" && last.RC == 2) || (last.Kind == "stop" && !last.OK)):
			t.target, t.fail = "old", !w.in.RbImp
			w.rbPhase = true
		case last != nil && last.Kind == "stop" && last.OK:
			t.fail = !w.in.Imp
		case last == nil && w.live && w.status(provx.PipelineID) == pipeline.StatusRunning:
			t.fail = !w.in.ImpInplace
		default:
			t.fail = !w.in.Imp
		}
		w.mu.Unlock()
	}
	return t, context.WithValue(tctx, txnKey{}, t), nil
}

func (d *txDB) Set(ctx context.Context, key string, value []byte) error {
	if t, ok := ctx.Value(txnKey{}).(*txn); ok {
		t.sets++
		if t.fail && t.sets == 1 {
			return cerrors.New("scripted store failure inside the import")
		}
	}
	return d.DB.Set(ctx, key, value)
}

func (t *txn) Commit() error {
	t.w.touch(t.ctx)
	if t.done {
		return t.Transaction.Commit()
	}
	t.done = true
	if t.fail && t.sets == 0 {
		// an import that writes nothing (idempotent re-import) can only fail at commit
		t.Transaction.Discard()
		t.record(false)
		return cerrors.New("scripted commit failure")
	}
	err := t.Transaction.Commit()
	t.record(err == nil)
	return err
}

func (t *txn) Discard() {
	if !t.done {
		t.done = true
		t.record(false)
	}
	t.Transaction.Discard()
}

func (t *txn) record(ok bool) {
	if applyOf(t.ctx) < 0 || t.w.lockMode {
		return
	}
	t.w.mu.Lock()
	t.w.events = append(t.w.events, event{Kind: "import", Target: t.target, OK: ok})
	t.w.mu.Unlock()
}

func newWorld() *world {
	w := &world{procIdx: map[string]int{}}
	db := &txDB{DB: &inmemory.DB{}, w: w}
	w.env = provx.NewEnvOn(db, life{w}, func(s *pipeline.Service) provisioning.PipelineService { return plWrap{Service: s, w: w} })
	return w
}

// ---------------------------------------------------------------- configs

func pr(id, settings int) provx.Proc {
	return provx.Proc{ID: id, Plugin: 1, Settings: settings, Workers: 1}
}

func oldPipe(name int) provx.Pipe {
	return provx.Pipe{Name: name, Desc: 0, DLQ: provx.DLQ{Plugin: 1, Settings: 1, Size: 1, Thr: 0},
		Conns: []provx.Conn{
			{ID: 1, Src: true, Plugin: 1, Name: 1, Settings: 0, Procs: []provx.Proc{pr(1, 0), pr(2, 0), pr(3, 0)}},
			{ID: 2, Src: false, Plugin: 1, Name: 2, Settings: 0},
		}}
}

func clone(p provx.Pipe) provx.Pipe {
	b, _ := json.Marshal(p)
	var q provx.Pipe
	_ = json.Unmarshal(b, &q)
	return q
}

func desiredPipe(old provx.Pipe, shape string, nswaps int, nameToo bool) provx.Pipe {
	q := clone(old)
	switch shape {
	case "live":
		if nswaps < 1 {
			nswaps = 1
		}
		for i := 0; i < nswaps && i < len(q.Conns[0].Procs); i++ {
			q.Conns[0].Procs[i].Settings = 1
		}
		if nameToo {
			q.Name = old.Name + 10
		}
	case "restart":
		q.Conns[0].Settings = 1
	}
	return q
}

// ---------------------------------------------------------------- decision cases

var bg = context.Background()

func classify(d provisioning.Diff, err error) string {
	if err == nil {
		switch d.AppliedMode {
		case provisioning.ApplyModeProvisioned:
			return "ok:provisioned"
		case provisioning.ApplyModeInPlace:
			return "ok:in_place"
		case provisioning.ApplyModeRestart:
			return "ok:restart"
		}
		return "ok:none"
	}
	if ce, ok := conduiterr.Get(err); ok {
		switch ce.Code {
		case provisioning.CodePlanStale:
			return "stale"
		case provisioning.CodeLiveApplyUnauthorized:
			return "unauth"
		}
	}
	return "err"
}

func exportJSON(w *world, id string) string {
	c, err := w.env.Prov.Export(bg, id)
	if err != nil {
		return "error"
	}
	b, _ := json.Marshal(provx.Canon(c))
	return string(b)
}

func runDec(in decIn) (o decObs) {
	o.Events = []event{}
	defer func() {
		if r := recover(); r != nil {
			o.Aux += fmt.Sprintf("panic: %v;", r)
			if o.Result == "" {
				o.Result = "err"
			}
		}
	}()
	w := newWorld()
	w.in = in
	old := oldPipe(1)
	if err := w.env.Prov.Import(bg, provx.Render(old)); err != nil {
		panic(err)
	}
	desired := desiredPipe(old, in.Shape, in.NSwaps, in.NameToo)
	cfg := provx.Render(desired)
	plan, err := w.env.Prov.Plan(bg, cfg)
	if err != nil {
		panic(err)
	}
	hash := plan.Hash
	switch in.Stale {
	case 1:
		hash = "0000" + hash
	case 2: // somebody changes the pipeline after the plan was shown
		other := clone(old)
		other.Desc = 2
		if err := w.env.Prov.Import(bg, provx.Render(other)); err != nil {
			panic(err)
		}
	case 3: // somebody changes ANOTHER field of an entity the plan updates: the step list is the same, what each
		// step touches is not (only the field-level detail of the plan tells the two apart)
		other := clone(old)
		if in.Shape == "live" && len(other.Conns[0].Procs) > 0 {
			other.Conns[0].Procs[0].Settings = 2
		} else {
			other.Conns[0].Settings = 2
		}
		if err := w.env.Prov.Import(bg, provx.Render(other)); err != nil {
			panic(err)
		}
	}
	fresh, err := w.env.Prov.Plan(bg, cfg)
	if err != nil {
		panic(err)
	}
	// Ground truth for "the plan shown to the operator is still the plan": decided here, independently of the
	// code's hash, by comparing the change lists (steps with their field-level detail) of the plan that was shown
	// and of a plan made now; the desired config is the same by construction. The code's own verdict
	// (fresh.Hash == hash) is logged next to it.
	o.HashOK = in.Stale != 1 && reflect.DeepEqual(plan.Changes, fresh.Changes)
	if (fresh.Hash == hash) != o.HashOK {
		o.Aux += "hash-verdict-differs-from-plan-comparison;"
	}
	o.Empty = fresh.Empty()
	o.Live = fresh.LiveEligible()
	w.live = o.Live
	k := 0
	for _, c := range fresh.Changes {
		if c.Resource == provisioning.ResourceProcessor && c.Action == provisioning.ChangeActionUpdate {
			w.procIdx[c.ID] = k
			k++
		}
	}
	before := exportJSON(w, provx.PipelineID)
	want := func() string { b, _ := json.Marshal(provx.Canon(cfg)); return string(b) }()

	w.setStatus(provx.PipelineID, in.Run1)
	ctx := context.WithValue(bg, applyKey{}, 0)
	d, aerr := w.env.Prov.ApplyPlanLive(ctx, cfg, hash, in.Auth)
	o.Result = classify(d, aerr)
	w.mu.Lock()
	o.Events = append(o.Events, w.events...)
	w.mu.Unlock()
	o.RunningAfter = w.status(provx.PipelineID) == pipeline.StatusRunning
	switch exportJSON(w, provx.PipelineID) {
	case before:
		o.CfgAfter = 0
	case want:
		o.CfgAfter = 1
	default:
		o.CfgAfter = 2
	}
	return o
}

// probeFix: does the tree roll an in-place apply back when the fallback's StopAndWait fails?
func probeFix() bool {
	res := false
	hx.Try(func() {
		o := runDec(decIn{Shape: "live", NSwaps: 1, Run1: true, Auth: true, ImpInplace: true, Swaps: []int{1},
			RbImp: true, Stop: false, Imp: true, Start: true})
		for _, e := range o.Events {
			if e.Kind == "import" && e.Target == "old" {
				res = true
			}
		}
	})
	return res
}

func coqRC(rc int) string { return []string{"RcOk", "RcNotLive", "RcErr"}[rc%3] }

func coqResult(r string) string {
	switch r {
	case "ok:none":
		return "(ROk MNone)"
	case "ok:provisioned":
		return "(ROk MProvisioned)"
	case "ok:in_place":
		return "(ROk MInPlace)"
	case "ok:restart":
		return "(ROk MRestart)"
	case "stale":
		return "RStale"
	case "unauth":
		return "RUnauth"
	}
	return "RErr"
}

func coqDec(in decIn, o decObs) string {
	sw := make([]string, len(in.Swaps))
	for i, s := range in.Swaps {
		sw[i] = coqRC(s)
	}
	evs := make([]string, len(o.Events))
	for i, e := range o.Events {
		switch e.Kind {
		case "import":
			t := "CNew"
			if e.Target == "old" {
				t = "COld"
			}
			evs[i] = fmt.Sprintf("(EImport %s %s)", t, hx.Bool(e.OK))
		case "stop":
			evs[i] = fmt.Sprintf("(EStop %s)", hx.Bool(e.OK))
		case "start":
			evs[i] = fmt.Sprintf("(EStart %s)", hx.Bool(e.OK))
		default:
			evs[i] = fmt.Sprintf("(EReconf %d %s)", e.Idx, coqRC(e.RC))
		}
	}
	inp := fmt.Sprintf("(mkInp %s %s %s %s %s %s %s %s %s %s %s %s %s)", hx.Bool(o.HashOK), hx.Bool(o.Empty), hx.Bool(in.Run1),
		hx.Bool(in.Run2), hx.Bool(in.Auth), hx.Bool(o.Live), hx.Bool(in.ImpInplace), hx.List(sw), hx.Bool(in.RbImp),
		hx.Bools(in.RbSwaps), hx.Bool(in.Stop), hx.Bool(in.Imp), hx.Bool(in.Start))
	return fmt.Sprintf("ADec %s %s %s %s %s %d", hx.Bool(o.FixFallback), inp, hx.List(evs), coqResult(o.Result),
		hx.Bool(o.RunningAfter), o.CfgAfter)
}

// ---------------------------------------------------------------- lock cases

func runLock(in lockIn) (o lockObs) {
	defer func() {
		if r := recover(); r != nil {
			o.Aux += fmt.Sprintf("panic: %v;", r)
		}
	}()
	w := newWorld()
	w.in = decIn{Stop: true, Imp: true, Start: true, RbImp: true, ImpInplace: true}
	ids := []string{provx.PipelineID, provx.PipelineID}
	if !in.SameID {
		ids[1] = "pl2"
	}
	olds := []provx.Pipe{oldPipe(1), oldPipe(1)}
	if !in.SameID {
		olds[1] = oldPipe(2)
	}
	cfgs := make([]config.Pipeline, 2)
	hashes := make([]string, 2)
	for k := 0; k < 2; k++ {
		if k == 0 || !in.SameID {
			if err := w.env.Prov.Import(bg, provx.RenderID(ids[k], olds[k])); err != nil {
				panic(err)
			}
		}
	}
	for k := 0; k < 2; k++ {
		shape := "restart"
		if k == 1 && !in.Second {
			shape = "live"
		}
		cfgs[k] = provx.RenderID(ids[k], desiredPipe(olds[k], shape, 1, false))
		d, err := w.env.Prov.Plan(bg, cfgs[k])
		if err != nil {
			panic(err)
		}
		hashes[k] = d.Hash
		w.setStatus(ids[k], true)
	}
	w.lockMode = true
	w.hold = 150 * time.Millisecond
	var wg sync.WaitGroup
	for k := 0; k < 2; k++ {
		wg.Add(1)
		go func(k int) {
			defer wg.Done()
			defer func() { _ = recover() }()
			if k == 1 {
				time.Sleep(20 * time.Millisecond) // the first apply enters first
			}
			ctx := context.WithValue(bg, applyKey{}, k)
			_, _ = w.env.Prov.ApplyPlanLive(ctx, cfgs[k], hashes[k], true)
		}(k)
	}
	done := make(chan struct{})
	go func() { wg.Wait(); close(done) }()
	select {
	case <-done:
	case <-time.After(20 * time.Second):
		o.Aux += "timeout;"
	}
	w.mu.Lock()
	o.Log = append([]int{}, w.log...)
	w.mu.Unlock()
	if o.Log == nil {
		o.Log = []int{}
	}
	o.Overlap = !serial(o.Log)
	return o
}

func serial(l []int) bool {
	closed := map[int]bool{}
	for i, a := range l {
		if i > 0 && l[i-1] != a {
			closed[l[i-1]] = true
		}
		if closed[a] {
			return false
		}
	}
	return true
}

// ---------------------------------------------------------------- generation

func genDec(r *hx.Rand) decIn {
	in := decIn{Shape: []string{"live", "live", "restart", "restart", "empty"}[r.Intn(5)], NSwaps: r.Range(1, 3), NameToo: r.Chance(1, 4),
		Run1: r.Bool(), Run2: r.Chance(1, 3), Auth: r.Chance(3, 4), ImpInplace: r.Chance(4, 5), RbImp: r.Chance(4, 5),
		Stop: r.Chance(3, 4), Imp: r.Chance(3, 4), Start: r.Chance(3, 4)}
	if r.Chance(1, 5) {
		in.Stale = 1 + r.Intn(3)
	}
	in.Swaps = make([]int, in.NSwaps)
	for i := range in.Swaps {
		in.Swaps[i] = []int{0, 0, 0, 1, 2}[r.Intn(5)]
	}
	in.RbSwaps = make([]bool, in.NSwaps)
	for i := range in.RbSwaps {
		in.RbSwaps[i] = r.Chance(4, 5)
	}
	return in
}

// allDec enumerates the decision inputs completely: shape x staleness x both running samples x
// authorisation x every outcome vector (swap vectors over {ok, not-live, err}^n, n <= 2 plus the
// all-ok vector of length 3).
func allDec(emit func(decIn), shard, shards int) {
	k := 0
	bools := []bool{false, true}
	swapVecs := [][]int{{0}, {1}, {2}, {0, 0}, {0, 1}, {0, 2}, {1, 0}, {2, 0}, {0, 0, 0}, {0, 0, 2}, {0, 0, 1}}
	for _, shape := range []string{"live", "restart", "empty"} {
		for stale := 0; stale <= 3; stale++ {
			for _, run1 := range bools {
				for _, run2 := range bools {
					for _, auth := range bools {
						vecs := swapVecs
						if shape != "live" {
							vecs = [][]int{{0}}
						}
						for _, sv := range vecs {
							for m := 0; m < 64; m++ {
								in := decIn{Shape: shape, NSwaps: len(sv), Stale: stale, Run1: run1, Run2: run2, Auth: auth, Swaps: sv,
									ImpInplace: m&1 != 0, RbImp: m&2 != 0, Stop: m&4 != 0, Imp: m&8 != 0, Start: m&16 != 0,
									RbSwaps: []bool{m&32 != 0, true, true}[:len(sv)]}
								// outcomes that cannot matter on this path are not multiplied out
								if (stale != 0 || shape == "empty") && m != 63 {
									continue
								}
								if shape != "live" && (m&1 == 0 || m&2 == 0 || m&32 == 0) {
									continue
								}
								k++
								if k%shards != shard {
									continue
								}
								emit(in)
							}
						}
					}
				}
			}
		}
	}
}

// ---------------------------------------------------------------- main

func caseFromJSON(m map[string]any) caseIn {
	in, ok := m["input"]
	if !ok {
		in = m
	}
	b, err := json.Marshal(in)
	if err != nil {
		panic(err)
	}
	var c caseIn
	if err := json.NewDecoder(strings.NewReader(string(b))).Decode(&c); err != nil {
		panic(err)
	}
	if c.Kind == "dec" && c.Dec == nil || c.Kind == "lock" && c.Lock == nil || c.Kind == "e2e" && c.E2E == nil ||
		(c.Kind != "dec" && c.Kind != "lock" && c.Kind != "e2e") {
		panic("ill-formed case")
	}
	return c
}

func main() {
	o := hx.ParseFlags()
	if o.Mode == "probe" {
		fmt.Printf("{\"fix_fallback\": %v}\n", probeFix())
		return
	}
	w, err := hx.NewWriter(o, "From Verif Require Import Base.CaseCheck Prov.Apply Prov.ApplyCheck.", "acase")
	if err != nil {
		fmt.Fprintln(os.Stderr, err)
		os.Exit(2)
	}
	fx := probeFix()
	emit := func(c caseIn) {
		switch c.Kind {
		case "dec":
			if len(c.Dec.Swaps) == 0 {
				c.Dec.Swaps = []int{0}
			}
			ob := runDec(*c.Dec)
			ob.FixFallback = fx
			w.Add(map[string]any{"input": c, "observed": ob}, coqDec(*c.Dec, ob))
		case "e2e":
			ob := runE2E(*c.E2E)
			w.Add(map[string]any{"input": c, "observed": ob}, coqE2E(*c.E2E, ob))
		case "lock":
			ob := runLock(*c.Lock)
			w.Add(map[string]any{"input": c, "observed": ob},
				fmt.Sprintf("ALock %s %s %s", hx.Bool(c.Lock.SameID), hx.Nats(ob.Log), hx.Bool(ob.Overlap)))
		}
	}
	locks := func(n int) {
		for i := 0; i < n; i++ {
			emit(caseIn{Kind: "lock", Lock: &lockIn{SameID: i%2 == 0, Second: i%4 < 2}})
		}
	}
	switch {
	case o.Replay != "":
		cs, err := hx.ReadJSONL(o.Replay)
		if err != nil {
			fmt.Fprintln(os.Stderr, err)
			os.Exit(2)
		}
		for _, m := range cs {
			if inner, ok := m["case"].(map[string]any); ok {
				m = inner
			}
			var c caseIn
			if !hx.Try(func() { c = caseFromJSON(m) }) {
				continue
			}
			emit(c)
		}
	case o.Mode == "e2e":
		root := hx.NewRand(o.Seed)
		for i := 0; i < o.N; i++ {
			e := genE2E(root.Fork(uint64(o.Shard)<<32 | uint64(i)))
			emit(caseIn{Kind: "e2e", E2E: &e})
		}
	case o.Mode == "all":
		allDec(func(in decIn) { d := in; emit(caseIn{Kind: "dec", Dec: &d}) }, o.Shard, o.Shards)
		locks(4)
	default:
		root := hx.NewRand(o.Seed)
		for i := 0; i < o.N; i++ {
			d := genDec(root.Fork(uint64(o.Shard)<<32 | uint64(i)))
			emit(caseIn{Kind: "dec", Dec: &d})
		}
		locks(2)
	}
	if err := w.Close("chk"); err != nil {
		fmt.Fprintln(os.Stderr, err)
		os.Exit(2)
	}
	fmt.Printf("cases=%d\n", w.Count())
}
