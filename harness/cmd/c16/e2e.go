package main

// End-to-end cases of C16: the REAL v1 lifecycle service runs a pipeline (fake source ->
// processor -> fake destination) with records flowing, and the real ApplyPlanLive applies a
// plan at an instant chosen by the case (lib/applyx).

import (
	"context"
	"fmt"
	"strconv"
	"time"

	"verifharness/lib/applyx"
	"verifharness/lib/hx"
	"verifharness/lib/provx"
)

type e2eIn struct {
	Shape    string `json:"shape"`    // restart (a connector setting changes) | live (a processor setting changes)
	Pre      int    `json:"pre"`      // records fully delivered before the apply
	Inflight int    `json:"inflight"` // records released right before the apply call (they race with it)
	Post     int    `json:"post"`     // records released after the apply returned
	Batch    int    `json:"batch"`    // records per source response
	Auth     bool   `json:"auth"`
	Stale    bool   `json:"stale"`
	Settle   bool   `json:"settle"` // wait for the position of the pre records to be stored before the apply
}

type e2eObs struct {
	Events []applyx.Ev `json:"events"`
	Result string      `json:"result"`
	Live   bool        `json:"live"`
	Aux    string      `json:"aux,omitempty"`
}

func e2ePipe(connSettings, procSettings int) provx.Pipe {
	return provx.Pipe{Name: 1, Desc: 0, DLQ: provx.DLQ{Plugin: 1, Settings: 1, Size: 1, Thr: 0},
		Conns: []provx.Conn{
			{ID: 1, Src: true, Plugin: 1, Name: 1, Settings: connSettings},
			{ID: 2, Src: false, Plugin: 1, Name: 2, Settings: 0},
		},
		Procs: []provx.Proc{{ID: 1, Plugin: 1, Settings: procSettings, Workers: 1}}}
}

func emitN(w *applyx.World, n, batch int) {
	if batch < 1 {
		batch = 1
	}
	for n > 0 {
		k := batch
		if k > n {
			k = n
		}
		w.Emit(k)
		n -= k
	}
}

func writtenUpTo(evs []applyx.Ev, n int) bool {
	seen := map[int]bool{}
	for _, e := range evs {
		if e.K == "write" {
			seen[e.N] = true
		}
	}
	for k := 1; k <= n; k++ {
		if !seen[k] {
			return false
		}
	}
	return true
}

func runE2E(in e2eIn) (o e2eObs) {
	defer func() {
		if r := recover(); r != nil {
			o.Aux += fmt.Sprintf("panic: %v;", r)
		}
	}()
	ctx := context.Background()
	s := applyx.New()
	if err := s.Prov.Import(ctx, provx.Render(e2ePipe(0, 0))); err != nil {
		panic(err)
	}
	s.Arm()
	s.W.Reset()
	if err := s.Life.Start(ctx, applyx.PipelineID); err != nil {
		panic(err)
	}
	// the pipeline is up once the source, the destination and the processor have been opened
	if !s.W.WaitFor(20*time.Second, func(evs []applyx.Ev) bool {
		src, dst, proc := false, false, false
		for _, e := range evs {
			src = src || (e.K == "open" && e.C == "src")
			dst = dst || (e.K == "open" && e.C == "dst")
			proc = proc || e.K == "popen"
		}
		return src && dst && proc
	}) {
		o.Aux += "pipeline never came up;"
	}
	emitN(s.W, in.Pre, in.Batch)
	if !s.W.WaitFor(20*time.Second, func(evs []applyx.Ev) bool { return writtenUpTo(evs, in.Pre) }) {
		o.Aux += "pre records not delivered;"
	}
	if in.Settle {
		s.W.WaitFor(5*time.Second, func(evs []applyx.Ev) bool {
			for _, e := range evs {
				if e.K == "commit" && e.N >= in.Pre {
					return true
				}
			}
			return in.Pre == 0
		})
	}
	desired := e2ePipe(1, 0)
	if in.Shape == "live" {
		desired = e2ePipe(0, 1)
	}
	cfg := provx.Render(desired)
	plan, err := s.Prov.Plan(ctx, cfg)
	if err != nil {
		panic(err)
	}
	o.Live = plan.LiveEligible()
	hash := plan.Hash
	if in.Stale {
		hash = "0000" + hash
	}
	emitN(s.W, in.Inflight, in.Batch)
	s.W.Log(applyx.Ev{K: "applycall"})
	d, aerr := s.Prov.ApplyPlanLive(applyx.WithApply(ctx), cfg, hash, in.Auth)
	o.Result = classify(d, aerr)
	s.W.Log(applyx.Ev{K: "applyret", X: o.Result})
	total := in.Pre + in.Inflight + in.Post
	emitN(s.W, in.Post, in.Batch)
	if !s.W.WaitFor(20*time.Second, func(evs []applyx.Ev) bool { return writtenUpTo(evs, total) }) {
		o.Aux += "not every record was delivered;"
	}
	s.W.Log(applyx.Ev{K: "endcall"})
	if err := s.Life.StopAndWait(ctx, applyx.PipelineID); err != nil {
		o.Aux += "final StopAndWait: " + err.Error() + ";"
	}
	s.W.Log(applyx.Ev{K: "end", N: s.StoredPos()})
	o.Events = s.W.Events()
	return o
}

func coqE2E(in e2eIn, o e2eObs) string {
	var evs []string
	for _, e := range o.Events {
		switch {
		case e.K == "read":
			evs = append(evs, "XRead "+strconv.Itoa(e.N))
		case e.K == "unread":
			evs = append(evs, "XUnread "+strconv.Itoa(e.N))
		case e.K == "write":
			evs = append(evs, "XWrite "+strconv.Itoa(e.N))
		case e.K == "pack":
			evs = append(evs, "XAck "+strconv.Itoa(e.N))
		case e.K == "commit":
			evs = append(evs, "XCommit "+strconv.Itoa(e.N))
		case e.K == "import":
			evs = append(evs, fmt.Sprintf("XImport %d %s", e.N, hx.Bool(e.X == "ok")))
		case e.K == "open" && e.C == "src":
			evs = append(evs, "XOpenSrc "+strconv.Itoa(e.N))
		case e.K == "td" && e.C == "src":
			evs = append(evs, "XTdSrc")
		case e.K == "popen":
			evs = append(evs, "XPOpen "+strconv.Itoa(e.N))
		case e.K == "applycall":
			evs = append(evs, "XApplyCall")
		case e.K == "applyret":
			evs = append(evs, "XApplyRet "+coqResult(e.X))
		case e.K == "end":
			evs = append(evs, "XEnd "+strconv.Itoa(e.N))
		}
	}
	return fmt.Sprintf("AE2E %s %s %s %d %s", hx.Bool(o.Live), hx.Bool(in.Auth), hx.Bool(!in.Stale),
		in.Pre+in.Inflight+in.Post, hx.List(evs))
}

func genE2E(r *hx.Rand) e2eIn {
	in := e2eIn{Shape: []string{"restart", "restart", "live"}[r.Intn(3)], Pre: r.Intn(6), Inflight: r.Intn(5), Post: 1 + r.Intn(4),
		Batch: 1 + r.Intn(3), Auth: r.Chance(4, 5), Stale: r.Chance(1, 6), Settle: r.Bool()}
	return in
}
