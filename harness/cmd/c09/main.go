// Harness for C09 (no reply shape crashes or wedges the engine): the same
// whole-pass driver as C08 with a malformed-first generator, plus the v1 nodes
// (stream.ProcessorNode, stream.DestinationAckerNode) and the built-in
// connector sandbox; see harness/lib/funnelx.
package main

import (
	"verifharness/lib/funnelx"
)

func main() { funnelx.Main("C09") }
