// Harness for C06 (graceful stop drains) and C12 (force stop at any instant):
// the REAL lifecycle service of either engine with the real connector /
// processor / pipeline services on an in-memory DB behind fake plugins
// (harness/lib/stopx). An environment schedule (records becoming available,
// verdicts of destinations and of the DLQ, store commits held and released)
// is played and a graceful stop (StopAndWait) or a force stop is issued at a
// generated position of it.
//
//	--mode c06 (default): graceful stop; Mon_C06 is evaluated at the moment StopAndWait returns nil
//	--mode c12:           force stop; afterwards the pipeline is started again (resume position)
package main

import (
	"context"
	"fmt"
	"os"
	"sort"
	"strconv"
	"strings"
	"time"

	"verifharness/lib/hx"
	"verifharness/lib/stopx"
)

type caseIn struct {
	Prop  string     `json:"prop"` // c06 | c12
	Topo  stopx.Topo `json:"topo"`
	Sched []string   `json:"sched"`
	// slow store: commits are held for longer than the source teardown budget (10 s) during the stop
	Slow bool `json:"slow,omitempty"`
	// c12: no process restart between the force stop and the next start: the pipeline is started again
	// through the same services, i.e. the very connector instances the force-stopped run used
	SameProc bool `json:"same_proc,omitempty"`
}

type caseObs struct {
	Evs        []stopx.Ev `json:"evs"`
	Healthy    bool       `json:"healthy"`    // nothing was left blocked on purpose when the stop had to complete
	Terminated bool       `json:"terminated"` // the run ended within the deadline (c12)
	Hung       string     `json:"hung,omitempty"`
	Note       string     `json:"note,omitempty"`
}

// schedule steps
//
//	start            Start (waits for the call to return)
//	e:<src>:<n>      source hands out one response with n records
//	ok:<dst>:<n>     destination confirms its next n records        (dst "dlq" = every DLQ connector)
//	nk:<dst>:<n>     destination refuses its next n records
//	slow:<src>:<us>  the source plugin's Stop call takes us microseconds (a slow plugin)
//	ah:<src> / ar:<src>  the source plugin stops / resumes consuming acks (the engine's ack send stays in flight)
//	z:<ms>           sleep (e.g. past the persister's 50 ms debounce)
//	wc               wait for the first store commit after the stop was called
//	hold / free      close / open the store's commit gate
//	stop             StopAndWait (not awaited: the schedule goes on)
//	stopd:<ms>       StopAndWait with a context deadline of ms (awaited; logged as its own call)
//	force            Stop(force)
//	shutdown         the engine's graceful shutdown as conduit's runtime performs it: StopAll with the shutdown
//	                 reason, Wait, persister Wait (not awaited: the schedule goes on); judged like "stop"
//	stopall          graceful shutdown of the engine: StopAll (not awaited)
//	stopallforce     forced shutdown: v2 StopAll(force=true); v1 StopAll then Stop(force)
//	w                wait until the log is quiet
//
// a trailing "!" means: do not wait for quiet after the step.
func play(c caseIn) caseObs {
	var o caseObs
	sys, err := stopx.NewSys(c.Topo)
	if err != nil {
		o.Note = "setup: " + err.Error()
		return o
	}
	w := sys.W
	var stopDone, forceDone, allDone <-chan struct{}
	stopped, forced := false, false
	commitsAtStop := 1 << 30
	heldAtEnd := false
	quiet := func() { w.Settle(250*time.Microsecond, 20*time.Millisecond) }
	for _, st := range c.Sched {
		nowait := strings.HasSuffix(st, "!")
		st = strings.TrimSuffix(st, "!")
		f := strings.Split(st, ":")
		switch f[0] {
		case "start":
			_, d := sys.Call("start")
			if !stopx.WaitCh(d, 10*time.Second) {
				o.Hung = "start"
			}
		case "e":
			n, _ := strconv.Atoi(f[2])
			if n < 1 {
				n = 1
			}
			w.Emit(f[1], n)
		case "ok", "nk":
			n, _ := strconv.Atoi(f[2])
			w.Verdict(f[1], f[0] == "ok", n)
		case "slow":
			us, _ := strconv.Atoi(f[2])
			w.SlowStop(f[1], us)
			continue
		case "ah", "ar":
			w.HoldAcks(f[1], f[0] == "ah")
			continue
		case "z":
			ms, _ := strconv.Atoi(f[1])
			if ms > 200 {
				ms = 200
			}
			time.Sleep(time.Duration(ms) * time.Millisecond)
			continue
		case "wc":
			// wait for the first store commit after the stop was called (Teardown's forced flush)
			w.WaitFor(2*time.Second, func(l []stopx.Ev) bool { return countCommits(l) > commitsAtStop })
			continue
		case "hold":
			w.HoldCommits()
			heldAtEnd = true
		case "free":
			w.ReleaseCommits()
			heldAtEnd = false
		case "stop", "shutdown":
			if !stopped && !forced {
				commitsAtStop = countCommits(w.Events())
				name := "stopwait"
				if f[0] == "shutdown" {
					name = "shutdown"
				}
				_, stopDone = sys.Call(name)
				stopped = true
			}
		case "force", "stopallforce":
			if !forced {
				_, forceDone = sys.Call(f[0])
				forced = true
			}
		case "stopd":
			// a graceful StopAndWait under a short context deadline (awaited; it may time out and leave
			// the pipeline running)
			ms, _ := strconv.Atoi(f[1])
			if ms < 1 {
				ms = 1
			}
			if !stopped && !forced {
				_, d := sys.CallCtx("stopwaitd", time.Duration(ms)*time.Millisecond)
				if !stopx.WaitCh(d, 45*time.Second) {
					o.Hung = "stopd"
				}
			}
		case "stopall":
			// graceful shutdown of the engine (not awaited: v2 waits for the batch in flight)
			if allDone == nil {
				_, allDone = sys.Call("stopall")
			}
		case "w":
			quiet()
			continue
		default:
			continue
		}
		if o.Hung != "" {
			break
		}
		if !nowait {
			quiet()
		}
	}
	_ = heldAtEnd

	switch c.Prop {
	case "c12":
		finishForce(sys, c, &o, stopDone, forceDone, allDone, stopped, forced)
	default:
		finishGraceful(sys, c, &o, stopDone, stopped)
	}
	o.Evs = w.Events()
	return o
}

// hangWait: how long a released, healthy graceful stop may take before it counts as hung (it takes
// milliseconds). Replays (the shrinker re-runs a case that already failed many times) wait 10 s.
var hangWait = 25 * time.Second

// finishGraceful: make the run healthy (every gate released), issue the stop if the schedule
// did not, and wait for StopAndWait to return.
func finishGraceful(sys *stopx.Sys, c caseIn, o *caseObs, stopDone <-chan struct{}, stopped bool) {
	w := sys.W
	if !stopped {
		_, stopDone = sys.Call("stopwait")
	}
	if c.Slow {
		// the store answers, but only after the source teardown budget (10 s) has run out
		w.HoldCommits()
		w.Settle(time.Millisecond, 50*time.Millisecond)
		w.Log(stopx.Ev{K: "slow"})
		time.AfterFunc(10500*time.Millisecond, w.ReleaseCommits)
		w.ReleaseVerdicts()
		o.Healthy = true
		if !stopx.WaitCh(stopDone, 40*time.Second) {
			o.Hung = "stopwait"
		}
		w.Release()
		return
	}
	w.Log(stopx.Ev{K: "release"})
	w.Release()
	o.Healthy = true
	if !stopx.WaitCh(stopDone, hangWait) {
		o.Hung = "stopwait"
	}
	w.Settle(300*time.Microsecond, 20*time.Millisecond)
}

// finishForce: issue the force stop if the schedule did not (gates stay as they are: blocked
// plugins stay blocked), wait for the run to end, watch for an automatic restart, then release
// everything and start the pipeline again to see where it resumes.
func finishForce(sys *stopx.Sys, c caseIn, o *caseObs, stopDone, forceDone, allDone <-chan struct{}, stopped, forced bool) {
	w := sys.W
	if !forced {
		_, forceDone = sys.Call("force")
	}
	if !stopx.WaitCh(forceDone, 10*time.Second) {
		o.Hung = "force"
	}
	_, waitDone := sys.Call("wait")
	// v2 tears its sources down with a background context: with the store stalled it waits out the
	// 10 s teardown budget; without a stalled store a force-stopped run ends within milliseconds
	termDeadline := 5 * time.Second
	if heldCommits(c.Sched) {
		termDeadline = 15 * time.Second
	}
	o.Terminated = stopx.WaitCh(waitDone, termDeadline)
	if stopped && o.Terminated {
		// a graceful StopAndWait that was under way must come back as well
		if !stopx.WaitCh(stopDone, 12*time.Second) {
			o.Hung = "stopwait-under-force"
		}
	}
	if allDone != nil && o.Terminated {
		if !stopx.WaitCh(allDone, 12*time.Second) {
			o.Hung = "stopall-under-force"
		}
	}
	if !o.Terminated {
		o.Note = "run did not end after the force stop"
		w.Log(stopx.Ev{K: "noterm"})
		w.Release()
		stopx.WaitCh(waitDone, 5*time.Second)
		return
	}
	w.Log(stopx.Ev{K: "term"})
	// any automatic restart would happen within the recovery back-off (1..5 ms)
	time.Sleep(25 * time.Millisecond)
	w.Log(stopx.Ev{K: "watched", X: sys.Status()})
	if c.SameProc {
		// no process restart: the next start goes through the services - and the connector instances -
		// of the run that was force-stopped. The persister writes out what it still holds first (as it
		// does on its own within its debounce delay), so that the resume position is the durable one.
		w.Release()
		sys.Persister.Flush(context.Background())
		sys.Persister.WaitPendingWrites()
		w.Log(stopx.Ev{K: "sameproc"})
	} else {
		// a process restart: fresh services on the same store; Init must not bring the pipeline back
		if err := sys.Reboot(); err != nil {
			o.Note = "reboot: " + err.Error()
		}
		w.Release()
	}
	w.Settle(300*time.Microsecond, 20*time.Millisecond)

	// next run
	w.Log(stopx.Ev{K: "restart", Snap: sys.StoredPositions()})
	_, d := sys.Call("start")
	if !stopx.WaitCh(d, 10*time.Second) {
		o.Hung = "restart"
		return
	}
	for _, s := range sys.SrcIDs {
		w.Emit(s, 1)
	}
	// wait until every source was opened again (v1 opens them asynchronously)
	w.WaitFor(5*time.Second, func(l []stopx.Ev) bool {
		seen := map[string]bool{}
		after := false
		for _, e := range l {
			if e.K == "restart" {
				after = true
			}
			if after && e.K == "open" {
				seen[e.C] = true
			}
		}
		for _, s := range sys.SrcIDs {
			if !seen[s] {
				return false
			}
		}
		return true
	})
	w.Settle(500*time.Microsecond, 30*time.Millisecond)
	_, sd := sys.Call("stopwait")
	if !stopx.WaitCh(sd, 25*time.Second) {
		o.Hung = "final-stopwait"
	}
}

func countCommits(l []stopx.Ev) int {
	n := 0
	for _, e := range l {
		if e.K == "commit" {
			n++
		}
	}
	return n
}

func heldCommits(sched []string) bool {
	held := false
	for _, st := range sched {
		switch strings.TrimSuffix(st, "!") {
		case "hold":
			held = true
		case "free":
			held = false
		}
	}
	return held
}

// ---------- Coq rendering ----------

type idmap struct {
	m map[string]int
}

func (im *idmap) of(id string) int {
	if v, ok := im.m[id]; ok {
		return v
	}
	v := len(im.m) + 1
	im.m[id] = v
	return v
}

func num(id string) int { // s3 -> 3, d2 -> 2, p1 -> 1, ps1 -> 101
	if strings.HasPrefix(id, "ps") {
		n, _ := strconv.Atoi(id[2:])
		return 100 + n
	}
	n, err := strconv.Atoi(id[1:])
	if err != nil {
		return 0
	}
	return n
}

func snapCoq(m map[string]int) string {
	ks := make([]string, 0, len(m))
	for k := range m {
		ks = append(ks, k)
	}
	sort.Strings(ks)
	items := make([]string, 0, len(ks))
	for _, k := range ks {
		items = append(items, hx.Pair(hx.Nat(num(k)), hx.Nat(m[k])))
	}
	return hx.List(items)
}

func evsCoq(evs []stopx.Ev) string {
	dlq := &idmap{m: map[string]int{}}
	var out []string
	for _, e := range evs {
		switch e.K {
		case "read":
			out = append(out, fmt.Sprintf("ERead %d %d", num(e.C), e.N))
		case "unread":
			out = append(out, fmt.Sprintf("EUnread %d %d", num(e.C), e.N))
		case "dwrite":
			out = append(out, fmt.Sprintf("EDWrite %d %d %d", num(e.C), num(e.S), e.N))
		case "dconf":
			out = append(out, fmt.Sprintf("EDConf %d %d %d %s", num(e.C), num(e.S), e.N, hx.Bool(e.X == "ok")))
		case "dunconf":
			out = append(out, fmt.Sprintf("EDUnconf %d %d %d", num(e.C), num(e.S), e.N))
		case "qwrite":
			out = append(out, fmt.Sprintf("EQWrite %d %d %d", dlq.of(e.C), num(e.S), e.N))
		case "qconf":
			out = append(out, fmt.Sprintf("EQConf %d %d %d %s", dlq.of(e.C), num(e.S), e.N, hx.Bool(e.X == "ok")))
		case "qunconf":
			out = append(out, fmt.Sprintf("EQUnconf %d %d %d", dlq.of(e.C), num(e.S), e.N))
		case "pack":
			out = append(out, fmt.Sprintf("EPack %d %d", num(e.C), e.N))
		case "commit":
			out = append(out, "ECommit "+snapCoq(e.Snap))
		case "open", "td":
			var c string
			switch {
			case stopx.IsDLQ(e.C):
				c = fmt.Sprintf("CDlq %d", dlq.of(e.C))
			case strings.HasPrefix(e.C, "s"):
				c = fmt.Sprintf("CSrc %d", num(e.C))
			default:
				c = fmt.Sprintf("CDst %d", num(e.C))
			}
			if e.K == "open" {
				out = append(out, fmt.Sprintf("EOpen (%s) %d", c, e.N))
			} else {
				out = append(out, fmt.Sprintf("ETd (%s)", c))
			}
		case "popen":
			out = append(out, fmt.Sprintf("EOpen (CProc %d %d) 0", num(e.C), e.N))
		case "ptd":
			out = append(out, fmt.Sprintf("ETd (CProc %d %d)", num(e.C), e.N))
		case "call":
			out = append(out, fmt.Sprintf("ECall %s %d", callCoq(e.X), e.N))
		case "ret":
			out = append(out, fmt.Sprintf("ERet %s %s %d %s", callCoq(e.X), clsCoq(e.A), e.N, snapCoq(e.Snap)))
		case "status":
			out = append(out, fmt.Sprintf("EStatus %s %s", stCoq(e.X), hx.Bool(e.A == "force")))
		case "release":
			out = append(out, "ERelease")
		case "slow":
			out = append(out, "ESlow")
		case "term":
			out = append(out, "ETerm")
		case "noterm":
			out = append(out, "ENoTerm")
		case "watched":
			out = append(out, "EWatched "+stCoq(e.X))
		case "boot":
			out = append(out, "EBoot")
		case "booted":
			out = append(out, "EBooted "+stCoq(e.X))
		case "restart":
			out = append(out, "ERestart "+snapCoq(e.Snap))
		case "panic":
			out = append(out, "EPanic")
		case "sameproc":
			out = append(out, "ESameProc")
		}
	}
	return hx.List(out)
}

func callCoq(x string) string {
	switch x {
	case "start":
		return "KStart"
	case "stopwait":
		return "KStopWait"
	case "force", "stopallforce":
		return "KForce"
	case "wait":
		return "KWait"
	case "shutdown":
		return "KShutdown"
	}
	return "KStop"
}

func clsCoq(a string) string {
	switch a {
	case "nil":
		return "RNil"
	case "notrunning":
		return "RNotRunning"
	case "force":
		return "RForce"
	case "timeout":
		return "RTimeout"
	}
	return "RError"
}

func stCoq(x string) string {
	switch x {
	case "Running":
		return "StRunning"
	case "UserStopped":
		return "StUserStopped"
	case "SystemStopped":
		return "StSystemStopped"
	case "Degraded":
		return "StDegraded"
	case "Recovering":
		return "StRecovering"
	}
	return "StOther"
}

func emit(w *hx.Writer, c caseIn) {
	o := play(c)
	prop := "PC06"
	if c.Prop == "c12" {
		prop = "PC12"
	}
	term := fmt.Sprintf("SCase %s %s %d %d %s %s %s %s", prop, hx.Bool(c.Topo.Engine == "v1"), c.Topo.Sources, c.Topo.Dests,
		hx.Bool(c.Slow), hx.Bool(o.Healthy), hx.Bool(o.Hung != ""), evsCoq(o.Evs))
	w.Add(map[string]any{"input": c, "observed": o}, term)
}

// ---------- generation ----------

var topos = []stopx.Topo{
	{Sources: 1, Dests: 1},
	{Sources: 1, Dests: 2},
	{Sources: 1, Dests: 1, Procs: 1},
	{Sources: 2, Dests: 1},
	{Sources: 1, Dests: 3},
	{Sources: 2, Dests: 2, Procs: 1},
	{Sources: 1, Dests: 1, Procs: 2, SrcProc: true},
	{Sources: 1, Dests: 2, Procs: 1, Workers: 3},
	{Sources: 3, Dests: 1},
	{Sources: 1, Dests: 1, SrcProc: true},
}

// genBase makes an environment schedule without the stop.
func genBase(r *hx.Rand, t stopx.Topo, n int, storeGate bool) []string {
	sched := []string{"start"}
	if r.Chance(1, 6) {
		sched[0] = "start!"
	}
	srcs := make([]string, t.Sources)
	for i := range srcs {
		srcs[i] = fmt.Sprintf("s%d", i+1)
	}
	dsts := make([]string, t.Dests)
	for i := range dsts {
		dsts[i] = fmt.Sprintf("d%d", i+1)
	}
	for i := 0; i < n; i++ {
		x := r.Intn(100)
		var st string
		switch {
		case x < 35:
			st = fmt.Sprintf("e:%s:%d", srcs[r.Intn(len(srcs))], r.Range(1, 3))
		case x < 70:
			st = fmt.Sprintf("ok:%s:%d", dsts[r.Intn(len(dsts))], r.Range(1, 3))
		case x < 78:
			// a record refused by one destination and accepted by another stops a v1 pipeline with an
			// error ("message was nacked by another node"): not a healthy run, so refusals are
			// generated for single-destination pipelines only
			if len(dsts) == 1 {
				st = fmt.Sprintf("nk:%s:1", dsts[0])
			} else {
				st = fmt.Sprintf("ok:%s:1", dsts[r.Intn(len(dsts))])
			}
		case x < 88:
			st = fmt.Sprintf("ok:dlq:%d", r.Range(1, 2))
		case x < 92 && storeGate:
			st = "hold"
		case x < 97 && storeGate:
			st = "free"
		default:
			st = "w"
		}
		if r.Chance(1, 5) && st != "w" {
			st += "!"
		}
		sched = append(sched, st)
	}
	return sched
}

// directed: the plugin parks the consumption of ack k while it is in flight; record k+1 is handled and
// acked by the engine; the stop arrives; only then the plugin consumes ack k. The final ack (k+1) is
// enqueued by Teardown's forced flush while the delivery goroutine is still busy with ack k.
func directedAckInFlight(t stopx.Topo, k int, stop string) []string {
	oks := func(n int) []string {
		var out []string
		for d := 1; d <= t.Dests; d++ {
			out = append(out, fmt.Sprintf("ok:d%d:%d", d, n))
		}
		return out
	}
	sched := []string{"start"}
	if k > 1 {
		sched = append(sched, fmt.Sprintf("e:s1:%d", k-1))
		sched = append(sched, oks(k-1)...)
		sched = append(sched, "z:70") // flushed and delivered
	}
	// the plugin's pending receive still takes one ack after the gate closed; the one after that stays in flight
	sched = append(sched, "ah:s1", "e:s1:1")
	sched = append(sched, oks(1)...)
	sched = append(sched, "z:70", "e:s1:1")
	sched = append(sched, oks(1)...)
	sched = append(sched, "z:70", "e:s1:1") // ack k is durable and in flight to the parked plugin
	sched = append(sched, oks(1)...)
	sched = append(sched, "w", stop+"!", "wc", "z:10", "ar:s1")
	return sched
}

// directedStopInFlight: every source handed out k records, every destination confirmed the first j of
// what it got, the rest is in flight at destinations that do not answer; then the graceful stop arrives
// (stop = "stop": by the user, reason nil; "shutdown": by the engine, with the shutdown reason) and
// only afterwards the destinations answer. Nothing the stop does may depend on its reason.
func directedStopInFlight(t stopx.Topo, k, j int, stop string) []string {
	sched := []string{"start"}
	for s := 1; s <= t.Sources; s++ {
		sched = append(sched, fmt.Sprintf("e:s%d:%d", s, k))
	}
	if j > 0 {
		for d := 1; d <= t.Dests; d++ {
			sched = append(sched, fmt.Sprintf("ok:d%d:%d", d, j))
		}
	}
	return append(sched, "w", stop+"!", "w")
}

// directedBatchedAcks: the destinations batch their acks (Topo.AckBatch = k): the verdicts are there before
// the records, the source hands out k records at once, so the response [ack 1..k] is produced the moment
// record k is written - while the engine's Write call of record k has not returned yet - and is consumed
// when fewer than k messages have reached the acker; rounds of it, then the graceful stop.
func directedBatchedAcks(t stopx.Topo, rounds int, stop string) []string {
	sched := []string{"start"}
	for i := 0; i < rounds; i++ {
		for d := 1; d <= t.Dests; d++ {
			sched = append(sched, fmt.Sprintf("ok:d%d:%d!", d, t.AckBatch))
		}
		sched = append(sched, fmt.Sprintf("e:s1:%d", t.AckBatch), "w")
	}
	return append(sched, stop+"!", "w")
}

// directedForceRestart (c12): records in flight at destinations that do not answer, force stop, and -
// by the harness's epilogue - the next start; strict = the plugins honour the (cancelled) context of
// the Stop / Teardown calls that end the run, same = the next start happens in the same process.
func directedForceRestart(e string, t stopx.Topo, strict, same bool, k, j int) caseIn {
	t.Engine = e
	t.StrictCtx = strict
	sched := []string{"start", fmt.Sprintf("e:s1:%d", k)}
	if j > 0 {
		for d := 1; d <= t.Dests; d++ {
			sched = append(sched, fmt.Sprintf("ok:d%d:%d", d, j))
		}
	}
	return caseIn{Prop: "c12", Topo: t, SameProc: same, Sched: append(sched, "w", "force")}
}

// directedShutdown: records are in flight at destinations that do not answer; the engine is shut
// down gracefully (StopAll) and cannot drain; then the pipeline is force-stopped. direct = the
// forced shutdown call instead.
func directedShutdown(n int, direct bool) []string {
	sched := []string{"start", fmt.Sprintf("e:s1:%d", n), "w"}
	if direct {
		return append(sched, "stopallforce")
	}
	return append(sched, "stopall!", "w", "force")
}

// directedTimedOutStop (v2): a batch is parked in destinations that do not answer; a first graceful
// stop gives up on its deadline and must leave the pipeline untouched; a second graceful stop arrives
// while the same batch is still in flight; only then the destinations answer.
func directedTimedOutStop(k, ms int) []string {
	return []string{"start", fmt.Sprintf("e:s1:%d", k), "w", fmt.Sprintf("stopd:%d", ms), "stop!", "w"}
}

var timedOutTopos = []stopx.Topo{
	{Engine: "v2", Sources: 1, Dests: 1},
	{Engine: "v2", Sources: 1, Dests: 2},
	{Engine: "v2", Sources: 1, Dests: 1, Procs: 1},
}

var directedTopos = []stopx.Topo{
	{Sources: 1, Dests: 1},
	{Sources: 1, Dests: 2},
	{Sources: 1, Dests: 1, Procs: 1},
	{Sources: 2, Dests: 1},
}

func withStopAt(base []string, i int, what string) []string {
	if i < 1 {
		i = 1
	}
	if i > len(base) {
		i = len(base)
	}
	out := append([]string{}, base[:i]...)
	out = append(out, what)
	out = append(out, base[i:]...)
	return out
}

// emitCorpus: hand-written shapes, run by shard 0 of every tier.
func emitCorpus(w *hx.Writer, o hx.Opts, prop string) {
	if o.Shard == 0 && prop == "c06" {
		for _, e := range []string{"v1", "v2"} {
			for k := 1; k <= 3; k++ {
				t := directedTopos[(k-1)%len(directedTopos)]
				t.Engine = e
				emit(w, caseIn{Prop: prop, Topo: t, Sched: directedAckInFlight(t, k, []string{"stop", "shutdown"}[k%2])})
			}
		}
		// destinations that cover several records with one ack response
		for _, e := range []string{"v1", "v2"} {
			for k, t := range directedTopos[:3] {
				t.Engine = e
				t.AckBatch = 2 + k%2
				emit(w, caseIn{Prop: prop, Topo: t, Sched: directedBatchedAcks(t, 1+k%2, "stop")})
			}
		}
		// the engine's shutdown (a stop with a reason) while records are in flight
		for _, e := range []string{"v1", "v2"} {
			for k, t := range directedTopos {
				t.Engine = e
				emit(w, caseIn{Prop: prop, Topo: t, Sched: directedStopInFlight(t, 2+k%2, k%2, "shutdown")})
			}
		}
	}
	if o.Shard == 0 && prop == "c06" {
		for k, t := range timedOutTopos {
			emit(w, caseIn{Prop: prop, Topo: t, Sched: directedTimedOutStop(k+1, 30)})
		}
	}
	if o.Shard == 0 && prop == "c06" && !strings.Contains(o.Mode, "noslow") {
		// the store stalls for longer than the source teardown budget: both engines, once
		for _, e := range []string{"v1", "v2"} {
			emit(w, caseIn{Prop: prop, Topo: stopx.Topo{Engine: e, Sources: 1, Dests: 1}, Slow: true,
				Sched: []string{"start", "e:s1:2", "ok:d1:2", "w"}})
		}
	}
	if o.Shard == 0 && prop == "c12" {
		// hand-written shapes: force stop while a graceful stop is on its way into a slow source plugin,
		// force stop with a multi-worker processor and many messages in flight, force stop before
		// start-up completed, force stop with every destination blocked
		for _, c := range []caseIn{
			{Topo: stopx.Topo{Engine: "v1", Sources: 1, Dests: 1}, Sched: []string{"start", "e:s1:2", "w", "slow:s1:30000", "stop!", "w", "force!"}},
			{Topo: stopx.Topo{Engine: "v2", Sources: 1, Dests: 1}, Sched: []string{"start", "e:s1:2", "w", "slow:s1:30000", "stop!", "w", "force!"}},
			{Topo: stopx.Topo{Engine: "v1", Sources: 1, Dests: 2, Procs: 1, Workers: 3}, Sched: []string{"start", "e:s1:3", "e:s1:3", "e:s1:3", "e:s1:3", "w", "force"}},
			{Topo: stopx.Topo{Engine: "v2", Sources: 1, Dests: 2, Procs: 1, Workers: 3}, Sched: []string{"start", "e:s1:3", "e:s1:3", "e:s1:3", "e:s1:3", "w", "force"}},
			{Topo: stopx.Topo{Engine: "v1", Sources: 2, Dests: 2}, Sched: []string{"start!", "force!"}},
			{Topo: stopx.Topo{Engine: "v2", Sources: 2, Dests: 2}, Sched: []string{"start!", "force!"}},
			{Topo: stopx.Topo{Engine: "v1", Sources: 1, Dests: 1}, Sched: []string{"start", "e:s1:3", "nk:d1:1", "w", "force"}},
			{Topo: stopx.Topo{Engine: "v2", Sources: 1, Dests: 1}, Sched: []string{"start", "e:s1:3", "nk:d1:1", "w", "force"}},
		} {
			c.Prop = prop
			emit(w, c)
		}
		// plugins that honour the cancelled context of the calls that end a force-stopped run; the next
		// start in the same process / after a process restart
		for _, e := range []string{"v1", "v2"} {
			emit(w, directedForceRestart(e, stopx.Topo{Sources: 1, Dests: 1}, true, true, 2, 1))
			emit(w, directedForceRestart(e, stopx.Topo{Sources: 1, Dests: 2, Procs: 1}, true, true, 3, 0))
			emit(w, directedForceRestart(e, stopx.Topo{Sources: 1, Dests: 1}, false, true, 2, 0))
			emit(w, directedForceRestart(e, stopx.Topo{Sources: 2, Dests: 1}, true, false, 2, 1))
		}
	}
}

func main() {
	o := hx.ParseFlags()
	prop := "c06"
	if strings.HasPrefix(o.Mode, "c12") {
		prop = "c12"
	}
	w, err := hx.NewWriter(o, "From Verif Require Import Base.CaseCheck Stop.Events Stop.Check.", "scase")
	if err != nil {
		fmt.Fprintln(os.Stderr, err)
		os.Exit(2)
	}
	what := "stop"
	if prop == "c12" {
		what = "force"
	}
	switch {
	case o.Replay != "":
		hangWait = 10 * time.Second
		cs, err := hx.ReadJSONL(o.Replay)
		if err != nil {
			fmt.Fprintln(os.Stderr, err)
			os.Exit(2)
		}
		for _, m := range cs {
			hx.Try(func() { emit(w, caseFromJSON(m, prop)) })
		}
	case strings.HasSuffix(o.Mode, "every"):
		// thorough: o.N schedules, the stop at EVERY position of each
		root := hx.NewRand(o.Seed)
		emitCorpus(w, o, prop)
		for i := 0; i < o.N; i++ {
			r := root.Fork(uint64(o.Shard)<<32 | uint64(i))
			t := topos[r.Intn(len(topos))]
			t.Engine = []string{"v1", "v2"}[r.Intn(2)]
			base := genBase(r, t, r.Range(4, 14), prop == "c06")
			if prop == "c12" && r.Chance(1, 3) {
				// a graceful stop is on its way at some point of the schedule; the force stop comes before,
				// right after or later
				q := r.Range(1, len(base))
				base = withStopAt(base, q, "stop!")
				if r.Chance(1, 2) {
					base = withStopAt(base, q, fmt.Sprintf("slow:s1:%d", r.Range(2000, 30000)))
				}
			}
			// an independent stream for the choices added later (keeps the schedules above as they were)
			r2 := root.Fork(0xC0612<<40 | uint64(o.Shard)<<32 | uint64(i))
			if prop == "c12" {
				t.StrictCtx = r2.Bool()
			}
			if r3 := root.Fork(0xBA7C<<40 | uint64(o.Shard)<<32 | uint64(i)); prop == "c06" && r3.Chance(1, 4) {
				t.AckBatch = r3.Range(2, 3)
			}
			for p := 1; p <= len(base); p++ {
				st := what
				if prop == "c06" && r2.Chance(1, 3) {
					st = "shutdown"
				}
				if r.Chance(1, 4) {
					st += "!"
				}
				emit(w, caseIn{Prop: prop, Topo: t, SameProc: prop == "c12" && r2.Bool(), Sched: withStopAt(base, p, st)})
			}
		}
	default:
		root := hx.NewRand(o.Seed)
		emitCorpus(w, o, prop)
		for i := 0; i < o.N; i++ {
			r := root.Fork(uint64(o.Shard)<<32 | uint64(i))
			// quick: topologies x engines are cycled, ~12 stop instants each are spread over the shards
			ti := (o.Shard*o.N + i)
			t := topos[ti%len(topos)]
			t.Engine = []string{"v1", "v2"}[(ti/len(topos))%2]
			if prop == "c06" && i%8 == 7 && t.Engine == "v2" {
				emit(w, caseIn{Prop: prop, Topo: timedOutTopos[r.Intn(len(timedOutTopos))],
					Sched: directedTimedOutStop(r.Range(1, 3), r.Range(10, 40))})
				continue
			}
			// an independent stream for the choices added later (keeps the schedules above as they were)
			r2 := root.Fork(0xC0612<<40 | uint64(o.Shard)<<32 | uint64(i))
			stopKind := what
			if prop == "c06" && r2.Chance(1, 3) {
				// the graceful stop is the engine's shutdown (a stop with a reason) instead of the user's
				stopKind = "shutdown"
			}
			sameProc := false
			if prop == "c12" {
				t.StrictCtx = r2.Bool()
				sameProc = r2.Bool()
			}
			// batching destinations: a further independent stream
			r3 := root.Fork(0xBA7C<<40 | uint64(o.Shard)<<32 | uint64(i))
			if prop == "c06" && i%8 == 5 {
				dt := directedTopos[r3.Intn(3)]
				dt.Engine = t.Engine
				dt.AckBatch = r3.Range(2, 3)
				// an extra case: the slot's own case follows unchanged
				emit(w, caseIn{Prop: prop, Topo: dt, Sched: directedBatchedAcks(dt, r3.Range(1, 3), stopKind)})
			}
			if prop == "c06" && r3.Chance(1, 4) {
				t.AckBatch = r3.Range(2, 3)
			}
			if prop == "c06" && i%4 == 3 {
				dt := directedTopos[r.Intn(len(directedTopos))]
				dt.Engine = t.Engine
				emit(w, caseIn{Prop: prop, Topo: dt, Sched: directedAckInFlight(dt, r.Range(1, 4), stopKind)})
				continue
			}
			if prop == "c06" && i%8 == 2 {
				dt := directedTopos[r2.Intn(len(directedTopos))]
				dt.Engine = t.Engine
				k := r2.Range(1, 4)
				emit(w, caseIn{Prop: prop, Topo: dt, Sched: directedStopInFlight(dt, k, r2.Intn(k+1), stopKind)})
				continue
			}
			base := genBase(r, t, r.Range(3, 16), prop == "c06")
			p := r.Range(1, len(base))
			st := stopKind
			if r.Chance(1, 3) {
				st += "!"
			}
			sched := withStopAt(base, p, st)
			if prop == "c12" && i%5 == 4 {
				dt := directedTopos[r.Intn(len(directedTopos))]
				dt.Engine = t.Engine
				dt.StrictCtx = t.StrictCtx
				emit(w, caseIn{Prop: prop, Topo: dt, SameProc: sameProc, Sched: directedShutdown(r.Range(1, 3), r.Bool())})
				continue
			}
			if prop == "c12" && r.Chance(1, 4) {
				// force stop during a graceful stop
				q := r.Range(1, p)
				sched = withStopAt(sched, q, "stop!")
				if r.Chance(1, 2) {
					sched = withStopAt(sched, q, fmt.Sprintf("slow:s1:%d", r.Range(2000, 30000)))
				}
			}
			emit(w, caseIn{Prop: prop, Topo: t, SameProc: sameProc, Sched: sched})
		}
	}
	if err := w.Close("chk"); err != nil {
		fmt.Fprintln(os.Stderr, err)
		os.Exit(2)
	}
	fmt.Printf("cases=%d\n", w.Count())
}

func caseFromJSON(m map[string]any, prop string) caseIn {
	in, ok := m["input"].(map[string]any)
	if !ok {
		in = m
	}
	c := caseIn{Prop: prop}
	if p, ok := in["prop"].(string); ok && p != "" {
		c.Prop = p
	}
	tm := in["topo"].(map[string]any)
	geti := func(k string) int {
		if f, ok := tm[k].(float64); ok {
			return int(f)
		}
		return 0
	}
	c.Topo = stopx.Topo{Engine: tm["engine"].(string), Sources: geti("sources"), Dests: geti("dests"), Procs: geti("procs"),
		Workers: geti("workers"), DLQSize: geti("dlq_size"), DLQThr: geti("dlq_thr")}
	if b, ok := tm["src_proc"].(bool); ok {
		c.Topo.SrcProc = b
	}
	if b, ok := tm["strict_ctx"].(bool); ok {
		c.Topo.StrictCtx = b
	}
	c.Topo.AckBatch = geti("ack_batch")
	if b, ok := in["same_proc"].(bool); ok {
		c.SameProc = b
	}
	if c.Topo.Sources < 1 || c.Topo.Dests < 1 {
		panic("ill-formed topology")
	}
	for _, x := range in["sched"].([]any) {
		c.Sched = append(c.Sched, x.(string))
	}
	if b, ok := in["slow"].(bool); ok {
		c.Slow = b
	}
	return c
}
