// Harness for C02 (source position durable before the plugin is told; only moves forward).
// All code is shared with C03: see harness/lib/connx.
package main

import "verifharness/lib/connx"

func main() { connx.Main("C02") }
