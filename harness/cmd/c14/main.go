// Harness for C14 (API changes are all-or-nothing): drives the REAL
// orchestrator.Orchestrator over the real pipeline/connector/processor services
// on a fault-injecting wrapper of the in-memory DB, with scripted fake plugin
// services. After every call it records the outcome class, the in-memory view
// (List of all three services + the pipeline name set) and the reloaded view
// (a fresh set of services Init'ed on the same DB).
//
// Canonicalisation: every string is mapped to a small natural (see
// coq/Api/Entities.v); ids the harness cannot choose (uuid.NewString inside the
// orchestrator) are numbered per create call; CreatedAt becomes the index of
// the call during which it was read (bracketed by wall-clock readings);
// UpdatedAt and error texts are never compared.
package main

import (
	"context"
	"encoding/json"
	"errors"
	"fmt"
	"os"
	"reflect"
	"sort"
	"strconv"
	"strings"
	"time"

	"github.com/conduitio/conduit-commons/database"
	"github.com/conduitio/conduit-commons/database/inmemory"
	"github.com/conduitio/conduit-commons/opencdc"
	"github.com/conduitio/conduit-connector-protocol/pconnector"
	sdk "github.com/conduitio/conduit-processor-sdk"
	"github.com/conduitio/conduit/pkg/connector"
	"github.com/conduitio/conduit/pkg/foundation/log"
	"github.com/conduitio/conduit/pkg/orchestrator"
	"github.com/conduitio/conduit/pkg/pipeline"
	connectorPlugin "github.com/conduitio/conduit/pkg/plugin/connector"
	"github.com/conduitio/conduit/pkg/plugin/processor/egress"
	"github.com/conduitio/conduit/pkg/processor"

	"verifharness/lib/hx"
)

// ---------- fault-injecting DB ----------

var errInjected = errors.New("injected store failure")

type faultDB struct {
	inner *inmemory.DB
	// transactions that were discarded or committed: like Badger, SQLite and Postgres (and unlike the in-memory
	// DB, whose Discard is a no-op) they refuse every further operation
	closed map[database.Transaction]bool
	armed  bool
	ctr    int
	failAt int
	kinds  []string
}

func (d *faultDB) tick(kind string) error {
	if !d.armed {
		return nil
	}
	i := d.ctr
	d.ctr++
	d.kinds = append(d.kinds, kind)
	if i == d.failAt {
		return errInjected
	}
	return nil
}

func (d *faultDB) arm(failAt int) { d.armed, d.ctr, d.failAt, d.kinds = true, 0, failAt, nil }
func (d *faultDB) disarm()        { d.armed = false }

type faultTxn struct {
	inner database.Transaction
	db    *faultDB
}

var errTxnClosed = errors.New("this transaction has been discarded")

func (d *faultDB) closeTxn(t database.Transaction) {
	if d.closed == nil {
		d.closed = map[database.Transaction]bool{}
	}
	d.closed[t] = true
}

// txnClosed reports whether ctx carries a transaction that was already discarded or committed
func (d *faultDB) txnClosed(ctx context.Context) bool {
	t := database.TransactionFromContext(ctx)
	return t != nil && d.closed[t]
}

func (t *faultTxn) Commit() error {
	if t.db.closed[t.inner] {
		return errTxnClosed
	}
	if err := t.db.tick("Commit"); err != nil {
		return err
	}
	err := t.inner.Commit()
	if err == nil {
		t.db.closeTxn(t.inner)
	}
	return err
}
func (t *faultTxn) Discard() {
	t.inner.Discard()
	t.db.closeTxn(t.inner)
}

func (d *faultDB) NewTransaction(ctx context.Context, update bool) (database.Transaction, context.Context, error) {
	if err := d.tick("NewTransaction"); err != nil {
		return nil, ctx, err
	}
	t, c, err := d.inner.NewTransaction(ctx, update)
	if err != nil {
		return nil, ctx, err
	}
	return &faultTxn{inner: t, db: d}, c, nil
}
func (d *faultDB) Close() error               { return nil }
func (d *faultDB) Ping(context.Context) error { return nil }
func (d *faultDB) Set(ctx context.Context, key string, value []byte) error {
	if d.txnClosed(ctx) {
		return errTxnClosed
	}
	if err := d.tick("Set"); err != nil {
		return err
	}
	return d.inner.Set(ctx, key, value)
}
func (d *faultDB) Get(ctx context.Context, key string) ([]byte, error) {
	if d.txnClosed(ctx) {
		return nil, errTxnClosed
	}
	if err := d.tick("Get"); err != nil {
		return nil, err
	}
	return d.inner.Get(ctx, key)
}
func (d *faultDB) GetKeys(ctx context.Context, prefix string) ([]string, error) {
	if d.txnClosed(ctx) {
		return nil, errTxnClosed
	}
	if err := d.tick("GetKeys"); err != nil {
		return nil, err
	}
	return d.inner.GetKeys(ctx, prefix)
}

// ---------- fake plugin services ----------

type fakeConnPlugins struct{}

func (fakeConnPlugins) List(context.Context) (map[string]pconnector.Specification, error) {
	return nil, nil
}
func (fakeConnPlugins) NewDispenser(log.CtxLogger, string, string) (connectorPlugin.Dispenser, error) {
	return nil, errors.New("harness: no dispenser")
}
func scriptedValidate(name string, settings map[string]string) error {
	if name == "plugin-5" || settings["k"] == "v7" {
		return errors.New("harness: config refused by the plugin")
	}
	return nil
}
func (fakeConnPlugins) ValidateSourceConfig(_ context.Context, name string, s map[string]string) error {
	return scriptedValidate(name, s)
}
func (fakeConnPlugins) ValidateDestinationConfig(_ context.Context, name string, s map[string]string) error {
	return scriptedValidate(name, s)
}

type fakeProcPlugins struct{}

func (fakeProcPlugins) List(context.Context) (map[string]sdk.Specification, error) { return nil, nil }
func (fakeProcPlugins) RegisterStandalonePlugin(context.Context, string) (string, error) {
	return "", errors.New("harness: not supported")
}

type stubProc struct{ sdk.UnimplementedProcessor }

func (stubProc) Teardown(context.Context) error { return nil }

type fakeRegistry struct{}

func (fakeRegistry) NewProcessor(_ context.Context, name string, _ string, _ egress.Policy) (sdk.Processor, error) {
	if name == "" || name == "plugin-5" {
		return nil, errors.New("harness: unknown processor plugin")
	}
	return &stubProc{}, nil
}

type fakeLifecycle struct{}

func (fakeLifecycle) Start(context.Context, string) error      { return nil }
func (fakeLifecycle) Stop(context.Context, string, bool) error { return nil }

// ---------- string <-> natural ----------

const unknown = 4040

func nameStr(n int) string {
	switch {
	case n == 0:
		return ""
	case n < 1000:
		return fmt.Sprintf("n%d", n)
	default:
		return strings.Repeat("L", 300) + strconv.Itoa(n)
	}
}
func descStr(n int) string {
	switch {
	case n == 0:
		return ""
	case n < 1000:
		return fmt.Sprintf("n%d", n)
	default:
		return strings.Repeat("L", 8200) + strconv.Itoa(n)
	}
}
func nameNat(s string) int {
	if s == "" {
		return 0
	}
	t := strings.TrimLeft(s, "L")
	if t != s {
		if n, err := strconv.Atoi(t); err == nil {
			return n
		}
		return unknown
	}
	if strings.HasPrefix(s, "n") {
		if n, err := strconv.Atoi(s[1:]); err == nil {
			return n
		}
	}
	return unknown
}
func pluginStr(n int) string {
	switch n {
	case 0:
		return ""
	case 9:
		return pipeline.DefaultDLQ.Plugin
	}
	return fmt.Sprintf("plugin-%d", n)
}
func pluginNat(s string) int {
	if s == "" {
		return 0
	}
	if s == pipeline.DefaultDLQ.Plugin {
		return 9
	}
	if strings.HasPrefix(s, "plugin-") {
		if n, err := strconv.Atoi(s[len("plugin-"):]); err == nil {
			return n
		}
	}
	return unknown
}
func settingsMap(n int) map[string]string {
	switch n {
	case 0:
		return nil
	case 9:
		m := map[string]string{}
		for k, v := range pipeline.DefaultDLQ.Settings {
			m[k] = v
		}
		return m
	}
	return map[string]string{"k": fmt.Sprintf("v%d", n)}
}
func settingsNat(m map[string]string) int {
	if len(m) == 0 {
		return 0
	}
	if len(m) == len(pipeline.DefaultDLQ.Settings) {
		same := true
		for k, v := range pipeline.DefaultDLQ.Settings {
			if m[k] != v {
				same = false
			}
		}
		if same {
			return 9
		}
	}
	if len(m) == 1 && strings.HasPrefix(m["k"], "v") {
		if n, err := strconv.Atoi(m["k"][1:]); err == nil {
			return n
		}
	}
	return unknown
}
func condStr(n int) string {
	if n == 0 {
		return ""
	}
	return fmt.Sprintf(`{{ eq "c" "c%d" }}`, n)
}
func condNat(s string) int {
	if s == "" {
		return 0
	}
	var n int
	if _, err := fmt.Sscanf(s, `{{ eq "c" "c%d" }}`, &n); err == nil {
		return n
	}
	return unknown
}
func stateVal(t, n int) any {
	if n == 0 {
		return nil
	}
	pos := opencdc.Position(fmt.Sprintf("pos-%d", n))
	if t == 2 {
		return connector.DestinationState{Positions: map[string]opencdc.Position{"s": pos}}
	}
	return connector.SourceState{Position: pos}
}
func posNat(p opencdc.Position) int {
	s := string(p)
	if strings.HasPrefix(s, "pos-") {
		if n, err := strconv.Atoi(s[4:]); err == nil {
			return n
		}
	}
	return unknown
}
func stateNat(v any) int {
	switch s := v.(type) {
	case nil:
		return 0
	case connector.SourceState:
		return posNat(s.Position)
	case connector.DestinationState:
		if len(s.Positions) == 1 {
			return posNat(s.Positions["s"])
		}
	}
	return unknown
}

// ---------- case data ----------

type plI struct {
	ID     int `json:"id"`
	Name   int `json:"name"`
	Desc   int `json:"desc"`
	Status int `json:"status"` // pipeline.Status 1..5
	Prov   int `json:"prov"`   // 0 api, 1 config
}
type cnI struct {
	ID       int `json:"id"`
	Type     int `json:"type"`
	Name     int `json:"name"`
	Settings int `json:"settings"`
	Pipeline int `json:"pipeline"`
	Plugin   int `json:"plugin"`
	State    int `json:"state"`
}
type prI struct {
	ID       int  `json:"id"`
	Plugin   int  `json:"plugin"`
	Cond     int  `json:"cond"`
	PType    int  `json:"ptype"`
	Parent   int  `json:"parent"`
	Settings int  `json:"settings"`
	Workers  int  `json:"workers"`
	Running  bool `json:"running"`
}
type initI struct {
	Pipelines  []plI `json:"pipelines"`
	Connectors []cnI `json:"connectors"`
	Processors []prI `json:"processors"`
	Next       int   `json:"next"`
}
type opI struct {
	K        string `json:"k"`
	ID       int    `json:"id"` // target, or pipeline / parent of a create
	Name     int    `json:"name"`
	Desc     int    `json:"desc"`
	Plugin   int    `json:"plugin"`
	Settings int    `json:"settings"`
	T        int    `json:"t"` // connector type / processor parent type
	W        int    `json:"w"` // workers
	Cond     int    `json:"cond"`
	Size     int    `json:"size"`
	Thr      int    `json:"thr"`
	F        int    `json:"f"` // index of the store operation that fails, -1 = none
}
type inputI struct {
	Init initI `json:"init"`
	Ops  []opI `json:"ops"`
}

type plV struct {
	ID      int    `json:"id"`
	Name    int    `json:"name"`
	Desc    int    `json:"desc"`
	Status  int    `json:"status"`
	Prov    int    `json:"prov"`
	Dlq     [4]int `json:"dlq"`
	Conns   []int  `json:"conns"`
	Procs   []int  `json:"procs"`
	Created int    `json:"created"`
}
type cnV struct {
	ID       int   `json:"id"`
	Type     int   `json:"type"`
	Name     int   `json:"name"`
	Settings int   `json:"settings"`
	Pipeline int   `json:"pipeline"`
	Plugin   int   `json:"plugin"`
	Procs    []int `json:"procs"`
	State    int   `json:"state"`
	Prov     int   `json:"prov"`
	Created  int   `json:"created"`
}
type prV struct {
	ID       int `json:"id"`
	Plugin   int `json:"plugin"`
	Cond     int `json:"cond"`
	PType    int `json:"ptype"`
	Parent   int `json:"parent"`
	Settings int `json:"settings"`
	Workers  int `json:"workers"`
	Prov     int `json:"prov"`
	Created  int `json:"created"`
}
type viewV struct {
	Pl    []plV `json:"pl"`
	Cn    []cnV `json:"cn"`
	Pr    []prV `json:"pr"`
	Names []int `json:"names"`
}

// deltaV is the difference between two views of the same kind: instances that
// are new or changed, ids that disappeared, the name set if it changed.
type deltaV struct {
	Pl    []plV  `json:"pl,omitempty"`
	PlX   []int  `json:"pl_gone,omitempty"`
	Cn    []cnV  `json:"cn,omitempty"`
	CnX   []int  `json:"cn_gone,omitempty"`
	Pr    []prV  `json:"pr,omitempty"`
	PrX   []int  `json:"pr_gone,omitempty"`
	Names *[]int `json:"names,omitempty"`
}

// stepFull is what one call showed, with the full views.
type stepFull struct {
	Out      string
	Kinds    []string
	Mem, Rel viewV
}
type fullObs struct {
	Mem0, Rel0 viewV
	Steps      []stepFull
}

// the JSON / Coq form: every view as its difference from the previous view of
// the same kind (the first ones: from the intended initial state)
type obsV struct {
	Out   string   `json:"out"`
	Kinds []string `json:"store_ops,omitempty"` // the store operations the call made, in order
	Mem   deltaV   `json:"mem"`
	Rel   deltaV   `json:"rel"`
}
type observedV struct {
	Mem0  deltaV `json:"mem0"`
	Rel0  deltaV `json:"rel0"`
	Steps []obsV `json:"steps"`
}

func diffView(a, b viewV) deltaV {
	var d deltaV
	{
		old := map[int]plV{}
		for _, x := range a.Pl {
			old[x.ID] = x
		}
		now := map[int]bool{}
		for _, x := range b.Pl {
			now[x.ID] = true
			if y, ok := old[x.ID]; !ok || !reflect.DeepEqual(x, y) {
				d.Pl = append(d.Pl, x)
			}
		}
		for _, x := range a.Pl {
			if !now[x.ID] {
				d.PlX = append(d.PlX, x.ID)
			}
		}
	}
	{
		old := map[int]cnV{}
		for _, x := range a.Cn {
			old[x.ID] = x
		}
		now := map[int]bool{}
		for _, x := range b.Cn {
			now[x.ID] = true
			if y, ok := old[x.ID]; !ok || !reflect.DeepEqual(x, y) {
				d.Cn = append(d.Cn, x)
			}
		}
		for _, x := range a.Cn {
			if !now[x.ID] {
				d.CnX = append(d.CnX, x.ID)
			}
		}
	}
	{
		old := map[int]prV{}
		for _, x := range a.Pr {
			old[x.ID] = x
		}
		now := map[int]bool{}
		for _, x := range b.Pr {
			now[x.ID] = true
			if y, ok := old[x.ID]; !ok || !reflect.DeepEqual(x, y) {
				d.Pr = append(d.Pr, x)
			}
		}
		for _, x := range a.Pr {
			if !now[x.ID] {
				d.PrX = append(d.PrX, x.ID)
			}
		}
	}
	if !reflect.DeepEqual(a.Names, b.Names) && !(len(a.Names) == 0 && len(b.Names) == 0) {
		n := append([]int{}, b.Names...)
		d.Names = &n
	}
	return d
}

// ---------- the system under test ----------

type sut struct {
	ctx   context.Context
	db    *faultDB
	pls   *pipeline.Service
	cns   *connector.Service
	prs   *processor.Service
	orc   *orchestrator.Orchestrator
	ids   map[string]int // real id -> canonical id
	rev   map[int]string
	marks []int64 // marks[2i], marks[2i+1] = wall clock before / after call i (0 = setup)
	extra int     // canonical numbers for ids that appear without a create call
	fresh int     // canonical id of the current create call, -1 if none / used
}

func newSut() *sut {
	logger := log.Nop()
	db := &faultDB{inner: &inmemory.DB{}, failAt: -1}
	s := &sut{ctx: context.Background(), db: db, ids: map[string]int{}, rev: map[int]string{}, fresh: -1, extra: 3000}
	s.pls = pipeline.NewService(logger, db)
	s.cns = connector.NewService(logger, db, connector.NewPersister(logger, db, time.Second, 3))
	s.prs = processor.NewService(logger, db, fakeRegistry{})
	s.orc = orchestrator.NewOrchestrator(db, logger, s.pls, s.cns, s.prs, fakeConnPlugins{}, fakeProcPlugins{}, fakeLifecycle{})
	return s
}

func (s *sut) real(n int) string {
	if r, ok := s.rev[n]; ok {
		return r
	}
	return fmt.Sprintf("missing-%d", n)
}

func (s *sut) canon(real string) int {
	if n, ok := s.ids[real]; ok {
		return n
	}
	var n int
	if s.fresh >= 0 {
		n, s.fresh = s.fresh, -1
	} else {
		n = s.extra
		s.extra++
	}
	s.ids[real], s.rev[n] = n, real
	return n
}
func (s *sut) canons(l []string) []int {
	out := make([]int, len(l))
	for i, x := range l {
		out[i] = s.canon(x)
	}
	return out
}

func now() int64 {
	t := time.Now().UnixNano()
	for time.Now().UnixNano() == t { // make consecutive marks strictly ordered
	}
	return t
}

func (s *sut) stamp(t time.Time) int {
	u := t.UnixNano()
	for i := 0; i+1 < len(s.marks); i += 2 {
		if s.marks[i] <= u && u <= s.marks[i+1] {
			return i / 2
		}
	}
	return 4999
}

func must(err error) {
	if err != nil {
		panic(err)
	}
}

// setup builds the initial state through the services (not through the orchestrator).
func (s *sut) setup(in initI) {
	s.marks = append(s.marks, now())
	for n := 0; n < in.Next; n++ {
		r := fmt.Sprintf("e%d", n)
		s.ids[r], s.rev[n] = n, r
	}
	plOf := map[int]plI{}
	for _, p := range in.Pipelines {
		if p.ID < 0 || p.ID >= in.Next || p.Status < 1 || p.Status > 5 {
			panic("bad pipeline")
		}
		if _, dup := plOf[p.ID]; dup {
			panic("duplicate pipeline")
		}
		plOf[p.ID] = p
		_, err := s.pls.Create(s.ctx, s.real(p.ID), pipeline.Config{Name: nameStr(p.Name), Description: descStr(p.Desc)}, pipeline.ProvisionType(p.Prov))
		must(err)
	}
	cnOf := map[int]cnI{}
	for _, c := range in.Connectors {
		pl, ok := plOf[c.Pipeline]
		if !ok || c.ID < 0 || c.ID >= in.Next {
			panic("bad connector")
		}
		if _, dup := cnOf[c.ID]; dup {
			panic("duplicate connector")
		}
		if _, dup := plOf[c.ID]; dup {
			panic("id reuse")
		}
		cnOf[c.ID] = c
		_, err := s.cns.Create(s.ctx, s.real(c.ID), connector.Type(c.Type), pluginStr(c.Plugin), s.real(c.Pipeline),
			connector.Config{Name: nameStr(c.Name), Settings: settingsMap(c.Settings)}, connector.ProvisionType(pl.Prov))
		must(err)
		_, err = s.pls.AddConnector(s.ctx, s.real(c.Pipeline), s.real(c.ID))
		must(err)
		if c.State != 0 {
			_, err = s.cns.SetState(s.ctx, s.real(c.ID), stateVal(c.Type, c.State))
			must(err)
		}
	}
	seen := map[int]bool{}
	for _, p := range in.Processors {
		if p.ID < 0 || p.ID >= in.Next || seen[p.ID] {
			panic("bad processor")
		}
		if _, dup := plOf[p.ID]; dup {
			panic("id reuse")
		}
		if _, dup := cnOf[p.ID]; dup {
			panic("id reuse")
		}
		seen[p.ID] = true
		var prov int
		switch p.PType {
		case 2:
			pl, ok := plOf[p.Parent]
			if !ok {
				panic("bad parent")
			}
			prov = pl.Prov
		case 1:
			c, ok := cnOf[p.Parent]
			if !ok {
				panic("bad parent")
			}
			prov = plOf[c.Pipeline].Prov
		default:
			panic("bad parent type")
		}
		inst, err := s.prs.Create(s.ctx, s.real(p.ID), pluginStr(p.Plugin), processor.Parent{ID: s.real(p.Parent), Type: processor.ParentType(p.PType)},
			processor.Config{Settings: settingsMap(p.Settings), Workers: p.Workers}, processor.ProvisionType(prov), condStr(p.Cond))
		must(err)
		if p.PType == 2 {
			_, err = s.pls.AddProcessor(s.ctx, s.real(p.Parent), s.real(p.ID))
		} else {
			_, err = s.cns.AddProcessor(s.ctx, s.real(p.Parent), s.real(p.ID))
		}
		must(err)
		if p.Running {
			_, err = s.prs.MakeRunnableProcessor(s.ctx, inst)
			must(err)
		}
	}
	for _, p := range in.Pipelines {
		if pipeline.Status(p.Status) != pipeline.StatusUserStopped {
			must(s.pls.UpdateStatus(s.ctx, s.real(p.ID), pipeline.Status(p.Status), ""))
		}
	}
	s.marks = append(s.marks, now())
}

func (s *sut) view(pls *pipeline.Service, cns *connector.Service, prs *processor.Service) viewV {
	var v viewV
	for _, p := range pls.List(s.ctx) {
		v.Pl = append(v.Pl, plV{
			ID: s.canon(p.ID), Name: nameNat(p.Config.Name), Desc: nameNat(p.Config.Description),
			Status: int(p.GetStatus()), Prov: int(p.ProvisionedBy),
			Dlq:   [4]int{pluginNat(p.DLQ.Plugin), settingsNat(p.DLQ.Settings), p.DLQ.WindowSize, p.DLQ.WindowNackThreshold},
			Conns: s.canons(p.ConnectorIDs), Procs: s.canons(p.ProcessorIDs), Created: s.stamp(p.CreatedAt),
		})
	}
	for _, c := range cns.List(s.ctx) {
		v.Cn = append(v.Cn, cnV{
			ID: s.canon(c.ID), Type: int(c.Type), Name: nameNat(c.Config.Name), Settings: settingsNat(c.Config.Settings),
			Pipeline: s.canon(c.PipelineID), Plugin: pluginNat(c.Plugin), Procs: s.canons(c.ProcessorIDs),
			State: stateNat(c.State), Prov: int(c.ProvisionedBy), Created: s.stamp(c.CreatedAt),
		})
	}
	for _, p := range prs.List(s.ctx) {
		v.Pr = append(v.Pr, prV{
			ID: s.canon(p.ID), Plugin: pluginNat(p.Plugin), Cond: condNat(p.Condition), PType: int(p.Parent.Type),
			Parent: s.canon(p.Parent.ID), Settings: settingsNat(p.Config.Settings), Workers: p.Config.Workers,
			Prov: int(p.ProvisionedBy), Created: s.stamp(p.CreatedAt),
		})
	}
	for _, n := range pls.VerifInstanceNames() {
		v.Names = append(v.Names, nameNat(n))
	}
	sort.Slice(v.Pl, func(i, j int) bool { return v.Pl[i].ID < v.Pl[j].ID })
	sort.Slice(v.Cn, func(i, j int) bool { return v.Cn[i].ID < v.Cn[j].ID })
	sort.Slice(v.Pr, func(i, j int) bool { return v.Pr[i].ID < v.Pr[j].ID })
	sort.Ints(v.Names)
	return v
}

// reloaded: what a restarted server sees: fresh services Init'ed on the same DB
// (same order as the runtime: connectors, processors, pipelines).
func (s *sut) reloaded() viewV {
	logger := log.Nop()
	db := s.db.inner
	cns := connector.NewService(logger, db, nil)
	prs := processor.NewService(logger, db, fakeRegistry{})
	pls := pipeline.NewService(logger, db)
	if cns.Init(s.ctx) != nil || prs.Init(s.ctx) != nil || pls.Init(s.ctx) != nil {
		return viewV{Names: []int{unknown, unknown}} // the store cannot be loaded
	}
	return s.view(pls, cns, prs)
}

func classify(err error) string {
	switch {
	case err == nil:
		return "ok"
	case errors.Is(err, errInjected):
		return "store"
	case errors.Is(err, pipeline.ErrInstanceNotFound), errors.Is(err, connector.ErrInstanceNotFound), errors.Is(err, processor.ErrInstanceNotFound):
		return "notfound"
	case errors.Is(err, pipeline.ErrPipelineRunning):
		return "running"
	case errors.Is(err, orchestrator.ErrImmutableProvisionedByConfig):
		return "immutable"
	case errors.Is(err, orchestrator.ErrPipelineHasConnectorsAttached):
		return "hasconns"
	case errors.Is(err, orchestrator.ErrPipelineHasProcessorsAttached), errors.Is(err, orchestrator.ErrConnectorHasProcessorsAttached):
		return "hasprocs"
	case errors.Is(err, orchestrator.ErrInvalidProcessorParentType):
		return "parent"
	case errors.Is(err, processor.ErrProcessorRunning):
		return "procrunning"
	}
	return "invalid"
}

func isCreate(k string) bool { return k == "PlCreate" || k == "CnCreate" || k == "PrCreate" }

// call performs one API call on the real orchestrator.
func (s *sut) call(o opI, canonNext *int) stepFull {
	if isCreate(o.K) {
		s.fresh = *canonNext
		*canonNext++
	} else {
		s.fresh = -1
	}
	var err error
	out := ""
	s.marks = append(s.marks, now())
	s.db.arm(o.F)
	func() {
		defer func() {
			if r := recover(); r != nil {
				out = "panic"
			}
		}()
		ctx := s.ctx
		switch o.K {
		case "PlCreate":
			var p *pipeline.Instance
			p, err = s.orc.Pipelines.Create(ctx, pipeline.Config{Name: nameStr(o.Name), Description: descStr(o.Desc)})
			if err == nil {
				s.canon(p.ID)
			}
		case "PlUpdate":
			_, err = s.orc.Pipelines.Update(ctx, s.real(o.ID), pipeline.Config{Name: nameStr(o.Name), Description: descStr(o.Desc)})
		case "PlDelete":
			err = s.orc.Pipelines.Delete(ctx, s.real(o.ID))
		case "PlUpdateDLQ":
			_, err = s.orc.Pipelines.UpdateDLQ(ctx, s.real(o.ID), pipeline.DLQ{Plugin: pluginStr(o.Plugin), Settings: settingsMap(o.Settings),
				WindowSize: o.Size, WindowNackThreshold: o.Thr})
		case "CnCreate":
			var c *connector.Instance
			c, err = s.orc.Connectors.Create(ctx, connector.Type(o.T), pluginStr(o.Plugin), s.real(o.ID),
				connector.Config{Name: nameStr(o.Name), Settings: settingsMap(o.Settings)})
			if err == nil {
				s.canon(c.ID)
			}
		case "CnUpdate":
			_, err = s.orc.Connectors.Update(ctx, s.real(o.ID), pluginStr(o.Plugin), connector.Config{Name: nameStr(o.Name), Settings: settingsMap(o.Settings)})
		case "CnDelete":
			err = s.orc.Connectors.Delete(ctx, s.real(o.ID))
		case "PrCreate":
			var p *processor.Instance
			p, err = s.orc.Processors.Create(ctx, pluginStr(o.Plugin), processor.Parent{ID: s.real(o.ID), Type: processor.ParentType(o.T)},
				processor.Config{Settings: settingsMap(o.Settings), Workers: o.W}, condStr(o.Cond))
			if err == nil {
				s.canon(p.ID)
			}
		case "PrUpdate":
			_, err = s.orc.Processors.Update(ctx, s.real(o.ID), pluginStr(o.Plugin), processor.Config{Settings: settingsMap(o.Settings), Workers: o.W})
		case "PrDelete":
			err = s.orc.Processors.Delete(ctx, s.real(o.ID))
		default:
			panic("harness: unknown op " + o.K)
		}
	}()
	kinds := append([]string(nil), s.db.kinds...)
	s.db.disarm()
	s.marks = append(s.marks, now())
	if out == "" {
		out = classify(err)
	}
	ob := stepFull{Out: out, Kinds: kinds}
	ob.Mem = s.view(s.pls, s.cns, s.prs)
	ob.Rel = s.reloaded()
	s.fresh = -1
	return ob
}

func runCase(in inputI) fullObs {
	for _, o := range in.Ops {
		switch o.K {
		case "PlCreate", "PlUpdate", "PlDelete", "PlUpdateDLQ", "CnCreate", "CnUpdate", "CnDelete", "PrCreate", "PrUpdate", "PrDelete":
		default:
			panic("unknown op")
		}
	}
	s := newSut()
	s.setup(in.Init)
	var ob fullObs
	ob.Mem0 = s.view(s.pls, s.cns, s.prs)
	ob.Rel0 = s.reloaded()
	next := in.Init.Next
	for _, o := range in.Ops {
		ob.Steps = append(ob.Steps, s.call(o, &next))
	}
	return ob
}

// ---------- Coq rendering ----------

var statusName = map[int]string{1: "StRunning", 2: "StSystemStopped", 3: "StUserStopped", 4: "StDegraded", 5: "StRecovering"}

func provC(p int) string {
	if p == 0 {
		return "ProvAPI"
	}
	return "ProvConfig"
}
func natC(n int) string {
	if n < 0 || n > 4999 {
		n = 4999
	}
	if n > 9 {
		return "(nn " + strconv.Itoa(n) + ")"
	}
	return strconv.Itoa(n)
}
func natsC(l []int) string {
	s := make([]string, len(l))
	for i, n := range l {
		s[i] = natC(n)
	}
	return hx.List(s)
}
func zC(n int) string { return "(" + strconv.Itoa(n) + ")%Z" }
func plC(p plV) string {
	st, ok := statusName[p.Status]
	if !ok {
		st = "StDegraded"
	}
	return fmt.Sprintf("(mkPl %s %s %s %s %s (mkDlq %s %s %s %s) %s %s %s)", natC(p.ID), natC(p.Name), natC(p.Desc), st, provC(p.Prov),
		natC(p.Dlq[0]), natC(p.Dlq[1]), zC(p.Dlq[2]), zC(p.Dlq[3]), natsC(p.Conns), natsC(p.Procs), natC(p.Created))
}
func cnC(c cnV) string {
	return fmt.Sprintf("(mkCn %s %s %s %s %s %s %s %s %s %s)", natC(c.ID), natC(c.Type), natC(c.Name), natC(c.Settings), natC(c.Pipeline),
		natC(c.Plugin), natsC(c.Procs), natC(c.State), provC(c.Prov), natC(c.Created))
}
func prC(p prV) string {
	return fmt.Sprintf("(mkPr %s %s %s %s %s %s %s %s %s)", natC(p.ID), natC(p.Plugin), natC(p.Cond), natC(p.PType), natC(p.Parent),
		natC(p.Settings), zC(p.Workers), provC(p.Prov), natC(p.Created))
}
func deltaC(d deltaV) string {
	if len(d.Pl)+len(d.PlX)+len(d.Cn)+len(d.CnX)+len(d.Pr)+len(d.PrX) == 0 && d.Names == nil {
		return "d0"
	}
	a := make([]string, len(d.Pl))
	for i, p := range d.Pl {
		a[i] = plC(p)
	}
	b := make([]string, len(d.Cn))
	for i, c := range d.Cn {
		b[i] = cnC(c)
	}
	c := make([]string, len(d.Pr))
	for i, p := range d.Pr {
		c[i] = prC(p)
	}
	names := hx.None
	if d.Names != nil {
		names = hx.Some(natsC(*d.Names))
	}
	return fmt.Sprintf("(mkDelta %s %s %s %s %s %s %s)", hx.List(a), natsC(d.PlX), hx.List(b), natsC(d.CnX), hx.List(c), natsC(d.PrX), names)
}

var outC = map[string]string{"ok": "OOk", "panic": "OPanic", "store": "(OErr EStore)", "notfound": "(OErr ENotFound)",
	"running": "(OErr ERunning)", "immutable": "(OErr EImmutable)", "hasconns": "(OErr EHasConns)", "hasprocs": "(OErr EHasProcs)",
	"parent": "(OErr EParent)", "procrunning": "(OErr EProcRunning)", "invalid": "(OErr EInvalid)"}

func opC(o opI) string {
	var t string
	switch o.K {
	case "PlCreate":
		t = fmt.Sprintf("PlCreate %s %s", natC(o.Name), natC(o.Desc))
	case "PlUpdate":
		t = fmt.Sprintf("PlUpdate %s %s %s", natC(o.ID), natC(o.Name), natC(o.Desc))
	case "PlDelete":
		t = fmt.Sprintf("PlDelete %s", natC(o.ID))
	case "PlUpdateDLQ":
		t = fmt.Sprintf("PlUpdateDLQ %s (mkDlq %s %s %s %s)", natC(o.ID), natC(o.Plugin), natC(o.Settings), zC(o.Size), zC(o.Thr))
	case "CnCreate":
		t = fmt.Sprintf("CnCreate %s %s %s %s %s", natC(o.T), natC(o.Plugin), natC(o.ID), natC(o.Name), natC(o.Settings))
	case "CnUpdate":
		t = fmt.Sprintf("CnUpdate %s %s %s %s", natC(o.ID), natC(o.Plugin), natC(o.Name), natC(o.Settings))
	case "CnDelete":
		t = fmt.Sprintf("CnDelete %s", natC(o.ID))
	case "PrCreate":
		t = fmt.Sprintf("PrCreate %s %s %s %s %s %s", natC(o.Plugin), natC(o.T), natC(o.ID), natC(o.Settings), zC(o.W), natC(o.Cond))
	case "PrUpdate":
		t = fmt.Sprintf("PrUpdate %s %s %s %s", natC(o.ID), natC(o.Plugin), natC(o.Settings), zC(o.W))
	case "PrDelete":
		t = fmt.Sprintf("PrDelete %s", natC(o.ID))
	}
	f := hx.None
	if o.F >= 0 {
		f = hx.Some(natC(o.F))
	}
	return hx.Pair(t, f)
}

// initView is the initial state as the model sees it (what setup intends to build).
func initView(in initI) (viewV, []int) {
	var v viewV
	var run []int
	provOf := map[int]int{}
	for _, p := range in.Pipelines {
		provOf[p.ID] = p.Prov
		x := plV{ID: p.ID, Name: p.Name, Desc: p.Desc, Status: p.Status, Prov: p.Prov, Dlq: [4]int{9, 9, 1, 0}, Conns: []int{}, Procs: []int{}}
		for _, c := range in.Connectors {
			if c.Pipeline == p.ID {
				x.Conns = append(x.Conns, c.ID)
			}
		}
		for _, r := range in.Processors {
			if r.PType == 2 && r.Parent == p.ID {
				x.Procs = append(x.Procs, r.ID)
			}
		}
		v.Pl = append(v.Pl, x)
		v.Names = append(v.Names, p.Name)
	}
	cnPl := map[int]int{}
	for _, c := range in.Connectors {
		cnPl[c.ID] = c.Pipeline
		x := cnV{ID: c.ID, Type: c.Type, Name: c.Name, Settings: c.Settings, Pipeline: c.Pipeline, Plugin: c.Plugin, State: c.State, Prov: provOf[c.Pipeline], Procs: []int{}}
		for _, r := range in.Processors {
			if r.PType == 1 && r.Parent == c.ID {
				x.Procs = append(x.Procs, r.ID)
			}
		}
		v.Cn = append(v.Cn, x)
	}
	for _, r := range in.Processors {
		prov := provOf[r.Parent]
		if r.PType == 1 {
			prov = provOf[cnPl[r.Parent]]
		}
		w := r.Workers
		if w == 0 {
			w = 1
		}
		v.Pr = append(v.Pr, prV{ID: r.ID, Plugin: r.Plugin, Cond: r.Cond, PType: r.PType, Parent: r.Parent, Settings: r.Settings, Workers: w, Prov: prov})
		if r.Running {
			run = append(run, r.ID)
		}
	}
	sort.Slice(v.Pl, func(i, j int) bool { return v.Pl[i].ID < v.Pl[j].ID })
	sort.Slice(v.Cn, func(i, j int) bool { return v.Cn[i].ID < v.Cn[j].ID })
	sort.Slice(v.Pr, func(i, j int) bool { return v.Pr[i].ID < v.Pr[j].ID })
	sort.Ints(v.Names)
	return v, run
}

// encode turns what was observed into the JSON and Coq forms of the case.
func encode(in inputI, ob fullObs) (observedV, string) {
	iv, run := initView(in.Init)
	var o observedV
	o.Mem0, o.Rel0 = diffView(iv, ob.Mem0), diffView(iv, ob.Rel0)
	pm, pr := ob.Mem0, ob.Rel0
	obs := make([]string, len(ob.Steps))
	for i, s := range ob.Steps {
		st := obsV{Out: s.Out, Kinds: s.Kinds, Mem: diffView(pm, s.Mem), Rel: diffView(pr, s.Rel)}
		pm, pr = s.Mem, s.Rel
		o.Steps = append(o.Steps, st)
		obs[i] = fmt.Sprintf("mkObs %s %s %s", outC[s.Out], deltaC(st.Mem), deltaC(st.Rel))
	}
	ops := make([]string, len(in.Ops))
	for i, x := range in.Ops {
		ops[i] = opC(x)
	}
	a := make([]string, len(iv.Pl))
	for i, p := range iv.Pl {
		a[i] = plC(p)
	}
	b := make([]string, len(iv.Cn))
	for i, c := range iv.Cn {
		b[i] = cnC(c)
	}
	c := make([]string, len(iv.Pr))
	for i, p := range iv.Pr {
		c[i] = prC(p)
	}
	coq := fmt.Sprintf("(mkCase %s %s %s %s %s\n  %s\n  (%s, %s)\n  %s)", hx.List(a), hx.List(b), hx.List(c), natsC(run), natC(in.Init.Next),
		hx.List(ops), deltaC(o.Mem0), deltaC(o.Rel0), hx.List(obs))
	return o, coq
}

func emit(w *hx.Writer, in inputI) {
	add(w, in, runCase(in))
}

func add(w *hx.Writer, in inputI, ob fullObs) {
	o, coq := encode(in, ob)
	w.Add(map[string]any{"input": in, "observed": o}, coq)
}

// ---------- generation ----------

func pick(r *hx.Rand, xs ...int) int { return xs[r.Intn(len(xs))] }

func genInit(r *hx.Rand, rich bool) initI {
	var in initI
	id := 0
	npl := r.Range(0, 3)
	if rich {
		npl = r.Range(1, 3)
	}
	usedNames := map[int]bool{}
	for i := 0; i < npl; i++ {
		name := r.Range(1, 6)
		for usedNames[name] {
			name = r.Range(1, 6)
		}
		usedNames[name] = true
		p := plI{ID: id, Name: name, Desc: pick(r, 0, 1, 2), Status: 3, Prov: 0}
		id++
		if r.Chance(1, 4) {
			p.Status = pick(r, 1, 1, 2, 4, 5)
		}
		if r.Chance(1, 5) {
			p.Prov = 1
		}
		in.Pipelines = append(in.Pipelines, p)
		ncn := r.Range(0, 3)
		for j := 0; j < ncn; j++ {
			c := cnI{ID: id, Type: pick(r, 1, 2), Name: r.Range(1, 5), Settings: r.Range(0, 3), Pipeline: p.ID, Plugin: r.Range(1, 3)}
			id++
			if r.Chance(1, 2) {
				c.State = r.Range(3, 6)
			}
			in.Connectors = append(in.Connectors, c)
			for k := r.Range(0, 2); k > 0 && r.Chance(1, 2); k-- {
				in.Processors = append(in.Processors, prI{ID: id, Plugin: r.Range(1, 3), Cond: pick(r, 0, 0, 1, 2), PType: 1, Parent: c.ID,
					Settings: r.Range(0, 3), Workers: r.Range(0, 3), Running: r.Chance(1, 8)})
				id++
			}
		}
		for k := r.Range(0, 2); k > 0; k-- {
			in.Processors = append(in.Processors, prI{ID: id, Plugin: r.Range(1, 3), Cond: pick(r, 0, 0, 1, 2), PType: 2, Parent: p.ID,
				Settings: r.Range(0, 3), Workers: r.Range(0, 3), Running: r.Chance(1, 8)})
			id++
		}
	}
	in.Next = id + r.Range(0, 2)
	return in
}

// target picks an id: mostly one of `good`, sometimes one of `other` (wrong kind), sometimes unknown.
func target(r *hx.Rand, good, other []int) int {
	x := r.Intn(20)
	switch {
	case x < 17 && len(good) > 0:
		return good[r.Intn(len(good))]
	case x < 19 && len(other) > 0:
		return other[r.Intn(len(other))]
	}
	return 60 + r.Intn(3)
}

func genName(r *hx.Rand) int {
	switch x := r.Intn(40); {
	case x < 2:
		return 0
	case x < 3:
		return 1000 + r.Intn(2)
	}
	return r.Range(1, 6)
}
func genPlugin(r *hx.Rand) int   { return pick(r, 1, 1, 2, 2, 3, 3, 1, 2, 3, 0, 5) }
func genSettings(r *hx.Rand) int { return pick(r, 0, 1, 2, 3, 1, 2, 3, 1, 2, 3, 7) }

func genOp(r *hx.Rand, v viewV) opI {
	var pls, cns, prs []int
	for _, p := range v.Pl {
		pls = append(pls, p.ID)
	}
	for _, c := range v.Cn {
		cns = append(cns, c.ID)
	}
	for _, p := range v.Pr {
		prs = append(prs, p.ID)
	}
	o := opI{F: -1}
	switch x := r.Intn(100); {
	case x < 10:
		o.K, o.Name, o.Desc = "PlCreate", genName(r), pick(r, 0, 1, 2, 2, 1, 1000)
	case x < 18:
		o.K, o.ID, o.Name, o.Desc = "PlUpdate", target(r, pls, cns), genName(r), pick(r, 0, 1, 2, 3)
	case x < 26:
		o.K, o.ID = "PlDelete", target(r, pls, prs)
	case x < 33:
		o.K, o.ID = "PlUpdateDLQ", target(r, pls, cns)
		o.Plugin, o.Settings = pick(r, 9, 1, 2, 1, 2, 0, 5), pick(r, 9, 1, 2, 0, 7)
		o.Size, o.Thr = pick(r, 0, 1, 2, 5, 5, -1), pick(r, 0, 0, 1, 2, 5, -1)
	case x < 46:
		o.K, o.ID, o.T, o.Plugin, o.Name, o.Settings = "CnCreate", target(r, pls, cns), pick(r, 1, 2, 1, 2, 1, 2, 1, 2, 0, 3), genPlugin(r), genName(r), genSettings(r)
	case x < 57:
		o.K, o.ID, o.Plugin, o.Name, o.Settings = "CnUpdate", target(r, cns, pls), genPlugin(r), genName(r), genSettings(r)
	case x < 68:
		o.K, o.ID = "CnDelete", target(r, cns, pls)
	case x < 81:
		o.K, o.T = "PrCreate", pick(r, 1, 2, 1, 2, 1, 2, 1, 2, 1, 2, 0, 3)
		if o.T == 1 {
			o.ID = target(r, cns, pls)
		} else {
			o.ID = target(r, pls, cns)
		}
		o.Plugin, o.Settings, o.W, o.Cond = genPlugin(r), genSettings(r), pick(r, 0, 1, 2, 3, 1, 2, -1), pick(r, 0, 0, 1, 2)
	case x < 90:
		o.K, o.ID, o.Plugin, o.Settings, o.W = "PrUpdate", target(r, prs, cns), genPlugin(r), genSettings(r), pick(r, 0, 1, 2, 3, 1, 2, -1)
	default:
		o.K, o.ID = "PrDelete", target(r, prs, pls)
	}
	return o
}

// genCase generates and runs one random history; the operations are drawn
// against the in-memory view the real code shows after the previous call.
func genCase(r *hx.Rand) (inputI, fullObs) {
	in := inputI{Init: genInit(r, r.Chance(3, 4))}
	n := r.Range(1, 12)
	faultAt, faultIdx := -1, -1
	if r.Chance(4, 5) {
		faultAt, faultIdx = r.Intn(n), pick(r, 0, 1, 1, 2, 2, 2, 3, 3, 4)
	}
	s := newSut()
	s.setup(in.Init)
	var ob fullObs
	ob.Mem0 = s.view(s.pls, s.cns, s.prs)
	ob.Rel0 = s.reloaded()
	cur := ob.Mem0
	next := in.Init.Next
	for i := 0; i < n; i++ {
		o := genOp(r, cur)
		if i == faultAt {
			o.F = faultIdx
		}
		in.Ops = append(in.Ops, o)
		st := s.call(o, &next)
		ob.Steps = append(ob.Steps, st)
		cur = st.Mem
	}
	return in, ob
}

// ---------- exhaustive small scope ----------

// a fixed initial state that has every kind of resource: an editable pipeline 0
// with source 1 (state, processor 2 attached) and pipeline processor 3; a
// running pipeline 4 with connector 5; a config-provisioned pipeline 6 with connector 7.
func exhaustiveInit() initI {
	return initI{
		Pipelines:  []plI{{ID: 0, Name: 1, Desc: 1, Status: 3}, {ID: 4, Name: 2, Status: 1}, {ID: 6, Name: 3, Status: 3, Prov: 1}},
		Connectors: []cnI{{ID: 1, Type: 1, Name: 1, Settings: 1, Pipeline: 0, Plugin: 1, State: 3}, {ID: 5, Type: 2, Name: 2, Settings: 1, Pipeline: 4, Plugin: 1, State: 4}, {ID: 7, Type: 1, Name: 1, Pipeline: 6, Plugin: 2}},
		Processors: []prI{{ID: 2, Plugin: 1, PType: 1, Parent: 1, Settings: 1, Workers: 1}, {ID: 3, Plugin: 2, Cond: 1, PType: 2, Parent: 0, Settings: 2, Workers: 2}},
		Next:       8,
	}
}

// the operation alphabet of the exhaustive mode (ids 8, 9, 10 are the ones the
// first three create calls of a history draw)
func exhaustiveAlphabet() []opI {
	return []opI{
		{K: "PlCreate", Name: 4, Desc: 1},
		{K: "PlUpdate", ID: 0, Name: 5, Desc: 2},
		{K: "PlUpdate", ID: 4, Name: 5},
		{K: "PlDelete", ID: 0},
		{K: "PlDelete", ID: 8},
		{K: "PlUpdateDLQ", ID: 0, Plugin: 1, Settings: 1, Size: 5, Thr: 2},
		{K: "CnCreate", ID: 0, T: 2, Plugin: 2, Name: 3, Settings: 2},
		{K: "CnCreate", ID: 6, T: 1, Plugin: 1, Name: 3, Settings: 2},
		{K: "CnUpdate", ID: 1, Plugin: 3, Name: 2, Settings: 3},
		{K: "CnUpdate", ID: 1, Plugin: 1, Name: 0, Settings: 1},
		{K: "CnUpdate", ID: 5, Plugin: 3, Name: 2, Settings: 3},
		{K: "CnDelete", ID: 1},
		{K: "CnDelete", ID: 8},
		{K: "PrCreate", ID: 0, T: 2, Plugin: 1, Settings: 1, W: 0, Cond: 1},
		{K: "PrCreate", ID: 1, T: 1, Plugin: 2, Settings: 2, W: 2},
		{K: "PrUpdate", ID: 2, Plugin: 3, Settings: 3, W: 3},
		{K: "PrUpdate", ID: 3, Plugin: 5, Settings: 1, W: -1},
		{K: "PrDelete", ID: 2},
		{K: "PrDelete", ID: 3},
		{K: "PrDelete", ID: 8},
	}
}

// exhaustive enumerates every history of 1..depth calls over the alphabet; for each:
// no fault, and one fault at every store-operation index 0..3 of the LAST call
// (the prefix is then fault-free, so the faulted call runs on a state the
// theorems speak about). part/parts select a slice.
func exhaustive(w *hx.Writer, part, parts, depth int) {
	alpha := exhaustiveAlphabet()
	k := 0
	var rec func(prefix []opI, depth int)
	rec = func(prefix []opI, depth int) {
		if len(prefix) > 0 {
			for pos := -1; pos < len(prefix); pos++ {
				if pos >= 0 && pos < len(prefix)-1 {
					continue
				}
				for f := 0; f <= 3; f++ {
					if pos == -1 && f > 0 {
						break
					}
					k++
					if k%parts != part {
						continue
					}
					ops := append([]opI(nil), prefix...)
					for i := range ops {
						ops[i].F = -1
					}
					if pos >= 0 {
						ops[pos].F = f
					}
					emit(w, inputI{Init: exhaustiveInit(), Ops: ops})
				}
			}
		}
		if depth == 0 {
			return
		}
		for _, a := range alpha {
			rec(append(append([]opI(nil), prefix...), a), depth-1)
		}
	}
	rec(nil, depth)
}

func inputFromJSON(m map[string]any) inputI {
	raw, ok := m["input"]
	if !ok {
		panic("no input")
	}
	b, err := json.Marshal(raw)
	must(err)
	var in inputI
	must(json.Unmarshal(b, &in))
	if len(in.Ops) == 0 && len(in.Init.Pipelines) == 0 {
		panic("empty case")
	}
	return in
}

// ---------- main ----------

func main() {
	o := hx.ParseFlags()
	w, err := hx.NewWriter(o, "From Verif Require Import Base.CaseCheck Api.Check.\nSet Printing Width 1000000.", "acase")
	if err != nil {
		fmt.Fprintln(os.Stderr, err)
		os.Exit(2)
	}
	switch {
	case o.Replay != "":
		cs, err := hx.ReadJSONL(o.Replay)
		if err != nil {
			fmt.Fprintln(os.Stderr, err)
			os.Exit(2)
		}
		for _, m := range cs {
			if c, ok := m["case"].(map[string]any); ok { // a replay file written by the driver
				m = c
			}
			var in inputI
			var ob fullObs
			ok := hx.Try(func() {
				in = inputFromJSON(m)
				ob = runCase(in)
			})
			if !ok {
				continue // not a well-formed case (e.g. a shrink candidate)
			}
			add(w, in, ob)
		}
	case strings.HasPrefix(o.Mode, "exhaustive"):
		// --mode exhaustive:<part>:<parts>[:<depth>]
		part, parts, depth := 0, 1, 3
		if f := strings.Split(o.Mode, ":"); len(f) >= 3 {
			part, _ = strconv.Atoi(f[1])
			parts, _ = strconv.Atoi(f[2])
			if len(f) >= 4 {
				depth, _ = strconv.Atoi(f[3])
			}
		}
		if parts < 1 || part < 0 || part >= parts || depth < 1 || depth > 3 {
			fmt.Fprintln(os.Stderr, "bad --mode", o.Mode)
			os.Exit(2)
		}
		exhaustive(w, part, parts, depth)
	default:
		root := hx.NewRand(o.Seed)
		for i := 0; i < o.N; i++ {
			r := root.Fork(uint64(o.Shard)<<32 | uint64(i))
			in, ob := genCase(r)
			add(w, in, ob)
		}
	}
	if err := w.Close("chk"); err != nil {
		fmt.Fprintln(os.Stderr, err)
		os.Exit(2)
	}
	fmt.Printf("cases=%d\n", w.Count())
}
