package main

// Translator for C17: reads the declarations the store codecs hang on from the
// Go sources of the tree under test (go/parser + go/ast only) and writes them as
// Coq data (GenStoreFields.v). Nothing is evaluated besides iota arithmetic.

import (
	"fmt"
	"go/ast"
	"go/parser"
	"go/token"
	"go/types"
	"os"
	"path/filepath"
	"reflect"
	"sort"
	"strconv"
	"strings"
)

type gField struct{ name, typ, key, opts string }

type gFacts struct {
	structs [][2]any // name, []gField
	copies  [][2]any // site, [][2]string
	jsonLib [][2]string
	consts  []struct {
		name string
		val  int64
	}
	initMap [][2]string
	starts  [][2]string
}

func parseFile(repo, rel string) (*token.FileSet, *ast.File, error) {
	fs := token.NewFileSet()
	f, err := parser.ParseFile(fs, filepath.Join(repo, rel), nil, parser.ParseComments)
	return fs, f, err
}

func exprStr(e ast.Expr) string { return types.ExprString(e) }

func jsonKey(name string, tag *ast.BasicLit) (key, opts string, skip bool) {
	key = name
	if tag == nil {
		return
	}
	raw, err := strconv.Unquote(tag.Value)
	if err != nil {
		return
	}
	v, ok := reflect.StructTag(raw).Lookup("json")
	if !ok {
		return
	}
	if v == "-" {
		return "", "", true
	}
	parts := strings.SplitN(v, ",", 2)
	if parts[0] != "" {
		key = parts[0]
	}
	if len(parts) == 2 {
		opts = parts[1]
	}
	return
}

// structFields lists the exported fields; anonymous struct types are flattened with a dotted path.
func structFields(st *ast.StructType, prefix string) []gField {
	var out []gField
	for _, f := range st.Fields.List {
		if len(f.Names) == 0 { // embedded
			t := exprStr(f.Type)
			base := strings.TrimPrefix(t, "*")
			if i := strings.LastIndex(base, "."); i >= 0 {
				base = base[i+1:]
			}
			if ast.IsExported(base) {
				out = append(out, gField{prefix + "<embedded>", t, "", ""})
			}
			continue
		}
		for _, n := range f.Names {
			if !n.IsExported() {
				continue
			}
			key, opts, skip := jsonKey(n.Name, f.Tag)
			if skip {
				continue
			}
			if inner, ok := f.Type.(*ast.StructType); ok {
				out = append(out, gField{prefix + n.Name, "struct", prefix + key, opts})
				out = append(out, structFields(inner, prefix+n.Name+".")...)
				continue
			}
			out = append(out, gField{prefix + n.Name, exprStr(f.Type), prefix + key, opts})
		}
	}
	return out
}

func findStruct(f *ast.File, name string) *ast.StructType {
	var res *ast.StructType
	ast.Inspect(f, func(n ast.Node) bool {
		if ts, ok := n.(*ast.TypeSpec); ok && ts.Name.Name == name {
			if st, ok := ts.Type.(*ast.StructType); ok && res == nil {
				res = st
			}
		}
		return true
	})
	return res
}

func findFunc(f *ast.File, recv, name string) *ast.FuncDecl {
	for _, d := range f.Decls {
		fd, ok := d.(*ast.FuncDecl)
		if !ok || fd.Name.Name != name {
			continue
		}
		if recv == "" && fd.Recv == nil {
			return fd
		}
		if fd.Recv != nil && len(fd.Recv.List) == 1 && strings.TrimPrefix(exprStr(fd.Recv.List[0].Type), "*") == recv {
			return fd
		}
	}
	return nil
}

// dropRoot removes the leading identifier of a selector chain: instance.Config.Name -> Config.Name
func dropRoot(e ast.Expr) string {
	switch t := e.(type) {
	case *ast.Ident:
		return "<" + t.Name + ">"
	case *ast.SelectorExpr:
		if _, ok := t.X.(*ast.Ident); ok {
			return t.Sel.Name
		}
		return dropRoot(t.X) + "." + t.Sel.Name
	case *ast.CallExpr:
		args := make([]string, len(t.Args))
		for i, a := range t.Args {
			args[i] = dropRoot(a)
		}
		if id, ok := t.Fun.(*ast.Ident); ok {
			return id.Name + "(" + strings.Join(args, ",") + ")"
		}
		return dropRoot(t.Fun) + "(" + strings.Join(args, ",") + ")"
	case *ast.UnaryExpr:
		return t.Op.String() + dropRoot(t.X)
	case *ast.ParenExpr:
		return dropRoot(t.X)
	}
	return exprStr(e)
}

func literalCopies(cl *ast.CompositeLit, prefix string) [][2]string {
	var out [][2]string
	for _, el := range cl.Elts {
		kv, ok := el.(*ast.KeyValueExpr)
		if !ok {
			out = append(out, [2]string{prefix + "<positional>", exprStr(el)})
			continue
		}
		k := exprStr(kv.Key)
		if inner, ok := kv.Value.(*ast.CompositeLit); ok {
			out = append(out, literalCopies(inner, prefix+k+".")...)
			continue
		}
		out = append(out, [2]string{prefix + k, dropRoot(kv.Value)})
	}
	return out
}

// findLiteral returns the first composite literal of the named type inside fn
func findLiteral(fn *ast.FuncDecl, typ string) *ast.CompositeLit {
	var res *ast.CompositeLit
	ast.Inspect(fn, func(n ast.Node) bool {
		if cl, ok := n.(*ast.CompositeLit); ok && res == nil && cl.Type != nil && exprStr(cl.Type) == typ {
			res = cl
		}
		return true
	})
	return res
}

func evalConst(e ast.Expr, iota int64) (int64, bool) {
	switch t := e.(type) {
	case *ast.BasicLit:
		v, err := strconv.ParseInt(t.Value, 0, 64)
		return v, err == nil
	case *ast.Ident:
		if t.Name == "iota" {
			return iota, true
		}
	case *ast.ParenExpr:
		return evalConst(t.X, iota)
	case *ast.BinaryExpr:
		a, ok1 := evalConst(t.X, iota)
		b, ok2 := evalConst(t.Y, iota)
		if ok1 && ok2 {
			switch t.Op {
			case token.ADD:
				return a + b, true
			case token.SUB:
				return a - b, true
			case token.MUL:
				return a * b, true
			}
		}
	}
	return 0, false
}

func (g *gFacts) addConsts(pkg string, f *ast.File) {
	for _, d := range f.Decls {
		gd, ok := d.(*ast.GenDecl)
		if !ok || gd.Tok != token.CONST {
			continue
		}
		var last ast.Expr
		for i, s := range gd.Specs {
			vs := s.(*ast.ValueSpec)
			if len(vs.Values) > 0 {
				last = vs.Values[0]
			}
			if last == nil || len(vs.Names) != 1 {
				continue
			}
			if v, ok := evalConst(last, int64(i)); ok && vs.Names[0].IsExported() {
				g.consts = append(g.consts, struct {
					name string
					val  int64
				}{pkg + "." + vs.Names[0].Name, v})
			}
		}
	}
}

func jsonImport(f *ast.File) string {
	for _, im := range f.Imports {
		p, _ := strconv.Unquote(im.Path.Value)
		if im.Name != nil && im.Name.Name == "json" || strings.HasSuffix(p, "/json") || strings.HasSuffix(p, "go-json") || p == "encoding/json" {
			return p
		}
	}
	return ""
}

func lastSel(e ast.Expr) string {
	if s, ok := e.(*ast.SelectorExpr); ok {
		return s.Sel.Name
	}
	if id, ok := e.(*ast.Ident); ok {
		return id.Name
	}
	return exprStr(e)
}

// statusTests: if <x>.GetStatus() == <Status> { ... <call> ... }
func statusTests(fn *ast.FuncDecl, callName string) [][2]string {
	var out [][2]string
	if fn == nil {
		return out
	}
	ast.Inspect(fn, func(n ast.Node) bool {
		is, ok := n.(*ast.IfStmt)
		if !ok {
			return true
		}
		be, ok := is.Cond.(*ast.BinaryExpr)
		if !ok || be.Op != token.EQL {
			return true
		}
		call, ok := be.X.(*ast.CallExpr)
		if !ok || lastSel(call.Fun) != "GetStatus" {
			return true
		}
		ast.Inspect(is.Body, func(m ast.Node) bool {
			if c, ok := m.(*ast.CallExpr); ok && lastSel(c.Fun) == callName {
				arg := ""
				if callName == "SetStatus" && len(c.Args) == 1 {
					arg = lastSel(c.Args[0])
				}
				out = append(out, [2]string{lastSel(be.Y), arg})
			}
			return true
		})
		return true
	})
	return out
}

func collect(repo string) (*gFacts, error) {
	g := &gFacts{}
	addStruct := func(f *ast.File, pkg, name string) error {
		st := findStruct(f, name)
		if st == nil {
			return fmt.Errorf("struct %s.%s not found", pkg, name)
		}
		g.structs = append(g.structs, [2]any{pkg + "." + name, structFields(st, "")})
		return nil
	}
	// connector
	_, ci, err := parseFile(repo, "pkg/connector/instance.go")
	if err != nil {
		return nil, err
	}
	for _, n := range []string{"Instance", "Config"} {
		if err := addStruct(ci, "connector", n); err != nil {
			return nil, err
		}
	}
	g.addConsts("connector", ci)
	for _, p := range [][2]string{{"pkg/connector/source.go", "SourceState"}, {"pkg/connector/destination.go", "DestinationState"}} {
		_, f, err := parseFile(repo, p[0])
		if err != nil {
			return nil, err
		}
		if err := addStruct(f, "connector", p[1]); err != nil {
			return nil, err
		}
	}
	_, cs, err := parseFile(repo, "pkg/connector/store.go")
	if err != nil {
		return nil, err
	}
	g.jsonLib = append(g.jsonLib, [2]string{"pkg/connector/store.go", jsonImport(cs)})
	if fn := findFunc(cs, "Store", "migratePre041"); fn != nil {
		var st *ast.StructType
		ast.Inspect(fn, func(n ast.Node) bool {
			if ts, ok := n.(*ast.TypeSpec); ok && ts.Name.Name == "connectorPre041" {
				st, _ = ts.Type.(*ast.StructType)
			}
			return true
		})
		if st != nil {
			g.structs = append(g.structs, [2]any{"connector.migratePre041.connectorPre041", structFields(st, "")})
		}
		if cl := findLiteral(fn, "Instance"); cl != nil {
			g.copies = append(g.copies, [2]any{"connector.migratePre041.Instance", literalCopies(cl, "")})
		}
	}
	if fn := findFunc(cs, "Store", "PrepareSet"); fn != nil {
		if cl := findLiteral(fn, "Instance"); cl != nil {
			g.copies = append(g.copies, [2]any{"connector.PrepareSet.Instance", literalCopies(cl, "")})
		}
	}
	// pipeline
	_, pi, err := parseFile(repo, "pkg/pipeline/instance.go")
	if err != nil {
		return nil, err
	}
	for _, n := range []string{"Instance", "encodableInstance", "Config", "DLQ"} {
		if err := addStruct(pi, "pipeline", n); err != nil {
			return nil, err
		}
	}
	g.addConsts("pipeline", pi)
	_, ps, err := parseFile(repo, "pkg/pipeline/store.go")
	if err != nil {
		return nil, err
	}
	g.jsonLib = append(g.jsonLib, [2]string{"pkg/pipeline/store.go", jsonImport(ps)})
	if fn := findFunc(ps, "Store", "encode"); fn != nil {
		if cl := findLiteral(fn, "encodableInstance"); cl != nil {
			g.copies = append(g.copies, [2]any{"pipeline.encode.encodableInstance", literalCopies(cl, "")})
		}
	}
	_, psv, err := parseFile(repo, "pkg/pipeline/service.go")
	if err != nil {
		return nil, err
	}
	g.initMap = statusTests(findFunc(psv, "Service", "Init"), "SetStatus")
	for _, lf := range []string{"pkg/lifecycle/service.go", "pkg/lifecycle-poc/service.go"} {
		_, f, err := parseFile(repo, lf)
		if err != nil {
			return nil, err
		}
		for _, t := range statusTests(findFunc(f, "Service", "Init"), "Start") {
			g.starts = append(g.starts, [2]string{lf, t[0]})
		}
	}
	// processor
	_, ri, err := parseFile(repo, "pkg/processor/instance.go")
	if err != nil {
		return nil, err
	}
	for _, n := range []string{"Instance", "Parent", "Config"} {
		if err := addStruct(ri, "processor", n); err != nil {
			return nil, err
		}
	}
	_, rs, err := parseFile(repo, "pkg/processor/store.go")
	if err != nil {
		return nil, err
	}
	g.jsonLib = append(g.jsonLib, [2]string{"pkg/processor/store.go", jsonImport(rs)})
	return g, nil
}

func q(s string) string { return "\"" + strings.ReplaceAll(s, "\"", "\"\"") + "\"" }

func genFields(repo, out string) error {
	g, err := collect(repo)
	if err != nil {
		return err
	}
	var b strings.Builder
	b.WriteString("(* GENERATED by harness/cmd/c17 --mode gen from " + repo + " - do not edit *)\n")
	b.WriteString("From Coq Require Import List String ZArith.\nFrom Verif Require Import Codec.Fields.\nImport ListNotations.\nLocal Open Scope string_scope.\n\n")
	b.WriteString("Definition gen_facts : facts := mkFacts\n  [")
	for i, s := range g.structs {
		if i > 0 {
			b.WriteString(";\n   ")
		}
		fs := s[1].([]gField)
		items := make([]string, len(fs))
		for j, f := range fs {
			items[j] = fmt.Sprintf("(%s, %s, %s, %s)", q(f.name), q(f.typ), q(f.key), q(f.opts))
		}
		fmt.Fprintf(&b, "(%s, [%s])", q(s[0].(string)), strings.Join(items, "; "))
	}
	b.WriteString("]\n  [")
	for i, s := range g.copies {
		if i > 0 {
			b.WriteString(";\n   ")
		}
		cs := s[1].([][2]string)
		items := make([]string, len(cs))
		for j, c := range cs {
			items[j] = fmt.Sprintf("(%s, %s)", q(c[0]), q(c[1]))
		}
		fmt.Fprintf(&b, "(%s, [%s])", q(s[0].(string)), strings.Join(items, "; "))
	}
	b.WriteString("]\n  [")
	pairs := func(ps [][2]string) {
		items := make([]string, len(ps))
		for j, c := range ps {
			items[j] = fmt.Sprintf("(%s, %s)", q(c[0]), q(c[1]))
		}
		b.WriteString(strings.Join(items, "; "))
	}
	pairs(g.jsonLib)
	b.WriteString("]\n  [")
	sort.Slice(g.consts, func(i, j int) bool { return g.consts[i].name < g.consts[j].name })
	for i, c := range g.consts {
		if i > 0 {
			b.WriteString("; ")
		}
		fmt.Fprintf(&b, "(%s, (%d)%%Z)", q(c.name), c.val)
	}
	b.WriteString("]\n  [")
	pairs(g.initMap)
	b.WriteString("]\n  [")
	pairs(g.starts)
	b.WriteString("].\n")
	if err := os.MkdirAll(filepath.Dir(out), 0o755); err != nil {
		return err
	}
	return os.WriteFile(out, []byte(b.String()), 0o644)
}
