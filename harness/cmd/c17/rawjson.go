package main

import (
	"fmt"
	"math/big"
	"strings"
	"unicode/utf8"
)

// rj is a JSON value that keeps the raw text of string literals (the code
// points between the quotes, escapes not interpreted) and of numbers.
type rj struct {
	kind byte // n(ull) b(ool) i(nteger) x(other number) s(tring) a(rray) o(bject)
	b    bool
	num  string
	s    jStr
	arr  []*rj
	keys []jStr
	vals []*rj
}

type rawParser struct {
	b []byte
	i int
}

func parseRaw(b []byte) (*rj, error) {
	p := &rawParser{b: b}
	v, err := p.value()
	if err != nil {
		return nil, err
	}
	p.ws()
	if p.i != len(p.b) {
		return nil, fmt.Errorf("trailing data at %d", p.i)
	}
	return v, nil
}

func (p *rawParser) ws() {
	for p.i < len(p.b) && (p.b[p.i] == ' ' || p.b[p.i] == '\n' || p.b[p.i] == '\t' || p.b[p.i] == '\r') {
		p.i++
	}
}

func (p *rawParser) lit() (jStr, error) {
	// at opening quote
	p.i++
	start := p.i
	for p.i < len(p.b) {
		switch p.b[p.i] {
		case '\\':
			p.i += 2
		case '"':
			s := toJ(string(p.b[start:p.i]))
			p.i++
			return s, nil
		default:
			p.i++
		}
	}
	return nil, fmt.Errorf("unterminated string")
}

func (p *rawParser) value() (*rj, error) {
	p.ws()
	if p.i >= len(p.b) {
		return nil, fmt.Errorf("unexpected end")
	}
	switch c := p.b[p.i]; {
	case c == '{':
		p.i++
		v := &rj{kind: 'o'}
		p.ws()
		if p.i < len(p.b) && p.b[p.i] == '}' {
			p.i++
			return v, nil
		}
		for {
			p.ws()
			if p.i >= len(p.b) || p.b[p.i] != '"' {
				return nil, fmt.Errorf("member name expected at %d", p.i)
			}
			k, err := p.lit()
			if err != nil {
				return nil, err
			}
			p.ws()
			if p.i >= len(p.b) || p.b[p.i] != ':' {
				return nil, fmt.Errorf("colon expected at %d", p.i)
			}
			p.i++
			e, err := p.value()
			if err != nil {
				return nil, err
			}
			v.keys = append(v.keys, k)
			v.vals = append(v.vals, e)
			p.ws()
			if p.i < len(p.b) && p.b[p.i] == ',' {
				p.i++
				continue
			}
			if p.i < len(p.b) && p.b[p.i] == '}' {
				p.i++
				return v, nil
			}
			return nil, fmt.Errorf("',' or '}' expected at %d", p.i)
		}
	case c == '[':
		p.i++
		v := &rj{kind: 'a'}
		p.ws()
		if p.i < len(p.b) && p.b[p.i] == ']' {
			p.i++
			return v, nil
		}
		for {
			e, err := p.value()
			if err != nil {
				return nil, err
			}
			v.arr = append(v.arr, e)
			p.ws()
			if p.i < len(p.b) && p.b[p.i] == ',' {
				p.i++
				continue
			}
			if p.i < len(p.b) && p.b[p.i] == ']' {
				p.i++
				return v, nil
			}
			return nil, fmt.Errorf("',' or ']' expected at %d", p.i)
		}
	case c == '"':
		s, err := p.lit()
		if err != nil {
			return nil, err
		}
		return &rj{kind: 's', s: s}, nil
	case c == 't' && strings.HasPrefix(string(p.b[p.i:]), "true"):
		p.i += 4
		return &rj{kind: 'b', b: true}, nil
	case c == 'f' && strings.HasPrefix(string(p.b[p.i:]), "false"):
		p.i += 5
		return &rj{kind: 'b'}, nil
	case c == 'n' && strings.HasPrefix(string(p.b[p.i:]), "null"):
		p.i += 4
		return &rj{kind: 'n'}, nil
	case c == '-' || (c >= '0' && c <= '9'):
		start := p.i
		p.i++
		for p.i < len(p.b) && strings.IndexByte("0123456789+-.eE", p.b[p.i]) >= 0 {
			p.i++
		}
		txt := string(p.b[start:p.i])
		if _, ok := new(big.Int).SetString(txt, 10); ok && !strings.HasPrefix(txt, "+") {
			return &rj{kind: 'i', num: txt}, nil
		}
		return &rj{kind: 'x', num: txt}, nil
	}
	return nil, fmt.Errorf("unexpected %q at %d", p.b[p.i], p.i)
}

func (v *rj) coq() string {
	switch v.kind {
	case 'n':
		return "JNull"
	case 'b':
		if v.b {
			return "(JBool true)"
		}
		return "(JBool false)"
	case 'i':
		return "(JNum (" + v.num + ")%Z)"
	case 's':
		return "(JStr " + cStr(v.s) + ")"
	case 'a':
		items := make([]string, len(v.arr))
		for i, e := range v.arr {
			items[i] = e.coq()
		}
		return "(JArr [" + strings.Join(items, "; ") + "])"
	case 'o':
		items := make([]string, len(v.keys))
		for i := range v.keys {
			items[i] = "(" + cStr(v.keys[i]) + ", " + v.vals[i].coq() + ")"
		}
		return "(JObj [" + strings.Join(items, "; ") + "])"
	}
	return "JBad"
}

var _ = utf8.RuneError
