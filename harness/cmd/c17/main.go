// Harness for C17 (stored entities survive restart): drives the REAL stores and
// services of pkg/connector, pkg/pipeline, pkg/processor over an in-memory DB.
//
//	Set on the real store  ->  fresh services, Init on the same DB  ->  Get
//
// and records the stored bytes (parsed into a JSON tree that keeps the raw text
// of every string literal) and the instance that came back. For pipelines the
// Init of both lifecycle services is run as well, to see which pipelines they
// start again. Old formats: pre-0.4.1 connector records, the golden files of the
// store packages, hand-shaped current-format documents.
//
// --mode gen is the translator: it regenerates GenStoreFields.v from the Go
// sources of $VERIF_REPO (see gen.go).
package main

import (
	"context"
	stdjson "encoding/json"
	"flag"
	"fmt"
	"os"
	"path/filepath"
	"reflect"
	"sort"
	"strings"
	"time"
	"unicode/utf8"

	"github.com/conduitio/conduit-commons/database"
	"github.com/conduitio/conduit-commons/database/inmemory"
	"github.com/conduitio/conduit-commons/opencdc"
	"github.com/conduitio/conduit/pkg/connector"
	"github.com/conduitio/conduit/pkg/foundation/cerrors"
	"github.com/conduitio/conduit/pkg/foundation/log"
	"github.com/conduitio/conduit/pkg/lifecycle"
	lifecyclepoc "github.com/conduitio/conduit/pkg/lifecycle-poc"
	"github.com/conduitio/conduit/pkg/pipeline"
	connectorPlugin "github.com/conduitio/conduit/pkg/plugin/connector"
	"github.com/conduitio/conduit/pkg/processor"

	"verifharness/lib/hx"
)

// ---------------------------------------------------------------- input schema
//
// Strings are lists of code points so that every Go string can be written down
// and shrunk; a value 0x110000+b stands for the raw (invalid UTF-8) byte b.

type jStr []int

type jTime struct {
	Y, Mo, D, H, Mi, S, Ns int
	Off                    int    // zone offset in minutes
	Loc                    string // "utc" | "fixed" | "named" | "mono" (carries a monotonic reading)
}

type jKV struct {
	K jStr
	V jStr
}

type jPos struct {
	K jStr
	V []int // nil = nil position
}

type jState struct {
	Kind      string // "source" | "dest"
	Pos       []int  // source: nil = nil slice
	Positions []jPos // dest: nil = nil map
	HasMap    bool   // dest: Positions is a non-nil (possibly empty) map
}

type jCase struct {
	Kind string // conn | pipe | proc | old041 | docconn | docpipe | docproc

	ID      jStr
	Created jTime
	Updated jTime
	Prov    int

	// connector
	Type         int
	Name         jStr
	Settings     []jKV
	HasSettings  bool
	Pipeline     jStr
	Plugin       jStr
	Procs        []jStr
	HasProcs     bool
	State        *jState
	LastName     jStr
	LastSettings []jKV
	HasLast      bool

	// pipeline
	Desc     jStr
	Error    jStr
	DLQ      *jDLQ
	Conns    []jStr
	HasConns bool
	Status   int

	// processor
	Cond       jStr
	ParentID   jStr
	ParentType int
	Workers    int

	// doc* kinds: the document put into the DB as is
	Doc string
}

type jDLQ struct {
	Plugin      jStr
	Settings    []jKV
	HasSettings bool
	Size, Thr   int64
}

func (s jStr) String() string {
	var b strings.Builder
	for _, c := range s {
		switch {
		case c >= 0x110000:
			b.WriteByte(byte(c - 0x110000))
		case c >= 0xD800 && c <= 0xDFFF:
			b.WriteString("\xed\xa0\x80") // not expressible: an invalid sequence
		default:
			b.WriteRune(rune(c))
		}
	}
	return b.String()
}

// toJ converts a Go string to code points, raw invalid bytes as 0x110000+b.
func toJ(s string) jStr {
	out := jStr{}
	for len(s) > 0 {
		r, n := utf8.DecodeRuneInString(s)
		if r == utf8.RuneError && n == 1 {
			out = append(out, 0x110000+int(s[0]))
		} else {
			out = append(out, int(r))
		}
		s = s[n:]
	}
	return out
}

func (t jTime) Time() time.Time {
	var loc *time.Location
	switch t.Loc {
	case "utc":
		loc = time.UTC
	default:
		loc = time.FixedZone("", t.Off*60)
		if t.Loc == "named" {
			loc = time.FixedZone("VRF", t.Off*60)
		}
	}
	v := time.Date(t.Y, time.Month(t.Mo), t.D, t.H, t.Mi, t.S, t.Ns, loc)
	if t.Loc == "mono" {
		now := time.Now()
		v = now.Add(v.Sub(now)).In(loc)
	}
	return v
}

func fromTime(v time.Time) jTime {
	_, off := v.Zone()
	return jTime{Y: v.Year(), Mo: int(v.Month()), D: v.Day(), H: v.Hour(), Mi: v.Minute(), S: v.Second(),
		Ns: v.Nanosecond(), Off: off / 60, Loc: fmt.Sprintf("sec%d", off%60)}
}

func kvMap(kvs []jKV, has bool) map[string]string {
	if !has {
		return nil
	}
	m := map[string]string{}
	for _, kv := range kvs {
		m[kv.K.String()] = kv.V.String()
	}
	return m
}

func strList(l []jStr, has bool) []string {
	if !has {
		return nil
	}
	out := []string{}
	for _, s := range l {
		out = append(out, s.String())
	}
	return out
}

func toBytes(p []int) []byte {
	if p == nil {
		return nil
	}
	b := make([]byte, len(p))
	for i, x := range p {
		b[i] = byte(x)
	}
	return b
}

func fromBytes(b []byte) []int {
	if b == nil {
		return nil
	}
	out := make([]int, len(b))
	for i, x := range b {
		out[i] = int(x)
	}
	return out
}

// ---------------------------------------------------------------- Coq rendering

// packed renders numbers as chunks of eight primitive-int words; per = fields per word.
func packed(fn string, s []int, per int, digits string) string {
	if len(s) == 0 {
		return "(" + fn + " [])"
	}
	var b strings.Builder
	b.Grow(32 + 9*len(s))
	b.WriteString("(" + fn + " [")
	words := 0
	for i := 0; i < len(s); i += per {
		if words%8 == 0 {
			if words > 0 {
				b.WriteString(";")
			}
			b.WriteString("C8")
		}
		b.WriteString(" 0x1")
		for j := i; j < i+per && j < len(s); j++ {
			fmt.Fprintf(&b, digits, s[j])
		}
		words++
	}
	for ; words%8 != 0; words++ {
		b.WriteString(" 0")
	}
	b.WriteString("])")
	return b.String()
}

var knownKeys = map[string]bool{"ID": true, "Type": true, "Config": true, "Name": true, "Settings": true, "PipelineID": true,
	"Plugin": true, "ProcessorIDs": true, "State": true, "Position": true, "Positions": true, "ProvisionedBy": true,
	"CreatedAt": true, "UpdatedAt": true, "LastActiveConfig": true, "Description": true, "Error": true, "DLQ": true,
	"WindowSize": true, "WindowNackThreshold": true, "ConnectorIDs": true, "Status": true, "Condition": true,
	"Parent": true, "Workers": true}

func cStr(s jStr) string {
	if len(s) >= 2 && len(s) <= 20 {
		if str := s.String(); knownKeys[str] {
			return "k" + str
		}
	}
	return packed("U", s, 2, "%06x")
}
func cBytes(p []int) string { return packed("Y", p, 7, "%02x") }

func cOptBytes(p []int) string {
	if p == nil {
		return "None"
	}
	return "(Some " + cBytes(p) + ")"
}

func cZ(n int64) string { return fmt.Sprintf("(%d)%%Z", n) }

func cTime(t jTime) string {
	return fmt.Sprintf("(mkTime %d %d %d %d %d %d %d %s)", t.Y, t.Mo, t.D, t.H, t.Mi, t.S, t.Ns, cZ(int64(t.Off)))
}

func sortKVs(kvs []jKV) []jKV {
	out := append([]jKV{}, kvs...)
	sort.SliceStable(out, func(i, j int) bool { return out[i].K.String() < out[j].K.String() })
	// a Go map keeps the last value of a repeated key
	var ded []jKV
	for i, kv := range out {
		if i+1 < len(out) && out[i+1].K.String() == kv.K.String() {
			continue
		}
		ded = append(ded, kv)
	}
	return ded
}

func cSmap(kvs []jKV, has bool) string {
	if !has {
		return "None"
	}
	items := []string{}
	for _, kv := range sortKVs(kvs) {
		items = append(items, "("+cStr(kv.K)+", "+cStr(kv.V)+")")
	}
	return "(Some " + hx.List(items) + ")"
}

func cSlist(l []jStr, has bool) string {
	if !has {
		return "None"
	}
	items := []string{}
	for _, s := range l {
		items = append(items, cStr(s))
	}
	return "(Some " + hx.List(items) + ")"
}

func cState(s *jState) string {
	if s == nil {
		return "CNoState"
	}
	if s.Kind == "source" {
		return "(CSource " + cOptBytes(s.Pos) + ")"
	}
	if !s.HasMap {
		return "(CDest None)"
	}
	ps := append([]jPos{}, s.Positions...)
	sort.SliceStable(ps, func(i, j int) bool { return ps[i].K.String() < ps[j].K.String() })
	items := []string{}
	for i, p := range ps {
		if i+1 < len(ps) && ps[i+1].K.String() == p.K.String() {
			continue
		}
		items = append(items, "("+cStr(p.K)+", "+cOptBytes(p.V)+")")
	}
	return "(CDest (Some " + hx.List(items) + "))"
}

func cConn(c *jCase) string {
	return fmt.Sprintf("(mkConnector %s %s (mkCConfig %s %s) %s %s %s %s %s %s %s (mkCConfig %s %s))",
		cStr(c.ID), cZ(int64(c.Type)), cStr(c.Name), cSmap(c.Settings, c.HasSettings), cStr(c.Pipeline), cStr(c.Plugin),
		cSlist(c.Procs, c.HasProcs), cState(c.State), cZ(int64(c.Prov)), cTime(c.Created), cTime(c.Updated),
		cStr(c.LastName), cSmap(c.LastSettings, c.HasLast))
}

func cPipe(c *jCase) string {
	d := c.DLQ
	if d == nil {
		d = &jDLQ{}
	}
	return fmt.Sprintf("(mkPipeline %s (mkPConfig %s %s) %s %s %s %s (mkDlq %s %s %s %s) %s %s %s)",
		cStr(c.ID), cStr(c.Name), cStr(c.Desc), cStr(c.Error), cTime(c.Created), cTime(c.Updated), cZ(int64(c.Prov)),
		cStr(d.Plugin), cSmap(d.Settings, d.HasSettings), cZ(d.Size), cZ(d.Thr),
		cSlist(c.Conns, c.HasConns), cSlist(c.Procs, c.HasProcs), cZ(int64(c.Status)))
}

func cProc(c *jCase) string {
	return fmt.Sprintf("(mkProcessor %s %s %s %s %s %s (mkParent %s %s) (mkRConfig %s %s))",
		cStr(c.ID), cTime(c.Created), cTime(c.Updated), cZ(int64(c.Prov)), cStr(c.Plugin), cStr(c.Cond),
		cStr(c.ParentID), cZ(int64(c.ParentType)), cSmap(c.Settings, c.HasSettings), cZ(int64(c.Workers)))
}

func cOpt(ok bool, s string) string {
	if !ok {
		return "None"
	}
	return "(Some " + s + ")"
}

// ---------------------------------------------------------------- Go instances <-> schema

func buildConn(c *jCase) *connector.Instance {
	i := &connector.Instance{
		ID:               c.ID.String(),
		Type:             connector.Type(c.Type),
		Config:           connector.Config{Name: c.Name.String(), Settings: kvMap(c.Settings, c.HasSettings)},
		PipelineID:       c.Pipeline.String(),
		Plugin:           c.Plugin.String(),
		ProcessorIDs:     strList(c.Procs, c.HasProcs),
		ProvisionedBy:    connector.ProvisionType(c.Prov),
		CreatedAt:        c.Created.Time(),
		UpdatedAt:        c.Updated.Time(),
		LastActiveConfig: connector.Config{Name: c.LastName.String(), Settings: kvMap(c.LastSettings, c.HasLast)},
	}
	if s := c.State; s != nil {
		if s.Kind == "source" {
			i.State = connector.SourceState{Position: opencdc.Position(toBytes(s.Pos))}
		} else {
			var m map[string]opencdc.Position
			if s.HasMap {
				m = map[string]opencdc.Position{}
				for _, p := range s.Positions {
					m[p.K.String()] = opencdc.Position(toBytes(p.V))
				}
			}
			i.State = connector.DestinationState{Positions: m}
		}
	}
	return i
}

func mapKVs(m map[string]string) ([]jKV, bool) {
	if m == nil {
		return nil, false
	}
	out := []jKV{}
	for k, v := range m {
		out = append(out, jKV{toJ(k), toJ(v)})
	}
	return sortKVs(out), true
}

func listStrs(l []string) ([]jStr, bool) {
	if l == nil {
		return nil, false
	}
	out := []jStr{}
	for _, s := range l {
		out = append(out, toJ(s))
	}
	return out, true
}

// readConn turns a loaded instance into the schema; ok=false if it holds
// something the schema cannot express (a State of an unexpected Go type).
func readConn(i *connector.Instance) (*jCase, bool) {
	c := &jCase{Kind: "conn", ID: toJ(i.ID), Type: int(i.Type), Name: toJ(i.Config.Name), Pipeline: toJ(i.PipelineID),
		Plugin: toJ(i.Plugin), Prov: int(i.ProvisionedBy), Created: fromTime(i.CreatedAt), Updated: fromTime(i.UpdatedAt),
		LastName: toJ(i.LastActiveConfig.Name)}
	c.Settings, c.HasSettings = mapKVs(i.Config.Settings)
	c.LastSettings, c.HasLast = mapKVs(i.LastActiveConfig.Settings)
	c.Procs, c.HasProcs = listStrs(i.ProcessorIDs)
	switch st := i.State.(type) {
	case nil:
	case connector.SourceState:
		c.State = &jState{Kind: "source", Pos: fromBytes(st.Position)}
	case connector.DestinationState:
		s := &jState{Kind: "dest"}
		if st.Positions != nil {
			s.HasMap = true
			s.Positions = []jPos{}
			for k, v := range st.Positions {
				s.Positions = append(s.Positions, jPos{toJ(k), fromBytes(v)})
			}
			sort.Slice(s.Positions, func(a, b int) bool { return s.Positions[a].K.String() < s.Positions[b].K.String() })
		}
		c.State = s
	default:
		return c, false
	}
	return c, true
}

func buildPipe(c *jCase) *pipeline.Instance {
	d := c.DLQ
	if d == nil {
		d = &jDLQ{}
	}
	p := &pipeline.Instance{
		ID:            c.ID.String(),
		Config:        pipeline.Config{Name: c.Name.String(), Description: c.Desc.String()},
		Error:         c.Error.String(),
		CreatedAt:     c.Created.Time(),
		UpdatedAt:     c.Updated.Time(),
		ProvisionedBy: pipeline.ProvisionType(c.Prov),
		DLQ: pipeline.DLQ{Plugin: d.Plugin.String(), Settings: kvMap(d.Settings, d.HasSettings),
			WindowSize: int(d.Size), WindowNackThreshold: int(d.Thr)},
		ConnectorIDs: strList(c.Conns, c.HasConns),
		ProcessorIDs: strList(c.Procs, c.HasProcs),
	}
	p.SetStatus(pipeline.Status(c.Status))
	return p
}

func readPipe(p *pipeline.Instance) *jCase {
	c := &jCase{Kind: "pipe", ID: toJ(p.ID), Name: toJ(p.Config.Name), Desc: toJ(p.Config.Description), Error: toJ(p.Error),
		Created: fromTime(p.CreatedAt), Updated: fromTime(p.UpdatedAt), Prov: int(p.ProvisionedBy), Status: int(p.GetStatus())}
	d := &jDLQ{Plugin: toJ(p.DLQ.Plugin), Size: int64(p.DLQ.WindowSize), Thr: int64(p.DLQ.WindowNackThreshold)}
	d.Settings, d.HasSettings = mapKVs(p.DLQ.Settings)
	c.DLQ = d
	c.Conns, c.HasConns = listStrs(p.ConnectorIDs)
	c.Procs, c.HasProcs = listStrs(p.ProcessorIDs)
	return c
}

func buildProc(c *jCase) *processor.Instance {
	return &processor.Instance{
		ID:            c.ID.String(),
		CreatedAt:     c.Created.Time(),
		UpdatedAt:     c.Updated.Time(),
		ProvisionedBy: processor.ProvisionType(c.Prov),
		Plugin:        c.Plugin.String(),
		Condition:     c.Cond.String(),
		Parent:        processor.Parent{ID: c.ParentID.String(), Type: processor.ParentType(c.ParentType)},
		Config:        processor.Config{Settings: kvMap(c.Settings, c.HasSettings), Workers: c.Workers},
	}
}

func readProc(p *processor.Instance) *jCase {
	c := &jCase{Kind: "proc", ID: toJ(p.ID), Created: fromTime(p.CreatedAt), Updated: fromTime(p.UpdatedAt), Prov: int(p.ProvisionedBy),
		Plugin: toJ(p.Plugin), Cond: toJ(p.Condition), ParentID: toJ(p.Parent.ID), ParentType: int(p.Parent.Type), Workers: p.Config.Workers}
	c.Settings, c.HasSettings = mapKVs(p.Config.Settings)
	return c
}

// ---------------------------------------------------------------- restart

type spyConnectors struct{}

func (spyConnectors) Get(context.Context, string) (*connector.Instance, error) {
	return nil, cerrors.New("verif: no connectors in this harness")
}
func (spyConnectors) Create(context.Context, string, connector.Type, string, string, connector.Config, connector.ProvisionType) (*connector.Instance, error) {
	return nil, cerrors.New("verif: no connectors in this harness")
}
func (spyConnectors) WaitPersisted() {}

type spyProcessors struct{}

func (spyProcessors) Get(context.Context, string) (*processor.Instance, error) {
	return nil, cerrors.New("verif: no processors in this harness")
}
func (spyProcessors) MakeRunnableProcessor(context.Context, *processor.Instance) (*processor.RunnableProcessor, error) {
	return nil, cerrors.New("verif: no processors in this harness")
}
func (spyProcessors) MakeRunnableProcessorForReconfigure(context.Context, *processor.Instance) (*processor.RunnableProcessor, error) {
	return nil, cerrors.New("verif: no processors in this harness")
}

type spyPlugins struct{}

func (spyPlugins) NewDispenser(log.CtxLogger, string, string) (connectorPlugin.Dispenser, error) {
	return nil, cerrors.New("verif: no plugins in this harness")
}

// pipelineView hides the pipeline the lifecycle service must not be able to
// really start: it only sees instances without connectors, so Start fails in
// buildRunnablePipeline after the status check - Init's returned error tells
// whether a start was attempted.
type pipelineView struct{ *pipeline.Service }

type restartResult struct {
	err                  string
	conn                 *connector.Instance
	pipe                 *pipeline.Instance
	proc                 *processor.Instance
	startedV1, startedV2 bool
}

func restart(db database.DB, kind string, id string) (res restartResult) {
	ctx := context.Background()
	lg := log.Nop()
	defer func() {
		if r := recover(); r != nil {
			res.err = fmt.Sprintf("panic: %v", r)
		}
	}()
	switch kind {
	case "conn":
		svc := connector.NewService(lg, db, connector.NewPersister(lg, db, time.Second, 1))
		if err := svc.Init(ctx); err != nil {
			res.err = "init: " + err.Error()
			return
		}
		i, err := svc.Get(ctx, id)
		if err != nil {
			res.err = "get: " + err.Error()
			return
		}
		res.conn = i
	case "pipe":
		svc := pipeline.NewService(lg, db)
		if err := svc.Init(ctx); err != nil {
			res.err = "init: " + err.Error()
			return
		}
		i, err := svc.Get(ctx, id)
		if err != nil {
			res.err = "get: " + err.Error()
			return
		}
		res.pipe = i
		// which pipelines do the lifecycle services start again? Start cannot
		// succeed here (no connector service), so "Init returned an error" is
		// "a start was attempted". The status is put back afterwards.
		st := i.GetStatus()
		v1 := lifecycle.NewService(lg, &lifecycle.ErrRecoveryCfg{}, spyConnectors{}, spyProcessors{}, spyPlugins{}, svc)
		res.startedV1 = v1.Init(ctx) != nil
		i.SetStatus(st)
		v2 := lifecyclepoc.NewService(lg, &lifecycle.ErrRecoveryCfg{}, spyConnectors{}, spyProcessors{}, spyPlugins{}, svc, true)
		res.startedV2 = v2.Init(ctx) != nil
		i.SetStatus(st)
	case "proc":
		svc := processor.NewService(lg, db, nil)
		if err := svc.Init(ctx); err != nil {
			res.err = "init: " + err.Error()
			return
		}
		i, err := svc.Get(ctx, id)
		if err != nil {
			res.err = "get: " + err.Error()
			return
		}
		res.proc = i
	}
	return
}

// ---------------------------------------------------------------- one case

type observed struct {
	Stored  string `json:"stored,omitempty"`
	SetErr  string `json:"set_err,omitempty"`
	LoadErr string `json:"load_err,omitempty"`
	Loaded  *jCase `json:"loaded,omitempty"`
	V1      bool   `json:"started_v1,omitempty"`
	V2      bool   `json:"started_v2,omitempty"`
	Note    string `json:"note,omitempty"`
}

func storedTerm(raw []byte) (string, string) {
	if len(raw) == 0 {
		return "None", ""
	}
	t, err := parseRaw(raw)
	if err != nil {
		return "None", "stored bytes are not JSON: " + err.Error()
	}
	return "(Some " + t.coq() + ")", ""
}

// expectGo is the harness' own (untrusted, filter only) idea of what must come
// back; a case that differs is always handed to the Coq checker.
func sanitizeJ(s jStr) jStr {
	out := jStr{}
	for _, c := range s {
		if c >= 0x110000 || (c >= 0xD800 && c <= 0xDFFF) {
			c = 0xFFFD
		}
		out = append(out, c)
	}
	return out
}

func normCase(c *jCase) any {
	// JSON form with strings sanitised, maps sorted, zone reduced to the offset
	b, _ := stdjson.Marshal(c)
	var v any
	_ = stdjson.Unmarshal(b, &v)
	var walk func(x any) any
	walk = func(x any) any {
		switch t := x.(type) {
		case map[string]any:
			delete(t, "Loc")
			for k, e := range t {
				t[k] = walk(e)
			}
			return t
		case []any:
			allNum := len(t) > 0
			for _, e := range t {
				if _, ok := e.(float64); !ok {
					allNum = false
				}
			}
			for i, e := range t {
				if f, ok := e.(float64); ok && allNum && (f >= 0x110000 || (f >= 0xD800 && f <= 0xDFFF)) {
					t[i] = float64(0xFFFD)
				} else {
					t[i] = walk(e)
				}
			}
			return t
		}
		return x
	}
	return walk(v)
}

func sameCase(a, b *jCase) bool {
	a2, b2 := *a, *b
	a2.Settings, b2.Settings = sortKVs(a2.Settings), sortKVs(b2.Settings)
	a2.LastSettings, b2.LastSettings = sortKVs(a2.LastSettings), sortKVs(b2.LastSettings)
	if a2.DLQ != nil && b2.DLQ != nil {
		da, db := *a2.DLQ, *b2.DLQ
		da.Settings, db.Settings = sortKVs(da.Settings), sortKVs(db.Settings)
		a2.DLQ, b2.DLQ = &da, &db
	}
	if a2.State != nil && b2.State != nil {
		sa, sb := *a2.State, *b2.State
		sort.SliceStable(sa.Positions, func(i, j int) bool { return sa.Positions[i].K.String() < sa.Positions[j].K.String() })
		sort.SliceStable(sb.Positions, func(i, j int) bool { return sb.Positions[i].K.String() < sb.Positions[j].K.String() })
		a2.State, b2.State = &sa, &sb
	}
	return reflect.DeepEqual(normCase(&a2), normCase(&b2))
}

type runner struct {
	w      *hx.Writer
	sample int
	count  int
	forced int
}

// run executes one case; emits it when sampled or when the harness' own
// comparison sees a difference.
func (rn *runner) run(c *jCase) {
	ctx := context.Background()
	db := &inmemory.DB{}
	lg := log.Nop()
	var o observed
	var term string
	suspicious := false
	id := c.ID.String()
	switch c.Kind {
	case "conn":
		inst := buildConn(c)
		in, _ := readConn(inst) // the input as the model sees it (times as Go reports them)
		in.Kind = "conn"
		err := connector.NewStore(db, lg).Set(ctx, id, inst)
		if err != nil {
			o.SetErr = err.Error()
		}
		raw, _ := db.Get(ctx, "connector:instance:"+id)
		o.Stored = string(raw)
		st, note := storedTerm(raw)
		o.Note = note
		res := restart(db, "conn", id)
		o.LoadErr = res.err
		loaded := "None"
		if res.conn != nil {
			l, ok := readConn(res.conn)
			o.Loaded = l
			if ok {
				loaded = "(Some " + cConn(l) + ")"
				exp := *in
				if !sameCase(&exp, l) {
					suspicious = true
				}
			} else {
				o.Note += " loaded State has an unexpected Go type"
				suspicious = true
			}
		} else if c.Prov != 2 {
			suspicious = true
		}
		term = fmt.Sprintf("KConn %s %s %s", cConn(in), st, loaded)
	case "pipe":
		inst := buildPipe(c)
		in := readPipe(inst)
		err := pipeline.NewStore(db).Set(ctx, id, inst)
		if err != nil {
			o.SetErr = err.Error()
		}
		raw, _ := db.Get(ctx, "pipeline:instance:"+id)
		o.Stored = string(raw)
		st, note := storedTerm(raw)
		o.Note = note
		res := restart(db, "pipe", id)
		o.LoadErr, o.V1, o.V2 = res.err, res.startedV1, res.startedV2
		loaded := "None"
		if res.pipe != nil {
			l := readPipe(res.pipe)
			o.Loaded = l
			loaded = "(Some " + cPipe(l) + ")"
			exp := *in
			if exp.Status == 1 {
				exp.Status = 2
				if !res.startedV1 || !res.startedV2 {
					suspicious = true
				}
			}
			if !sameCase(&exp, l) {
				suspicious = true
			}
		} else {
			suspicious = true
		}
		term = fmt.Sprintf("KPipe %s %s %s %s %s", cPipe(in), st, loaded, hx.Bool(res.startedV1), hx.Bool(res.startedV2))
	case "proc":
		inst := buildProc(c)
		in := readProc(inst)
		err := processor.NewStore(db).Set(ctx, id, inst)
		if err != nil {
			o.SetErr = err.Error()
		}
		raw, _ := db.Get(ctx, "processor:instance:"+id)
		o.Stored = string(raw)
		st, note := storedTerm(raw)
		o.Note = note
		res := restart(db, "proc", id)
		o.LoadErr = res.err
		loaded := "None"
		if res.proc != nil {
			l := readProc(res.proc)
			o.Loaded = l
			loaded = "(Some " + cProc(l) + ")"
			if !sameCase(in, l) {
				suspicious = true
			}
		} else {
			suspicious = true
		}
		term = fmt.Sprintf("KProc %s %s %s", cProc(in), st, loaded)
	case "old041":
		inst := buildConn(c)
		in, _ := readConn(inst)
		doc := pre041Doc(inst)
		_ = db.Set(ctx, "connector:connector:"+id, doc)
		o.Stored = string(doc)
		dt, err := parseRaw(doc)
		if err != nil {
			panic(err)
		}
		res := restart(db, "conn", id)
		o.LoadErr = res.err
		loaded := "None"
		if res.conn != nil {
			l, ok := readConn(res.conn)
			o.Loaded = l
			if ok {
				loaded = "(Some " + cConn(l) + ")"
			}
		}
		if old, _ := db.Get(ctx, "connector:connector:"+id); len(old) != 0 && res.conn != nil {
			o.Note = "old key still present after migration"
		}
		suspicious = true // few of them: always evaluated
		term = fmt.Sprintf("KOld041 %s %s %s", cConn(in), dt.coq(), loaded)
	case "docconn", "docpipe", "docproc":
		kind := c.Kind[3:]
		prefix := map[string]string{"conn": "connector:instance:", "pipe": "pipeline:instance:", "proc": "processor:instance:"}[kind]
		dt, err := parseRaw([]byte(c.Doc))
		if err != nil {
			panic(err)
		}
		_ = db.Set(ctx, prefix+id, []byte(c.Doc))
		res := restart(db, kind, id)
		o.LoadErr, o.V1, o.V2 = res.err, res.startedV1, res.startedV2
		loaded := "None"
		switch {
		case res.conn != nil:
			l, ok := readConn(res.conn)
			o.Loaded = l
			if ok {
				loaded = "(Some " + cConn(l) + ")"
			}
		case res.pipe != nil:
			o.Loaded = readPipe(res.pipe)
			loaded = "(Some " + cPipe(o.Loaded) + ")"
		case res.proc != nil:
			o.Loaded = readProc(res.proc)
			loaded = "(Some " + cProc(o.Loaded) + ")"
		}
		suspicious = true
		switch kind {
		case "conn":
			term = fmt.Sprintf("KDocConn %s %s", dt.coq(), loaded)
		case "pipe":
			term = fmt.Sprintf("KDocPipe %s %s %s %s", dt.coq(), loaded, hx.Bool(res.startedV1), hx.Bool(res.startedV2))
		default:
			term = fmt.Sprintf("KDocProc %s %s", dt.coq(), loaded)
		}
	default:
		panic("unknown kind " + c.Kind)
	}
	rn.count++
	if suspicious || rn.sample <= 1 || rn.count%rn.sample == 0 {
		if suspicious && rn.sample > 1 {
			rn.forced++
		}
		rn.w.Add(map[string]any{"input": c, "observed": o}, term)
	}
}

// pre041Doc writes a connector the way Conduit <= 0.4.0 stored it (encoding/json).
func pre041Doc(i *connector.Instance) []byte {
	type cfg struct {
		Name         string
		Settings     map[string]string
		Plugin       string
		PipelineID   string
		ProcessorIDs []string
	}
	type data struct {
		XID            string
		XConfig        cfg
		XState         any
		XProvisionedBy int
		XCreatedAt     time.Time
		XUpdatedAt     time.Time
	}
	type old struct {
		Type string
		Data data
	}
	tn := "Type(?)"
	switch i.Type {
	case connector.TypeSource:
		tn = "Source"
	case connector.TypeDestination:
		tn = "Destination"
	}
	b, err := stdjson.Marshal(old{Type: tn, Data: data{XID: i.ID,
		XConfig:        cfg{i.Config.Name, i.Config.Settings, i.Plugin, i.PipelineID, i.ProcessorIDs},
		XState:         i.State,
		XProvisionedBy: int(i.ProvisionedBy), XCreatedAt: i.CreatedAt, XUpdatedAt: i.UpdatedAt}})
	if err != nil {
		panic(err)
	}
	return b
}

// ---------------------------------------------------------------- main

func repoPath() string {
	if p := os.Getenv("VERIF_REPO"); p != "" {
		return p
	}
	return "/repo"
}

func caseFromJSON(m map[string]any) *jCase {
	in, ok := m["input"].(map[string]any)
	if !ok {
		if cs, ok2 := m["case"].(map[string]any); ok2 { // a replay file written by the driver
			in, ok = cs["input"].(map[string]any)
		}
		if !ok {
			in = m
		}
	}
	b, err := stdjson.Marshal(in)
	if err != nil {
		panic(err)
	}
	var c jCase
	if err := stdjson.Unmarshal(b, &c); err != nil {
		panic(err)
	}
	if c.Kind == "" {
		panic("no kind")
	}
	return &c
}

func main() {
	sample := flag.Int("sample", 1, "hand every k-th case to the Coq checker (cases the harness finds suspicious always are)")
	xpart := flag.Int("xpart", 0, "exhaustive mode: this part")
	xparts := flag.Int("xparts", 1, "exhaustive mode: number of parts")
	o := hx.ParseFlags()
	if o.Mode == "gen" {
		if err := genFields(repoPath(), filepath.Join(o.Out, "GenStoreFields.v")); err != nil {
			fmt.Fprintln(os.Stderr, "translator:", err)
			os.Exit(3)
		}
		return
	}
	w, err := hx.NewWriter(o, "From Coq Require Import Uint63.\nFrom Verif Require Import Base.CaseCheck Codec.StoreCodec Codec.Check.", "ccase")
	if err != nil {
		fmt.Fprintln(os.Stderr, err)
		os.Exit(2)
	}
	rn := &runner{w: w, sample: *sample}
	switch {
	case o.Replay != "":
		cs, err := hx.ReadJSONL(o.Replay)
		if err != nil {
			fmt.Fprintln(os.Stderr, err)
			os.Exit(2)
		}
		rn.sample = 1
		for _, m := range cs {
			var c *jCase
			if !hx.Try(func() { c = caseFromJSON(m) }) {
				continue
			}
			hx.Try(func() { rn.run(c) })
		}
	case o.Mode == "exhaustive":
		exhaustive(rn, *xpart, *xparts)
	default:
		if o.Shard == 0 {
			for _, c := range fixtures(repoPath()) {
				rn.run(c)
			}
			// hand-written regression shapes: /verif/corpus/C17/*.jsonl (the binary lives in /verif/out/C17)
			files, _ := filepath.Glob(filepath.Join(filepath.Dir(os.Args[0]), "..", "..", "corpus", "C17", "*.jsonl"))
			for _, f := range files {
				cs, err := hx.ReadJSONL(f)
				if err != nil {
					continue
				}
				for _, m := range cs {
					var c *jCase
					if hx.Try(func() { c = caseFromJSON(m) }) {
						save := rn.sample
						rn.sample = 1
						rn.run(c)
						rn.sample = save
					}
				}
			}
		}
		root := hx.NewRand(o.Seed)
		for i := 0; i < o.N; i++ {
			r := root.Fork(uint64(o.Shard)<<32 | uint64(i))
			g := &gen{r: r, idx: i, shard: o.Shard, big: i%97 == 5}
			rn.run(g.gcase())
		}
	}
	if err := w.Close("chk"); err != nil {
		fmt.Fprintln(os.Stderr, err)
		os.Exit(2)
	}
	// instances executed on the real stores (all compared by the harness; the sampled ones and every
	// one the harness found different went to the Coq checker)
	st, _ := stdjson.Marshal(map[string]any{"executed": rn.count, "to_coq": w.Count(), "forced": rn.forced, "mode": o.Mode})
	_ = os.WriteFile(filepath.Join(o.Out, fmt.Sprintf("stats_%d.json", o.Shard)), st, 0o644)
	fmt.Printf("cases=%d executed=%d forced=%d\n", w.Count(), rn.count, rn.forced)
}
