package main

import (
	stdjson "encoding/json"
	"os"
	"path/filepath"

	"verifharness/lib/hx"
)

// Case generation. Every choice comes from the splitmix64 stream of the case.

type gen struct {
	r     *hx.Rand
	idx   int
	shard int
	big   bool // this case carries one very long string and one 4 KiB position
	usedB bool
}

// code points that need (or look like they need) special treatment somewhere
var nasty = []int{0, 1, 7, 8, 9, 10, 11, 12, 13, 0x1b, 0x1f, 0x20, 0x22, 0x26, 0x27, 0x2f, 0x3c, 0x3e, 0x5c, 0x7f,
	0x80, 0x85, 0xa0, 0xff, 0x100, 0x7ff, 0x800, 0x2027, 0x2028, 0x2029, 0x202a, 0xd7ff, 0xe000, 0xfeff, 0xfffd, 0xfffe, 0xffff,
	0x10000, 0x1f600, 0x1fffe, 0x2fffd, 0xe0001, 0xfffff, 0x100000, 0x10ffff, 'u', 'n', 'b', 'f', 'r', 't', 'd', 'D', '8', '0', 'c', 'e'}

func (g *gen) cp() int {
	for {
		p := g.r.Intn(17)
		c := p<<16 | g.r.Intn(0x10000)
		if c >= 0xD800 && c <= 0xDFFF {
			continue
		}
		return c
	}
}

func (g *gen) word() jStr {
	const al = "abcdefghijklmnopqrstuvwxyzABCDEFGHIJKLMNOPQRSTUVWXYZ0123456789-_:."
	n := g.r.Range(1, 14)
	s := make(jStr, n)
	for i := range s {
		s[i] = int(al[g.r.Intn(len(al))])
	}
	return s
}

func (g *gen) str() jStr {
	if g.big && !g.usedB && g.r.Chance(1, 3) {
		g.usedB = true
		return g.long()
	}
	switch g.r.Intn(12) {
	case 0:
		return jStr{}
	case 1, 2, 3, 4:
		return g.word()
	case 5, 6:
		n := g.r.Range(1, 12)
		s := make(jStr, n)
		for i := range s {
			s[i] = nasty[g.r.Intn(len(nasty))]
		}
		return s
	case 7, 8:
		n := g.r.Range(1, 10)
		s := make(jStr, n)
		for i := range s {
			s[i] = g.cp()
		}
		return s
	case 9:
		// something that looks like an escape sequence or a template
		pool := []string{`A`, `😀`, `\n`, `\\`, `"`, `{{ eq .Metadata["key"] "value" }}`, `</script>`, `a&b<c>d`, "line1\nline2\r\n\ttab", `\`, `\"`, `"\`}
		return toJ(pool[g.r.Intn(len(pool))])
	case 10:
		if g.r.Chance(1, 6) { // a Go string that is not valid UTF-8
			s := g.word()
			s[g.r.Intn(len(s))] = 0x110000 + []int{0x80, 0xbf, 0xc0, 0xc1, 0xe0, 0xed, 0xf4, 0xf5, 0xff}[g.r.Intn(9)]
			return s
		}
		return g.word()
	default:
		n := g.r.Range(1, 40)
		s := make(jStr, n)
		for i := range s {
			switch g.r.Intn(4) {
			case 0:
				s[i] = nasty[g.r.Intn(len(nasty))]
			case 1:
				s[i] = g.cp()
			default:
				s[i] = 0x20 + g.r.Intn(0x5f)
			}
		}
		return s
	}
}

// key is a map key / id: valid Unicode only (two invalid keys could collide after sanitising)
func (g *gen) key() jStr {
	for {
		s := g.str()
		ok := len(s) < 200
		for _, c := range s {
			if c >= 0x110000 {
				ok = false
			}
		}
		if ok {
			return s
		}
	}
}

func (g *gen) id() jStr {
	if g.r.Chance(1, 10) {
		k := g.key()
		if len(k) > 0 {
			return k
		}
	}
	return g.word()
}

// long strings: escapes placed around the offsets where a streaming decoder refills its buffer
func (g *gen) long() jStr {
	n := []int{300, 511, 512, 513, 1000, 1500, 2047, 2048, 3000, 4095, 4096, 5000}[g.r.Intn(12)] + g.r.Intn(3)
	s := make(jStr, n)
	mode := g.r.Intn(3)
	for i := range s {
		switch {
		case mode == 0:
			s[i] = 'a' + g.r.Intn(26)
		case mode == 1 && g.r.Chance(1, 8):
			s[i] = nasty[g.r.Intn(len(nasty))]
		case mode == 2 && g.r.Chance(1, 3):
			s[i] = g.cp()
		default:
			s[i] = 0x20 + g.r.Intn(0x5f)
		}
	}
	for k := 0; k < 12; k++ {
		at := (g.r.Range(1, 10))*256 + g.r.Range(-8, 8)
		if at >= 0 && at < n {
			s[at] = nasty[g.r.Intn(len(nasty))]
		}
	}
	return s
}

func (g *gen) smap() ([]jKV, bool) {
	switch g.r.Intn(6) {
	case 0:
		return nil, false
	case 1:
		return []jKV{}, true
	}
	n := g.r.Range(1, 5)
	m := map[string]bool{}
	out := []jKV{}
	for i := 0; i < n; i++ {
		k := g.key()
		if m[k.String()] {
			continue
		}
		m[k.String()] = true
		out = append(out, jKV{k, g.str()})
	}
	return out, true
}

func (g *gen) slist() ([]jStr, bool) {
	switch g.r.Intn(6) {
	case 0:
		return nil, false
	case 1:
		return []jStr{}, true
	}
	n := g.r.Range(1, 5)
	out := []jStr{}
	for i := 0; i < n; i++ {
		if g.r.Chance(1, 5) && len(out) > 0 {
			out = append(out, out[g.r.Intn(len(out))]) // a repeated reference keeps its place
			continue
		}
		out = append(out, g.id())
	}
	return out, true
}

func (g *gen) pos() []int {
	if g.big && g.r.Chance(1, 2) {
		p := make([]int, 4096)
		for i := range p {
			p[i] = g.r.Intn(256)
		}
		return p
	}
	switch g.r.Intn(10) {
	case 0:
		return nil
	case 1:
		return []int{}
	case 2: // every byte value, in order, starting somewhere
		n := g.r.Range(1, 64)
		st := (g.idx*61 + g.shard*7) % 256
		p := make([]int, n)
		for i := range p {
			p[i] = (st + i) % 256
		}
		return p
	case 3: // text-like position
		w := g.word()
		return []int(w)
	case 4: // bytes that are not UTF-8
		n := g.r.Range(1, 12)
		p := make([]int, n)
		for i := range p {
			p[i] = []int{0x80, 0xbf, 0xc0, 0xc3, 0xe2, 0xed, 0xa0, 0xf0, 0xf4, 0xff, 0xfe, 0x00, 0x22, 0x5c}[g.r.Intn(14)]
		}
		return p
	}
	n := g.r.Range(0, 64)
	p := make([]int, n)
	for i := range p {
		p[i] = g.r.Intn(256)
	}
	return p
}

func leapYear(y int) bool { return y%4 == 0 && (y%100 != 0 || y%400 == 0) }

func (g *gen) tm() jTime {
	t := jTime{Loc: "utc"}
	switch g.r.Intn(12) {
	case 0:
		return jTime{Y: 1, Mo: 1, D: 1, Loc: "utc"} // the zero time.Time
	case 1:
		t.Y = []int{0, 1, 9999, 1969, 1970, 2038, 1000, 999, 100, 99, 10, 9}[g.r.Intn(12)]
	default:
		t.Y = g.r.Range(1990, 2060)
	}
	t.Mo = g.r.Range(1, 12)
	dim := []int{31, 28, 31, 30, 31, 30, 31, 31, 30, 31, 30, 31}[t.Mo-1]
	if t.Mo == 2 && leapYear(t.Y) {
		dim = 29
	}
	if g.r.Chance(1, 4) {
		t.D = dim
	} else {
		t.D = g.r.Range(1, dim)
	}
	t.H, t.Mi, t.S = g.r.Range(0, 23), g.r.Range(0, 59), g.r.Range(0, 59)
	switch g.r.Intn(8) {
	case 0:
		t.Ns = 0
	case 1:
		t.Ns = 1
	case 2:
		t.Ns = 999999999
	case 3:
		t.Ns = g.r.Range(1, 9) * []int{1, 10, 100, 1000, 10000, 100000, 1000000, 10000000, 100000000}[g.r.Intn(9)]
	case 4:
		t.Ns = g.r.Range(0, 999) * 1000000 // milliseconds
	default:
		t.Ns = g.r.Intn(1000000000)
	}
	switch g.r.Intn(6) {
	case 0, 1:
	case 2:
		t.Loc = "fixed"
		t.Off = []int{0, 60, -60, 330, -570, 765, 14 * 60, -12 * 60, 23*60 + 59, -(23*60 + 59), 1, -1}[g.r.Intn(12)]
	case 3:
		t.Loc = "named"
		t.Off = g.r.Range(-14*4, 14*4) * 15
	case 4:
		t.Loc = "fixed"
		t.Off = g.r.Range(-1439, 1439)
	case 5:
		if t.Y >= 1990 && t.Y <= 2060 {
			t.Loc = "mono"
		}
	}
	return t
}

func (g *gen) num() int64 {
	switch g.r.Intn(10) {
	case 0:
		return 0
	case 1:
		return -int64(g.r.Range(1, 1000))
	case 2:
		return []int64{1<<63 - 1, -1 << 63, 1 << 53, 1<<53 + 1, -(1<<53 + 1), 1 << 31, 1<<32 + 1, 1e15, 1e18}[g.r.Intn(9)]
	}
	return int64(g.r.Range(0, 1000))
}

func (g *gen) gcase() *jCase {
	c := &jCase{ID: g.id(), Created: g.tm(), Updated: g.tm()}
	c.Prov = g.r.Intn(2)
	switch k := g.r.Intn(20); {
	case k < 9:
		g.conn(c)
	case k < 15:
		g.pipe(c)
	case k < 19:
		g.proc(c)
	default:
		g.conn(c)
		c.Kind = "old041"
		c.LastName, c.LastSettings, c.HasLast = jStr{}, nil, false
		// the old format is read by key listing; ids of that time were names/uuids
		c.ID = g.word()
	}
	return c
}

func (g *gen) state(kind string) *jState {
	if kind == "source" {
		return &jState{Kind: "source", Pos: g.pos()}
	}
	s := &jState{Kind: "dest"}
	switch g.r.Intn(6) {
	case 0:
		return s
	case 1:
		s.HasMap, s.Positions = true, []jPos{}
		return s
	}
	s.HasMap, s.Positions = true, []jPos{}
	seen := map[string]bool{}
	for i, n := 0, g.r.Range(1, 4); i < n; i++ {
		k := g.id()
		if seen[k.String()] {
			continue
		}
		seen[k.String()] = true
		s.Positions = append(s.Positions, jPos{k, g.pos()})
	}
	return s
}

func (g *gen) conn(c *jCase) {
	c.Kind = "conn"
	c.Type = 1 + g.r.Intn(2)
	c.Name = g.str()
	c.Settings, c.HasSettings = g.smap()
	c.Pipeline, c.Plugin = g.id(), g.str()
	c.Procs, c.HasProcs = g.slist()
	c.LastName = g.str()
	c.LastSettings, c.HasLast = g.smap()
	kind := "source"
	if c.Type == 2 {
		kind = "dest"
	}
	if !g.r.Chance(1, 6) {
		c.State = g.state(kind)
	}
	switch g.r.Intn(60) {
	case 0: // a persisted DLQ connector (older versions wrote them)
		c.Prov = 2
	case 1: // not a connector type
		c.Type = []int{0, 3, -1}[g.r.Intn(3)]
		if g.r.Bool() {
			c.State = nil
		}
	case 2: // state of the other kind
		if kind == "source" {
			c.State = g.state("dest")
		} else {
			c.State = g.state("source")
		}
	}
}

func (g *gen) pipe(c *jCase) {
	c.Kind = "pipe"
	c.Name, c.Desc = g.str(), g.str()
	if g.r.Chance(1, 3) {
		c.Error = g.str()
	}
	d := &jDLQ{Plugin: g.str(), Size: g.num(), Thr: g.num()}
	d.Settings, d.HasSettings = g.smap()
	if g.r.Chance(1, 4) {
		d = &jDLQ{Plugin: toJ("builtin:log"), Settings: []jKV{{toJ("level"), toJ("warn")}, {toJ("message"), toJ("record delivery failed")}}, HasSettings: true, Size: 1}
	}
	c.DLQ = d
	c.Conns, c.HasConns = g.slist()
	c.Procs, c.HasProcs = g.slist()
	if g.r.Chance(1, 12) {
		c.Status = []int{0, 6, -1}[g.r.Intn(3)]
	} else {
		c.Status = g.r.Range(1, 5)
	}
}

func (g *gen) proc(c *jCase) {
	c.Kind = "proc"
	c.Plugin, c.Cond = g.str(), g.str()
	c.ParentID, c.ParentType = g.id(), g.r.Range(0, 3)
	c.Settings, c.HasSettings = g.smap()
	c.Workers = int(g.num())
}

// ---------------------------------------------------------------- fixtures

func docID(doc []byte) jStr {
	var m map[string]any
	if err := stdjson.Unmarshal(doc, &m); err == nil {
		if s, ok := m["ID"].(string); ok {
			return toJ(s)
		}
	}
	return toJ("doc")
}

// fixtures: the golden documents of the store packages and hand-shaped documents
// in the current format (what an older server of the same format family wrote).
func fixtures(repo string) []*jCase {
	var out []*jCase
	add := func(kind string, doc []byte) {
		out = append(out, &jCase{Kind: kind, ID: docID(doc), Doc: string(doc)})
	}
	for _, f := range []struct{ kind, path string }{
		{"docconn", "pkg/connector/testdata/golden_source_instance.json"},
		{"docconn", "pkg/connector/testdata/golden_destination_instance.json"},
		{"docpipe", "pkg/pipeline/testdata/golden_pipeline_instance.json"},
		{"docproc", "pkg/processor/testdata/golden_processor_instance.json"},
	} {
		if b, err := os.ReadFile(filepath.Join(repo, f.path)); err == nil {
			add(f.kind, b)
		}
	}
	for _, d := range []string{
		`{"ID":"e1","Type":1,"Config":{"Name":"😀 é \/ \b\f <","Settings":{"aA":"x\uD83Dy","b":""}},"PipelineID":"p","Plugin":"builtin:file","State":{"Position":"AAEC/v8="}}`,
		`{"ID":"m1","Type":2}`,
		`{"ID":"m2","Type":2,"Config":null,"ProcessorIDs":null,"State":null,"LastActiveConfig":null,"CreatedAt":"2020-02-29T23:59:59.000000001+05:30"}`,
		`{"ID":"m3","Type":2,"State":{"Positions":{"b":"QQ==","a":null,"c":""}},"ProcessorIDs":[]}`,
		` { "Type" : 1 , "ID" : "m4" , "State" : { "Position" : "" } , "UpdatedAt" : "1999-12-31T00:00:00-11:00" } `,
	} {
		add("docconn", []byte(d))
	}
	for st := 0; st <= 6; st++ {
		d, _ := stdjson.Marshal(map[string]any{"ID": "ps", "Config": map[string]any{"Name": "n", "Description": "d"}, "Status": st,
			"ConnectorIDs": []string{"b", "a", "b"}, "DLQ": map[string]any{"Plugin": "builtin:log", "WindowSize": 3, "WindowNackThreshold": 2}})
		add("docpipe", d)
	}
	add("docpipe", []byte(`{"Status":1,"ID":"p-min"}`))
	add("docproc", []byte(`{"ID":"r1","Plugin":"js","Condition":"{{ \"x\" }}","Parent":{"ID":"p","Type":2},"Config":{"Settings":{},"Workers":0}}`))
	add("docproc", []byte(`{"ID":"r2"}`))
	return out
}

// ---------------------------------------------------------------- exhaustive small scope

// exhaustive runs, through the real connector store: every position of one and
// of two bytes, runs of a constant byte of every length 0..66, and every
// Unicode scalar value (in strings of 64 consecutive code points, as a name, a
// settings key and a settings value). Item i belongs to shard i mod shards.
func exhaustive(rn *runner, shard, shards int) {
	i := 0
	mine := func() bool { i++; return (i-1)%shards == shard }
	base := func(id string) *jCase {
		t := jTime{Y: 2024, Mo: 1, D: 1, Loc: "utc"}
		return &jCase{Kind: "conn", ID: toJ(id), Type: 1, Pipeline: toJ("p"), Plugin: toJ("builtin:file"), Created: t, Updated: t}
	}
	for a := 0; a < 256; a++ {
		if mine() {
			c := base("x1")
			c.State = &jState{Kind: "source", Pos: []int{a}}
			rn.run(c)
		}
	}
	for a := 0; a < 256; a++ {
		for b := 0; b < 256; b++ {
			if mine() {
				c := base("x2")
				c.State = &jState{Kind: "source", Pos: []int{a, b}}
				rn.run(c)
			}
		}
	}
	for _, v := range []int{0x00, 0xff, 0xaa, 0x3d} {
		for n := 0; n <= 66; n++ {
			if mine() {
				p := make([]int, n)
				for j := range p {
					p[j] = v
				}
				c := base("x3")
				c.Type = 2
				c.State = &jState{Kind: "dest", HasMap: true, Positions: []jPos{{toJ("s"), p}}}
				rn.run(c)
			}
		}
	}
	for start := 0; start < 0x110000; start += 64 {
		if start >= 0xD800 && start < 0xE000 {
			continue
		}
		if !mine() {
			continue
		}
		s := make(jStr, 64)
		for j := range s {
			s[j] = start + j
		}
		c := base("x4")
		c.Name = s
		c.Settings, c.HasSettings = []jKV{{s, s}}, true
		c.Procs, c.HasProcs = []jStr{s}, true
		rn.run(c)
	}
}
