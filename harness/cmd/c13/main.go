// Harness for C13 (live processor reconfiguration).
//
// Drives the REAL stream.ProcessorNode (Run loop, Reconfigure, applyPendingSwap)
// between a feeding goroutine and a collecting goroutine, with fake processors
// that stamp their generation into every record.
//
//	kind "lock": a lock-step environment schedule. The harness holds the gates of
//	             the fake processors (Open of a new generation, Process); after every
//	             action it waits until the node is quiescent. Under these gates the
//	             node is deterministic and the model predicts its calls exactly.
//	kind "race": free running: records flow, several goroutines call Reconfigure
//	             concurrently (with failing Opens and cancelled contexts), optional
//	             graceful close or kill in the middle. Only the monitor decides.
//	kind "svc":  the real lifecycle.Service.ReconfigureProcessor on a running v1 pipeline (chains).
//	kind "flag": operation histories over the real processor.Service + lifecycle.Service: the
//	             running flag across starts, live reconfigurations (swap, failed build of every
//	             kind, failed open), stops and restarts, probed through Update/Delete/MakeRunnableProcessor.
//	kind "v2":   lifecycle-poc's ReconfigureProcessor is the constant sentinel.
package main

import (
	"context"
	"errors"
	"fmt"
	"os"
	"runtime"
	"sort"
	"strconv"
	"strings"
	"sync"
	"sync/atomic"
	"time"

	"github.com/conduitio/conduit-commons/opencdc"
	sdk "github.com/conduitio/conduit-processor-sdk"
	"github.com/conduitio/conduit/pkg/foundation/log"
	"github.com/conduitio/conduit/pkg/foundation/metrics/noop"
	lifecyclev1 "github.com/conduitio/conduit/pkg/lifecycle"
	lifecyclev2 "github.com/conduitio/conduit/pkg/lifecycle-poc"
	"github.com/conduitio/conduit/pkg/lifecycle/stream"
	"github.com/conduitio/conduit/pkg/pipeline"
	"github.com/conduitio/conduit/pkg/processor"

	"verifharness/lib/hx"
	"verifharness/lib/stopx"
)

// ---------- observation ----------

type nev struct {
	K string `json:"k"` // open tear proc out nack
	A int    `json:"a"` // generation (open, tear) or record (proc, out, nack)
	B int    `json:"b"` // ok/reconf flag (open, tear) or generation (proc, out)
}

func (e nev) coq() string {
	switch e.K {
	case "open":
		return fmt.Sprintf("NOpen %d %s", e.A, hx.Bool(e.B == 1))
	case "tear":
		return fmt.Sprintf("NTear %d %s", e.A, hx.Bool(e.B == 1))
	case "proc":
		return fmt.Sprintf("NProc %d %d", e.A, e.B)
	case "out":
		return fmt.Sprintf("NOut %d %d", e.A, e.B)
	default:
		return fmt.Sprintf("NNack %d", e.A)
	}
}

type reqObs struct {
	Ok  bool   `json:"ok"`
	Res string `json:"res"` // ok erropen busy cancelled none
}

func (r reqObs) coq() string {
	m := map[string]string{"ok": "Some ROk", "erropen": "Some RErrOpen", "busy": "Some RBusy", "cancelled": "Some RCancelled", "none": "None"}
	return hx.Pair(hx.Bool(r.Ok), m[r.Res])
}

type obs struct {
	Evs    []nev    `json:"evs"`
	Res    []reqObs `json:"res"`
	Acks   []int    `json:"acks"`
	Taken  int      `json:"taken"`
	PosOK  bool     `json:"posok"`
	Hung   bool     `json:"hung"`
	Note   string   `json:"note,omitempty"`
	RunErr string   `json:"runerr,omitempty"`
}

// ---------- the rig around one ProcessorNode ----------

var errFakeOpen = errors.New("fake processor: open refused")

type rig struct {
	mu   sync.Mutex
	evs  []nev
	acks []int
	note []string

	node   *stream.ProcessorNode
	in     chan *stream.Message
	ctx    context.Context
	cancel context.CancelFunc

	// feeder
	feedCh   chan int // record ids to feed
	arrived  int
	closed   bool
	closeCh  chan struct{}
	feedDone chan struct{}

	collected int32
	nacked    int32
	posBad    int32

	// gates
	auto         atomic.Bool
	autoCh       chan struct{}
	procGate     chan struct{}
	procEntered  atomic.Int32 // fakes that reached the Process gate
	procReleased atomic.Int32 // tokens the harness handed out
	openGate     chan struct{}
	openEntered  atomic.Int32
	openReleased atomic.Int32
	openGen      atomic.Int32 // generation of the last Open that reached the gate
	openedEver   sync.Map     // generation -> true once its Open was entered
	procReturned atomic.Int32 // Process calls that returned
	procCalls    atomic.Int32 // records the node handed to a processor (= records it took)
	arrivedN     atomic.Int32

	runDone chan struct{}
	runErr  error
	runRet  atomic.Bool

	reqs []*reqState

	procDelay func() // race mode: jitter inside Process
}

type reqState struct {
	ok     bool
	gen    int
	cancel context.CancelFunc
	done   chan struct{}
	ret    atomic.Bool
	res    string
}

func pos(r int) opencdc.Position { return opencdc.Position(fmt.Sprintf("p%05d", r)) }
func recOf(p opencdc.Position) int {
	n, err := strconv.Atoi(strings.TrimPrefix(string(p), "p"))
	if err != nil {
		return -1
	}
	return n
}

func (g *rig) log(e nev) {
	g.mu.Lock()
	g.evs = append(g.evs, e)
	g.mu.Unlock()
}

// nodeLog records a call made by the Run goroutine. The collector logs a forwarded record
// from its own goroutine, right after the unbuffered hand-off; to keep the log a faithful
// linearisation the next call of the Run goroutine waits until every record whose Process
// already returned shows up as forwarded or nacked. (If the node calls a processor while a
// processed record has not been forwarded - which the property forbids - the wait times out
// and the log shows exactly that order.)
func (g *rig) nodeLog(e nev) {
	deadline := time.Time{}
	for i := 0; atomic.LoadInt32(&g.collected)+atomic.LoadInt32(&g.nacked) < g.procReturned.Load(); i++ {
		if i%32 == 31 {
			if deadline.IsZero() {
				deadline = time.Now().Add(2 * time.Second)
			} else if time.Now().After(deadline) {
				break
			}
			time.Sleep(10 * time.Microsecond)
		} else {
			runtime.Gosched()
		}
	}
	g.log(e)
}

type fakeProc struct {
	g     *rig
	gen   int
	ok    bool
	gated bool
}

func b2i(b bool) int {
	if b {
		return 1
	}
	return 0
}

func (p *fakeProc) Open(context.Context) error {
	p.g.nodeLog(nev{"open", p.gen, b2i(p.ok)})
	p.g.openedEver.Store(p.gen, true)
	if p.gated && !p.g.auto.Load() {
		p.g.openGen.Store(int32(p.gen))
		p.g.openEntered.Add(1)
		select {
		case <-p.g.openGate:
		case <-p.g.autoCh:
		}
	}
	if !p.ok {
		return errFakeOpen
	}
	return nil
}

func (p *fakeProc) Process(_ context.Context, recs []opencdc.Record) []sdk.ProcessedRecord {
	out := make([]sdk.ProcessedRecord, len(recs))
	for i, r := range recs {
		p.g.procCalls.Add(1)
		p.g.nodeLog(nev{"proc", recOf(r.Position), p.gen})
		if !p.g.auto.Load() {
			p.g.procEntered.Add(1)
			select {
			case <-p.g.procGate:
			case <-p.g.autoCh:
			}
		} else if p.g.procDelay != nil {
			p.g.procDelay()
		}
		r2 := r.Clone()
		if r2.Metadata == nil {
			r2.Metadata = opencdc.Metadata{}
		}
		r2.Metadata["gen"] = strconv.Itoa(p.gen)
		out[i] = sdk.SingleRecord(r2)
	}
	p.g.procReturned.Add(int32(len(recs)))
	return out
}

func (p *fakeProc) Teardown(context.Context) error {
	p.g.nodeLog(nev{"tear", p.gen, 0})
	return nil
}

func (p *fakeProc) TeardownForReconfigure(context.Context) error {
	p.g.nodeLog(nev{"tear", p.gen, 1})
	return nil
}

func newRig(gated bool) *rig {
	g := &rig{
		in:       make(chan *stream.Message),
		feedCh:   make(chan int, 4096),
		closeCh:  make(chan struct{}),
		feedDone: make(chan struct{}),
		autoCh:   make(chan struct{}),
		procGate: make(chan struct{}),
		openGate: make(chan struct{}),
		runDone:  make(chan struct{}),
	}
	if !gated {
		g.auto.Store(true)
		close(g.autoCh)
	}
	g.ctx, g.cancel = context.WithCancel(context.Background())
	g.node = &stream.ProcessorNode{
		Name:           "proc",
		Processor:      &fakeProc{g: g, gen: 0, ok: true},
		ProcessorTimer: noop.Timer{},
	}
	g.node.SetLogger(log.Nop())
	g.node.Sub(g.in)
	out := g.node.Pub()

	go func() { // the node
		defer close(g.runDone)
		defer func() {
			if r := recover(); r != nil {
				g.runErr = fmt.Errorf("panic: %v", r)
			}
			g.runRet.Store(true)
		}()
		g.runErr = g.node.Run(g.ctx)
	}()
	go func() { // collector: always ready
		for msg := range out {
			r := recOf(msg.Record.Position)
			gen, err := strconv.Atoi(msg.Record.Metadata["gen"])
			if err != nil {
				gen = -1
			}
			g.log(nev{"out", r, gen})
			_ = msg.Ack()
			atomic.AddInt32(&g.collected, 1)
		}
	}()
	go func() { // feeder
		defer close(g.feedDone)
		for {
			select {
			case r := <-g.feedCh:
				msg := &stream.Message{Record: opencdc.Record{
					Position:  pos(r),
					Operation: opencdc.OperationCreate,
					Metadata:  opencdc.Metadata{},
					Key:       opencdc.RawData("k"),
					Payload:   opencdc.Change{After: opencdc.RawData("v")},
				}}
				msg.RegisterAckHandler(func(m *stream.Message) error {
					if recOf(m.Record.Position) != r {
						atomic.AddInt32(&g.posBad, 1)
					}
					g.mu.Lock()
					g.acks = append(g.acks, r)
					g.mu.Unlock()
					return nil
				})
				msg.RegisterNackHandler(func(m *stream.Message, _ stream.NackMetadata) error {
					g.log(nev{"nack", r, 0})
					atomic.AddInt32(&g.nacked, 1)
					return nil
				})
				select {
				case g.in <- msg:
				case <-g.runDone:
					return
				}
			case <-g.closeCh:
				// close only after everything queued was offered
				for {
					select {
					case r := <-g.feedCh:
						_ = r
						// cannot happen: arrive after close is refused by the harness
					default:
					}
					break
				}
				close(g.in)
				return
			case <-g.runDone:
				return
			}
		}
	}()
	return g
}

func (g *rig) arrive() {
	r := g.arrived
	g.arrived++
	g.arrivedN.Add(1)
	g.feedCh <- r
}

// closeInput asks the feeder to close the inbound channel once its queue is empty.
func (g *rig) closeInput() {
	if g.closed {
		return
	}
	g.closed = true
	go func() {
		for g.queued() > 0 && !g.runRet.Load() {
			time.Sleep(20 * time.Microsecond)
		}
		close(g.closeCh)
	}()
}

func (g *rig) request(ok bool, gated bool) *reqState {
	rs := &reqState{ok: ok, gen: len(g.reqs) + 1, done: make(chan struct{}), res: "none"}
	ctx, cancel := context.WithCancel(context.Background())
	rs.cancel = cancel
	g.reqs = append(g.reqs, rs)
	p := &fakeProc{g: g, gen: rs.gen, ok: ok, gated: gated}
	go func() {
		defer close(rs.done)
		var err error
		func() {
			defer func() {
				if r := recover(); r != nil {
					err = fmt.Errorf("panic: %v", r)
				}
			}()
			err = g.node.Reconfigure(ctx, p)
		}()
		switch {
		case err == nil:
			rs.res = "ok"
		case errors.Is(err, errFakeOpen):
			rs.res = "erropen"
		case errors.Is(err, context.Canceled) || errors.Is(err, context.DeadlineExceeded):
			rs.res = "cancelled"
		default:
			rs.res = "busy"
		}
		rs.ret.Store(true)
	}()
	return rs
}

// queued: records offered to the node that it has not taken yet (counted on the node's side:
// a record counts as taken when the node hands it to a processor)
func (g *rig) queued() int32 { return g.arrivedN.Load() - g.procCalls.Load() }

func (g *rig) procWaiting() bool {
	return !g.auto.Load() && g.procEntered.Load() > g.procReleased.Load()
}

// openWaiting returns the generation blocked at the Open gate, 0 if none.
func (g *rig) openWaiting() int {
	if !g.auto.Load() && g.openEntered.Load() > g.openReleased.Load() {
		return int(g.openGen.Load())
	}
	return 0
}

func (g *rig) claimed(rs *reqState) bool {
	_, ok := g.openedEver.Load(rs.gen)
	return ok
}

// quiescent: nothing will happen any more until the harness acts.
func (g *rig) quiescent() bool {
	pending := g.node.VerifPendingSwap()
	unstaged := 0
	for _, rs := range g.reqs {
		if rs.ret.Load() {
			continue
		}
		if g.claimed(rs) {
			if g.openWaiting() != rs.gen {
				return false // opened and released: its answer is on the way
			}
			continue
		}
		unstaged++
	}
	if unstaged > 1 || (unstaged == 1 && !pending) {
		return false
	}
	if g.runRet.Load() || g.procWaiting() || g.openWaiting() != 0 {
		return true
	}
	inflight := g.procCalls.Load() - atomic.LoadInt32(&g.collected) - atomic.LoadInt32(&g.nacked)
	// once the input is being closed an idle node is not a resting state: it must end
	return g.queued() == 0 && !pending && inflight == 0 && !g.closed
}

const settleDeadline = 8 * time.Second

func (g *rig) settle() bool {
	deadline := time.Now().Add(settleDeadline)
	stable := 0
	for i := 0; ; i++ {
		if g.quiescent() {
			stable++
			if stable >= 3 { // the predicate is monotone per phase; a few re-reads guard torn reads
				return true
			}
		} else {
			stable = 0
		}
		if i%64 == 63 {
			if time.Now().After(deadline) {
				return false
			}
			time.Sleep(30 * time.Microsecond)
		} else {
			runtime.Gosched()
		}
	}
}

func waitCh(ch <-chan struct{}, d time.Duration) bool {
	select {
	case <-ch:
		return true
	case <-time.After(d):
		return false
	}
}

func (g *rig) collect(hung bool) obs {
	g.mu.Lock()
	defer g.mu.Unlock()
	o := obs{Evs: append([]nev{}, g.evs...), Acks: append([]int{}, g.acks...), Taken: int(g.procCalls.Load()),
		PosOK: atomic.LoadInt32(&g.posBad) == 0, Hung: hung, Note: strings.Join(g.note, ";")}
	for _, rs := range g.reqs {
		res := "none"
		if rs.ret.Load() {
			res = rs.res
		}
		o.Res = append(o.Res, reqObs{rs.ok, res})
	}
	if g.runRet.Load() && g.runErr != nil {
		o.RunErr = "err"
	}
	return o
}

// ---------- lock-step ----------

// env actions: "A" arrive, "R1"/"R0" reconfigure (open ok / fails), "O" release Open gate,
// "P" release Process gate, "C<q>" cancel request q, "X" close input, "K" kill.
func runLock(env []string) obs {
	g := newRig(true)
	hung := false
	if !g.settle() {
		hung = true
	}
	killed := false
	for _, a := range env {
		if killed || hung {
			break
		}
		opening := g.openWaiting() != 0
		pending := g.node.VerifPendingSwap()
		switch {
		case a == "A":
			if g.closed || (opening && pending) {
				continue
			}
			g.arrive()
		case a == "R1" || a == "R0":
			if opening && (g.queued() > 0 || g.closed) {
				continue
			}
			g.request(a == "R1", true)
		case a == "O":
			if !opening {
				continue
			}
			g.openGate <- struct{}{}
			g.openReleased.Add(1)
		case a == "P":
			if !g.procWaiting() {
				continue
			}
			g.procGate <- struct{}{}
			g.procReleased.Add(1)
		case strings.HasPrefix(a, "C"):
			q, err := strconv.Atoi(a[1:])
			if err != nil || q < 0 || q >= len(g.reqs) || g.reqs[q].ret.Load() {
				continue
			}
			g.reqs[q].cancel()
			if !waitCh(g.reqs[q].done, settleDeadline) {
				hung = true
				g.note = append(g.note, "cancelled Reconfigure did not return")
			}
		case a == "X":
			if opening && pending {
				continue
			}
			g.closeInput()
		case a == "K":
			g.cancel()
			killed = true
			continue
		default:
			continue
		}
		if !g.settle() {
			hung = true
			g.note = append(g.note, "not quiescent after "+a)
		}
	}
	// finish: open the gates, let the node work off what it has, close, wait for the end
	g.auto.Store(true)
	close(g.autoCh)
	if !killed {
		if !hung && !g.settle() {
			hung = true
			g.note = append(g.note, "not quiescent after opening the gates")
		}
		g.closeInput()
	}
	if !waitCh(g.runDone, settleDeadline) {
		hung = true
		g.note = append(g.note, "Run did not return")
		g.cancel()
		waitCh(g.runDone, settleDeadline)
	}
	for _, rs := range g.reqs {
		if !rs.ret.Load() {
			// give an answer that is on its way a moment, then give up on behalf of the caller
			if !g.claimed(rs) || !waitCh(rs.done, 200*time.Millisecond) {
				rs.cancel()
			}
			if !waitCh(rs.done, settleDeadline) {
				hung = true
				g.note = append(g.note, "Reconfigure did not return after cancel")
			}
		}
	}
	g.cancel()
	waitCh(g.feedDone, settleDeadline)
	return g.collect(hung)
}

// ---------- free running ----------

type raceIn struct {
	NRec   int    `json:"nrec"`
	Reqs   []int  `json:"reqs"`   // per requester goroutine: 1 = open ok, 0 = open fails
	Cancel []int  `json:"cancel"` // per requester: cancel after this many microseconds (0 = never)
	Delay  []int  `json:"delay"`  // per requester: start after this many microseconds
	End    string `json:"end"`    // "close" | "kill"
	EndAt  int    `json:"endat"`  // kill after this many microseconds (kill only)
	Jit    int    `json:"jit"`    // max jitter in Process (microseconds)
	Seed   uint64 `json:"seed"`
}

func runRace(c raceIn) obs {
	g := newRig(false)
	jr := hx.NewRand(c.Seed)
	var jmu sync.Mutex
	g.procDelay = func() {
		if c.Jit <= 0 {
			return
		}
		jmu.Lock()
		d := jr.Intn(c.Jit + 1)
		jmu.Unlock()
		if d > 0 {
			time.Sleep(time.Duration(d) * time.Microsecond)
		}
	}
	var wg sync.WaitGroup
	var rmu sync.Mutex
	for i := range c.Reqs {
		ok := c.Reqs[i] == 1
		delay, cancelAfter := 0, 0
		if i < len(c.Delay) {
			delay = c.Delay[i]
		}
		if i < len(c.Cancel) {
			cancelAfter = c.Cancel[i]
		}
		wg.Add(1)
		go func() {
			defer wg.Done()
			time.Sleep(time.Duration(delay) * time.Microsecond)
			rmu.Lock()
			rs := g.request(ok, false)
			rmu.Unlock()
			if cancelAfter > 0 {
				select {
				case <-rs.done:
				case <-time.After(time.Duration(cancelAfter) * time.Microsecond):
					rs.cancel()
				}
			}
		}()
	}
	for i := 0; i < c.NRec; i++ {
		g.arrive()
	}
	hung := false
	if c.End == "kill" {
		time.Sleep(time.Duration(c.EndAt) * time.Microsecond)
		g.cancel()
	} else {
		g.closeInput()
	}
	if !waitCh(g.runDone, settleDeadline) {
		hung = true
		g.note = append(g.note, "Run did not return")
		g.cancel()
		waitCh(g.runDone, settleDeadline)
	}
	wg.Wait()
	rmu.Lock()
	reqs := append([]*reqState{}, g.reqs...)
	rmu.Unlock()
	for _, rs := range reqs {
		if !rs.ret.Load() {
			if !g.claimed(rs) || !waitCh(rs.done, 200*time.Millisecond) {
				rs.cancel()
			}
			if !waitCh(rs.done, settleDeadline) {
				hung = true
				g.note = append(g.note, "Reconfigure did not return after cancel")
			}
		}
	}
	g.cancel()
	waitCh(g.feedDone, settleDeadline)
	o := g.collect(hung)
	return canonGens(o)
}

// canonGens renames generations (opaque identities chosen by goroutine start order) so that
// request q owns generation q+1 in the order in which the node opened them; requests the node
// never touched follow in their original order.
func canonGens(o obs) obs {
	n := len(o.Res)
	newOf := map[int]int{0: 0}
	next := 1
	for _, e := range o.Evs {
		if e.K == "open" && e.A != 0 {
			if _, ok := newOf[e.A]; !ok {
				newOf[e.A] = next
				next++
			}
		}
	}
	var rest []int
	for g := 1; g <= n; g++ {
		if _, ok := newOf[g]; !ok {
			rest = append(rest, g)
		}
	}
	sort.Ints(rest)
	for _, g := range rest {
		newOf[g] = next
		next++
	}
	ren := func(g int) int {
		if v, ok := newOf[g]; ok {
			return v
		}
		return g
	}
	res := make([]reqObs, n)
	for g := 1; g <= n; g++ {
		res[ren(g)-1] = o.Res[g-1]
	}
	o.Res = res
	for i, e := range o.Evs {
		switch e.K {
		case "open", "tear":
			o.Evs[i].A = ren(e.A)
		case "proc", "out":
			o.Evs[i].B = ren(e.B)
		}
	}
	return o
}

// ---------- service level ----------

// svcObs: what one processor node of the chain did (the same observation as for a single node)
type svcObs struct {
	Procs []string `json:"procs"`
	Per   []obs    `json:"per"` // one projection per processor of the chain, in chain order
	PosOK bool     `json:"posok"`
	Hung  bool     `json:"hung"`
	Note  string   `json:"note,omitempty"`
}

// runSvc drives the REAL lifecycle.Service.ReconfigureProcessor (processor.Service.
// MakeRunnableProcessorForReconfigure, RunnableProcessor.TeardownForReconfigure, the node swap)
// on a running v1 pipeline s1 -> procs... -> d1. The processor ids may be prefixes of one another
// (p1, p10, p1x). Every processor instance appends (its id, its instance number) to the record.
// ops: "e<n>" the source hands out n records, "r1:<id>"/"r0:<id>" reconfigure processor id (new
// instance opens / refuses to open; without ":<id>" the first processor), "w" wait until quiet,
// "x" StopAndWait. Requests are issued one at a time, so the q-th request for a processor builds
// its instance q+2 = generation q+1.
func runSvc(procs []string, ops []string) svcObs {
	o := svcObs{Procs: procs, PosOK: true}
	sys, err := stopx.NewSys(stopx.Topo{Engine: "v1", Sources: 1, Dests: 1, ProcNames: procs})
	if err != nil {
		o.Note = "setup: " + err.Error()
		o.Hung = true
		return o
	}
	w := sys.W
	w.ReleaseVerdicts()
	_, d := sys.Call("start")
	if !stopx.WaitCh(d, 10*time.Second) {
		o.Hung = true
		o.Note = "start"
		return o
	}
	stopped := false
	var notes []string
	res := map[string][]reqObs{}
	probe := func(wantRunning bool) {
		// the running flag guards Update: a running processor must refuse it, a stopped one accept it
		for _, id := range procs {
			_, uerr := sys.PRS.Update(context.Background(), id, "fake-proc", processor.Config{Settings: map[string]string{}, Workers: 1})
			refused := errors.Is(uerr, processor.ErrProcessorRunning)
			if refused != wantRunning {
				o.PosOK = false
				notes = append(notes, fmt.Sprintf("running flag of %s: Update refused=%v, want %v", id, refused, wantRunning))
			}
		}
	}
	stop := func() {
		_, sd := sys.Call("stopwait")
		if !stopx.WaitCh(sd, 25*time.Second) {
			o.Hung = true
			notes = append(notes, "StopAndWait")
		}
		stopped = true
		probe(false)
	}
	for _, op := range ops {
		switch {
		case strings.HasPrefix(op, "e"):
			n, _ := strconv.Atoi(op[1:])
			if n < 1 {
				n = 1
			}
			w.Emit("s1", n)
		case strings.HasPrefix(op, "r1") || strings.HasPrefix(op, "r0"):
			if stopped {
				continue
			}
			id := procs[0]
			if i := strings.Index(op, ":"); i >= 0 {
				id = op[i+1:]
			}
			known := false
			for _, p := range procs {
				known = known || p == id
			}
			if !known {
				continue
			}
			openOK := op[1] == '1'
			ctx, cancel := context.WithTimeout(context.Background(), 5*time.Second)
			rerr := sys.Reconfigure(ctx, id, openOK)
			cancel()
			r := "busy"
			switch {
			case rerr == nil:
				r = "ok"
			case errors.Is(rerr, stopx.ErrProcOpen):
				r = "erropen"
			case errors.Is(rerr, context.DeadlineExceeded) || errors.Is(rerr, context.Canceled):
				r = "cancelled"
				o.Hung = true
				notes = append(notes, "ReconfigureProcessor did not return")
			}
			res[id] = append(res[id], reqObs{openOK, r})
			probe(true)
		case op == "w":
			w.Settle(300*time.Microsecond, 20*time.Millisecond)
		case op == "x":
			if !stopped {
				stop()
			}
		}
	}
	if !stopped {
		w.Settle(300*time.Microsecond, 20*time.Millisecond)
		stop()
	}

	// translate the service log into the calls of every processor node
	all := w.Events()
	chain := strings.Join(procs, ",")
	lastWrite := 0
	stamps := map[int]map[string][]int{} // record -> processor id -> instances that stamped it
	for _, e := range all {
		if e.K != "dwrite" {
			continue
		}
		if e.N != lastWrite+1 { // the destination receives the records in order, each once
			o.PosOK = false
			notes = append(notes, "destination order")
		}
		lastWrite = e.N
		var ids []string
		m := map[string][]int{}
		for _, ent := range strings.Split(strings.TrimSuffix(e.X, ";"), ";") {
			if ent == "" {
				continue
			}
			f := strings.SplitN(ent, "#", 2)
			inst := 0
			if len(f) == 2 {
				inst, _ = strconv.Atoi(f[1])
			}
			ids = append(ids, f[0])
			m[f[0]] = append(m[f[0]], inst)
		}
		stamps[e.N] = m
		// exactly one stamp per processor of the chain, in chain order
		if strings.Join(ids, ",") != chain {
			o.PosOK = false
			notes = append(notes, fmt.Sprintf("record %d carries stamps %q, chain is %q", e.N, e.X, chain))
		}
	}
	var acks []int
	for _, e := range all {
		if e.K == "pack" {
			acks = append(acks, e.N-1)
		}
	}
	for _, id := range procs {
		po := obs{PosOK: true, Res: res[id], Acks: acks}
		lastPtd := -1
		for i, e := range all {
			if e.K == "ptd" && e.C == id {
				lastPtd = i
			}
		}
		for i, e := range all {
			if e.C != id {
				continue
			}
			switch e.K {
			case "popen":
				po.Evs = append(po.Evs, nev{"open", e.N - 1, 1})
			case "popenfail":
				po.Evs = append(po.Evs, nev{"open", e.N - 1, 0})
			case "ptd":
				// the plugin cannot tell the two teardown flavours apart; the running flag is probed instead
				po.Evs = append(po.Evs, nev{"tear", e.N - 1, b2i(i != lastPtd)})
			case "proc":
				inst, _ := strconv.Atoi(e.A)
				po.Evs = append(po.Evs, nev{"proc", e.N - 1, inst - 1})
				po.Taken++
				// at this level a record leaves the node unobserved; the stamp the destination later
				// finds for this processor is reported as the node's output of that record
				if m, ok := stamps[e.N]; ok && len(m[id]) > 0 {
					po.Evs = append(po.Evs, nev{"out", e.N - 1, m[id][0] - 1})
				} else if ok {
					po.Evs = append(po.Evs, nev{"out", e.N - 1, -1})
				} else {
					po.Evs = append(po.Evs, nev{"nack", e.N - 1, 0})
				}
			}
		}
		o.Per = append(o.Per, po)
	}
	o.Note = strings.Join(notes, ";")
	return o
}

func emitSvc(w *hx.Writer, procs []string, ops []string) {
	o := runSvc(procs, ops)
	items := make([]string, len(o.Per))
	for i, po := range o.Per {
		evs, res, acks := obsCoq(po)
		items[i] = fmt.Sprintf("(%s, %s, %s, %d)", evs, res, acks, po.Taken)
	}
	w.Add(map[string]any{"input": map[string]any{"kind": "svc", "procs": procs, "ops": ops}, "observed": o},
		fmt.Sprintf("SChain %s %s %s", hx.List(items), hx.Bool(o.PosOK), hx.Bool(o.Hung)))
}

var chainIDs = []string{"p1", "p10", "p1x"}

// every order of every 2- and 3-element subset of the prefix-related ids, plus the single processor
func chains() [][]string {
	out := [][]string{{"p1"}}
	for i := range chainIDs {
		for j := range chainIDs {
			if i == j {
				continue
			}
			out = append(out, []string{chainIDs[i], chainIDs[j]})
			for k := range chainIDs {
				if k != i && k != j {
					out = append(out, []string{chainIDs[i], chainIDs[j], chainIDs[k]})
				}
			}
		}
	}
	return out
}

// genSvc: records flow; every processor of the chain is reconfigured in turn (some with a failing Open)
func genSvc(r *hx.Rand, procs []string) []string {
	ops := []string{"e" + strconv.Itoa(r.Range(1, 3))}
	if r.Bool() {
		ops = append(ops, "w")
	}
	order := append([]string{}, procs...)
	if r.Bool() { // reverse
		for i, j := 0, len(order)-1; i < j; i, j = i+1, j-1 {
			order[i], order[j] = order[j], order[i]
		}
	}
	for _, id := range order {
		if r.Chance(1, 5) {
			ops = append(ops, "r0:"+id)
		}
		ops = append(ops, "r1:"+id, "e"+strconv.Itoa(r.Range(1, 3)))
		if r.Bool() {
			ops = append(ops, "w")
		}
	}
	n := r.Intn(4)
	for i := 0; i < n; i++ {
		switch r.Intn(4) {
		case 0:
			ops = append(ops, "r1:"+procs[r.Intn(len(procs))])
		case 1:
			ops = append(ops, "r0:"+procs[r.Intn(len(procs))])
		case 2:
			ops = append(ops, "e"+strconv.Itoa(r.Range(1, 3)))
		default:
			ops = append(ops, "x")
		}
	}
	return append(ops, "e1", "w")
}


// ---------- service level: the running flag over operation histories ----------

// flagPer: the operations that concern one processor instance and what the real services answered
// (both as constructors of coq/Swap/Flag.v)
type flagPer struct {
	ID  string   `json:"id"`
	Ops []string `json:"ops"`
	Obs []string `json:"obs"`
}

type flagObs struct {
	Procs []string  `json:"procs"`
	Done  []string  `json:"done"` // the operations that were carried out
	Per   []flagPer `json:"per"`
	Hung  bool      `json:"hung"`
	Note  string    `json:"note,omitempty"`
}

var bfailCoq = map[string]string{"plugin": "BPlugin", "egress": "BEgress", "cond": "BCond"}

// runFlag drives the REAL processor.Service (MakeRunnableProcessor, MakeRunnableProcessorForReconfigure,
// Update, UpdateWhileRunning, Delete), lifecycle.Service (Start, ReconfigureProcessor, StopAndWait) and
// the real nodes of a v1 pipeline s1 -> procs... -> d1 through an operation history:
//
//	"S"            Start;  "S:<k>" Start while the runnable of the first processor cannot be built
//	"R:<id>:<o>"   live reconfiguration of processor id as provisioning's in-place apply does it
//	               (UpdateWhileRunning, ReconfigureProcessor, roll the stored config back on failure);
//	               o = ok | open (new plugin refuses Open) | plugin (registry cannot dispense it) |
//	               egress (malformed sdk.egress.* setting) | cond (invalid condition)
//	"X"            StopAndWait
//	"U:<id>" "D:<id>" "M:<id>"   ordinary Update / Delete / MakeRunnableProcessor (a runnable that is
//	               handed out is torn down at once)
//	"E"            one record through the pipeline; observed: which plugin instance of every processor stamped it
//
// A reconfiguration is only requested while the harness saw a Start succeed and no stop since; an
// accepted Delete ends the history.
func runFlag(procs []string, ops []string) flagObs {
	o := flagObs{Procs: procs}
	sys, err := stopx.NewSys(stopx.Topo{Engine: "v1", Sources: 1, Dests: 1, ProcNames: procs})
	if err != nil {
		o.Note = "setup: " + err.Error()
		o.Hung = true
		return o
	}
	w := sys.W
	w.ReleaseVerdicts()
	per := map[string]*flagPer{}
	for _, id := range procs {
		per[id] = &flagPer{ID: id}
	}
	var notes []string
	add := func(id, op, ob string) {
		per[id].Ops = append(per[id].Ops, op)
		per[id].Obs = append(per[id].Obs, ob)
	}
	known := func(id string) bool { _, ok := per[id]; return ok }
	goodCfg := func() processor.Config { return processor.Config{Settings: map[string]string{}, Workers: 1} }
	class := func(err error) string {
		switch {
		case err == nil:
			return "RNil"
		case errors.Is(err, processor.ErrProcessorRunning):
			return "RRunning"
		case errors.Is(err, processor.ErrInstanceNotFound):
			return "RGone"
		case errors.Is(err, pipeline.ErrPipelineNotRunning):
			return "RNotLive"
		default:
			return "RErr"
		}
	}
	// call runs f under a deadline; a call that does not return is an observation
	call := func(what string, d time.Duration, f func(ctx context.Context) error) error {
		ctx, cancel := context.WithTimeout(context.Background(), d)
		defer cancel()
		done := make(chan error, 1)
		go func() {
			defer func() {
				if r := recover(); r != nil {
					done <- fmt.Errorf("panic: %v", r)
				}
			}()
			done <- f(ctx)
		}()
		select {
		case err := <-done:
			return err
		case <-time.After(d + 2*time.Second):
			o.Hung = true
			notes = append(notes, what+" did not return")
			return context.DeadlineExceeded
		}
	}
	bg := context.Background()
	// make the stored config of id one whose runnable cannot be built / undo that
	breakCfg := func(id, kind string) {
		switch kind {
		case "plugin":
			_, _ = sys.PRS.UpdateWhileRunning(bg, id, stopx.MissingProcPlugin, goodCfg())
		case "egress":
			_, _ = sys.PRS.UpdateWhileRunning(bg, id, "fake-proc", processor.Config{Workers: 1, Settings: map[string]string{
				"sdk.egress.allow": "https://ok.example.com:443", "sdk.egress.timeout": "-3s"}})
		case "cond":
			if inst, gerr := sys.PRS.Get(bg, id); gerr == nil {
				inst.Condition = "{{ if "
			}
		}
	}
	restoreCfg := func(id string) {
		if inst, gerr := sys.PRS.Get(bg, id); gerr == nil {
			inst.Condition = ""
			_, _ = sys.PRS.UpdateWhileRunning(bg, id, "fake-proc", goodCfg())
		}
	}
	gen := func(id string) string { return fmt.Sprintf("RGen %d", sys.Reg.Count(id)-1) }
	writes := func(evs []stopx.Ev) int {
		n := 0
		for _, e := range evs {
			if e.K == "dwrite" {
				n++
			}
		}
		return n
	}
	live := false
	nreq := 0
loop:
	for _, op := range ops {
		f := strings.Split(op, ":")
		switch {
		case f[0] == "S":
			if live {
				continue
			}
			kind := ""
			if len(f) > 1 {
				if _, ok := bfailCoq[f[1]]; !ok {
					continue
				}
				kind = f[1]
				breakCfg(procs[0], kind)
			}
			serr := call("Start", 10*time.Second, func(ctx context.Context) error { return sys.V1.Start(ctx, stopx.PipelineID) })
			if kind != "" {
				restoreCfg(procs[0])
			}
			for i, id := range procs {
				term := "FStart None"
				if kind != "" && i == 0 {
					term = "FStart (Some " + bfailCoq[kind] + ")"
				} else if kind != "" && serr != nil {
					term = "FStartSkip"
				}
				if serr == nil {
					add(id, term, gen(id))
				} else if term == "FStartSkip" {
					add(id, term, "RErr")
				} else {
					add(id, term, class(serr))
				}
			}
			live = serr == nil
		case f[0] == "X":
			xerr := call("StopAndWait", 25*time.Second, func(ctx context.Context) error { return sys.V1.StopAndWait(ctx, stopx.PipelineID) })
			for _, id := range procs {
				add(id, "FStop", class(xerr))
			}
			if xerr == nil {
				live = false
			}
		case f[0] == "R":
			if !live || len(f) != 3 || !known(f[1]) {
				continue
			}
			id, out := f[1], f[2]
			term := ""
			switch out {
			case "ok":
				term = "FReconf OOk"
			case "open":
				term = "FReconf OOpenFail"
			case "plugin", "egress", "cond":
				term = "FReconf (OBuildFail " + bfailCoq[out] + ")"
			default:
				continue
			}
			nreq++
			switch out {
			case "ok", "open":
				_, _ = sys.PRS.UpdateWhileRunning(bg, id, "fake-proc", processor.Config{Workers: 1,
					Settings: map[string]string{"tag": strconv.Itoa(nreq)}})
			default:
				breakCfg(id, out)
			}
			rerr := call("ReconfigureProcessor", 5*time.Second, func(ctx context.Context) error {
				return sys.Reconfigure(ctx, id, out != "open")
			})
			if rerr != nil {
				restoreCfg(id) // the caller rolls the stored config back to the one that is still live
			}
			if out == "cond" {
				if inst, gerr := sys.PRS.Get(bg, id); gerr == nil {
					inst.Condition = ""
				}
			}
			if rerr == nil {
				add(id, term, gen(id))
			} else {
				add(id, term, class(rerr))
			}
		case f[0] == "U" && len(f) == 2 && known(f[1]):
			_, uerr := sys.PRS.Update(bg, f[1], "fake-proc", goodCfg())
			add(f[1], "FUpdate", class(uerr))
		case f[0] == "D" && len(f) == 2 && known(f[1]):
			derr := sys.PRS.Delete(bg, f[1])
			add(f[1], "FDelete", class(derr))
			if derr == nil {
				o.Done = append(o.Done, op)
				break loop
			}
		case f[0] == "M" && len(f) == 2 && known(f[1]):
			inst, gerr := sys.PRS.Get(bg, f[1])
			if gerr != nil {
				add(f[1], "FMake", class(gerr))
				break
			}
			rp, merr := sys.PRS.MakeRunnableProcessor(bg, inst)
			if merr == nil && rp != nil {
				_ = rp.Teardown(bg)
			}
			add(f[1], "FMake", class(merr))
		case f[0] == "E":
			if !live {
				for _, id := range procs {
					add(id, "FEmit", "RStamp None")
				}
				break
			}
			n0 := writes(w.Events())
			w.Emit("s1", 1)
			if !w.WaitFor(6*time.Second, func(evs []stopx.Ev) bool { return writes(evs) > n0 }) {
				o.Hung = true
				notes = append(notes, "a record did not reach the destination")
				for _, id := range procs {
					add(id, "FEmit", "RStamp None")
				}
				break
			}
			chain := ""
			k := 0
			for _, e := range w.Events() {
				if e.K == "dwrite" {
					if k == n0 {
						chain = e.X
					}
					k++
				}
			}
			stamp := map[string]int{}
			for _, ent := range strings.Split(chain, ";") {
				if p := strings.SplitN(ent, "#", 2); len(p) == 2 {
					if n, aerr := strconv.Atoi(p[1]); aerr == nil {
						if _, dup := stamp[p[0]]; dup {
							stamp[p[0]] = -1 // stamped twice
						} else {
							stamp[p[0]] = n
						}
					}
				}
			}
			for _, id := range procs {
				if n, ok := stamp[id]; ok && n >= 1 {
					add(id, "FEmit", fmt.Sprintf("RStamp (Some %d)", n-1))
				} else {
					add(id, "FEmit", "RStamp None")
				}
			}
		default:
			continue
		}
		o.Done = append(o.Done, op)
	}
	if live {
		_ = call("StopAndWait", 25*time.Second, func(ctx context.Context) error { return sys.V1.StopAndWait(ctx, stopx.PipelineID) })
	}
	for _, id := range procs {
		o.Per = append(o.Per, *per[id])
	}
	o.Note = strings.Join(notes, ";")
	return o
}

func emitFlag(w *hx.Writer, procs []string, ops []string) {
	if len(procs) == 0 {
		procs = []string{"p1"}
	}
	o := runFlag(procs, ops)
	items := make([]string, len(o.Per))
	for i, p := range o.Per {
		items[i] = hx.Pair(hx.List(p.Ops), hx.List(p.Obs))
	}
	w.Add(map[string]any{"input": map[string]any{"kind": "flag", "procs": procs, "ops": ops}, "observed": o},
		fmt.Sprintf("SFlag %s %s", hx.List(items), hx.Bool(o.Hung)))
}

// genFlag: a history around live reconfigurations with every outcome, each followed by probes of the
// guards and by records; stops, restarts and starts that cannot build are mixed in.
func genFlag(r *hx.Rand, procs []string) []string {
	pick := func() string { return procs[r.Intn(len(procs))] }
	kinds := []string{"plugin", "egress", "cond"}
	probes := func(id string, ops []string) []string {
		for _, p := range []string{"U", "M", "D"} {
			if r.Chance(1, 2) {
				ops = append(ops, p+":"+id)
			}
		}
		if r.Chance(1, 2) {
			ops = append(ops, "E")
		}
		return ops
	}
	var ops []string
	if r.Chance(1, 4) {
		ops = append(ops, "S:"+kinds[r.Intn(3)], "U:"+procs[0])
		if r.Chance(1, 2) {
			ops = append(ops, "M:"+procs[0])
		}
	}
	ops = append(ops, "S")
	if r.Bool() {
		ops = append(ops, "E")
	}
	n := r.Range(2, 7)
	for i := 0; i < n; i++ {
		id := pick()
		switch x := r.Intn(100); {
		case x < 60:
			out := "ok"
			switch y := r.Intn(100); {
			case y < 25:
				out = "ok"
			case y < 45:
				out = "open"
			default:
				out = kinds[r.Intn(3)]
			}
			ops = append(ops, "R:"+id+":"+out)
			ops = probes(id, ops)
		case x < 72:
			ops = append(ops, "E")
		case x < 84:
			ops = probes(pick(), ops)
		default:
			ops = append(ops, "X", "U:"+id)
			if r.Chance(1, 3) {
				ops = append(ops, "M:"+id)
			}
			if r.Chance(1, 3) {
				ops = append(ops, "S:"+kinds[r.Intn(3)], "U:"+procs[0])
			}
			ops = append(ops, "S", "E")
		}
	}
	ops = append(ops, "E", "X")
	for _, id := range procs {
		ops = append(ops, "U:"+id)
	}
	if r.Chance(1, 3) {
		ops = append(ops, "D:"+pick())
	}
	return ops
}

var flagChains = [][]string{{"p1"}, {"p1", "p2"}, {"p10", "p1"}, {"p1"}, {"a", "b", "c"}}

// ---------- engine v2 ----------

func runV2() (sentinel, unchanged bool) {
	sentinel, unchanged = true, true
	defer func() {
		if recover() != nil {
			sentinel = false
		}
	}()
	s := &lifecyclev2.Service{}
	for _, ids := range [][2]string{{"p", "x"}, {"", ""}, {"pipeline-1", "proc-7"}} {
		err := s.ReconfigureProcessor(context.Background(), ids[0], ids[1])
		if err == nil || !errors.Is(err, lifecyclev1.ErrProcessorNotLiveReconfigurable) {
			sentinel = false
		}
	}
	return sentinel, unchanged
}

// ---------- cases ----------

func envCoq(env []string) string {
	items := make([]string, 0, len(env))
	for _, a := range env {
		switch {
		case a == "A":
			items = append(items, "EArrive")
		case a == "R1":
			items = append(items, "EReq true")
		case a == "R0":
			items = append(items, "EReq false")
		case a == "O":
			items = append(items, "EOpenRel")
		case a == "P":
			items = append(items, "EProcRel")
		case a == "X":
			items = append(items, "EClose")
		case a == "K":
			items = append(items, "EKill")
		case strings.HasPrefix(a, "C"):
			if q, err := strconv.Atoi(a[1:]); err == nil && q >= 0 && q < 5000 {
				items = append(items, fmt.Sprintf("ECancel %d", q))
			}
		}
	}
	return hx.List(items)
}

// normEnv drops tokens the Coq side could not see the same way
func normEnv(env []string) []string {
	out := make([]string, 0, len(env))
	for _, a := range env {
		switch {
		case a == "A", a == "R1", a == "R0", a == "O", a == "P", a == "X", a == "K":
			out = append(out, a)
		case strings.HasPrefix(a, "C"):
			if q, err := strconv.Atoi(a[1:]); err == nil && q >= 0 && q < 5000 {
				out = append(out, a)
			}
		}
	}
	return out
}

func obsCoq(o obs) (evs, res, acks string) {
	es := make([]string, len(o.Evs))
	for i, e := range o.Evs {
		es[i] = e.coq()
	}
	rs := make([]string, len(o.Res))
	for i, r := range o.Res {
		rs[i] = r.coq()
	}
	return hx.List(es), hx.List(rs), hx.Nats(o.Acks)
}

func emitLock(w *hx.Writer, env []string) {
	env = normEnv(env)
	o := runLock(env)
	evs, res, acks := obsCoq(o)
	w.Add(map[string]any{"input": map[string]any{"kind": "lock", "env": env}, "observed": o},
		fmt.Sprintf("SLock %s %s %s %s %d %s %s", envCoq(env), evs, res, acks, o.Taken, hx.Bool(o.PosOK), hx.Bool(o.Hung)))
}

func emitRace(w *hx.Writer, c raceIn) {
	o := runRace(c)
	evs, res, acks := obsCoq(o)
	w.Add(map[string]any{"input": map[string]any{"kind": "race", "race": c}, "observed": o},
		fmt.Sprintf("SRace %s %s %s %d %s %s true", evs, res, acks, o.Taken, hx.Bool(o.PosOK), hx.Bool(o.Hung)))
}

func emitV2(w *hx.Writer) {
	s, u := runV2()
	w.Add(map[string]any{"input": map[string]any{"kind": "v2"}, "observed": map[string]any{"sentinel": s, "unchanged": u}},
		fmt.Sprintf("SV2 %s %s", hx.Bool(s), hx.Bool(u)))
}

func genEnv(r *hx.Rand, maxLen int) []string {
	n := r.Range(1, maxLen)
	env := make([]string, 0, n)
	nreq := 0
	// a few shapes: mostly mid-stream, some idle-heavy, some stop-heavy
	shape := r.Intn(4)
	for i := 0; i < n; i++ {
		x := r.Intn(100)
		switch {
		case x < 28:
			env = append(env, "A")
		case x < 46:
			if r.Chance(7, 10) {
				env = append(env, "R1")
			} else {
				env = append(env, "R0")
			}
			nreq++
		case x < 62:
			env = append(env, "O")
		case x < 84:
			env = append(env, "P")
		case x < 93:
			if nreq > 0 {
				env = append(env, "C"+strconv.Itoa(r.Intn(nreq)))
			} else {
				env = append(env, "A")
			}
		case x < 97:
			if shape == 3 || r.Chance(1, 3) {
				env = append(env, "X")
			} else {
				env = append(env, "P")
			}
		default:
			if shape == 2 && r.Chance(1, 2) {
				env = append(env, "K")
			} else {
				env = append(env, "O")
			}
		}
	}
	return env
}

func genRace(r *hx.Rand) raceIn {
	c := raceIn{NRec: r.Range(0, 40), End: "close", Jit: r.Intn(60), Seed: r.U64() % (1 << 30)}
	nreq := r.Range(0, 6)
	for i := 0; i < nreq; i++ {
		c.Reqs = append(c.Reqs, b2i(r.Chance(7, 10)))
		c.Delay = append(c.Delay, r.Intn(800))
		if r.Chance(1, 3) {
			c.Cancel = append(c.Cancel, r.Range(1, 400))
		} else {
			c.Cancel = append(c.Cancel, 0)
		}
	}
	if r.Chance(1, 5) {
		c.End = "kill"
		c.EndAt = r.Intn(1500)
	}
	return c
}

var alphabet = []string{"A", "R1", "R0", "O", "P", "C0", "C1", "X"}

func main() {
	o := hx.ParseFlags()
	w, err := hx.NewWriter(o, "From Verif Require Import Base.CaseCheck Swap.Swap Swap.Flag Swap.Check.", "scase")
	if err != nil {
		fmt.Fprintln(os.Stderr, err)
		os.Exit(2)
	}
	switch {
	case o.Replay != "":
		cs, err := hx.ReadJSONL(o.Replay)
		if err != nil {
			fmt.Fprintln(os.Stderr, err)
			os.Exit(2)
		}
		for _, m := range cs {
			hx.Try(func() { replayOne(w, m) })
		}
	case strings.HasPrefix(o.Mode, "exhaustive"):
		// every env sequence over the alphabet up to length L; "exhaustive:i/n" takes every n-th one
		L := 5
		k := 0
		if _, err := fmt.Sscanf(o.Mode, "exhaustive:%d/%d", &o.Shard, &o.Shards); err != nil || o.Shards <= 0 {
			o.Shard, o.Shards = 0, 1
		}
		var rec func(prefix []string)
		rec = func(prefix []string) {
			if len(prefix) > 0 {
				k++
				if k%o.Shards == o.Shard {
					emitLock(w, append([]string{}, prefix...))
				}
			}
			if len(prefix) == L {
				return
			}
			for _, a := range alphabet {
				rec(append(prefix, a))
			}
		}
		rec(nil)
	default:
		root := hx.NewRand(o.Seed)
		if o.Shard == 0 {
			emitV2(w)
			// hand-written shapes (the corpus): idle swap, mid-record swap, failed open, busy, withdrawn,
			// cancel after claim, swap during close, request after the end
			for _, e := range [][]string{
				{"R1", "O"}, {"A", "R1", "P", "O", "A", "P"}, {"A", "R0", "P", "O", "A", "P"},
				{"A", "R1", "R1", "P", "O"}, {"A", "R1", "C0", "P", "A", "P"}, {"R1", "C0", "O", "A", "P"},
				{"A", "A", "R1", "X", "P", "O", "P"}, {"X", "R1"}, {"A", "R1", "K", "P"},
				{"R0", "O", "R1", "O", "A", "P", "R0", "O", "A", "P"},
			} {
				emitLock(w, e)
			}
			// prefix-related processor ids, the longer one first / last: each is reconfigured in turn
			for _, c := range [][]string{{"p10", "p1"}, {"p1", "p10"}, {"p1x", "p10", "p1"}, {"p1", "p1x", "p10"}} {
				ops := []string{"e2", "w"}
				for _, id := range c {
					ops = append(ops, "r1:"+id, "e2", "w")
				}
				emitSvc(w, c, ops)
			}
			// the running flag across a failed build of every kind, a failed open, a swap, a stop, a restart
			emitFlag(w, []string{"p1"}, []string{"S:plugin", "U:p1", "S", "E", "R:p1:plugin", "U:p1", "M:p1", "D:p1", "E",
				"R:p1:egress", "U:p1", "R:p1:cond", "M:p1", "R:p1:open", "D:p1", "E", "R:p1:ok", "E", "U:p1", "M:p1", "D:p1",
				"X", "U:p1", "M:p1", "S", "E", "R:p1:cond", "U:p1", "X", "U:p1"})
			emitFlag(w, []string{"p10", "p1"}, []string{"S", "E", "R:p1:plugin", "U:p1", "U:p10", "R:p10:cond", "D:p10", "M:p1",
				"E", "R:p1:ok", "E", "X", "U:p1", "U:p10"})
		}
		for i := 0; i < o.N; i++ {
			r := root.Fork(uint64(o.Shard)<<32 | uint64(i))
			if i%10 == 7 {
				procs := flagChains[(o.Shard+i/10)%len(flagChains)]
				emitFlag(w, procs, genFlag(r, procs))
			} else if i%10 == 9 {
				cs := chains()
				procs := cs[(o.Shard*o.N/10+i/10)%len(cs)]
				emitSvc(w, procs, genSvc(r, procs))
			} else if i%5 == 4 {
				emitRace(w, genRace(r))
			} else {
				emitLock(w, genEnv(r, 36))
			}
		}
	}
	if err := w.Close("chk"); err != nil {
		fmt.Fprintln(os.Stderr, err)
		os.Exit(2)
	}
	fmt.Printf("cases=%d\n", w.Count())
}

func replayOne(w *hx.Writer, m map[string]any) {
	in, ok := m["input"].(map[string]any)
	if !ok {
		in = m
	}
	switch in["kind"].(string) {
	case "lock":
		var env []string
		for _, x := range in["env"].([]any) {
			env = append(env, x.(string))
		}
		emitLock(w, env)
	case "race":
		rm := in["race"].(map[string]any)
		ints := func(k string) []int {
			var out []int
			if l, ok := rm[k].([]any); ok {
				for _, x := range l {
					out = append(out, int(x.(float64)))
				}
			}
			return out
		}
		num := func(k string) int {
			if f, ok := rm[k].(float64); ok {
				return int(f)
			}
			return 0
		}
		c := raceIn{NRec: num("nrec"), Reqs: ints("reqs"), Cancel: ints("cancel"), Delay: ints("delay"),
			EndAt: num("endat"), Jit: num("jit"), Seed: uint64(num("seed"))}
		c.End, _ = rm["end"].(string)
		if c.End == "" {
			c.End = "close"
		}
		emitRace(w, c)
	case "svc":
		var ops, procs []string
		for _, x := range in["ops"].([]any) {
			ops = append(ops, x.(string))
		}
		if ps, ok := in["procs"].([]any); ok {
			for _, x := range ps {
				procs = append(procs, x.(string))
			}
		}
		if len(procs) == 0 {
			procs = []string{"p1"}
		}
		emitSvc(w, procs, ops)
	case "flag":
		var ops, procs []string
		if l, ok := in["ops"].([]any); ok {
			for _, x := range l {
				if str, ok := x.(string); ok {
					ops = append(ops, str)
				}
			}
		}
		if ps, ok := in["procs"].([]any); ok {
			seen := map[string]bool{}
			for _, x := range ps {
				if str, ok := x.(string); ok && str != "" && !seen[str] && !strings.Contains(str, ":") {
					seen[str] = true
					procs = append(procs, str)
				}
			}
		}
		emitFlag(w, procs, ops)
	case "v2":
		emitV2(w)
	}
}
