package main

import (
	"path/filepath"

	"verifharness/lib/hx"
)

// runClean: part (a). The real filepath functions on the name; dest "/d/e" as in Reg/Check.v.
func (e *env) runClean(nm []byte) {
	s := string(nm)
	oc := filepath.Clean(s)
	oabs := filepath.IsAbs(s)
	oj := filepath.Join("/d/e", oc)
	e.w.Add(map[string]any{
		"input":    map[string]any{"kind": "clean", "name": bytesToJSON(nm)},
		"observed": map[string]any{"clean": bytesToJSON([]byte(oc)), "abs": oabs, "join": bytesToJSON([]byte(oj))},
	}, "KClean "+nameCoq(nm)+" "+nameCoq([]byte(oc))+" "+hx.Bool(oabs)+" "+nameCoq([]byte(oj)))
}
