package main

import (
	"bytes"
	"compress/gzip"
	"crypto/sha256"
	"encoding/json"
	"fmt"
	"io"
	"os"
	"path/filepath"
	"sort"
	"strings"

	"github.com/conduitio/conduit/pkg/registry"

	"verifharness/lib/hx"
)

// xentry is one tar header as the harness writes it (raw, so that any name and any
// type flag can be produced).
type xentry struct {
	Name  []byte
	Flag  byte  // raw typeflag byte; 1 = a corrupt header block
	Size  int64 // declared size (data-bearing types only)
	Avail int64 // bytes of data really present (< Size: the stream is cut there)
	Cid   int   // content = byte(Cid+1) repeated
	Link  []byte
}

func (x xentry) MarshalJSON() ([]byte, error) {
	return json.Marshal(map[string]any{"name": bytesToJSON(x.Name), "flag": int(x.Flag), "size": x.Size,
		"avail": x.Avail, "cid": x.Cid, "link": bytesToJSON(x.Link), "type": etypeOf(x)})
}

type xcase struct {
	Entries []xentry
	Big     bool // thorough only: one entry of cap+1 bytes
}

const flagCorrupt = 1

// effSize: header-only types carry no data (the reader does not skip any for them); a
// legacy flag-0 entry whose name ends in '/' is a directory for the reader.
func effSize(x xentry) int64 {
	if headerOnly(x.Flag) || x.Flag == flagCorrupt || etypeOf(x) == "TDir" {
		return 0
	}
	return x.Size
}

func headerOnly(fl byte) bool {
	switch fl {
	case '1', '2', '3', '4', '5', '6':
		return true
	}
	return false
}

// etypeOf: what the tar reader hands to ExtractBinary for this raw flag and name.
func etypeOf(x xentry) string {
	switch x.Flag {
	case flagCorrupt:
		return "TCorrupt"
	case '0':
		return "TReg"
	case 0:
		if len(x.Name) > 0 && x.Name[len(x.Name)-1] == '/' {
			return "TDir"
		}
		return "TReg"
	case '5':
		return "TDir"
	case '2':
		return "TSym"
	case '1':
		return "TLink"
	}
	return "TOther"
}

func octal(b []byte, v int64) {
	s := fmt.Sprintf("%0*o", len(b)-1, v)
	copy(b, s)
	b[len(b)-1] = 0
}

func rawHeader(name []byte, flag byte, size int64, link []byte) []byte {
	h := make([]byte, 512)
	copy(h[0:100], name)
	octal(h[100:108], 0o755)
	octal(h[108:116], 0)
	octal(h[116:124], 0)
	octal(h[124:136], size)
	octal(h[136:148], 0)
	h[156] = flag
	copy(h[157:257], link)
	copy(h[257:263], "ustar\x00")
	copy(h[263:265], "00")
	for i := 148; i < 156; i++ {
		h[i] = ' '
	}
	sum := 0
	for _, c := range h {
		sum += int(c)
	}
	copy(h[148:156], fmt.Sprintf("%06o\x00 ", sum))
	return h
}

func pad512(n int64) int64 { return (512 - n%512) % 512 }

// buildTar writes the entries; a name that does not fit the 100-byte field (or holds no
// NUL problem) travels in a PAX extended header. Returns the tar bytes.
func buildTar(out io.Writer, es []xentry, dataFor func(x xentry, w io.Writer, n int64)) {
	b := out
	for _, x := range es {
		if x.Flag == flagCorrupt {
			b.Write(bytes.Repeat([]byte{0xff}, 512))
			return // nothing after it is ever read
		}
		if len(x.Name) > 100 {
			rec := paxRecord("path", x.Name)
			b.Write(rawHeader([]byte("PaxHeaders.0/x"), 'x', int64(len(rec)), nil))
			b.Write(rec)
			b.Write(make([]byte, pad512(int64(len(rec)))))
		}
		size := effSize(x)
		nm := x.Name
		if len(nm) > 100 {
			nm = nm[:100]
		}
		b.Write(rawHeader(nm, x.Flag, size, x.Link))
		if size > 0 {
			av := x.Avail
			if av > size {
				av = size
			}
			dataFor(x, b, av)
			if av < size {
				return // stream cut inside the data
			}
			b.Write(make([]byte, pad512(size)))
		}
	}
	b.Write(make([]byte, 1024))
}

func paxRecord(k string, v []byte) []byte {
	body := append([]byte(" "+k+"="), v...)
	body = append(body, '\n')
	n := len(body) + 1
	for len(fmt.Sprint(n))+len(body) != n {
		n = len(fmt.Sprint(n)) + len(body)
	}
	return append([]byte(fmt.Sprint(n)), body...)
}

func contentByte(cid int) byte { return byte(cid%250 + 1) }

func writeArchive(path string, es []xentry) {
	f, err := os.Create(path)
	must(err)
	gz := gzip.NewWriter(f)
	buildTar(gz, es, func(x xentry, w io.Writer, n int64) {
		chunk := bytes.Repeat([]byte{contentByte(x.Cid)}, 1<<16)
		for n > 0 {
			k := int64(len(chunk))
			if n < k {
				k = n
			}
			w.Write(chunk[:k])
			n -= k
		}
	})
	must(gz.Close())
	must(f.Close())
}

// ---- observed trees ----

type tnode struct {
	Path []string `json:"path"`
	Kind string   `json:"kind"` // dir | file | link | odd
	Cid  int      `json:"cid"`
	Len  int64    `json:"len"`
	Sha  string   `json:"sha,omitempty"`
}

// snapshot lists everything below root (root itself excluded), sorted. known maps a sha256
// to a content id for files that are not uniform entry contents.
func snapshot(root string, known map[string]int) []tnode {
	var out []tnode
	var walk func(dir string, rel []string)
	walk = func(dir string, rel []string) {
		ents, err := os.ReadDir(dir)
		if err != nil {
			return
		}
		for _, d := range ents {
			p := filepath.Join(dir, d.Name())
			r := append(append([]string{}, rel...), d.Name())
			fi, err := os.Lstat(p)
			if err != nil {
				continue
			}
			switch {
			case fi.Mode()&os.ModeSymlink != 0:
				out = append(out, tnode{Path: r, Kind: "link"})
			case fi.IsDir():
				out = append(out, tnode{Path: r, Kind: "dir"})
				walk(p, r)
			case fi.Mode().IsRegular():
				cid, ln, sha := classifyFile(p, known)
				out = append(out, tnode{Path: r, Kind: "file", Cid: cid, Len: ln, Sha: sha})
			default:
				out = append(out, tnode{Path: r, Kind: "odd"})
			}
		}
	}
	walk(root, nil)
	sort.Slice(out, func(i, j int) bool { return strings.Join(out[i].Path, "\x00") < strings.Join(out[j].Path, "\x00") })
	return out
}

func classifyFile(p string, known map[string]int) (int, int64, string) {
	f, err := os.Open(p)
	if err != nil {
		return 998, 0, ""
	}
	defer f.Close()
	h := sha256.New()
	buf := make([]byte, 1<<16)
	var n int64
	uniform := true
	var first byte
	for {
		k, err := f.Read(buf)
		if k > 0 {
			if n == 0 {
				first = buf[0]
			}
			for _, c := range buf[:k] {
				if c != first {
					uniform = false
					break
				}
			}
			h.Write(buf[:k])
			n += int64(k)
		}
		if err != nil {
			break
		}
	}
	sha := fmt.Sprintf("%x", h.Sum(nil))
	if id, ok := known[sha]; ok {
		return id, n, sha[:12]
	}
	if n == 0 {
		return 0, 0, sha[:12]
	}
	if uniform && first >= 1 {
		return int(first) - 1, n, sha[:12]
	}
	return 999, n, sha[:12]
}

func treeCoq(t []tnode) string {
	items := make([]string, len(t))
	for i, n := range t {
		ps := make([]string, len(n.Path))
		for j, el := range n.Path {
			ps[j] = nameCoq([]byte(el))
		}
		var nd string
		switch n.Kind {
		case "dir":
			nd = "NDir"
		case "file":
			nd = fmt.Sprintf("NFile %d %d", n.Cid, n.Len)
		case "link":
			nd = "NLink"
		default:
			nd = "NOdd"
		}
		items[i] = hx.Pair(hx.List(ps), nd)
	}
	return hx.List(items)
}

func entryCoq(x xentry) string {
	size, avail := effSize(x), x.Avail
	if avail > size {
		avail = size
	}
	return fmt.Sprintf("mkE %s %s %d %d %d", nameCoq(x.Name), etypeOf(x), size, avail, x.Cid%250)
}

// runExtract: part (b). Layout of the case directory W:
//
//	W/archive.tgz   W/p/sentinel   W/p/sib/keep   W/p/d/   (d = the extraction directory)
func (e *env) runExtract(c xcase) {
	W := e.dir("b")
	defer os.RemoveAll(W)
	dest := filepath.Join(W, "p", "d")
	must(os.MkdirAll(dest, 0o700))
	must(os.MkdirAll(filepath.Join(W, "p", "sib"), 0o755))
	must(os.WriteFile(filepath.Join(W, "p", "sentinel"), []byte{252}, 0o644))
	must(os.WriteFile(filepath.Join(W, "p", "sib", "keep"), []byte{253, 253}, 0o644))
	arc := filepath.Join(W, "archive.tgz")
	es := c.Entries
	capBytes := registry.VerifMaxExtractedBytes()
	if c.Big {
		es = append([]xentry{}, es...)
		es = append(es, xentry{Name: []byte("big/blob"), Flag: '0', Size: capBytes + 1, Avail: capBytes + 1, Cid: 77})
	}
	writeArchive(arc, es)
	ab, _ := os.ReadFile(arc)
	known := map[string]int{fmt.Sprintf("%x", sha256.Sum256(ab)): 901}

	before := snapshot(W, known)
	var got string
	var err error
	panicked := !hx.Try(func() { got, err = registry.ExtractBinary(arc, dest) })
	after := snapshot(W, known)

	ok := err == nil && !panicked
	var cand []byte
	if ok {
		rel, rerr := filepath.Rel(dest, got)
		if rerr != nil {
			rel = got
		}
		cand = []byte(rel)
	}
	ents := make([]string, len(es))
	for i, x := range es {
		ents[i] = entryCoq(x)
	}
	if treeCoq(before) != stdBefore(int64(len(ab))) {
		panic("scratch layout is not the standard one: " + treeCoq(before))
	}
	obs := map[string]any{"ok": ok, "panicked": panicked, "cand": bytesToJSON(cand), "after": after}
	if err != nil {
		obs["err"] = err.Error()
	}
	e.w.Add(map[string]any{
		"input":    map[string]any{"kind": "extract", "entries": c.Entries, "big": c.Big},
		"observed": obs,
	}, fmt.Sprintf("KExtract %d %s %s %s %d %s", capBytes, hx.List(ents), hx.Bool(ok), nameCoq(cand), len(ab), treeCoq(after)))
}

func stdBefore(arclen int64) string {
	return treeCoq([]tnode{
		{Path: []string{"archive.tgz"}, Kind: "file", Cid: 901, Len: arclen},
		{Path: []string{"p"}, Kind: "dir"}, {Path: []string{"p", "d"}, Kind: "dir"},
		{Path: []string{"p", "sentinel"}, Kind: "file", Cid: 251, Len: 1},
		{Path: []string{"p", "sib"}, Kind: "dir"},
		{Path: []string{"p", "sib", "keep"}, Kind: "file", Cid: 252, Len: 2}})
}

func extractFromJSON(in map[string]any) xcase {
	var c xcase
	c.Big, _ = in["big"].(bool)
	l, _ := in["entries"].([]any)
	for _, it := range l {
		m := it.(map[string]any)
		x := xentry{Name: bytesFromJSON(m["name"]), Link: bytesFromJSON(m["link"]),
			Flag: byte(int(m["flag"].(float64))), Size: int64(m["size"].(float64)),
			Avail: int64(m["avail"].(float64)), Cid: int(m["cid"].(float64))}
		c.Entries = append(c.Entries, x)
	}
	return c
}

// genExtract: archives made of a small pool of names (so that duplicates, file-then-directory
// and directory-then-file clashes happen), every type flag, and the odd cut or corrupt stream.
func genExtract(r *hx.Rand) xcase {
	pool := make([][]byte, r.Range(1, 4))
	for i := range pool {
		pool[i] = genName(r, 7, false)
		if r.Chance(1, 2) { // a plain element, the common case
			pool[i] = []byte{"abc"[r.Intn(3)]}
			if r.Chance(1, 3) {
				pool[i] = append(pool[i], "/"+string("abc"[r.Intn(3)])...)
			}
		}
	}
	n := r.Range(0, 6)
	var c xcase
	for i := 0; i < n; i++ {
		nm := append([]byte{}, pool[r.Intn(len(pool))]...)
		switch r.Intn(16) {
		case 12:
			nm = append([]byte("./../"), nm...)
		case 13:
			nm = append([]byte("x/../../"), nm...)
		case 14:
			nm = append(append(append([]byte{}, nm...), "/../../"...), nm...)
		case 15:
			nm = append([]byte("x/.././../"), nm...)
		case 0:
			nm = append([]byte("./"), nm...)
		case 1:
			nm = append(nm, '/')
		case 2:
			nm = append(nm, "/x"...)
		case 3:
			nm = append([]byte("x/../"), nm...)
		case 4:
			nm = append([]byte("../"), nm...)
		case 5:
			nm = append([]byte("/"), nm...)
		case 6:
			nm = append(nm, "/.."...)
		case 7:
			if r.Chance(1, 4) {
				nm = append(bytes.Repeat([]byte("l"), 101), nm...) // PAX path
				if r.Chance(1, 2) {
					nm = append([]byte("../"), nm...)
				}
			}
		}
		if r.Chance(1, 5) {
			// separator confusion: the same name spelled (partly) with backslashes. On unix
			// these are ordinary file-name bytes; code that "normalises" them after the escape guard turns
			// a harmless single element into a traversal.
			alt := "\\"
			var nn []byte
			for _, b := range nm {
				if b == '/' && r.Chance(2, 3) {
					nn = append(nn, alt...)
				} else {
					nn = append(nn, b)
				}
			}
			nm = nn
		}
		fl := byte('0')
		switch x := r.Intn(20); {
		case x < 11:
		case x < 13:
			fl = '5'
		case x < 15:
			fl = '2'
		case x < 16:
			fl = '1'
		case x < 17:
			fl = 0
		case x < 18:
			fl = "3467"[r.Intn(4)]
		case x < 19:
			fl = 'Z'
		default:
			fl = flagCorrupt
		}
		size := int64(r.Range(0, 5))
		if r.Chance(1, 10) {
			size = int64(r.Range(500, 1500))
		}
		x := xentry{Name: nm, Flag: fl, Size: size, Avail: size, Cid: i}
		if fl == '1' || fl == '2' {
			x.Link = [][]byte{[]byte("../sentinel"), []byte("/etc/passwd"), []byte("a"), []byte("../../..")}[r.Intn(4)]
		}
		c.Entries = append(c.Entries, x)
	}
	if n > 0 && r.Chance(1, 12) { // cut the stream inside the last data-bearing entry
		last := &c.Entries[n-1]
		if !headerOnly(last.Flag) && last.Flag != flagCorrupt && last.Size > 0 {
			last.Avail = int64(r.Intn(int(last.Size)))
		}
	}
	return c
}
