package main

import (
	"bufio"
	"bytes"
	"context"
	"crypto/sha256"
	"encoding/json"
	"fmt"
	"net/http"
	"net/http/httptest"
	"os"
	"os/exec"
	"path/filepath"
	"regexp"
	"runtime"
	"strconv"
	"strings"
	"time"

	"github.com/conduitio/conduit/pkg/foundation/atomicfile"
	"github.com/conduitio/conduit/pkg/registry"
	"github.com/conduitio/conduit/pkg/registry/index"
	"github.com/conduitio/conduit/pkg/registry/trust"

	"verifharness/lib/hx"
)

// ccrash: one crash experiment.
//
//	what=atomic  : a child runs atomicfile.WriteFile (variant 0), registry.SaveManifest (1) or
//	               index.SaveState (2) on a path that holds an old version; it is traced once to
//	               get the system calls it makes on the directory, then killed (SIGKILL injected
//	               by strace on entry of the N-th call of each listed system call, N = 1, 2, ...)
//	what=install : a child runs a whole registry.Install and is killed at a chaos point
//	               (by=chaos) or at the N-th call of a system call (by=syscall)
type ccrash struct {
	What     string   `json:"what"`
	Variant  int      `json:"variant"`
	Syscalls []string `json:"syscalls,omitempty"`
	By       string   `json:"by,omitempty"`
	Point    string   `json:"point,omitempty"`
	Syscall  string   `json:"syscall,omitempty"`
	N        int      `json:"n,omitempty"`
}

var atomicSyscalls = []string{"openat", "write", "fsync", "close", "fchmodat", "renameat", "unlinkat"}

func oldNew(variant int) (old, new []byte) {
	switch variant {
	case 1:
		mk := func(v string, n int) []byte {
			m := registry.Manifest{SchemaVersion: 1, Installs: map[string]registry.ManifestEntry{}}
			for i := 0; i < n; i++ {
				k := fmt.Sprintf("conn%d@%s", i, v)
				m.Installs[k] = registry.ManifestEntry{Name: fmt.Sprintf("conn%d", i), Version: v, Digest: strings.Repeat("ab", 32)}
			}
			b, _ := json.Marshal(m)
			return b
		}
		return mk("1.0.0", 2), mk("2.0.0", 40)
	case 2:
		return []byte(`{"version":7}`), []byte(`{"version":42,"lastVerifiedContentHash":"` + strings.Repeat("cd", 32) + `"}`)
	}
	return bytes.Repeat([]byte("old-content;"), 30), bytes.Repeat([]byte("NEW-CONTENT-IS-LONGER;"), 4000)
}

// childAtomic runs in the child: write `new` through the API of the variant.
func childAtomic(variant int, path string) {
	_, nw := oldNew(variant)
	var err error
	switch variant {
	case 1:
		var m registry.Manifest
		must(json.Unmarshal(nw, &m))
		err = registry.SaveManifest(path, &m)
	case 2:
		var s index.State
		must(json.Unmarshal(nw, &s))
		err = index.SaveState(path, s)
	default:
		err = atomicfile.WriteFile(path, nw, 0o644)
	}
	if err != nil {
		fmt.Fprintln(os.Stderr, err)
		os.Exit(3)
	}
}

// same reports whether the file content means the same as want for the variant (the JSON
// variants are compared after parsing: key order and indentation are the writer's business).
func same(variant int, got, want []byte) bool {
	if variant == 0 {
		return bytes.Equal(got, want)
	}
	var a, b any
	if json.Unmarshal(got, &a) != nil || json.Unmarshal(want, &b) != nil {
		return false
	}
	x, _ := json.Marshal(a)
	y, _ := json.Marshal(b)
	return bytes.Equal(x, y)
}

func seenOf(variant int, path string, old, nw []byte) string {
	got, err := os.ReadFile(path)
	switch {
	case err != nil && os.IsNotExist(err) && old == nil:
		return "SeenOld"
	case err != nil:
		return "SeenOther"
	case old != nil && same(variant, got, old):
		return "SeenOld"
	case same(variant, got, nw):
		return "SeenNew"
	}
	return "SeenOther"
}

func self() string {
	p, err := os.Executable()
	must(err)
	return p
}

func straceKill(sc string, n int, args ...string) (killed bool, out string) {
	a := append([]string{"-f", "-o", "/dev/null", "-e", "trace=" + sc, "-e",
		fmt.Sprintf("inject=%s:signal=KILL:when=%d", sc, n), self()}, args...)
	ctx, cancel := context.WithTimeout(context.Background(), 60*time.Second)
	defer cancel()
	cmd := exec.CommandContext(ctx, "strace", a...)
	b, err := cmd.CombinedOutput()
	return err != nil, string(b)
}

var reLine = regexp.MustCompile(`^(\d+)\s+(.*)$`)
var reRet = regexp.MustCompile(`^(.*)\)\s+= (\S+)`)

// traceOps runs the child under strace and turns the system calls that touch dir into sysops.
func traceOps(dir, target string, args ...string) ([]string, string) {
	logf := filepath.Join(dir, "..", "strace.log")
	a := append([]string{"-f", "-s", "0", "-o", logf, "-e",
		"trace=openat,open,creat,write,pwrite64,writev,fsync,fdatasync,close,fchmodat,fchmod,chmod,renameat,renameat2,rename,unlinkat,unlink,ftruncate,truncate",
		self()}, args...)
	ctx, cancel := context.WithTimeout(context.Background(), 60*time.Second)
	defer cancel()
	if b, err := exec.CommandContext(ctx, "strace", a...).CombinedOutput(); err != nil {
		return []string{"SOther"}, "strace failed: " + err.Error() + " " + string(b)
	}
	f, err := os.Open(logf)
	must(err)
	defer f.Close()
	defer os.Remove(logf)
	pending := map[string]string{}
	fds := map[string]string{} // fd -> "tmp" | "target" | "other"
	var ops []string
	var raw []string
	sc := bufio.NewScanner(f)
	sc.Buffer(make([]byte, 1<<20), 1<<20)
	for sc.Scan() {
		m := reLine.FindStringSubmatch(sc.Text())
		if m == nil {
			continue
		}
		pid, rest := m[1], m[2]
		if strings.HasSuffix(rest, "<unfinished ...>") {
			pending[pid] = strings.TrimSuffix(rest, "<unfinished ...>")
			continue
		}
		if strings.HasPrefix(rest, "<... ") {
			i := strings.Index(rest, "resumed>")
			if i < 0 {
				continue
			}
			rest = pending[pid] + rest[i+len("resumed>"):]
			delete(pending, pid)
		}
		p := strings.Index(rest, "(")
		if p < 0 {
			continue
		}
		name, argstr := rest[:p], rest[p+1:]
		ret := ""
		if m := reRet.FindStringSubmatch(argstr); m != nil {
			argstr, ret = m[1], m[2]
		}
		inDir := strings.Contains(argstr, `"`+dir+`/`)
		kindOf := func(path string) string {
			switch {
			case path == target:
				return "target"
			case strings.HasPrefix(filepath.Base(path), ".atomicfile-"):
				return "tmp"
			}
			return "other"
		}
		paths := regexp.MustCompile(`"([^"]*)"`).FindAllStringSubmatch(argstr, -1)
		fd0 := strings.TrimSpace(strings.SplitN(argstr, ",", 2)[0])
		switch name {
		case "openat", "open", "creat":
			if !inDir || len(paths) == 0 {
				continue
			}
			k := kindOf(paths[0][1])
			if ret != "-1" {
				fds[ret] = k
			}
			switch {
			case k == "tmp" && strings.Contains(argstr, "O_CREAT") && strings.Contains(argstr, "O_EXCL"):
				ops = append(ops, "SCreateTmp")
			case k == "target" && (strings.Contains(argstr, "O_TRUNC") || strings.Contains(argstr, "O_WRONLY") || strings.Contains(argstr, "O_RDWR")):
				ops = append(ops, "STruncOpen")
			default:
				ops = append(ops, "SOther")
			}
		case "write", "pwrite64", "writev":
			switch fds[fd0] {
			case "tmp":
				if len(ops) > 0 && ops[len(ops)-1] == "SWrite" {
					continue // a long write may take several calls
				}
				ops = append(ops, "SWrite")
			case "target":
				if len(ops) > 0 && ops[len(ops)-1] == "SWriteInPlace" {
					continue
				}
				ops = append(ops, "SWriteInPlace")
			default:
				continue
			}
		case "fsync", "fdatasync":
			if fds[fd0] == "" {
				continue
			}
			ops = append(ops, "SFsync")
		case "close":
			if fds[fd0] == "" {
				continue
			}
			delete(fds, fd0)
			ops = append(ops, "SClose")
		case "ftruncate", "truncate":
			if fds[fd0] == "" && !inDir {
				continue
			}
			ops = append(ops, "STruncOpen")
		case "fchmod":
			if fds[fd0] == "" {
				continue
			}
			ops = append(ops, "SChmod")
		case "fchmodat", "chmod":
			if !inDir {
				continue
			}
			ops = append(ops, "SChmod")
		case "renameat", "renameat2", "rename":
			if !inDir {
				continue
			}
			if len(paths) == 2 && kindOf(paths[0][1]) == "tmp" && paths[1][1] == target {
				ops = append(ops, "SRename")
			} else {
				ops = append(ops, "SOther")
			}
		case "unlinkat", "unlink":
			if !inDir {
				continue
			}
			if len(paths) >= 1 && kindOf(paths[0][1]) == "tmp" {
				if len(ops) > 0 && ops[len(ops)-1] == "SRemoveTmp" {
					continue // os.Remove: unlink, then rmdir when that failed
				}
				ops = append(ops, "SRemoveTmp")
			} else {
				ops = append(ops, "SOther")
			}
		default:
			continue
		}
		raw = append(raw, name+"("+argstr+") = "+ret)
	}
	return ops, strings.Join(raw, "\n")
}

func (e *env) runCrash(c ccrash) {
	if c.What == "install" {
		e.runInstallKill(c)
		return
	}
	W := e.dir("e")
	defer os.RemoveAll(W)
	dir := filepath.Join(W, "d")
	must(os.MkdirAll(dir, 0o755))
	target := filepath.Join(dir, "state.json")
	old, nw := oldNew(c.Variant)
	reset := func() {
		ents, _ := os.ReadDir(dir)
		for _, d := range ents {
			os.RemoveAll(filepath.Join(dir, d.Name()))
		}
		must(os.WriteFile(target, old, 0o644))
	}
	args := []string{"child", "atomic", strconv.Itoa(c.Variant), target}

	reset()
	ops, raw := traceOps(dir, target, args...)
	cleanRun := seenOf(c.Variant, target, old, nw)

	type kill struct {
		Syscall string `json:"syscall"`
		N       int    `json:"n"`
		Seen    string `json:"seen"`
		Left    int    `json:"leftoverFiles"`
	}
	var kills []kill
	seen := []string{cleanRun}
	for _, sc := range c.Syscalls {
		for n := 1; n <= 60; n++ {
			reset()
			killed, _ := straceKill(sc, n, args...)
			if !killed {
				break
			}
			s := seenOf(c.Variant, target, old, nw)
			ents, _ := os.ReadDir(dir)
			kills = append(kills, kill{sc, n, s, len(ents) - 1})
			seen = append(seen, s)
		}
	}
	e.w.Add(map[string]any{"input": map[string]any{"kind": "crash", "crash": c},
		"observed": map[string]any{"ops": ops, "raw": raw, "cleanRun": cleanRun, "kills": kills}},
		fmt.Sprintf("KAtomic %d %s %s", c.Variant, hx.List(ops), hx.List(seen)))
}

// ---- a whole install in a child ----

const killContent = 33 // content id of the candidate binary of the child's archive

func childInstall(W, point string) {
	conn := filepath.Join(W, "conn")
	arc := filepath.Join(W, "served.tgz")
	writeArchive(arc, []xentry{{Name: []byte("conduit-connector-demo"), Flag: '0', Size: 3000, Avail: 3000, Cid: killContent}})
	ab, err := os.ReadFile(arc)
	must(err)
	sum := sha256.Sum256(ab)
	mux := http.NewServeMux()
	srv := httptest.NewServer(mux)
	mux.HandleFunc("/index.json", func(rw http.ResponseWriter, _ *http.Request) { rw.Write([]byte(`{}`)) })
	mux.HandleFunc("/artifact.tar.gz", func(rw http.ResponseWriter, _ *http.Request) { rw.Write(ab) })
	mux.HandleFunc("/sig.json", func(rw http.ResponseWriter, _ *http.Request) { rw.Write([]byte(`{}`)) })
	payload := &index.Payload{SchemaVersion: 1, Index: index.IndexMeta{Version: 7, Timestamp: time.Now()},
		Connectors: []index.Connector{{Name: iName, Publisher: index.Publisher{ExpectedOIDCIssuer: "https://issuer.example",
			ExpectedIdentityPattern: `^https://github\.com/example/demo/.*$`},
			Versions: []index.ConnectorVersion{{Version: iVersion, MinConduitVersion: "0.1.0", MinProtocolVersion: "0.1.0",
				Artifacts: []index.Artifact{{OS: runtime.GOOS, Arch: runtime.GOARCH, Kind: registry.StandaloneArtifactKind,
					URL: srv.URL + "/artifact.tar.gz", SHA256: fmt.Sprintf("%x", sum), Size: int64(len(ab)),
					Signature: index.SignatureRef{BundleURL: srv.URL + "/sig.json"}}}}}}}}
	registry.VerifSetChaosHook(func(p string) {
		if p == point {
			os.Exit(137)
		}
	})
	v := &childVerifier{payload: payload, marker: filepath.Join(W, "verifier-accepted")}
	_, err = registry.Install(context.Background(), registry.InstallOptions{Name: iName, Version: iVersion,
		ConnectorsPath: conn, IndexURL: srv.URL + "/index.json", IndexVerifier: v, ArtifactVerifier: v,
		RunningConduitVersion: "0.15.0", RunningProtocolVersion: "1.0.0", LockTimeout: 3 * time.Second})
	if err != nil {
		fmt.Fprintln(os.Stderr, err)
		os.Exit(3)
	}
}

type childVerifier struct {
	payload *index.Payload
	marker  string
}

func (v *childVerifier) VerifyIndex(context.Context, []byte) (*index.VerifiedIndex, error) {
	return &index.VerifiedIndex{Payload: *v.payload, Verified: true}, nil
}
func (v *childVerifier) VerifyArtifact(context.Context, registry.ArtifactRef, trust.PinnedIdentity) (registry.VerifyResult, error) {
	must(os.WriteFile(v.marker, []byte("1"), 0o644))
	return registry.VerifyResult{Signed: true, VerifiedIdentity: "child"}, nil
}

func (e *env) runInstallKill(c ccrash) {
	W := e.dir("k")
	defer os.RemoveAll(W)
	conn := filepath.Join(W, "conn")
	must(os.MkdirAll(filepath.Join(conn, ".registry"), 0o755))
	oldManifest := &registry.Manifest{SchemaVersion: 1, Installs: map[string]registry.ManifestEntry{
		"other@1.0.0": {Name: "other", Version: "1.0.0"}}}
	mpath := filepath.Join(conn, ".registry", "manifest.json")
	must(registry.SaveManifest(mpath, oldManifest))
	finalPath := filepath.Join(conn, "conduit-connector-"+iName+"_"+iVersion)

	var killed bool
	var out string
	if c.By == "chaos" {
		cmd := exec.Command(self(), "child", "install", W, c.Point)
		b, err := cmd.CombinedOutput()
		killed, out = err != nil, string(b)
	} else {
		killed, out = straceKill(c.Syscall, c.N, "child", "install", W, "")
	}

	final := "SeenOld"
	if data, err := os.ReadFile(finalPath); err == nil {
		if bytes.Equal(data, bytes.Repeat([]byte{contentByte(killContent)}, 3000)) {
			final = "SeenNew"
		} else {
			final = "SeenOther"
		}
	} else if !os.IsNotExist(err) {
		final = "SeenOther"
	}
	manifest, entry := "SeenOther", false
	if data, err := os.ReadFile(mpath); err == nil {
		var m registry.Manifest
		if json.Unmarshal(data, &m) == nil {
			if _, ok := m.Installs["other@1.0.0"]; ok {
				manifest = "SeenOld"
				if _, ok := m.Installs[iName+"@"+iVersion]; ok {
					manifest, entry = "SeenNew", true
				}
			}
		}
	}
	_, verr := os.Stat(filepath.Join(W, "verifier-accepted"))
	e.w.Add(map[string]any{"input": map[string]any{"kind": "crash", "crash": c},
		"observed": map[string]any{"killed": killed, "final": final, "manifest": manifest, "entry": entry, "verified": verr == nil, "out": tail(out, 300)}},
		fmt.Sprintf("KKill %s %s %s %s", final, manifest, hx.Bool(entry), hx.Bool(verr == nil)))
}

func tail(s string, n int) string {
	if len(s) > n {
		return s[len(s)-n:]
	}
	return s
}

func crashFromJSON(in map[string]any) ccrash {
	b, _ := json.Marshal(in["crash"])
	var c ccrash
	if err := json.Unmarshal(b, &c); err != nil {
		panic(err)
	}
	return c
}

// childMain: `<exe> child atomic <variant> <path>` | `<exe> child install <W> <point>`
func childMain(args []string) {
	switch args[0] {
	case "atomic":
		v, _ := strconv.Atoi(args[1])
		childAtomic(v, args[2])
	case "install":
		childInstall(args[1], args[2])
	}
}
