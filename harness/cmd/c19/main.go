// Harness for C19 (registry install: integrity + trust gates, confinement, rollback mark,
// atomic replacement).  It drives the real code of pkg/registry, pkg/registry/index,
// pkg/registry/policy and pkg/foundation/atomicfile and writes one case per run for the
// Coq model (coq/Reg/*.v):
//
//	clean    filepath.Clean / IsAbs / Join                      vs Reg/Path.v
//	extract  registry.ExtractBinary on generated tar.gz         vs Reg/Extract.v
//	install  registry.Install against an in-process server      vs Reg/Gate.v
//	hwm      registry.TrustedVerifier.VerifyIndex               vs Reg/Hwm.v
//	crash    atomicfile.WriteFile / SaveManifest / SaveState /  vs Reg/AtomicFile.v
//	         Install killed at syscalls and chaos points
//
// Modes: default = generated cases of every kind; --mode exhaustive = small-scope
// enumeration (clean, extract); --mode gen = translator (writes GenC19.v);
// --mode child-* = helper processes that get killed.
package main

import (
	"bytes"
	"fmt"
	"os"
	"path/filepath"
	"strings"

	"verifharness/lib/hx"
)

const header = "From Verif Require Import Base.CaseCheck Reg.Path Reg.Extract Reg.Gate Reg.Hwm Reg.AtomicFile Reg.Check."

type env struct {
	o       hx.Opts
	w       *hx.Writer
	scratch string
	seq     int
}

func (e *env) dir(prefix string) string {
	e.seq++
	d := filepath.Join(e.scratch, fmt.Sprintf("%s%d", prefix, e.seq))
	must(os.MkdirAll(d, 0o755))
	return d
}

func must(err error) {
	if err != nil {
		panic(err)
	}
}

func main() {
	if len(os.Args) > 1 && os.Args[1] == "child" {
		childMain(os.Args[2:])
		return
	}
	o := hx.ParseFlags()
	if o.Mode == "gen" {
		genMain(o)
		return
	}
	w, err := hx.NewWriter(o, header, "ccase")
	if err != nil {
		fmt.Fprintln(os.Stderr, err)
		os.Exit(2)
	}
	abs, _ := filepath.Abs(o.Out)
	e := &env{o: o, w: w, scratch: filepath.Join(abs, fmt.Sprintf("scratch-%d", o.Shard))}
	os.RemoveAll(e.scratch)
	must(os.MkdirAll(e.scratch, 0o755))
	defer os.RemoveAll(e.scratch)

	mode, part, parts := o.Mode, 0, 1
	if i := strings.Index(mode, ":"); i >= 0 { // "exhaustive:2/4" = part 2 of 4 of that mode
		fmt.Sscanf(mode[i+1:], "%d/%d", &part, &parts)
		mode = mode[:i]
	}
	switch {
	case o.Replay != "":
		cs, err := hx.ReadJSONL(o.Replay)
		if err != nil {
			fmt.Fprintln(os.Stderr, err)
			os.Exit(2)
		}
		for _, m := range cs {
			in, ok := m["input"].(map[string]any)
			if !ok {
				if c, ok2 := m["case"].(map[string]any); ok2 { // a replay file written by the driver
					in, ok = c["input"].(map[string]any)
				}
				if !ok {
					continue
				}
			}
			hx.Try(func() { e.replayOne(in) })
		}
	case mode == "exhaustive":
		e.exhaustive(part, parts)
	case mode == "lattice":
		e.lattice(part, parts)
	case mode == "crash":
		e.crashes(part, parts)
	default:
		e.generated()
	}
	if err := w.Close("chk"); err != nil {
		fmt.Fprintln(os.Stderr, err)
		os.Exit(2)
	}
	os.RemoveAll(e.scratch)
	fmt.Printf("cases=%d\n", w.Count())
}

func (e *env) replayOne(in map[string]any) {
	switch in["kind"] {
	case "clean":
		e.runClean(bytesFromJSON(in["name"]))
	case "extract":
		e.runExtract(extractFromJSON(in))
	case "install":
		e.runInstall(installFromJSON(in))
	case "history":
		e.runHistory(historyFromJSON(in))
	case "hwm":
		e.runHwm(hwmFromJSON(in))
	case "crash":
		e.runCrash(crashFromJSON(in))
	}
}

// generated: the default stream; every shard exercises every sequential part.
func (e *env) generated() {
	root := hx.NewRand(e.o.Seed)
	for i := 0; i < e.o.N; i++ {
		r := root.Fork(uint64(e.o.Shard)<<32 | uint64(i))
		switch i % 10 {
		case 0, 1:
			e.runClean(genName(r, 24, true))
		case 2, 3, 4, 5:
			e.runExtract(genExtract(r))
		case 6, 7:
			e.runInstall(genInstall(r))
		case 8:
			if i%20 == 8 {
				e.runHistory(genHistory(r))
			} else {
				e.runInstall(genInstall(r))
			}
		default:
			e.runHwm(genHwm(r))
		}
	}
}

// lattice: every combination of the outcomes the install property speaks about, and every
// policy context.
func (e *env) lattice(part, parts int) {
	cs := append(gateLattice(), policyLattice()...)
	for k, c := range cs {
		if k%parts == part {
			e.runInstall(c)
		}
	}
	for k, h := range historyLattice() {
		if k%parts == part {
			e.runHistory(h)
		}
	}
}

// crashes: kill experiments. quick: WriteFile at the calls that matter; thorough: the three
// writers at every call, and a whole install at every chaos point and at its renames, syncs,
// unlinks and mkdirs.
func (e *env) crashes(part, parts int) {
	var cs []ccrash
	if e.o.Tier == "quick" {
		cs = append(cs, ccrash{What: "atomic", Variant: 0, Syscalls: []string{"write", "renameat", "fchmodat"}})
		cs = append(cs, ccrash{What: "install", By: "chaos", Point: "post-rename-pre-manifest"})
		cs = append(cs, ccrash{What: "install", By: "chaos", Point: "extract-complete"})
	} else {
		for v := 0; v < 3; v++ {
			for _, sc := range atomicSyscalls {
				cs = append(cs, ccrash{What: "atomic", Variant: v, Syscalls: []string{sc}})
			}
		}
		for _, p := range []string{"download-complete", "extract-complete", "prerename-fd-opened", "post-rename-pre-manifest"} {
			cs = append(cs, ccrash{What: "install", By: "chaos", Point: p})
		}
		for _, sc := range []string{"renameat", "fsync", "unlinkat", "mkdirat", "fchmodat"} {
			for n := 1; n <= 10; n++ {
				cs = append(cs, ccrash{What: "install", By: "syscall", Syscall: sc, N: n})
			}
		}
	}
	for k, c := range cs {
		if k%parts == part {
			e.runCrash(c)
		}
	}
}

func (e *env) exhaustive(part, parts int) {
	// clean: every string over {'/', '.', 'a'} up to length L; extract: every single
	// entry (regular file, directory, symlink) with such a name up to length L2, and every
	// pair of regular-file entries over a set of short names.
	L, L2 := 9, 6
	if e.o.Tier == "quick" {
		L, L2 = 5, 4
	}
	k := 0
	mine := func() bool { k++; return k%parts == part }
	alpha := []byte{'/', '.', 'a'}
	var rec func(cur []byte, max int, f func([]byte))
	rec = func(cur []byte, max int, f func([]byte)) {
		f(cur)
		if len(cur) == max {
			return
		}
		for _, c := range alpha {
			rec(append(append([]byte{}, cur...), c), max, f)
		}
	}
	rec(nil, L, func(nm []byte) {
		if mine() {
			e.runClean(nm)
		}
	})
	rec(nil, L2, func(nm []byte) {
		for _, fl := range []byte{'0', '5', '2'} {
			if mine() {
				e.runExtract(xcase{Entries: []xentry{{Name: nm, Flag: fl, Size: 3, Avail: 3, Cid: 1}}})
			}
		}
	})
	// regular files whose name has a ".." element, two characters longer
	rec(nil, L2+2, func(nm []byte) {
		if len(nm) > L2 && bytes.Contains(nm, []byte("..")) && !bytes.HasPrefix(nm, []byte("/")) && !bytes.HasPrefix(nm, []byte("../")) && mine() {
			e.runExtract(xcase{Entries: []xentry{{Name: nm, Flag: '0', Size: 3, Avail: 3, Cid: 1}}})
		}
	})
	var short [][]byte
	rec(nil, 2, func(nm []byte) { short = append(short, nm) })
	short = append(short, []byte("a/a"), []byte("a/.."), []byte("../a"), []byte("a/a/a"))
	for _, n1 := range short {
		for _, n2 := range short {
			if mine() {
				e.runExtract(xcase{Entries: []xentry{
					{Name: n1, Flag: '0', Size: 2, Avail: 2, Cid: 1},
					{Name: n2, Flag: '0', Size: 1, Avail: 1, Cid: 2}}})
			}
		}
	}
	if e.o.Tier != "quick" && part == 0 {
		e.runExtract(xcase{Entries: []xentry{{Name: []byte("bin"), Flag: '0', Size: 4, Avail: 4, Cid: 5}}, Big: true})
	}
}

// ---- small helpers shared by the parts ----

func bytesFromJSON(v any) []byte {
	l, _ := v.([]any)
	out := make([]byte, 0, len(l))
	for _, x := range l {
		out = append(out, byte(int(x.(float64))))
	}
	return out
}

func bytesToJSON(b []byte) []int {
	out := make([]int, len(b))
	for i, c := range b {
		out[i] = int(c)
	}
	return out
}

// nameCoq renders bytes as a Reg/Path.v name.
func nameCoq(b []byte) string {
	items := make([]string, len(b))
	for i, c := range b {
		switch c {
		case '/':
			items[i] = "Sl"
		case '.':
			items[i] = "Dt"
		default:
			items[i] = fmt.Sprintf("Ch %d", c)
		}
	}
	return hx.List(items)
}

// genName: mostly the characters that matter, sometimes anything (NUL, backslash, UTF-8).
func genName(r *hx.Rand, maxLen int, wild bool) []byte {
	n := r.Range(0, maxLen)
	out := make([]byte, 0, n)
	for len(out) < n {
		switch x := r.Intn(20); {
		case x < 6:
			out = append(out, '/')
		case x < 12:
			out = append(out, '.')
		case x < 17:
			out = append(out, "ab"[r.Intn(2)])
		case x < 18:
			out = append(out, "../"...)
		default:
			if wild {
				switch r.Intn(5) {
				case 0:
					out = append(out, 0)
				case 1:
					out = append(out, '\\')
				case 2:
					out = append(out, "é"...)
				case 3:
					out = append(out, "∕"...) // DIVISION SLASH
				default:
					out = append(out, byte(r.Intn(256)))
				}
			} else {
				out = append(out, "\\ c-_"[r.Intn(5)])
			}
		}
	}
	return out
}
