package main

import (
	"context"
	"crypto/ed25519"
	"crypto/sha256"
	"encoding/base64"
	"encoding/json"
	"fmt"
	"os"
	"path/filepath"
	"sync"
	"sync/atomic"
	"time"

	"github.com/conduitio/conduit/pkg/foundation/cerrors/conduiterr"
	"github.com/conduitio/conduit/pkg/registry"
	"github.com/conduitio/conduit/pkg/registry/index"

	"verifharness/lib/hx"
)

// hop: one fetched index handed to VerifyIndex. Root / FSig: "good" (a signature by the
// trusted key that verifies), "bad" (one by another key under the trusted key id), "" (none).
type hop struct {
	Version int64  `json:"version"`
	Root    string `json:"root"`
	FSig    string `json:"fsig"`
	Content int    `json:"content"` // identifies the content subtree (one connector named c<Content>)
	Fresh   bool   `json:"fresh"`
}

type hcase struct {
	M0      int64   `json:"m0"`      // mark persisted before the calls (0 and H0 < 0: no state file)
	H0      int     `json:"h0"`      // content on record before the calls, -1: none
	Batches [][]hop `json:"batches"` // batches run one after the other; the calls of a batch run concurrently
}

func (o hop) coq() string {
	return fmt.Sprintf("(mkH %s %s %s %d %s true)", hx.Z(o.Version), hx.Bool(o.Root == "good"), hx.Bool(o.FSig == "good"),
		o.Content, hx.Bool(o.Fresh))
}

func hashCoq(h int) string {
	if h < 0 {
		return "None"
	}
	return fmt.Sprintf("(Some %d)", h)
}

type signer struct {
	root, fresh, bad ed25519.PrivateKey
	anchors          index.TrustAnchors
	rootID, freshID  string
}

func newSigner(seed byte) *signer {
	mk := func(b byte) ed25519.PrivateKey {
		s := sha256.Sum256([]byte{b, 'c', '1', '9'})
		return ed25519.NewKeyFromSeed(s[:])
	}
	s := &signer{root: mk(seed), fresh: mk(seed + 1), bad: mk(seed + 2)}
	var err error
	s.rootID, err = index.KeyID(s.root.Public().(ed25519.PublicKey))
	must(err)
	s.freshID, err = index.KeyID(s.fresh.Public().(ed25519.PublicKey))
	must(err)
	s.anchors = index.TrustAnchors{
		Roots:     map[string]ed25519.PublicKey{s.rootID: s.root.Public().(ed25519.PublicKey)},
		Freshness: map[string]ed25519.PublicKey{s.freshID: s.fresh.Public().(ed25519.PublicKey)}}
	return s
}

func contentJSON(c int) []any {
	return []any{map[string]any{"name": fmt.Sprintf("c%d", c),
		"publisher": map[string]any{"expectedOIDCIssuer": "https://issuer.example", "expectedIdentityPattern": "^x$"},
		"versions":  []any{}}}
}

// contentHash: what VerifyIndex records for the content c (HashContentSubtree of the typed payload).
func contentHash(c int) string {
	b, err := json.Marshal(map[string]any{"connectors": contentJSON(c)})
	must(err)
	var p index.Payload
	must(json.Unmarshal(b, &p))
	h, err := index.HashContentSubtree(p.Connectors, p.Processors)
	must(err)
	return h
}

// envelope: an index of the given version and content, signed as the op says; a stale index
// carries a timestamp older than the staleness window.
func (s *signer) envelope(o hop) []byte {
	ts := time.Now().UTC()
	if !o.Fresh {
		ts = ts.Add(-index.DefaultMaxStaleness - 48*time.Hour)
	}
	payload, err := json.Marshal(map[string]any{"schemaVersion": 1,
		"index": map[string]any{"version": o.Version, "timestamp": ts.Format(time.RFC3339)}, "connectors": contentJSON(o.Content)})
	must(err)
	canon, err := index.Canonicalize(payload)
	must(err)
	var sigs []any
	add := func(role, id, how string, key ed25519.PrivateKey) {
		if how == "" {
			return
		}
		if how != "good" {
			key = s.bad
		}
		sigs = append(sigs, map[string]any{"role": role, "keyId": id, "algorithm": "ed25519",
			"signature": base64.StdEncoding.EncodeToString(ed25519.Sign(key, canon))})
	}
	add("freshness", s.freshID, o.FSig, s.fresh)
	add("root", s.rootID, o.Root, s.root)
	if sigs == nil {
		sigs = []any{}
	}
	env, err := json.Marshal(map[string]any{"payload": json.RawMessage(payload), "signatures": sigs})
	must(err)
	return env
}

func classify(err error) string {
	if err == nil {
		return "OAcc"
	}
	if ce, ok := conduiterr.Get(err); ok {
		switch ce.Code.Reason() {
		case index.CodeIndexIntegrity.Reason(), index.CodeTrustAnchorExpired.Reason():
			return "OInt"
		case index.CodeIndexRollback.Reason():
			return "ORoll"
		case index.CodeIndexStale.Reason():
			return "OStale"
		}
	}
	return "OErr"
}

func readMark(statePath string) (int64, bool) {
	st, err := index.LoadState(statePath)
	if err != nil {
		return 0, false
	}
	return st.Version, true
}

// readHash: the content on record as a content id (-1 none, -2 unknown).
func readHash(statePath string) int {
	st, err := index.LoadState(statePath)
	if err != nil {
		return -2
	}
	if st.LastVerifiedContentHash == "" {
		return -1
	}
	for c := 0; c < 8; c++ {
		if contentHash(c) == st.LastVerifiedContentHash {
			return c
		}
	}
	return -2
}

// runHwm: part (d). Consecutive single-call batches form one sequential case (exact
// differential: result class and the mark in the state file after every call); a larger
// batch runs its calls concurrently, each through its own TrustedVerifier value on the same
// state file, while a poller keeps reading the mark.
func (e *env) runHwm(c hcase) {
	W := e.dir("d")
	defer os.RemoveAll(W)
	statePath := filepath.Join(W, ".registry", "index-state.json")
	must(os.MkdirAll(filepath.Dir(statePath), 0o755))
	if c.M0 != 0 || c.H0 >= 0 {
		st := index.State{Version: c.M0}
		if c.H0 >= 0 {
			st.LastVerifiedContentHash = contentHash(c.H0)
		}
		must(index.SaveState(statePath, st))
	}
	sg := newSigner(7)
	call := func(envl []byte) string {
		tv := &registry.TrustedVerifier{Anchors: sg.anchors, StatePath: statePath, LockTimeout: 20 * time.Second}
		var err error
		if !hx.Try(func() { _, err = tv.VerifyIndex(context.Background(), envl) }) {
			return "OErr"
		}
		return classify(err)
	}
	mark, hash := c.M0, c.H0
	if hash < -1 {
		hash = -1
	}
	// pending sequential case
	var seqOps []hop
	var seqObs []string
	var seqObsJ []map[string]any
	seqM0, seqH0 := mark, hash
	flush := func() {
		if len(seqOps) == 0 {
			return
		}
		ops := make([]string, len(seqOps))
		bs := make([][]hop, len(seqOps))
		for i, o := range seqOps {
			ops[i] = o.coq()
			bs[i] = []hop{o}
		}
		e.w.Add(map[string]any{"input": map[string]any{"kind": "hwm", "m0": seqM0, "h0": seqH0, "batches": bs},
			"observed": map[string]any{"calls": seqObsJ}},
			fmt.Sprintf("KHwmSeq %s %s %s %s", hx.Z(seqM0), hashCoq(seqH0), hx.List(ops), hx.List(seqObs)))
		seqOps, seqObs, seqObsJ = nil, nil, nil
	}
	for _, batch := range c.Batches {
		if len(batch) == 0 {
			continue
		}
		if len(batch) == 1 {
			if len(seqOps) == 0 {
				seqM0, seqH0 = mark, hash
			}
			cls := call(sg.envelope(batch[0]))
			m, ok := readMark(statePath)
			if !ok {
				m = -999999
			}
			mark, hash = m, readHash(statePath)
			seqOps = append(seqOps, batch[0])
			seqObs = append(seqObs, hx.Pair(cls, hx.Z(m)))
			seqObsJ = append(seqObsJ, map[string]any{"class": cls, "mark": m, "content": hash})
			continue
		}
		flush()
		m0, h0 := mark, hash
		classes := make([]string, len(batch))
		envs := make([][]byte, len(batch))
		for i, o := range batch {
			envs[i] = sg.envelope(o)
		}
		var polled []int64
		var stop atomic.Bool
		var pwg sync.WaitGroup
		pwg.Add(1)
		go func() {
			defer pwg.Done()
			for !stop.Load() {
				if m, ok := readMark(statePath); ok {
					if len(polled) == 0 || polled[len(polled)-1] != m {
						polled = append(polled, m)
					}
				} else {
					polled = append(polled, -999999) // an unreadable (torn) state file
				}
			}
		}()
		var wg sync.WaitGroup
		for i := range batch {
			wg.Add(1)
			go func(i int) {
				defer wg.Done()
				classes[i] = call(envs[i])
			}(i)
		}
		wg.Wait()
		stop.Store(true)
		pwg.Wait()
		mend, ok := readMark(statePath)
		if !ok {
			mend = -999999
		}
		mark, hash = mend, readHash(statePath)
		logItems := make([]string, len(batch))
		for i, o := range batch {
			logItems[i] = hx.Pair(o.coq(), classes[i])
		}
		pz := make([]string, len(polled))
		for i, m := range polled {
			pz[i] = hx.Z(m)
		}
		e.w.Add(map[string]any{"input": map[string]any{"kind": "hwm", "m0": m0, "h0": h0, "batches": [][]hop{batch}},
			"observed": map[string]any{"classes": classes, "mark": mend, "content": hash, "polled": polled}},
			fmt.Sprintf("KHwmBatch %s %s %s %s %s", hx.Z(m0), hashCoq(h0), hx.List(logItems), hx.Z(mend), hx.List(pz)))
	}
	flush()
}

// genHwm: root-signed and freshness-only indexes in random version order over a small set of
// contents, so that a freshness-only index often finds its content on record and is accepted
// between root-signed ones (and a version between the two is replayed afterwards).
func genHwm(r *hx.Rand) hcase {
	c := hcase{H0: -1}
	if r.Chance(1, 2) {
		c.M0 = int64(r.Range(1, 12))
		if r.Chance(2, 3) {
			c.H0 = r.Intn(2)
		}
	}
	genOp := func() hop {
		o := hop{Version: int64(r.Range(0, 14)), Root: "good", Content: r.Intn(2), Fresh: !r.Chance(1, 8)}
		if r.Chance(1, 12) {
			o.Content = 2
		}
		switch x := r.Intn(20); {
		case x < 9: // root-signed only
		case x < 11: // both signatures
			o.FSig = "good"
		case x < 17: // freshness-only re-sign
			o.Root, o.FSig = "", "good"
		case x < 18:
			o.Root, o.FSig = "bad", "good"
		case x < 19:
			o.Root, o.FSig = "bad", ""
		default:
			o.Root, o.FSig = "", "bad"
		}
		if r.Chance(1, 25) {
			o.Version = -int64(r.Range(1, 5))
		}
		return o
	}
	nb := r.Range(2, 8)
	for b := 0; b < nb; b++ {
		n := 1
		if r.Chance(1, 4) {
			n = r.Range(2, 6)
		}
		var batch []hop
		for i := 0; i < n; i++ {
			batch = append(batch, genOp())
		}
		c.Batches = append(c.Batches, batch)
	}
	if r.Chance(1, 3) { // the shape: root vN, freshness-only vN+k over the same content, replay in between
		n, k, ct := int64(r.Range(1, 6)), int64(r.Range(2, 6)), r.Intn(2)
		c.Batches = append(c.Batches,
			[]hop{{Version: n, Root: "good", Content: ct, Fresh: true}},
			[]hop{{Version: n + k, FSig: "good", Content: ct, Fresh: true}},
			[]hop{{Version: n + int64(r.Intn(int(k))), Root: "good", Content: ct, Fresh: true}})
	}
	return c
}

func hwmFromJSON(in map[string]any) hcase {
	b, _ := json.Marshal(in)
	c := hcase{H0: -1}
	if err := json.Unmarshal(b, &c); err != nil {
		panic(err)
	}
	return c
}
