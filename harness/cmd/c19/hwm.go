package main

import (
	"context"
	"crypto/ed25519"
	"crypto/sha256"
	"encoding/base64"
	"encoding/json"
	"fmt"
	"os"
	"path/filepath"
	"sync"
	"sync/atomic"
	"time"

	"github.com/conduitio/conduit/pkg/foundation/cerrors/conduiterr"
	"github.com/conduitio/conduit/pkg/registry"
	"github.com/conduitio/conduit/pkg/registry/index"

	"verifharness/lib/hx"
)

// hop: one fetched index handed to VerifyIndex.
type hop struct {
	Version int64 `json:"version"`
	SigOK   bool  `json:"sigOK"`
	Fresh   bool  `json:"fresh"`
}

type hcase struct {
	M0      int64   `json:"m0"`      // mark persisted before the calls (0: no state file)
	Batches [][]hop `json:"batches"` // batches run one after the other; the calls of a batch run concurrently
}

func (o hop) coq() string {
	return fmt.Sprintf("(mkH %s %s %s true)", hx.Z(o.Version), hx.Bool(o.SigOK), hx.Bool(o.Fresh))
}

type signer struct {
	priv, bad ed25519.PrivateKey
	anchors   index.TrustAnchors
	keyID     string
}

func newSigner(seed byte) *signer {
	mk := func(b byte) ed25519.PrivateKey {
		s := sha256.Sum256([]byte{b, 'c', '1', '9'})
		return ed25519.NewKeyFromSeed(s[:])
	}
	s := &signer{priv: mk(seed), bad: mk(seed + 1)}
	id, err := index.KeyID(s.priv.Public().(ed25519.PublicKey))
	must(err)
	s.keyID = id
	s.anchors = index.TrustAnchors{Roots: map[string]ed25519.PublicKey{id: s.priv.Public().(ed25519.PublicKey)}}
	return s
}

// envelope: a root-signed index of the given version; a bad signature is one made with another
// key under the trusted key id; a stale index carries a timestamp older than the staleness window.
func (s *signer) envelope(o hop) []byte {
	ts := time.Now().UTC()
	if !o.Fresh {
		ts = ts.Add(-index.DefaultMaxStaleness - 48*time.Hour)
	}
	payload, err := json.Marshal(map[string]any{"schemaVersion": 1,
		"index": map[string]any{"version": o.Version, "timestamp": ts.Format(time.RFC3339)}, "connectors": []any{}})
	must(err)
	canon, err := index.Canonicalize(payload)
	must(err)
	key := s.priv
	if !o.SigOK {
		key = s.bad
	}
	sig := ed25519.Sign(key, canon)
	env, err := json.Marshal(map[string]any{"payload": json.RawMessage(payload), "signatures": []any{map[string]any{
		"role": "root", "keyId": s.keyID, "algorithm": "ed25519", "signature": base64.StdEncoding.EncodeToString(sig)}}})
	must(err)
	return env
}

func classify(err error) string {
	if err == nil {
		return "OAcc"
	}
	if ce, ok := conduiterr.Get(err); ok {
		switch ce.Code.Reason() {
		case index.CodeIndexIntegrity.Reason(), index.CodeTrustAnchorExpired.Reason():
			return "OInt"
		case index.CodeIndexRollback.Reason():
			return "ORoll"
		case index.CodeIndexStale.Reason():
			return "OStale"
		}
	}
	return "OErr"
}

func readMark(statePath string) (int64, bool) {
	st, err := index.LoadState(statePath)
	if err != nil {
		return 0, false
	}
	return st.Version, true
}

// runHwm: part (d). A batch of one call is an exact differential (result class and the mark in
// the state file afterwards); a larger batch runs its calls concurrently, each through its own
// TrustedVerifier value on the same state file, while a poller keeps reading the mark.
func (e *env) runHwm(c hcase) {
	W := e.dir("d")
	defer os.RemoveAll(W)
	statePath := filepath.Join(W, ".registry", "index-state.json")
	must(os.MkdirAll(filepath.Dir(statePath), 0o755))
	if c.M0 != 0 {
		must(index.SaveState(statePath, index.State{Version: c.M0}))
	}
	sg := newSigner(7)
	mark := c.M0
	for _, batch := range c.Batches {
		if len(batch) == 0 {
			continue
		}
		m0 := mark
		type out struct {
			cls  string
			mark int64
		}
		outs := make([]out, len(batch))
		envs := make([][]byte, len(batch))
		for i, o := range batch {
			envs[i] = sg.envelope(o)
		}
		var polled []int64
		var stop atomic.Bool
		var pwg sync.WaitGroup
		if len(batch) > 1 {
			pwg.Add(1)
			go func() {
				defer pwg.Done()
				for !stop.Load() {
					if m, ok := readMark(statePath); ok {
						if len(polled) == 0 || polled[len(polled)-1] != m {
							polled = append(polled, m)
						}
					} else {
						polled = append(polled, -999999) // an unreadable (torn) state file
					}
				}
			}()
		}
		var wg sync.WaitGroup
		for i := range batch {
			wg.Add(1)
			go func(i int) {
				defer wg.Done()
				tv := &registry.TrustedVerifier{Anchors: sg.anchors, StatePath: statePath, LockTimeout: 20 * time.Second}
				var err error
				if !hx.Try(func() { _, err = tv.VerifyIndex(context.Background(), envs[i]) }) {
					outs[i].cls = "OErr"
					return
				}
				outs[i].cls = classify(err)
			}(i)
			if len(batch) == 1 {
				wg.Wait()
			}
		}
		wg.Wait()
		stop.Store(true)
		pwg.Wait()
		mend, ok := readMark(statePath)
		if !ok {
			mend = -999999
		}
		mark = mend
		ops := make([]string, len(batch))
		for i, o := range batch {
			ops[i] = o.coq()
		}
		in := map[string]any{"kind": "hwm", "m0": m0, "batches": [][]hop{batch}}
		if len(batch) == 1 {
			e.w.Add(map[string]any{"input": in, "observed": map[string]any{"class": outs[0].cls, "mark": mend}},
				fmt.Sprintf("KHwmSeq %s %s %s", hx.Z(m0), hx.List(ops), hx.List([]string{hx.Pair(outs[0].cls, hx.Z(mend))})))
			continue
		}
		logItems := make([]string, len(batch))
		classes := make([]string, len(batch))
		for i := range batch {
			logItems[i] = hx.Pair(ops[i], outs[i].cls)
			classes[i] = outs[i].cls
		}
		pz := make([]string, len(polled))
		for i, m := range polled {
			pz[i] = hx.Z(m)
		}
		e.w.Add(map[string]any{"input": in, "observed": map[string]any{"classes": classes, "mark": mend, "polled": polled}},
			fmt.Sprintf("KHwmBatch %s %s %s %s", hx.Z(m0), hx.List(logItems), hx.Z(mend), hx.List(pz)))
	}
}

func genHwm(r *hx.Rand) hcase {
	c := hcase{}
	if r.Chance(1, 2) {
		c.M0 = int64(r.Range(1, 12))
	}
	nb := r.Range(1, 6)
	for b := 0; b < nb; b++ {
		n := 1
		if r.Chance(1, 3) {
			n = r.Range(2, 6)
		}
		var batch []hop
		for i := 0; i < n; i++ {
			o := hop{Version: int64(r.Range(0, 14)), SigOK: !r.Chance(1, 7), Fresh: !r.Chance(1, 7)}
			if r.Chance(1, 25) {
				o.Version = -int64(r.Range(1, 5))
			}
			batch = append(batch, o)
		}
		c.Batches = append(c.Batches, batch)
	}
	return c
}

func hwmFromJSON(in map[string]any) hcase {
	b, _ := json.Marshal(in)
	var c hcase
	if err := json.Unmarshal(b, &c); err != nil {
		panic(err)
	}
	return c
}
