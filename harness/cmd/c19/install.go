package main

import (
	"bytes"
	"context"
	"crypto/sha256"
	"encoding/json"
	"fmt"
	"net/http"
	"net/http/httptest"
	"os"
	"path/filepath"
	"runtime"
	"strings"
	"sync"
	"time"

	"github.com/conduitio/conduit/pkg/foundation/cerrors"
	"github.com/conduitio/conduit/pkg/registry"
	"github.com/conduitio/conduit/pkg/registry/index"
	"github.com/conduitio/conduit/pkg/registry/trust"

	"verifharness/lib/hx"
)

// icase: the script of one install. Strings name the way a step is made to fail.
type icase struct {
	Resolve    string   `json:"resolve"` // ok | index500 | verifier | noname | noplatform
	Installed  bool     `json:"installed"`
	CacheHit   bool     `json:"cacheHit"`
	Download   string   `json:"download"` // ok | 500 | oversize
	Digest     string   `json:"digest"`   // ok | upper | prefixed | wrong | malformed | empty
	Allow      bool     `json:"allowUnsigned"`
	Pol        [6]bool  `json:"policy"` // tty ci mcp operator env typed
	UlogOK     bool     `json:"ulogOK"`
	HasSig     bool     `json:"hasSig"`
	Sig        string   `json:"sig"` // ok | 500 | toolarge
	HasProv    bool     `json:"hasProv"`
	ProvAtVer  bool     `json:"provAtVersion"`
	Prov       string   `json:"prov"`
	Verifier   string   `json:"verifier"` // signed | unsigned | reject
	Archive    []xentry `json:"archive"`
	Validate   string   `json:"validate"` // none | ok | fail
	RenameOK   bool     `json:"renameOK"`
	ManifestOK bool     `json:"manifestOK"`
	AuditOK    bool     `json:"auditOK"`
	OldFinal   bool     `json:"oldFinal"`
}

const (
	iName    = "demo"
	iVersion = "1.2.3"
)

type ibits struct{ Staged, Extract, Cache, Ulog, Final, Manifest, Audit bool }

func (b ibits) coq() string {
	return fmt.Sprintf("(mkB %s %s %s %s %s %s %s)", hx.Bool(b.Staged), hx.Bool(b.Extract), hx.Bool(b.Cache),
		hx.Bool(b.Ulog), hx.Bool(b.Final), hx.Bool(b.Manifest), hx.Bool(b.Audit))
}

type ievent struct {
	Ev   string `json:"ev"`
	Bits ibits  `json:"bits"`
}

// iworld is one install directory with its observers.
type iworld struct {
	c         icase
	W, conn   string
	finalPath string
	digestHex string // sha256 of the bytes the server serves / the cache holds
	cacheHad  bool   // the cache held the digest when the step started
	installed bool   // the manifest listed name@version when the step started
	ulog0     int64  // sizes / content when the step started: a bit means "something new since then"
	audit0    int64
	final0    []byte
	mu        sync.Mutex
	log       []ievent
}

func globAny(pattern string) bool {
	m, _ := filepath.Glob(pattern)
	return len(m) > 0
}

func (w *iworld) bits() ibits {
	var b ibits
	reg := filepath.Join(w.conn, ".registry")
	b.Staged = globAny(filepath.Join(reg, "staging", "*", "artifact.tar.gz"))
	// anything in a staging directory besides the staged archive counts as extraction
	if ms, _ := filepath.Glob(filepath.Join(reg, "staging", "*", "*")); len(ms) > 0 {
		for _, m := range ms {
			if filepath.Base(m) != "artifact.tar.gz" {
				b.Extract = true
			}
		}
	}
	if !w.cacheHad {
		if fi, err := os.Stat(filepath.Join(reg, "cache", w.digestHex, "artifact")); err == nil && fi.Mode().IsRegular() {
			b.Cache = true
		}
	}
	if fi, err := os.Lstat(filepath.Join(reg, "unsigned-installs.log")); err == nil && fi.Mode().IsRegular() && fi.Size() > w.ulog0 {
		b.Ulog = true
	}
	if fi, err := os.Lstat(w.finalPath); err == nil && fi.Mode().IsRegular() {
		data, _ := os.ReadFile(w.finalPath)
		if w.final0 == nil || !bytes.Equal(data, w.final0) {
			b.Final = true
		}
	}
	if !w.installed {
		if data, err := os.ReadFile(filepath.Join(reg, "manifest.json")); err == nil {
			var m registry.Manifest
			if json.Unmarshal(data, &m) == nil {
				if _, ok := m.Installs[iName+"@"+iVersion]; ok {
					b.Manifest = true
				}
			}
		}
	}
	if fi, err := os.Lstat(filepath.Join(reg, "audit.jsonl")); err == nil && fi.Mode().IsRegular() && fi.Size() > w.audit0 {
		b.Audit = true
	}
	return b
}

// baseline records what the install directory holds at the start of a step.
func (w *iworld) baseline() {
	reg := filepath.Join(w.conn, ".registry")
	w.log = nil
	w.cacheHad, w.installed, w.ulog0, w.audit0, w.final0 = false, false, 0, 0, nil
	if fi, err := os.Stat(filepath.Join(reg, "cache", w.digestHex, "artifact")); err == nil && fi.Mode().IsRegular() {
		w.cacheHad = true
	}
	if data, err := os.ReadFile(filepath.Join(reg, "manifest.json")); err == nil {
		var m registry.Manifest
		if json.Unmarshal(data, &m) == nil {
			_, w.installed = m.Installs[iName+"@"+iVersion]
		}
	}
	if fi, err := os.Lstat(filepath.Join(reg, "unsigned-installs.log")); err == nil && fi.Mode().IsRegular() {
		w.ulog0 = fi.Size()
	}
	if fi, err := os.Lstat(filepath.Join(reg, "audit.jsonl")); err == nil && fi.Mode().IsRegular() {
		w.audit0 = fi.Size()
	}
	if fi, err := os.Lstat(w.finalPath); err == nil && fi.Mode().IsRegular() {
		w.final0, _ = os.ReadFile(w.finalPath)
		if w.final0 == nil {
			w.final0 = []byte{}
		}
	}
}

func (w *iworld) event(name string) {
	w.mu.Lock()
	defer w.mu.Unlock()
	w.log = append(w.log, ievent{Ev: name, Bits: w.bits()})
}

type scriptedVerifier struct {
	w       *iworld
	payload *index.Payload
	served  [32]byte
}

func (v *scriptedVerifier) VerifyIndex(context.Context, []byte) (*index.VerifiedIndex, error) {
	if v.w.c.Resolve == "verifier" {
		return nil, cerrors.New("scripted: index refused")
	}
	return &index.VerifiedIndex{Payload: *v.payload, Verified: true, RootVerified: true}, nil
}

func (v *scriptedVerifier) VerifyArtifact(_ context.Context, ref registry.ArtifactRef, _ trust.PinnedIdentity) (registry.VerifyResult, error) {
	v.w.event("OVerify")
	switch v.w.c.Verifier {
	case "signed":
		return registry.VerifyResult{Signed: true, VerifiedIdentity: "scripted"}, nil
	case "unsigned":
		return registry.VerifyResult{Signed: false}, nil
	}
	return registry.VerifyResult{}, cerrors.New("scripted: artifact refused")
}

func declared(kind string, sum [32]byte) string {
	h := fmt.Sprintf("%x", sum)
	switch kind {
	case "ok":
		return h
	case "upper":
		return strings.ToUpper(h)
	case "prefixed":
		return "sha256:" + h
	case "wrong":
		return fmt.Sprintf("%x", sha256.Sum256([]byte("something else")))
	case "malformed":
		return "zz" + h[2:]
	}
	return ""
}

func digestOK(kind string) bool { return kind == "ok" || kind == "upper" || kind == "prefixed" }

func (e *env) newWorld() *iworld {
	W := e.dir("c")
	conn := filepath.Join(W, "conn")
	must(os.MkdirAll(filepath.Join(conn, ".registry"), 0o755))
	must(os.WriteFile(filepath.Join(W, "neighbour"), []byte("n"), 0o644))
	must(os.WriteFile(filepath.Join(conn, "other-connector"), []byte("o"), 0o755))
	return &iworld{W: W, conn: conn, finalPath: filepath.Join(conn, "conduit-connector-"+iName+"_"+iVersion)}
}

// istep: what one install showed.
type istep struct {
	c   icase
	coq string // hstep fields: script obs bend res outside stray
	obs map[string]any
}

func (e *env) runInstall(c icase) {
	w := e.newWorld()
	defer os.RemoveAll(w.W)
	st := e.installStep(w, c, true)
	e.w.Add(map[string]any{"input": map[string]any{"kind": "install", "script": c}, "observed": st.obs},
		fmt.Sprintf("KInstall %d %s", registry.VerifMaxExtractedBytes(), st.coq))
}

// ihist: several installs on the same install directory; Uninstall[i]: uninstall before step i
// when the artifact is installed.
type ihist struct {
	Steps     []icase `json:"steps"`
	Uninstall []bool  `json:"uninstall"`
}

func (e *env) runHistory(h ihist) {
	w := e.newWorld()
	defer os.RemoveAll(w.W)
	var items []string
	var obs []map[string]any
	for i, c := range h.Steps {
		// env knobs that need a pre-arranged directory are not part of a history
		c.Installed, c.CacheHit, c.UlogOK, c.AuditOK, c.RenameOK, c.ManifestOK, c.OldFinal = false, false, true, true, true, true, false
		h.Steps[i] = c
		if i < len(h.Uninstall) && h.Uninstall[i] {
			hx.Try(func() {
				registry.Uninstall(registry.UninstallOptions{Name: iName, Version: iVersion, ConnectorsPath: w.conn,
					Force: true, InstalledBy: "harness", LockTimeout: 3 * time.Second})
			})
		}
		st := e.installStep(w, c, false)
		items = append(items, "(mkStep "+st.coq+")")
		obs = append(obs, st.obs)
	}
	e.w.Add(map[string]any{"input": map[string]any{"kind": "history", "steps": h.Steps, "uninstall": h.Uninstall},
		"observed": map[string]any{"steps": obs}},
		fmt.Sprintf("KHistory %d false %s", registry.VerifMaxExtractedBytes(), hx.List(items)))
}

func (e *env) installStep(w *iworld, c icase, prearrange bool) istep {
	W, conn := w.W, w.conn
	w.c = c
	arc := filepath.Join(W, "served.tgz")
	writeArchive(arc, c.Archive)
	ab, err := os.ReadFile(arc)
	must(err)
	must(os.Remove(arc))
	sum := sha256.Sum256(ab)
	decl := declared(c.Digest, sum)
	w.digestHex = strings.ToLower(strings.TrimPrefix(decl, "sha256:"))

	// ---- server ----
	mux := http.NewServeMux()
	srv := httptest.NewServer(mux)
	defer srv.Close()
	serve := func(path, evName, mode string, body []byte) {
		mux.HandleFunc(path, func(rw http.ResponseWriter, _ *http.Request) {
			w.event(evName)
			switch mode {
			case "500":
				rw.WriteHeader(500)
			case "toolarge":
				rw.Write(make([]byte, registry.MaxBundleBytes+10))
			default:
				rw.Write(body)
			}
		})
	}
	idxMode := "ok"
	if c.Resolve == "index500" {
		idxMode = "500"
	}
	serve("/index.json", "OFetch FIndex", idxMode, []byte(`{"payload":{},"signatures":[]}`))
	serve("/artifact.tar.gz", "OFetch FArtifact", map[string]string{"500": "500"}[c.Download], ab)
	serve("/sig.json", "OFetch FSig", c.Sig, []byte(`{"sig":1}`))
	serve("/prov.json", "OFetch FProv", c.Prov, []byte(`{"prov":1}`))

	size := int64(len(ab))
	if c.Download == "oversize" {
		size = int64(len(ab)) - 1
	}
	art := index.Artifact{OS: runtime.GOOS, Arch: runtime.GOARCH, Kind: registry.StandaloneArtifactKind,
		URL: srv.URL + "/artifact.tar.gz", SHA256: decl, Size: size}
	if c.Resolve == "noplatform" {
		art.OS = "plan9"
	}
	if c.HasSig {
		art.Signature.BundleURL = srv.URL + "/sig.json"
	}
	ver := index.ConnectorVersion{Version: iVersion, MinConduitVersion: "0.1.0", MinProtocolVersion: "0.1.0"}
	if c.HasProv {
		pr := &index.ProvenanceRef{BundleURL: srv.URL + "/prov.json", PredicateType: "https://slsa.dev/provenance/v1"}
		if c.ProvAtVer {
			ver.SLSAProvenance = pr
		} else {
			art.SLSAProvenance = pr
		}
	}
	ver.Artifacts = []index.Artifact{art}
	name := iName
	if c.Resolve == "noname" {
		name = "someone-else"
	}
	payload := &index.Payload{SchemaVersion: 1, Index: index.IndexMeta{Version: 7, Timestamp: time.Now()},
		Connectors: []index.Connector{{Name: name, Publisher: index.Publisher{
			ExpectedOIDCIssuer: "https://issuer.example", ExpectedIdentityPattern: `^https://github\.com/example/demo/.*$`},
			Versions: []index.ConnectorVersion{ver}}}}

	// ---- pre-arranged install directory ----
	reg := filepath.Join(conn, ".registry")
	if prearrange && c.Installed {
		must(registry.SaveManifest(filepath.Join(reg, "manifest.json"), &registry.Manifest{SchemaVersion: 1,
			Installs: map[string]registry.ManifestEntry{iName + "@" + iVersion: {Name: iName, Version: iVersion,
				ArtifactFile: filepath.Base(w.finalPath), Digest: "sha256:" + fmt.Sprintf("%x", sum)}}}))
	}
	if prearrange && c.CacheHit && digestOK(c.Digest) {
		must(registry.CachePopulate(conn, w.digestHex, ab, "pre"))
	}
	if !c.UlogOK {
		must(os.MkdirAll(filepath.Join(reg, "unsigned-installs.log", "x"), 0o755))
	}
	if !c.AuditOK {
		must(os.MkdirAll(filepath.Join(reg, "audit.jsonl", "x"), 0o755))
	}
	if !c.RenameOK {
		must(os.MkdirAll(filepath.Join(w.finalPath, "x"), 0o755))
	} else if c.OldFinal {
		must(os.WriteFile(w.finalPath, []byte("OLD-BINARY"), 0o755))
	}

	// ---- observers ----
	registry.VerifSetChaosHook(func(p string) {
		switch p {
		case "download-complete":
			w.event("OHook PDownload")
		case "extract-complete":
			w.event("OHook PExtract")
		case "prerename-fd-opened":
			w.event("OHook PPrerename")
		case "post-rename-pre-manifest":
			w.event("OHook PPostRename")
			if !c.ManifestOK { // the disk turns bad right after the rename
				os.RemoveAll(filepath.Join(reg, "manifest.json"))
				os.MkdirAll(filepath.Join(reg, "manifest.json", "x"), 0o755)
			}
		}
	})
	defer registry.VerifSetChaosHook(nil)

	sv := &scriptedVerifier{w: w, payload: payload, served: sum}
	opts := registry.InstallOptions{
		Name: iName, Version: iVersion, ConnectorsPath: conn, IndexURL: srv.URL + "/index.json",
		IndexVerifier: sv, ArtifactVerifier: sv,
		RunningConduitVersion: "0.15.0", RunningProtocolVersion: "1.0.0",
		InstalledBy: "harness", LockTimeout: 3 * time.Second,
		AllowUnsigned: c.Allow, TTY: c.Pol[0], CIEnv: c.Pol[1], IsMCP: c.Pol[2],
		OperatorAllowUnsigned: c.Pol[3], EnvVarSet: c.Pol[4], TypedConfirmation: c.Pol[5],
	}
	w.baseline()
	c.Installed = w.installed // what the model is told: the manifest listed it when the step started
	c.CacheHit = prearrange && w.cacheHad
	known := map[string]int{}
	beforeOut, beforeIn := w.splitSnap(known)

	var res *registry.InstallResult
	var ierr error
	ctx, cancel := context.WithTimeout(context.Background(), 20*time.Second)
	panicked := !hx.Try(func() {
		if c.Validate == "none" {
			res, ierr = registry.Install(ctx, opts)
		} else {
			res, ierr = registry.VerifInstallWithValidate(ctx, opts, func(context.Context, string, string, string) error {
				w.event("OValidate")
				if c.Validate == "fail" {
					return cerrors.New("scripted: validation failed")
				}
				return nil
			})
		}
	})
	cancel()
	srv.CloseClientConnections()
	bend := w.bits()
	afterOut, afterIn := w.splitSnap(known)
	outside := mustJSON(beforeOut) != mustJSON(afterOut)
	stray := mustJSON(beforeIn) != mustJSON(afterIn)

	r := "RErr"
	if ierr == nil && !panicked && res != nil {
		r = "ROk"
		if res.AlreadyInstalled {
			r = "RAlready"
		}
	}
	obsItems := make([]string, len(w.log))
	for i, ev := range w.log {
		obsItems[i] = hx.Pair(ev.Ev, ev.Bits.coq())
	}
	obs := map[string]any{"events": w.log, "end": bend, "result": r, "outsideChanged": outside, "strayChanged": stray, "panicked": panicked}
	if ierr != nil {
		obs["err"] = ierr.Error()
	}
	return istep{c: c, obs: obs,
		coq: fmt.Sprintf("%s %s %s %s %s %s", c.coq(), hx.List(obsItems), bend.coq(), r, hx.Bool(outside), hx.Bool(stray))}
}

func historyFromJSON(in map[string]any) ihist {
	var h ihist
	l, _ := in["steps"].([]any)
	for _, it := range l {
		h.Steps = append(h.Steps, installFromJSON(map[string]any{"script": it}))
	}
	u, _ := in["uninstall"].([]any)
	for _, x := range u {
		b, _ := x.(bool)
		h.Uninstall = append(h.Uninstall, b)
	}
	return h
}

// verdict sets the trust-relevant outcome of a step.
func verdict(c icase, v string) icase {
	switch v {
	case "signed", "unsigned", "reject":
		c.Verifier = v
	case "allow":
		c.Allow, c.Verifier = true, "reject"
	case "allow-denied":
		c.Allow, c.Verifier = true, "signed"
		c.Pol = [6]bool{true, false, false, false, true, true}
	case "sigfetch":
		c.Sig = "500"
	case "wrongdigest":
		c.Digest = "wrong"
	}
	return c
}

var verdicts = []string{"signed", "reject", "unsigned", "allow", "allow-denied", "sigfetch", "wrongdigest"}

// historyLattice: every pair of verdicts on one install directory (uninstall in between), and
// the three-step histories that start with an accepted install.
func historyLattice() []ihist {
	var out []ihist
	for _, a := range verdicts {
		for _, b := range verdicts {
			out = append(out, ihist{Steps: []icase{verdict(okCase(), a), verdict(okCase(), b)}, Uninstall: []bool{false, true}})
		}
	}
	for _, b := range []string{"reject", "allow", "signed"} {
		for _, c := range []string{"reject", "unsigned", "sigfetch", "signed"} {
			out = append(out, ihist{Steps: []icase{verdict(okCase(), "signed"), verdict(okCase(), b), verdict(okCase(), c)},
				Uninstall: []bool{false, true, true}})
		}
	}
	out = append(out, ihist{Steps: []icase{verdict(okCase(), "signed"), verdict(okCase(), "reject")}, Uninstall: []bool{false, false}})
	return out
}

func genHistory(r *hx.Rand) ihist {
	n := r.Range(2, 3)
	var h ihist
	for i := 0; i < n; i++ {
		c := verdict(okCase(), verdicts[r.Intn(len(verdicts))])
		if r.Chance(1, 4) {
			c.HasProv = false
		}
		if r.Chance(1, 6) {
			c.Prov = "500"
		}
		h.Steps = append(h.Steps, c)
		h.Uninstall = append(h.Uninstall, i > 0 && !r.Chance(1, 6))
	}
	return h
}

// splitSnap: (everything in W outside the install directory, everything inside it except
// .registry/ and the final artifact).
func (w *iworld) splitSnap(known map[string]int) (out, in []tnode) {
	for _, n := range snapshot(w.W, known) {
		switch {
		case n.Path[0] != "conn":
			out = append(out, n)
		case len(n.Path) == 1:
		case n.Path[1] == ".registry" || n.Path[1] == filepath.Base(w.finalPath):
		default:
			in = append(in, n)
		}
	}
	return out, in
}

func mustJSON(v any) string {
	b, err := json.Marshal(v)
	must(err)
	return string(b)
}

func (c icase) coq() string {
	ents := make([]string, len(c.Archive))
	for i, x := range c.Archive {
		ents[i] = entryCoq(x)
	}
	val := "None"
	switch c.Validate {
	case "ok":
		val = "(Some true)"
	case "fail":
		val = "(Some false)"
	}
	ver := map[string]string{"signed": "VSigned", "unsigned": "VUnsigned"}[c.Verifier]
	if ver == "" {
		ver = "VReject"
	}
	p := c.Pol
	return fmt.Sprintf("(mkS %s %s %s %s %s %s (mkPol %s %s %s %s %s %s) %s %s %s %s %s %s %s %s %s true %s %s)",
		hx.Bool(c.Resolve == "ok"), hx.Bool(c.Installed), hx.Bool(c.CacheHit && digestOK(c.Digest)),
		hx.Bool(c.Download == "ok"), hx.Bool(digestOK(c.Digest)), hx.Bool(c.Allow),
		hx.Bool(p[0]), hx.Bool(p[1]), hx.Bool(p[2]), hx.Bool(p[3]), hx.Bool(p[4]), hx.Bool(p[5]),
		hx.Bool(c.UlogOK), hx.Bool(c.HasSig), hx.Bool(c.Sig == "ok"), hx.Bool(c.HasProv), hx.Bool(c.Prov == "ok"),
		ver, hx.List(ents), val, hx.Bool(c.RenameOK), hx.Bool(c.ManifestOK), hx.Bool(c.AuditOK))
}

func goodArchive() []xentry {
	return []xentry{{Name: []byte("conduit-connector-demo"), Flag: '0', Size: 40, Avail: 40, Cid: 3},
		{Name: []byte("docs/LICENSE"), Flag: '0', Size: 5, Avail: 5, Cid: 4}}
}

func okCase() icase {
	return icase{Resolve: "ok", Download: "ok", Digest: "ok", UlogOK: true, HasSig: true, Sig: "ok", HasProv: true,
		Prov: "ok", Verifier: "signed", Archive: goodArchive(), Validate: "none", RenameOK: true, ManifestOK: true,
		AuditOK: true, Pol: [6]bool{true, false, false, true, false, true}}
}

func pick(r *hx.Rand, weightFirst int, xs ...string) string {
	if r.Intn(weightFirst+len(xs)-1) < weightFirst {
		return xs[0]
	}
	return xs[1+r.Intn(len(xs)-1)]
}

func genInstall(r *hx.Rand) icase {
	c := okCase()
	c.Resolve = pick(r, 14, "ok", "index500", "verifier", "noname", "noplatform")
	c.Installed = r.Chance(1, 14)
	c.CacheHit = r.Chance(1, 5)
	c.Download = pick(r, 8, "ok", "500", "oversize")
	c.Digest = pick(r, 3, "ok", "upper", "prefixed", "wrong", "wrong", "malformed", "empty")
	c.Allow = r.Chance(1, 3)
	for i := range c.Pol {
		c.Pol[i] = r.Bool()
	}
	if c.Allow && r.Chance(1, 2) { // an allowing context, so that the rest of the path is reached
		c.Pol = [6]bool{true, false, false, true, r.Bool(), true}
	}
	c.UlogOK = !r.Chance(1, 8)
	c.HasSig = !r.Chance(1, 6)
	c.Sig = pick(r, 8, "ok", "500", "toolarge")
	c.HasProv = !r.Chance(1, 4)
	c.ProvAtVer = r.Bool()
	c.Prov = pick(r, 8, "ok", "500", "toolarge")
	c.Verifier = pick(r, 3, "signed", "unsigned", "reject")
	switch r.Intn(8) {
	case 0:
		c.Archive = genExtract(r).Entries
	case 1:
		c.Archive = []xentry{{Name: []byte("../../evil"), Flag: '0', Size: 3, Avail: 3, Cid: 9}}
	case 2:
		c.Archive = append(goodArchive(), xentry{Name: []byte("lnk"), Flag: '2', Link: []byte("/etc/passwd")})
	}
	c.Validate = pick(r, 2, "none", "ok", "fail")
	c.RenameOK = !r.Chance(1, 12)
	c.ManifestOK = !r.Chance(1, 12)
	c.AuditOK = !r.Chance(1, 12)
	c.OldFinal = r.Chance(1, 4)
	return c
}

// gateLattice: every combination of the outcomes the property speaks about.
func gateLattice() []icase {
	var out []icase
	for _, dig := range []string{"ok", "wrong"} {
		for _, ver := range []string{"signed", "unsigned", "reject"} {
			for _, allow := range []bool{false, true} {
				for _, polOK := range []bool{false, true} {
					for _, arch := range []int{0, 1} {
						for _, val := range []string{"none", "ok", "fail"} {
							for _, dl := range []string{"ok", "500"} {
								for _, sig := range []string{"ok", "500"} {
									c := okCase()
									c.Digest, c.Verifier, c.Allow, c.Validate, c.Download, c.Sig = dig, ver, allow, val, dl, sig
									if !polOK {
										c.Pol = [6]bool{true, false, false, false, true, true} // operator policy forbids
									}
									if arch == 1 {
										c.Archive = []xentry{{Name: []byte("a/../../x"), Flag: '0', Size: 2, Avail: 2, Cid: 1}}
									}
									out = append(out, c)
								}
							}
						}
					}
				}
			}
		}
	}
	return out
}

func policyLattice() []icase {
	var out []icase
	for m := 0; m < 64; m++ {
		c := okCase()
		c.Allow = true
		for i := range c.Pol {
			c.Pol[i] = m>>i&1 == 1
		}
		out = append(out, c)
	}
	return out
}

func installFromJSON(in map[string]any) icase {
	b, _ := json.Marshal(in["script"])
	var raw struct {
		icase
		Archive []map[string]any `json:"archive"`
	}
	c := okCase()
	raw.icase = c
	raw.icase.Archive = nil
	if err := json.Unmarshal(b, &raw); err != nil {
		panic(err)
	}
	c = raw.icase
	c.Archive = extractFromJSON(map[string]any{"entries": toAnySlice(raw.Archive)}).Entries
	return c
}

func toAnySlice(ms []map[string]any) []any {
	out := make([]any, len(ms))
	for i, m := range ms {
		out[i] = m
	}
	return out
}
