package lifex

import (
	"context"
	"errors"
	"fmt"
	"sync"

	"github.com/conduitio/conduit-commons/config"
	"github.com/conduitio/conduit-commons/opencdc"
	"github.com/conduitio/conduit-connector-protocol/pconnector"
	sdk "github.com/conduitio/conduit-processor-sdk"
	"github.com/conduitio/conduit/pkg/foundation/log"
	connectorPlugin "github.com/conduitio/conduit/pkg/plugin/connector"
	"github.com/conduitio/conduit/pkg/plugin/connector/builtin"
	"github.com/conduitio/conduit/pkg/plugin/processor/egress"
)

// ---------------------------------------------------------------------------
// fake source plugin
// ---------------------------------------------------------------------------

type srcPlugin struct {
	w *World

	mu       sync.Mutex
	next     int // position of the last record handed out (resume position at Open)
	produced bool
	stop     chan struct{}
	stopOnce sync.Once
	stream   *builtin.InMemorySourceRunStream
	opened   bool
	stopped  bool // Stop was called: nothing is produced any more
}

var _ connectorPlugin.SourcePlugin = (*srcPlugin)(nil)

func (p *srcPlugin) Configure(context.Context, pconnector.SourceConfigureRequest) (pconnector.SourceConfigureResponse, error) {
	return pconnector.SourceConfigureResponse{}, nil
}

func (p *srcPlugin) Open(_ context.Context, req pconnector.SourceOpenRequest) (pconnector.SourceOpenResponse, error) {
	if out := p.w.Arrive("src.open"); out != "ok" {
		p.w.Log("openfail", "src", "", 0)
		return pconnector.SourceOpenResponse{}, errors.New("injected: source open failed")
	}
	p.mu.Lock()
	p.next = parsePos(req.Position)
	p.opened = true
	p.mu.Unlock()
	p.w.Log("open", "src", string(req.Position), 0)
	return pconnector.SourceOpenResponse{}, nil
}

func (p *srcPlugin) Run(ctx context.Context, stream pconnector.SourceRunStream) error {
	s, ok := stream.(*builtin.InMemorySourceRunStream)
	if !ok {
		return fmt.Errorf("fake source: unexpected stream type %T", stream)
	}
	s.Init(ctx)
	p.mu.Lock()
	p.stream = s
	p.mu.Unlock()
	server := s.Server()
	go p.produce(s, server)
	go func() { // drain acks
		for {
			if _, err := server.Recv(); err != nil {
				return
			}
		}
	}()
	return nil
}

func (p *srcPlugin) produce(s *builtin.InMemorySourceRunStream, server pconnector.SourceRunStreamServer) {
	for {
		if !p.w.takeToken(p.stop) {
			return
		}
		if out := p.w.Arrive("src.read"); out != "ok" {
			s.Close(errors.New("injected: source read failed"))
			return
		}
		// The Stop contract of a source plugin: no record after the position Stop returned. The
		// position is therefore advanced, under the lock Stop takes, BEFORE the record is sent.
		p.mu.Lock()
		if p.stopped {
			p.mu.Unlock()
			return
		}
		k := p.next + 1
		p.next = k
		p.produced = true
		p.mu.Unlock()
		rec := opencdc.Record{
			Position:  posOf(k),
			Operation: opencdc.OperationCreate,
			Metadata:  opencdc.Metadata{},
			Key:       opencdc.RawData(fmt.Sprintf("k%d", k)),
			Payload:   opencdc.Change{After: opencdc.RawData("v")},
		}
		if err := server.Send(pconnector.SourceRunResponse{Records: []opencdc.Record{rec}}); err != nil {
			return
		}
		p.w.Log("read", "src", "", k)
	}
}

func (p *srcPlugin) Stop(context.Context, pconnector.SourceStopRequest) (pconnector.SourceStopResponse, error) {
	p.mu.Lock()
	defer p.mu.Unlock()
	p.stopped = true
	if !p.produced {
		return pconnector.SourceStopResponse{}, nil
	}
	return pconnector.SourceStopResponse{LastPosition: posOf(p.next)}, nil
}

func (p *srcPlugin) Teardown(context.Context, pconnector.SourceTeardownRequest) (pconnector.SourceTeardownResponse, error) {
	p.mu.Lock()
	opened := p.opened
	p.mu.Unlock()
	if !opened {
		p.stopOnce.Do(func() { close(p.stop) })
		p.w.Log("tdx", "src", "", 0) // teardown of a plugin whose Open failed
		return pconnector.SourceTeardownResponse{}, nil
	}
	out := p.w.Arrive("src.td")
	p.stopOnce.Do(func() { close(p.stop) })
	if out != "ok" {
		p.w.Log("td", "src", "err", 0)
		return pconnector.SourceTeardownResponse{}, errors.New("injected: source teardown failed")
	}
	p.w.Log("td", "src", "ok", 0)
	return pconnector.SourceTeardownResponse{}, nil
}

func (p *srcPlugin) LifecycleOnCreated(context.Context, pconnector.SourceLifecycleOnCreatedRequest) (pconnector.SourceLifecycleOnCreatedResponse, error) {
	return pconnector.SourceLifecycleOnCreatedResponse{}, nil
}

func (p *srcPlugin) LifecycleOnUpdated(context.Context, pconnector.SourceLifecycleOnUpdatedRequest) (pconnector.SourceLifecycleOnUpdatedResponse, error) {
	return pconnector.SourceLifecycleOnUpdatedResponse{}, nil
}

func (p *srcPlugin) LifecycleOnDeleted(context.Context, pconnector.SourceLifecycleOnDeletedRequest) (pconnector.SourceLifecycleOnDeletedResponse, error) {
	return pconnector.SourceLifecycleOnDeletedResponse{}, nil
}

func (p *srcPlugin) NewStream() pconnector.SourceRunStream { return &builtin.InMemorySourceRunStream{} }

// ---------------------------------------------------------------------------
// fake destination plugin (used for the destination and for the DLQ)
// ---------------------------------------------------------------------------

type dstPlugin struct {
	w      *World
	name   string // "dst", "dst2" or "dlq"
	opened bool
}

var _ connectorPlugin.DestinationPlugin = (*dstPlugin)(nil)

func (p *dstPlugin) Configure(context.Context, pconnector.DestinationConfigureRequest) (pconnector.DestinationConfigureResponse, error) {
	return pconnector.DestinationConfigureResponse{}, nil
}

func (p *dstPlugin) Open(context.Context, pconnector.DestinationOpenRequest) (pconnector.DestinationOpenResponse, error) {
	if out := p.w.Arrive(p.name + ".open"); out != "ok" {
		p.w.Log("openfail", p.name, "", 0)
		return pconnector.DestinationOpenResponse{}, errors.New("injected: destination open failed")
	}
	p.opened = true
	p.w.Log("open", p.name, "", 0)
	return pconnector.DestinationOpenResponse{}, nil
}

func (p *dstPlugin) Run(ctx context.Context, stream pconnector.DestinationRunStream) error {
	s, ok := stream.(*builtin.InMemoryDestinationRunStream)
	if !ok {
		return fmt.Errorf("fake destination: unexpected stream type %T", stream)
	}
	s.Init(ctx)
	server := s.Server()
	go func() {
		for {
			req, err := server.Recv()
			if err != nil {
				return
			}
			out := p.w.Arrive(p.name + ".write")
			if out == "err" {
				s.Close(errors.New("injected: " + p.name + " write failed"))
				return
			}
			acks := make([]pconnector.DestinationRunResponseAck, 0, len(req.Records))
			for _, r := range req.Records {
				a := pconnector.DestinationRunResponseAck{Position: r.Position}
				if out == "nack" {
					a.Error = "injected: " + p.name + " rejected the record"
				}
				acks = append(acks, a)
			}
			p.w.Log("write", p.name, out, len(req.Records))
			if err := server.Send(pconnector.DestinationRunResponse{Acks: acks}); err != nil {
				return
			}
		}
	}()
	return nil
}

func (p *dstPlugin) Stop(context.Context, pconnector.DestinationStopRequest) (pconnector.DestinationStopResponse, error) {
	return pconnector.DestinationStopResponse{}, nil
}

func (p *dstPlugin) Teardown(context.Context, pconnector.DestinationTeardownRequest) (pconnector.DestinationTeardownResponse, error) {
	if !p.opened {
		p.w.Log("tdx", p.name, "", 0)
		return pconnector.DestinationTeardownResponse{}, nil
	}
	out := p.w.Arrive(p.name + ".td")
	if out != "ok" {
		p.w.Log("td", p.name, "err", 0)
		return pconnector.DestinationTeardownResponse{}, errors.New("injected: " + p.name + " teardown failed")
	}
	p.w.Log("td", p.name, "ok", 0)
	return pconnector.DestinationTeardownResponse{}, nil
}

func (p *dstPlugin) LifecycleOnCreated(context.Context, pconnector.DestinationLifecycleOnCreatedRequest) (pconnector.DestinationLifecycleOnCreatedResponse, error) {
	return pconnector.DestinationLifecycleOnCreatedResponse{}, nil
}

func (p *dstPlugin) LifecycleOnUpdated(context.Context, pconnector.DestinationLifecycleOnUpdatedRequest) (pconnector.DestinationLifecycleOnUpdatedResponse, error) {
	return pconnector.DestinationLifecycleOnUpdatedResponse{}, nil
}

func (p *dstPlugin) LifecycleOnDeleted(context.Context, pconnector.DestinationLifecycleOnDeletedRequest) (pconnector.DestinationLifecycleOnDeletedResponse, error) {
	return pconnector.DestinationLifecycleOnDeletedResponse{}, nil
}

func (p *dstPlugin) NewStream() pconnector.DestinationRunStream {
	return &builtin.InMemoryDestinationRunStream{}
}

// ---------------------------------------------------------------------------
// dispensers and the connector plugin service
// ---------------------------------------------------------------------------

type dispenser struct {
	w    *World
	kind string // "src" | "dst" | "dst2" | "dlq"
}

func (d *dispenser) DispenseSpecifier() (connectorPlugin.SpecifierPlugin, error) {
	return nil, errors.New("fake dispenser: no specifier")
}

func (d *dispenser) DispenseSource() (connectorPlugin.SourcePlugin, error) {
	if d.kind != "src" {
		return nil, errors.New("fake dispenser: not a source")
	}
	return &srcPlugin{w: d.w, stop: make(chan struct{})}, nil
}

func (d *dispenser) DispenseDestination() (connectorPlugin.DestinationPlugin, error) {
	if d.kind == "src" {
		return nil, errors.New("fake dispenser: not a destination")
	}
	return &dstPlugin{w: d.w, name: d.kind}, nil
}

// PluginService implements lifecycle.ConnectorPluginService for the three fake plugins.
type PluginService struct{ w *World }

const (
	PluginSrc  = "fake-src"
	PluginDst  = "fake-dst"
	PluginDlq  = "fake-dlq"
	PluginDst2 = "fake-dst2"
)

func (s PluginService) NewDispenser(_ log.CtxLogger, name string, _ string) (connectorPlugin.Dispenser, error) {
	// looking a plugin up / starting its process takes time: gate "dispense.<kind>"
	switch name {
	case PluginSrc:
		s.w.Arrive("dispense.src")
	case PluginDst, PluginDst2:
		s.w.Arrive("dispense.dst")
	}
	switch name {
	case PluginSrc:
		return &dispenser{w: s.w, kind: "src"}, nil
	case PluginDst:
		return &dispenser{w: s.w, kind: "dst"}, nil
	case PluginDlq:
		return &dispenser{w: s.w, kind: "dlq"}, nil
	case PluginDst2:
		return &dispenser{w: s.w, kind: "dst2"}, nil
	}
	return nil, fmt.Errorf("fake plugin service: unknown plugin %q", name)
}

// ---------------------------------------------------------------------------
// fake processor plugin
// ---------------------------------------------------------------------------

type procPlugin struct {
	sdk.UnimplementedProcessor
	w      *World
	opened bool
}

func (p *procPlugin) Specification() (sdk.Specification, error) {
	return sdk.Specification{Name: "fake-proc", Version: "v0.0.1"}, nil
}
func (p *procPlugin) Configure(context.Context, config.Config) error { return nil }
func (p *procPlugin) Open(context.Context) error {
	if out := p.w.Arrive("proc.open"); out != "ok" {
		p.w.Log("openfail", "proc", "", 0)
		return errors.New("injected: processor open failed")
	}
	p.opened = true
	p.w.Log("open", "proc", "", 0)
	return nil
}

func (p *procPlugin) Process(_ context.Context, recs []opencdc.Record) []sdk.ProcessedRecord {
	out := p.w.Arrive("proc.do")
	res := make([]sdk.ProcessedRecord, len(recs))
	for i, r := range recs {
		if out != "ok" {
			res[i] = sdk.ErrorRecord{Error: errors.New("injected: processor rejected the record")}
		} else {
			res[i] = sdk.SingleRecord(r)
		}
	}
	return res
}

func (p *procPlugin) Teardown(context.Context) error {
	if !p.opened {
		p.w.Log("tdx", "proc", "", 0)
		return nil
	}
	p.w.Log("td", "proc", "ok", 0)
	return nil
}

// ProcRegistry implements processor.PluginService.
type ProcRegistry struct{ w *World }

func (r ProcRegistry) NewProcessor(_ context.Context, _ string, _ string, _ egress.Policy) (sdk.Processor, error) {
	return &procPlugin{w: r.w}, nil
}
