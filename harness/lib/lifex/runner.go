package lifex

import (
	"encoding/json"
	"fmt"
	"os"
	"runtime"
	"strconv"
	"strings"
	"time"

	"verifharness/lib/hx"
)

// Deadline is the per-run deadline after every gate has been opened: a control call that has not
// returned by then, or a run that has not ended, is recorded as a wedge.
const Deadline = 3 * time.Second

// RunInput executes one case on the real services and returns the event log.
func RunInput(in Input) ([]Ev, error) {
	s, err := NewSys(in.Cfg)
	if err != nil {
		return nil, err
	}
	return s.Run(in.Steps, Deadline), nil
}

func validInput(in Input) bool {
	c := in.Cfg
	if c.Engine != "v1" && c.Engine != "v2" {
		return false
	}
	if c.MinUs <= 0 || c.MaxUs < c.MinUs || c.WindowUs <= 0 || c.Factor < 1 || c.MaxRetries < -1 {
		return false
	}
	if c.DLQSize < 0 || c.DLQThr < 0 || (c.DLQSize > 0 && c.DLQSize <= c.DLQThr) {
		return false
	}
	// the fan-out family: two destinations, arch-v2 (the model joins the branch errors of a pass for that engine)
	if c.Dests < 0 || c.Dests > 2 || (c.Dests == 2 && c.Engine != "v2") {
		return false
	}
	return true
}

// Main is the body of both harness programs. gen draws one input.
func Main(chk string, gen func(r *hx.Rand, engine string) Input, corpus string) {
	o := hx.ParseFlags()
	if o.Mode == "gen" {
		repo := os.Getenv("VERIF_REPO")
		if repo == "" {
			repo = "/repo"
		}
		probs, err := GenLifecycle(repo, o.Out)
		if err != nil {
			fmt.Fprintln(os.Stderr, err)
			os.Exit(2)
		}
		for _, p := range probs {
			fmt.Println("TRANSLATOR-PROBLEM:", p)
		}
		return
	}
	// --mode p<N>: run with GOMAXPROCS=N (the thorough tier sweeps it to vary the goroutine interleavings)
	if strings.HasPrefix(o.Mode, "p") {
		if n, err := strconv.Atoi(o.Mode[1:]); err == nil && n > 0 {
			runtime.GOMAXPROCS(n)
		}
	}
	// warm-up: the first run of a process pays for lazy initialisation inside the engine
	for _, e := range []string{"v1", "v2"} {
		_, _ = RunInput(Input{Cfg: Cfg{Engine: e, MaxRetries: 1, MinUs: 1000, MaxUs: 5000, WindowUs: 30000, Factor: 2, Proc: true},
			Steps: []Step{{Op: "call", Pt: "start"}, {Op: "await", Pt: "open"}, {Op: "emit", N: 1}, {Op: "await", Pt: "idle"}}})
	}
	if o.Mode == "probe" {
		DumpOnWedge = os.Getenv("VERIF_LIFEX_DUMP") != ""
		cases, err := hx.ReadJSONL(o.Replay)
		if err != nil {
			panic(err)
		}
		for _, c := range cases {
			b, _ := json.Marshal(c["input"])
			var in Input
			if err := json.Unmarshal(b, &in); err != nil {
				panic(err)
			}
			log, err := RunInput(in)
			if err != nil {
				panic(err)
			}
			fmt.Printf("--- %v\n", c["name"])
			for _, e := range log {
				fmt.Printf("%8d %-8s %-12s %-10s %d %s\n", e.T, e.K, e.A, e.B, e.N, e.E)
			}
		}
		return
	}
	w, err := hx.NewWriter(o, "From Verif Require Import Base.CaseCheck Life.RunMap Life.Accept Life.Mon Life.Check.", "lcase")
	if err != nil {
		fmt.Fprintln(os.Stderr, err)
		os.Exit(2)
	}
	add := func(in Input) {
		if !validInput(in) {
			return
		}
		log, err := RunInput(in)
		if err != nil {
			return
		}
		w.Add(map[string]any{"input": in, "observed": map[string]any{"log": Canon(log)}}, RenderCase(in.Cfg, log))
	}
	if o.Replay != "" {
		cases, err := hx.ReadJSONL(o.Replay)
		if err != nil {
			fmt.Fprintln(os.Stderr, err)
			os.Exit(2)
		}
		for _, c := range cases {
			hx.Try(func() {
				b, _ := json.Marshal(c["input"])
				var in Input
				if err := json.Unmarshal(b, &in); err != nil {
					panic(err)
				}
				add(in)
			})
		}
	} else {
		if corpus != "" {
			if cases, err := hx.ReadJSONL(corpus); err == nil {
				for ci, c := range cases {
					if o.Shards > 0 && ci%o.Shards != o.Shard {
						continue
					}
					hx.Try(func() {
						b, _ := json.Marshal(c["input"])
						var in Input
						if err := json.Unmarshal(b, &in); err != nil {
							panic(err)
						}
						add(in)
					})
				}
			}
		}
		base := hx.NewRand(o.Seed)
		for i := 0; i < o.N; i++ {
			r := base.Fork(uint64(o.Shard)*1000003 + uint64(i))
			engine := "v1"
			if (i+o.Shard)%2 == 1 {
				engine = "v2"
			}
			add(gen(r, engine))
		}
	}
	if err := w.Close(chk); err != nil {
		fmt.Fprintln(os.Stderr, err)
		os.Exit(2)
	}
}
