package lifex

import (
	"verifharness/lib/hx"
)

// Input is the generated part of a case.
type Input struct {
	Cfg   Cfg    `json:"cfg"`
	Steps []Step `json:"steps"`
	Shape string `json:"shape,omitempty"` // name of the generator family, for the input distribution
}

func st(op, pt, out string, n int) Step { return Step{Op: op, Pt: pt, Out: out, N: n} }

// failure kinds: scripted outcomes that make the next record(s) fail
type failKind struct {
	name    string
	scripts [][2]string
	proc    bool // needs the processor
}

var failKinds = []failKind{
	{"src.read", [][2]string{{"src.read", "err"}}, false},
	{"dst.write", [][2]string{{"dst.write", "err"}}, false},
	{"dst.nack", [][2]string{{"dst.write", "nack"}}, false},
	{"dst.nack2", [][2]string{{"dst.write", "nack"}, {"dst.write", "nack"}}, false},
	{"proc", [][2]string{{"proc.do", "err"}}, true},
	{"proc2", [][2]string{{"proc.do", "err"}, {"proc.do", "err"}}, true},
	{"dst.nack+dlq.write", [][2]string{{"dst.write", "nack"}, {"dlq.write", "err"}}, false},
	{"proc+dlq.write", [][2]string{{"proc.do", "err"}, {"dlq.write", "err"}}, true},
}

var stopCalls = []string{"stop", "stop", "force", "stopwait", "stopall"}

func randCfg(r *hx.Rand, engine string) Cfg {
	dlqs := [][2]int{{0, 0}, {1, 0}, {2, 1}, {5, 2}}
	d := dlqs[r.Intn(len(dlqs))]
	return Cfg{
		Engine:     engine,
		MaxRetries: []int{-1, 0, 1, 2, 2, 3}[r.Intn(6)],
		MinUs:      []int{1000, 2000}[r.Intn(2)],
		MaxUs:      []int{5000, 10000}[r.Intn(2)],
		WindowUs:   []int{30000, 50000}[r.Intn(2)],
		Factor:     2,
		DLQSize:    d[0],
		DLQThr:     d[1],
		Proc:       r.Chance(2, 3),
	}
}

func pickFail(r *hx.Rand, c Cfg) failKind {
	for {
		k := failKinds[r.Intn(len(failKinds))]
		if k.proc && !c.Proc {
			continue
		}
		return k
	}
}

func scriptFail(k failKind) []Step {
	var out []Step
	for _, s := range k.scripts {
		out = append(out, st("script", s[0], s[1], 0))
	}
	return out
}

// branch outcomes of the fan-out family: what one destination branch of the gated pass does
//
//	ok        the branch writes the record
//	err       its Write fails (a transient cause)
//	nack      it rejects the record; whether that is absorbed, exceeds the nack threshold (fatal) or meets a
//	          switched-off DLQ is decided by the window and the rejections that came before
//	nack+dlq  it rejects the record and the DLQ write that follows fails (fatal)
var branchOutcomes = []string{"ok", "err", "err", "nack", "nack+dlq", "nack+dlq"}

// GenFanout builds one history of the fan-out family (arch-v2, one source, TWO destinations): both
// destination branches of one batch pass are parked at their gates, given an outcome each and released one
// after the other, so that the branch errors reach the branch pool of funnel.Worker.doNextTask in a chosen
// order: transient first and a fatal cause on the sibling afterwards, the symmetric order, two of a kind, one
// failing branch only. The pass's error is the join of the branch errors: a fatal cause on ANY branch must
// degrade the pipeline, whichever branch failed first.
func GenFanout(r *hx.Rand) Input {
	c := randCfg(r, "v2")
	c.Dests = 2
	d := [][2]int{{2, 1}, {2, 1}, {5, 2}, {1, 0}, {0, 0}}[r.Intn(5)]
	c.DLQSize, c.DLQThr = d[0], d[1]
	in := Input{Cfg: c, Shape: "fanout-join"}
	s := []Step{st("call", "start", "", 0), st("await", "open", "", 0)}
	if r.Bool() {
		s = append(s, st("emit", "", "", r.Range(1, 2)), st("await", "idle", "", 5000))
	}
	// rejections before the gated pass (they fill the DLQ window: the next one may exceed the threshold)
	for i, n := 0, r.Intn(c.DLQThr+1); i < n; i++ {
		s = append(s, st("script", []string{"dst.write", "dst2.write"}[r.Intn(2)], "nack", 0), st("emit", "", "", 1),
			st("await", "idle", "", 5000), st("sleep", "", "", 500))
	}
	br := []string{"dst", "dst2"}
	if r.Bool() {
		br[0], br[1] = br[1], br[0]
	}
	out := []string{branchOutcomes[r.Intn(len(branchOutcomes))], branchOutcomes[r.Intn(len(branchOutcomes))]}
	if r.Chance(1, 3) { // the shape that needs the order: transient first, the fatal cause afterwards
		out[0], out[1] = "err", []string{"nack", "nack+dlq"}[r.Intn(2)]
	}
	s = append(s, st("hold", "dst.write", "", 0), st("hold", "dst2.write", "", 0))
	dlqFails := false
	for i := range br {
		switch out[i] {
		case "err":
			s = append(s, st("script", br[i]+".write", "err", 0))
		case "nack":
			s = append(s, st("script", br[i]+".write", "nack", 0))
		case "nack+dlq":
			s = append(s, st("script", br[i]+".write", "nack", 0))
			dlqFails = true
		}
	}
	if dlqFails {
		s = append(s, st("script", "dlq.write", "err", 0))
	}
	s = append(s, st("emit", "", "", 1), st("await", "arrive:dst.write", "", 10000), st("await", "arrive:dst2.write", "", 10000),
		st("release", br[0]+".write", "", 0), st("sleep", "", "", r.Range(300, 4000)), st("release", br[1]+".write", "", 0),
		st("await", "stopped", "", 10000), st("sleep", "", "", r.Range(0, 15000)))
	if r.Chance(1, 4) {
		s = append(s, st("call", "wait", "", 0))
	}
	in.Steps = s
	return in
}

// GenC10 builds one history that stresses the classification and the back-off.
func GenC10(r *hx.Rand, engine string) Input {
	if engine == "v2" && r.Chance(1, 4) {
		return GenFanout(r)
	}
	c := randCfg(r, engine)
	in := Input{Cfg: c}
	s := []Step{st("call", "start", "", 0), st("await", "open", "", 0)}
	switch r.Intn(10) {
	case 9: // isolated transient failures, further apart than the retry window: every one must be retried
		in.Shape = "spaced-failures"
		c.MaxRetries = r.Range(1, 2)
		c.WindowUs = []int{20000, 30000}[r.Intn(2)]
		c.MinUs, c.MaxUs = 1000, 5000
		in.Cfg = c
		n := c.MaxRetries + r.Range(1, 2)
		pt := []string{"src.read", "dst.write"}[r.Intn(2)]
		for i := 0; i < n; i++ {
			s = append(s, st("sleep", "", "", c.WindowUs+c.MaxUs+60000+r.Range(0, 10000)), st("script", pt, "err", 0), st("emit", "", "", 1),
				st("await", "recovering", "", 10000), st("await", "running", "", 30000), st("await", "open", "", 10000))
		}
	case 0: // a failure while running, then see what the service does
		in.Shape = "fail"
		k := pickFail(r, c)
		s = append(s, st("emit", "", "", r.Range(0, 2)), st("await", "idle", "", 5000))
		s = append(s, scriptFail(k)...)
		s = append(s, st("emit", "", "", len(k.scripts)), st("await", "stopped", "", 8000), st("sleep", "", "", r.Range(0, 15000)))
		if r.Bool() {
			s = append(s, st("call", "wait", "", 0))
		}
	case 1: // repeated failures: exhaust the retries
		in.Shape = "flap"
		n := r.Range(2, 6)
		for i := 0; i < n; i++ {
			s = append(s, st("script", "src.read", "err", 0), st("emit", "", "", 1), st("await", "recovering", "", 10000),
				st("await", "running", "", 30000), st("await", "open", "", 10000))
			if r.Chance(1, 4) {
				s = append(s, st("sleep", "", "", r.Range(0, c.WindowUs)))
			}
		}
	case 2: // graceful stop with a record in flight that then fails (or not)
		in.Shape = "stop-inflight"
		call := stopCalls[r.Intn(len(stopCalls))]
		s = append(s, st("hold", "dst.write", "", 0), st("emit", "", "", 1), st("await", "arrive:dst.write", "", 10000))
		s = append(s, st("call", call, "", 0))
		if r.Chance(2, 3) {
			k := pickFail(r, c)
			for _, x := range k.scripts {
				if x[0] != "src.read" && x[0] != "proc.do" {
					s = append(s, st("script", x[0], x[1], 0))
				}
			}
		}
		s = append(s, st("release", "dst.write", "", 0), st("await", "stopped", "", 10000), st("sleep", "", "", r.Range(0, 15000)))
	case 3: // a stop call while the pipeline is in its back-off
		in.Shape = "stop-in-backoff"
		call := stopCalls[r.Intn(len(stopCalls))]
		s = append(s, scriptFail(failKinds[r.Intn(2)])...)
		s = append(s, st("emit", "", "", 1), st("await", "recovering", "", 10000))
		if r.Bool() {
			s = append(s, st("sleep", "", "", r.Range(0, c.MinUs)))
		}
		s = append(s, st("call", call, "", 0), st("sleep", "", "", r.Range(c.MaxUs, 3*c.MaxUs)))
	case 4: // plain stop, then a failure of the teardown
		in.Shape = "stop-teardown-fails"
		call := stopCalls[r.Intn(len(stopCalls))]
		pt := []string{"src.td", "dst.td", "dlq.td"}[r.Intn(3)]
		s = append(s, st("emit", "", "", r.Range(0, 2)), st("await", "idle", "", 5000), st("script", pt, "err", 0),
			st("call", call, "", 0), st("await", "stopped", "", 10000), st("sleep", "", "", r.Range(0, 15000)))
	case 5: // force stop racing a failure
		in.Shape = "force-vs-failure"
		k := pickFail(r, c)
		s = append(s, st("hold", "dst.write", "", 0), st("emit", "", "", 1), st("await", "arrive:dst.write", "", 10000))
		s = append(s, scriptFail(k)...)
		if r.Bool() {
			s = append(s, st("call", "force", "", 0), st("release", "dst.write", "", 0))
		} else {
			s = append(s, st("release", "dst.write", "", 0), st("call", "force", "", 0))
		}
		s = append(s, st("await", "stopped", "", 10000), st("sleep", "", "", r.Range(0, 15000)))
	case 6: // a failure at open time of a restart
		in.Shape = "restart-open-fails"
		pt := []string{"src.open", "dst.open", "dlq.open", "proc.open"}[r.Intn(4)]
		if pt == "proc.open" && !c.Proc {
			pt = "dst.open"
		}
		s = append(s, st("script", "src.read", "err", 0), st("emit", "", "", 1), st("await", "recovering", "", 10000),
			st("script", pt, "err", 0), st("sleep", "", "", r.Range(c.MaxUs, 4*c.MaxUs)))
	case 7: // shutdown while records flow and one of them fails
		in.Shape = "shutdown"
		s = append(s, st("emit", "", "", r.Range(1, 3)))
		if r.Bool() {
			s = append(s, scriptFail(pickFail(r, c))...)
			s = append(s, st("emit", "", "", 2))
		}
		s = append(s, st("call", "stopall", "", 0), st("await", "stopped", "", 10000), st("sleep", "", "", r.Range(0, 15000)))
	default: // free mix
		in.Shape = "mix"
		n := r.Range(3, 8)
		for i := 0; i < n; i++ {
			switch r.Intn(8) {
			case 0:
				s = append(s, st("emit", "", "", r.Range(1, 2)))
			case 1:
				s = append(s, scriptFail(pickFail(r, c))...)
				s = append(s, st("emit", "", "", 2))
			case 2:
				s = append(s, st("call", stopCalls[r.Intn(len(stopCalls))], "", 0))
			case 3:
				s = append(s, st("call", "start", "", 0))
			case 4:
				s = append(s, st("call", "wait", "", 0))
			case 5:
				s = append(s, st("sleep", "", "", r.Range(0, 6000)))
			case 6:
				s = append(s, st("await", []string{"stopped", "running", "recovering", "idle", "open"}[r.Intn(5)], "", 8000))
			case 7:
				s = append(s, st("call", "force", "", 0))
			}
		}
	}
	in.Steps = noStartAfterShutdown(s)
	return in
}

// noStartAfterShutdown drops Start calls that follow a StopAll: a shutdown is final.
func noStartAfterShutdown(s []Step) []Step {
	out := s[:0:0]
	shut := false
	for _, x := range s {
		if x.Op == "call" && x.Pt == "stopall" {
			shut = true
		}
		if shut && x.Op == "call" && x.Pt == "start" {
			continue
		}
		out = append(out, x)
	}
	return out
}

// GenC11 builds one history that stresses the publication windows of the run map.
func GenC11(r *hx.Rand, engine string) Input {
	c := randCfg(r, engine)
	in := Input{Cfg: c}
	s := []Step{}
	statuses := []string{"st.Running", "st.UserStopped", "st.Degraded", "st.Recovering", "st.SystemStopped"}
	after := []string{"stop", "stopwait", "wait", "start", "force", "stop"}
	switch r.Intn(10) {
	case 8: // the store write of UpdateStatus(StatusRunning) fails at the user's Start
		in.Shape = "running-write-fails-at-start"
		s = append(s, st("script", "st.Running", "err", 0), st("call", "start", "", 0), st("sleep", "", "", r.Range(1000, 5000)))
		if r.Bool() {
			s = append(s, st("emit", "", "", 1))
		}
		s = append(s, st("call", after[r.Intn(len(after))], "", 0), st("sleep", "", "", r.Range(500, 3000)))
		if r.Bool() {
			s = append(s, st("call", "wait", "", 0), st("sleep", "", "", 1000))
		}
	case 9: // ... at a recovery restart
		in.Shape = "running-write-fails-at-restart"
		if c.MaxRetries == 0 {
			c.MaxRetries = 2
			in.Cfg = c
		}
		s = append(s, st("call", "start", "", 0), st("await", "open", "", 0), st("script", "st.Running", "err", 0),
			st("script", "src.read", "err", 0), st("emit", "", "", 1), st("await", "recovering", "", 10000),
			st("sleep", "", "", c.MaxUs+r.Range(3000, 8000)), st("call", after[r.Intn(len(after))], "", 0),
			st("sleep", "", "", r.Range(500, 3000)))
	case 0: // stop, hold the closing status write, start again, release
		in.Shape = "restart-inside-cleanup"
		s = append(s, st("call", "start", "", 0), st("await", "open", "", 0), st("hold", "st.UserStopped", "", 0),
			st("call", "stop", "", 0), st("await", "arrive:st.UserStopped", "", 10000), st("call", "start", "", 0),
			st("await", "running", "", 10000), st("await", "open", "", 10000), st("release", "st.UserStopped", "", 0),
			st("sleep", "", "", r.Range(500, 4000)), st("call", "wait", "", 0), st("call", stopCalls[r.Intn(3)], "", 0),
			st("sleep", "", "", 3000))
	case 1: // fatal failure, hold the Degraded write, start again, release
		in.Shape = "restart-inside-degrade"
		s = append(s, st("call", "start", "", 0), st("await", "open", "", 0), st("hold", "st.Degraded", "", 0),
			st("call", "force", "", 0), st("await", "arrive:st.Degraded", "", 10000), st("call", "start", "", 0),
			st("await", "running", "", 10000), st("await", "open", "", 10000), st("release", "st.Degraded", "", 0),
			st("sleep", "", "", r.Range(500, 4000)), st("call", "wait", "", 0), st("call", "stop", "", 0), st("sleep", "", "", 3000))
	case 2: // recovery restart with the Running write held: calls must act on the new run
		in.Shape = "recovery-window"
		s = append(s, st("call", "start", "", 0), st("await", "open", "", 0), st("script", "src.read", "err", 0),
			st("emit", "", "", 1), st("await", "recovering", "", 10000), st("hold", "st.Running", "", 0),
			st("await", "arrive:st.Running", "", 40000), st("await", "open", "", 10000),
			st("call", []string{"wait", "stop", "stopwait", "force", "stopall"}[r.Intn(5)], "", 0),
			st("sleep", "", "", r.Range(200, 2000)), st("release", "st.Running", "", 0), st("sleep", "", "", 5000))
	case 3: // waits around failures
		in.Shape = "waits"
		s = append(s, st("call", "start", "", 0), st("await", "open", "", 0), st("call", "wait", "", 0))
		k := pickFail(r, c)
		s = append(s, scriptFail(k)...)
		s = append(s, st("emit", "", "", 2), st("await", "stopped", "", 8000), st("call", "wait", "", 0),
			st("sleep", "", "", r.Range(0, 12000)), st("call", "wait", "", 0), st("call", "start", "", 0), st("call", "wait", "", 0),
			st("sleep", "", "", 2000))
	case 4: // failures while a start is opening its plugins
		in.Shape = "open-failures"
		pt := []string{"src.open", "dst.open", "dlq.open", "proc.open"}[r.Intn(4)]
		if pt == "proc.open" && !c.Proc {
			pt = "src.open"
		}
		s = append(s, st("script", pt, "err", 0), st("call", "start", "", 0), st("sleep", "", "", r.Range(1000, 20000)),
			st("call", "start", "", 0), st("sleep", "", "", 3000), st("call", "stop", "", 0))
	case 5: // a user start while the pipeline is recovering
		in.Shape = "start-while-recovering"
		// (the plugin-dispensing gate, which lets the default engine build two runs at once, is exercised by
		// the corpus only: the acceptor's state set for two simultaneously live runs is large)
		gate := []string{"src.open", "st.Recovering"}[r.Intn(2)]
		if engine == "v1" {
			gate = "st.Recovering"
		}
		s = append(s, st("call", "start", "", 0), st("await", "open", "", 0), st("script", "src.read", "err", 0),
			st("emit", "", "", 1), st("await", "recovering", "", 10000), st("hold", gate, "", 0), st("call", "start", "", 0),
			st("sleep", "", "", r.Range(1000, 3*c.MaxUs)), st("release", gate, "", 0), st("sleep", "", "", r.Range(2000, 30000)),
			st("call", "stop", "", 0), st("sleep", "", "", 3000))
	case 6: // random status gates around a random call sequence
		in.Shape = "gated-mix"
		g := statuses[r.Intn(len(statuses))]
		s = append(s, st("call", "start", "", 0), st("await", "open", "", 0))
		n := r.Range(3, 8)
		held := false
		for i := 0; i < n; i++ {
			switch r.Intn(9) {
			case 0:
				s = append(s, st("emit", "", "", 1))
			case 1:
				s = append(s, scriptFail(pickFail(r, c))...)
				s = append(s, st("emit", "", "", 2))
			case 2:
				s = append(s, st("call", stopCalls[r.Intn(len(stopCalls))], "", 0))
			case 3:
				s = append(s, st("call", "start", "", 0))
			case 4:
				s = append(s, st("call", "wait", "", 0))
			case 5:
				s = append(s, st("sleep", "", "", r.Range(0, 6000)))
			case 6:
				if !held {
					s = append(s, st("hold", g, "", 0))
				} else {
					s = append(s, st("release", g, "", 0))
				}
				held = !held
			case 7:
				s = append(s, st("await", "arrive:"+g, "", 8000))
			case 8:
				s = append(s, st("await", []string{"stopped", "running", "open", "closed"}[r.Intn(4)], "", 8000))
			}
		}
	default: // call sequences without failures
		in.Shape = "calls"
		n := r.Range(3, 10)
		calls := []string{"start", "stop", "force", "stopwait", "wait", "wait", "start", "stop"}
		for i := 0; i < n; i++ {
			s = append(s, st("call", calls[r.Intn(len(calls))], "", 0))
			switch r.Intn(4) {
			case 0:
				s = append(s, st("await", "stopped", "", 8000))
			case 1:
				s = append(s, st("await", "open", "", 8000))
			case 2:
				s = append(s, st("sleep", "", "", r.Range(0, 3000)))
			}
		}
		if r.Chance(1, 3) {
			s = append(s, st("call", "stopall", "", 0))
		}
	}
	in.Steps = noStartAfterShutdown(s)
	return in
}
