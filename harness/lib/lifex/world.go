// Package lifex is the service-level harness shared by the C10 and C11 checks.
//
// It assembles the REAL lifecycle service of either engine (pkg/lifecycle = "v1",
// pkg/lifecycle-poc = "v2") on top of the real connector, processor and pipeline
// services and an in-memory database. Only the connector plugins, the processor
// plugin and the clock of the environment are fakes: every plugin call arrives at
// a named gate of the World, where it can be held, released and given a scripted
// outcome by the environment schedule of a case. Everything observable is
// appended to one mutex guarded event log.
package lifex

import (
	"fmt"
	"sync"
	"time"
)

// Ev is one entry of the linearised event log.
//
//	K = "st"      A = status name                        a status write became visible
//	K = "open"    A = connector (src|dst|dlq|proc)  N = run-local plugin number, B = resume position (src)
//	K = "openfail" A = connector
//	K = "td"      A = connector  B = ok|err             plugin Teardown was called
//	K = "call"    A = start|stop|force|stopwait|stopall|wait  N = call id
//	K = "ret"     A = call name  B = error class  N = call id
//	K = "skip"    A = call name                          a control step was not issued (another call pending)
//	K = "inj"     A = gate point B = outcome            a scripted failure was consumed by the code
//	K = "notify"  B = error class                       failure handler invoked
//	K = "wedge"   A = what                               a call / the run did not finish although every gate was open
//	K = "phase"   A = free|final|restart                 harness phases
type Ev struct {
	T int64  `json:"t"`
	K string `json:"k"`
	A string `json:"a,omitempty"`
	B string `json:"b,omitempty"`
	N int    `json:"n,omitempty"`
	E string `json:"e,omitempty"` // error text, for people only (never compared)
}

type point struct {
	hold    bool
	script  []string
	waiting int
	arrived int
}

// World holds the gates and the log of one case.
type World struct {
	mu      sync.Mutex
	cond    *sync.Cond
	t0      time.Time
	log     []Ev
	pts     map[string]*point
	free    bool // free-run: no holds, no scripted failures any more
	tokens  int  // records the source may still emit
	emitted int  // records emitted over the whole case (position counter is per source resume)
	dead    bool // case is over: fakes parked at gates leave immediately
}

func NewWorld() *World {
	w := &World{t0: time.Now(), pts: map[string]*point{}}
	w.cond = sync.NewCond(&w.mu)
	return w
}

func (w *World) pt(name string) *point {
	p := w.pts[name]
	if p == nil {
		p = &point{}
		w.pts[name] = p
	}
	return p
}

// Log appends an event.
func (w *World) Log(k, a, b string, n int) {
	w.mu.Lock()
	w.logLocked(k, a, b, n)
	w.mu.Unlock()
}

// LogErr appends an event together with an error text.
func (w *World) LogErr(k, a, b string, n int, err error) {
	w.mu.Lock()
	w.logLocked(k, a, b, n)
	if err != nil {
		w.log[len(w.log)-1].E = err.Error()
	}
	w.mu.Unlock()
}

func (w *World) logLocked(k, a, b string, n int) {
	w.log = append(w.log, Ev{T: time.Since(w.t0).Microseconds(), K: k, A: a, B: b, N: n})
	w.cond.Broadcast()
}

// Events returns a copy of the log.
func (w *World) Events() []Ev {
	w.mu.Lock()
	defer w.mu.Unlock()
	return append([]Ev(nil), w.log...)
}

// Arrive is called by a fake at a gate point. It blocks while the point is held
// and returns the scripted outcome ("ok" when nothing is scripted).
func (w *World) Arrive(name string) string {
	w.mu.Lock()
	defer w.mu.Unlock()
	p := w.pt(name)
	p.arrived++
	p.waiting++
	w.cond.Broadcast()
	for p.hold && !w.free && !w.dead {
		w.cond.Wait()
	}
	p.waiting--
	out := "ok"
	if !w.free && !w.dead && len(p.script) > 0 {
		out = p.script[0]
		p.script = p.script[1:]
	}
	if out != "ok" {
		w.logLocked("inj", name, out, 0)
	}
	w.cond.Broadcast()
	return out
}

// Script queues an outcome for the next arrival at the point.
func (w *World) Script(name, out string) {
	w.mu.Lock()
	w.pt(name).script = append(w.pt(name).script, out)
	w.mu.Unlock()
}

func (w *World) Hold(name string) {
	w.mu.Lock()
	w.pt(name).hold = true
	w.mu.Unlock()
}

func (w *World) Release(name string) {
	w.mu.Lock()
	w.pt(name).hold = false
	w.cond.Broadcast()
	w.mu.Unlock()
}

// FreeRun opens every gate for good and drops all scripted failures.
func (w *World) FreeRun() {
	w.mu.Lock()
	w.free = true
	for _, p := range w.pts {
		p.hold = false
		p.script = nil
	}
	w.cond.Broadcast()
	w.mu.Unlock()
}

// Kill ends the case: every parked fake leaves.
func (w *World) Kill() {
	w.mu.Lock()
	w.dead = true
	w.free = true
	w.cond.Broadcast()
	w.mu.Unlock()
}

// AllGatesOpen reports whether no fake is parked at a held gate.
func (w *World) AllGatesOpen() bool {
	w.mu.Lock()
	defer w.mu.Unlock()
	if w.free {
		return true
	}
	for _, p := range w.pts {
		if p.hold && p.waiting > 0 {
			return false
		}
	}
	return true
}

// Emit lets the source produce n more records.
func (w *World) Emit(n int) {
	w.mu.Lock()
	w.tokens += n
	w.cond.Broadcast()
	w.mu.Unlock()
}

// takeToken blocks until a record may be emitted or stop is closed.
func (w *World) takeToken(stop <-chan struct{}) bool {
	done := make(chan struct{})
	go func() {
		select {
		case <-stop:
			w.mu.Lock()
			w.cond.Broadcast()
			w.mu.Unlock()
		case <-done:
		}
	}()
	defer close(done)
	w.mu.Lock()
	defer w.mu.Unlock()
	for w.tokens == 0 && !w.dead {
		select {
		case <-stop:
			return false
		default:
		}
		w.cond.Wait()
	}
	select {
	case <-stop:
		return false
	default:
	}
	if w.dead {
		return false
	}
	w.tokens--
	w.emitted++
	return true
}

// WaitFor blocks until pred holds on the log (checked under the lock) or the
// timeout elapses; it reports whether pred held.
func (w *World) WaitFor(timeout time.Duration, pred func(log []Ev) bool) bool {
	deadline := time.Now().Add(timeout)
	timer := time.AfterFunc(timeout, func() {
		w.mu.Lock()
		w.cond.Broadcast()
		w.mu.Unlock()
	})
	defer timer.Stop()
	w.mu.Lock()
	defer w.mu.Unlock()
	for !pred(w.log) {
		if !time.Now().Before(deadline) {
			return false
		}
		w.cond.Wait()
	}
	return true
}

// Waiting reports how many fakes are parked at the point and how many arrived in total.
func (w *World) Waiting(name string) (waiting, arrived int) {
	w.mu.Lock()
	defer w.mu.Unlock()
	p := w.pt(name)
	return p.waiting, p.arrived
}

// WaitArrived blocks until at least n calls arrived at the point.
func (w *World) WaitArrived(name string, n int, timeout time.Duration) bool {
	deadline := time.Now().Add(timeout)
	timer := time.AfterFunc(timeout, func() {
		w.mu.Lock()
		w.cond.Broadcast()
		w.mu.Unlock()
	})
	defer timer.Stop()
	w.mu.Lock()
	defer w.mu.Unlock()
	for w.pt(name).arrived < n {
		if !time.Now().Before(deadline) {
			return false
		}
		w.cond.Wait()
	}
	return true
}

func posOf(k int) []byte { return []byte(fmt.Sprintf("%08d", k)) }

func parsePos(b []byte) int {
	n := 0
	if len(b) == 0 {
		return 0
	}
	for _, c := range b {
		if c < '0' || c > '9' {
			return 0
		}
		n = n*10 + int(c-'0')
	}
	return n
}
