package lifex

import (
	"fmt"
	"strings"

	"verifharness/lib/hx"
)

// the second destination of a fan-out pipeline is a destination like the first for the model and the monitors
// (they count the branches of a pass, they do not name them); the JSON log keeps the names
var connName = map[string]string{"src": "KSrc", "dst": "KDst", "dst2": "KDst", "dlq": "KDlq", "proc": "KProc"}
var kindName = map[string]string{"start": "KStart", "stop": "KStop", "force": "KForce", "stopwait": "KStopWait", "stopall": "KStopAll", "wait": "KWait"}
var className = map[string]string{"nil": "CNil", "running": "CRunning", "notrunning": "CNotRunning", "force": "CForce",
	"exhausted": "CExhausted", "fatal": "CFatal", "transient": "CTransient", "timeout": "CTimeout"}
var pointName = map[string]string{"src.read": "PSrcRead", "dst.write": "PDstWrite", "dlq.write": "PDlqWrite", "proc.do": "PProcDo",
	"src.td": "PSrcTd", "dst.td": "PDstTd", "dlq.td": "PDlqTd", "dst2.write": "PDstWrite", "dst2.td": "PDstTd"}
var phaseName = map[string]string{"free": "PhFree", "final": "PhFinal", "restart": "PhRestart", "end": "PhEnd"}

// RenderCfg renders the configuration of a case as a Coq term of type lcfg.
func RenderCfg(c Cfg) string {
	eng := "V1"
	if c.Engine == "v2" {
		eng = "V2"
	}
	return fmt.Sprintf("(mkLcfg %s %s %d %d %d %s %s %s %s)", eng, hx.Bool(c.Proc), max(1, c.Dests), c.DLQSize, c.DLQThr,
		"("+hx.Z(int64(c.MaxRetries))+")", hx.Z(int64(c.MinUs)), hx.Z(int64(c.MaxUs)), hx.Z(int64(c.WindowUs)))
}

// RenderLog renders the canonical events of a log as a Coq list of lev.
func RenderLog(log []Ev) string {
	var out []string
	for _, e := range log {
		t := hx.Z(e.T)
		switch e.K {
		case "st":
			out = append(out, fmt.Sprintf("EvSt %s %s", t, e.A))
		case "stret":
			out = append(out, fmt.Sprintf("EvStRet %s %s", t, e.A))
		case "open":
			out = append(out, fmt.Sprintf("EvOpen %s %s", t, connName[e.A]))
		case "openfail":
			out = append(out, fmt.Sprintf("EvOpenFail %s", connName[e.A]))
		case "td":
			out = append(out, fmt.Sprintf("EvTd %s %s", t, connName[e.A]))
		case "write":
			if e.B == "ok" {
				out = append(out, fmt.Sprintf("EvWrite %s", connName[e.A]))
			}
		case "call":
			out = append(out, fmt.Sprintf("EvCall %s %d", kindName[e.A], e.N))
		case "ret":
			out = append(out, fmt.Sprintf("EvRet %s %d %s", kindName[e.A], e.N, className[e.B]))
		case "inj":
			if p, ok := pointName[e.A]; ok {
				o := "OErr"
				if e.B == "nack" {
					o = "ONack"
				}
				out = append(out, fmt.Sprintf("EvInj %s %s", p, o))
			} else if e.A == "st.Running" {
				// the store write of UpdateStatus(StatusRunning) was made to fail
				out = append(out, "EvStFail")
			}
		case "notify":
			out = append(out, fmt.Sprintf("EvNotify %s", className[e.B]))
		case "wedge", "panic":
			out = append(out, "EvWedge")
		case "phase":
			out = append(out, fmt.Sprintf("EvPhase %s", phaseName[e.A]))
		}
	}
	return "[" + strings.Join(out, "; ") + "]"
}

// RenderCase renders a whole case (type lcase).
func RenderCase(c Cfg, log []Ev) string {
	return "(mkLcase " + RenderCfg(c) + " " + RenderLog(log) + ")"
}

// Canon strips what is never compared (error texts) from a log for the JSON file; time stamps stay, they are
// used by the monitors only through differences.
func Canon(log []Ev) []map[string]any {
	out := make([]map[string]any, 0, len(log))
	for _, e := range log {
		m := map[string]any{"t": e.T, "k": e.K}
		if e.A != "" {
			m["a"] = e.A
		}
		if e.B != "" {
			m["b"] = e.B
		}
		if e.N != 0 {
			m["n"] = e.N
		}
		out = append(out, m)
	}
	return out
}
