package lifex

import (
	"context"
	"errors"
	"fmt"
	"os"
	"runtime/pprof"
	"sync"
	"time"

	"github.com/conduitio/conduit-commons/database/inmemory"
	"github.com/conduitio/conduit/pkg/connector"
	"github.com/conduitio/conduit/pkg/foundation/cerrors"
	"github.com/conduitio/conduit/pkg/foundation/log"
	lifecyclev1 "github.com/conduitio/conduit/pkg/lifecycle"
	lifecyclev2 "github.com/conduitio/conduit/pkg/lifecycle-poc"
	"github.com/conduitio/conduit/pkg/pipeline"
	"github.com/conduitio/conduit/pkg/processor"
)

// Cfg is the configuration part of a case.
type Cfg struct {
	Engine     string `json:"engine"`      // "v1" | "v2"
	MaxRetries int    `json:"max_retries"` // -1 = unbounded
	MinUs      int    `json:"min_us"`
	MaxUs      int    `json:"max_us"`
	WindowUs   int    `json:"window_us"`
	Factor     int    `json:"factor"`
	DLQSize    int    `json:"dlq_size"`
	DLQThr     int    `json:"dlq_thr"`
	Proc       bool   `json:"proc"`
	Workers    int    `json:"workers,omitempty"` // processor workers (>1: v1 wraps the processor in a ParallelNode)
	Dests      int    `json:"dests,omitempty"`   // number of destinations (0/1: one; 2: the source fans out to "dst" and "dst2", arch-v2 only)
}

// Step is one step of the environment schedule.
type Step struct {
	Op  string `json:"op"`            // emit|script|hold|release|call|sleep|await
	Pt  string `json:"pt,omitempty"`  // gate point, call name or await condition
	Out string `json:"out,omitempty"` // scripted outcome
	N   int    `json:"n,omitempty"`   // count / microseconds
}

const PipelineID = "p1"

// statusWrap is the PipelineService handed to the lifecycle service: the real
// pipeline.Service, with every status write logged once it is visible and then
// parked at the gate "st.<Status>" before it returns to the engine (a slow store).
type statusWrap struct {
	w  *World
	ps *pipeline.Service
}

func (s *statusWrap) Get(ctx context.Context, id string) (*pipeline.Instance, error) {
	return s.ps.Get(ctx, id)
}
func (s *statusWrap) List(ctx context.Context) map[string]*pipeline.Instance { return s.ps.List(ctx) }
func (s *statusWrap) UpdateStatus(ctx context.Context, id string, st pipeline.Status, msg string) error {
	// the write and its log entry are one atomic step with respect to every other log entry
	s.w.mu.Lock()
	err := s.ps.UpdateStatus(ctx, id, st, msg)
	if err != nil {
		s.w.logLocked("sterr", st.String(), "", 0)
		s.w.mu.Unlock()
		return err
	}
	s.w.logLocked("st", st.String(), "", 0)
	s.w.mu.Unlock()
	out := s.w.Arrive("st." + st.String())
	s.w.Log("stret", st.String(), "", 0)
	if out == "err" {
		return errors.New("injected: status write failed after becoming visible")
	}
	return nil
}

// Sys is one assembled system under test.
type Sys struct {
	W   *World
	Cfg Cfg

	ps        *pipeline.Service
	pl        *pipeline.Instance
	persister *connector.Persister
	v1        *lifecyclev1.Service
	v2        *lifecyclev2.Service

	mu       sync.Mutex
	nextCall int
	pending  map[int]string // call id -> name (not yet returned)
}

// Class maps an error to the class that is compared.
func Class(err error) string {
	switch {
	case err == nil:
		return "nil"
	case cerrors.Is(err, pipeline.ErrPipelineRunning):
		return "running"
	case cerrors.Is(err, pipeline.ErrPipelineNotRunning):
		return "notrunning"
	case cerrors.Is(err, pipeline.ErrForceStop):
		return "force"
	case cerrors.Is(err, pipeline.ErrPipelineCannotRecover):
		return "exhausted"
	case cerrors.IsFatalError(err):
		return "fatal"
	case cerrors.Is(err, context.DeadlineExceeded):
		return "timeout"
	default:
		return "transient"
	}
}

// NewSys builds the services and one pipeline (source -> [processor] -> destination, DLQ).
func NewSys(cfg Cfg) (*Sys, error) {
	ctx := context.Background()
	w := NewWorld()
	logger := log.Nop()
	db := &inmemory.DB{}
	persister := connector.NewPersister(logger, db, time.Millisecond, 1)
	ps := pipeline.NewService(logger, db)
	cs := connector.NewService(logger, db, persister)
	prs := processor.NewService(logger, db, ProcRegistry{w: w})

	pl, err := ps.Create(ctx, PipelineID, pipeline.Config{Name: "p1"}, pipeline.ProvisionTypeAPI)
	if err != nil {
		return nil, err
	}
	if _, err := cs.Create(ctx, "src", connector.TypeSource, PluginSrc, pl.ID, connector.Config{Name: "src", Settings: map[string]string{}}, connector.ProvisionTypeAPI); err != nil {
		return nil, err
	}
	if _, err := cs.Create(ctx, "dst", connector.TypeDestination, PluginDst, pl.ID, connector.Config{Name: "dst", Settings: map[string]string{}}, connector.ProvisionTypeAPI); err != nil {
		return nil, err
	}
	if _, err := ps.AddConnector(ctx, pl.ID, "src"); err != nil {
		return nil, err
	}
	if _, err := ps.AddConnector(ctx, pl.ID, "dst"); err != nil {
		return nil, err
	}
	if cfg.Dests >= 2 {
		// a second destination: the engine fans every batch out to both (funnel.Worker.doNextTask)
		if _, err := cs.Create(ctx, "dst2", connector.TypeDestination, PluginDst2, pl.ID, connector.Config{Name: "dst2", Settings: map[string]string{}}, connector.ProvisionTypeAPI); err != nil {
			return nil, err
		}
		if _, err := ps.AddConnector(ctx, pl.ID, "dst2"); err != nil {
			return nil, err
		}
	}
	if cfg.Proc {
		if _, err := prs.Create(ctx, "proc", "fake-proc", processor.Parent{ID: pl.ID, Type: processor.ParentTypePipeline},
			processor.Config{Settings: map[string]string{}, Workers: max(1, cfg.Workers)}, processor.ProvisionTypeAPI, ""); err != nil {
			return nil, err
		}
		if _, err := ps.AddProcessor(ctx, pl.ID, "proc"); err != nil {
			return nil, err
		}
	}
	if _, err := ps.UpdateDLQ(ctx, pl.ID, pipeline.DLQ{Plugin: PluginDlq, Settings: map[string]string{},
		WindowSize: cfg.DLQSize, WindowNackThreshold: cfg.DLQThr}); err != nil {
		return nil, err
	}

	rec := &lifecyclev1.ErrRecoveryCfg{
		MinDelay:         time.Duration(cfg.MinUs) * time.Microsecond,
		MaxDelay:         time.Duration(cfg.MaxUs) * time.Microsecond,
		BackoffFactor:    cfg.Factor,
		MaxRetries:       int64(cfg.MaxRetries),
		MaxRetriesWindow: time.Duration(cfg.WindowUs) * time.Microsecond,
	}
	s := &Sys{W: w, Cfg: cfg, ps: ps, pl: pl, persister: persister, pending: map[int]string{}}
	sw := &statusWrap{w: w, ps: ps}
	switch cfg.Engine {
	case "v1":
		s.v1 = lifecyclev1.NewService(logger, rec, cs, prs, PluginService{w: w}, sw)
		s.v1.OnFailure(func(e lifecyclev1.FailureEvent) { w.Log("notify", "", Class(e.Error), 0) })
	case "v2":
		s.v2 = lifecyclev2.NewService(logger, rec, cs, prs, PluginService{w: w}, sw, true)
		s.v2.OnFailure(func(e lifecyclev2.FailureEvent) { w.Log("notify", "", Class(e.Error), 0) })
	default:
		return nil, fmt.Errorf("unknown engine %q", cfg.Engine)
	}
	return s, nil
}

// Status returns the stored status name.
func (s *Sys) Status() string { return s.pl.GetStatus().String() }

func (s *Sys) doCall(name string) error {
	ctx := context.Background()
	switch name {
	case "start":
		if s.v1 != nil {
			return s.v1.Start(ctx, PipelineID)
		}
		return s.v2.Start(ctx, PipelineID)
	case "stop", "force":
		if s.v1 != nil {
			return s.v1.Stop(ctx, PipelineID, name == "force")
		}
		return s.v2.Stop(ctx, PipelineID, name == "force")
	case "stopwait":
		if s.v1 != nil {
			return s.v1.StopAndWait(ctx, PipelineID)
		}
		return s.v2.StopAndWait(ctx, PipelineID)
	case "stopall":
		if s.v1 != nil {
			s.v1.StopAll(ctx, pipeline.ErrGracefulShutdown)
			return nil
		}
		return s.v2.StopAll(ctx, false)
	case "wait":
		if s.v1 != nil {
			return s.v1.WaitPipeline(PipelineID)
		}
		return s.v2.WaitPipeline(PipelineID)
	}
	panic("unknown call " + name)
}

// Call issues a control call in its own goroutine and waits up to wait for its
// return. It returns the call id, or -1 when the call was skipped because another
// non-wait call has not returned yet (calls are issued one at a time per pipeline).
func (s *Sys) Call(name string, wait time.Duration) int {
	s.mu.Lock()
	if name != "wait" {
		for _, n := range s.pending {
			if n != "wait" {
				s.mu.Unlock()
				s.W.Log("skip", name, "", 0)
				return -1
			}
		}
	} else {
		// at most two overlapping WaitPipeline calls (the acceptor's state set grows with each)
		nw := 0
		for _, n := range s.pending {
			if n == "wait" {
				nw++
			}
		}
		if nw >= 2 {
			s.mu.Unlock()
			s.W.Log("skip", name, "", 0)
			return -1
		}
	}
	s.nextCall++
	id := s.nextCall
	s.pending[id] = name
	s.mu.Unlock()

	s.W.Log("call", name, "", id)
	go func() {
		var err error
		func() {
			defer func() {
				if r := recover(); r != nil {
					err = fmt.Errorf("panic: %v", r)
					s.W.Log("panic", name, fmt.Sprint(r), id)
				}
			}()
			err = s.doCall(name)
		}()
		// log first, then retire the call: nothing may be issued between a return and its log entry
		s.W.LogErr("ret", name, Class(err), id, err)
		s.mu.Lock()
		delete(s.pending, id)
		s.mu.Unlock()
	}()
	if s.W.WaitFor(wait, func(l []Ev) bool {
		for i := len(l) - 1; i >= 0; i-- {
			if l[i].K == "ret" && l[i].N == id {
				return true
			}
		}
		return false
	}) {
		for s.isPending(id) { // the goroutine retires the call right after logging its return
			time.Sleep(10 * time.Microsecond)
		}
	}
	return id
}

// DumpOnWedge makes a wedge write all goroutine stacks to stderr (probe mode, for people).
var DumpOnWedge = false

func dumpStacks() {
	if DumpOnWedge {
		_ = pprof.Lookup("goroutine").WriteTo(os.Stderr, 2)
	}
}

func (s *Sys) isPending(id int) bool {
	s.mu.Lock()
	defer s.mu.Unlock()
	_, ok := s.pending[id]
	return ok
}

// Pending returns the names of the calls that have not returned.
func (s *Sys) Pending() []string {
	s.mu.Lock()
	defer s.mu.Unlock()
	var out []string
	for _, n := range s.pending {
		out = append(out, n)
	}
	return out
}

func count(l []Ev, k, a string) int {
	n := 0
	for _, e := range l {
		if e.K == k && e.A == a {
			n++
		}
	}
	return n
}

func lastStatus(l []Ev) string {
	for i := len(l) - 1; i >= 0; i-- {
		if l[i].K == "st" {
			return l[i].A
		}
	}
	return "UserStopped"
}

// openRuns is the number of source plugins that are open and not torn down.
func openRuns(l []Ev) int { return count(l, "open", "src") - count(l, "td", "src") }

func (s *Sys) await(what string, d time.Duration) bool {
	switch what {
	case "running":
		return s.W.WaitFor(d, func(l []Ev) bool { return lastStatus(l) == "Running" })
	case "recovering":
		return s.W.WaitFor(d, func(l []Ev) bool { return lastStatus(l) == "Recovering" })
	case "stopped":
		return s.W.WaitFor(d, func(l []Ev) bool {
			st := lastStatus(l)
			return st != "Running" && st != "Recovering"
		})
	case "open":
		return s.W.WaitFor(d, func(l []Ev) bool { return openRuns(l) > 0 })
	case "closed":
		return s.W.WaitFor(d, func(l []Ev) bool { return openRuns(l) <= 0 })
	case "idle":
		return s.W.WaitFor(d, func(l []Ev) bool {
			return count(l, "read", "src") <= count(l, "write", "dst")+count(l, "inj", "dst.write")+count(l, "inj", "proc.do")
		})
	default:
		if len(what) > 7 && what[:7] == "arrive:" {
			pt := what[7:]
			deadline := time.Now().Add(d)
			for time.Now().Before(deadline) {
				if wt, _ := s.W.Waiting(pt); wt > 0 {
					return true
				}
				time.Sleep(50 * time.Microsecond)
			}
			return false
		}
	}
	return false
}

// Run executes the schedule, then drives the pipeline to a final state with
// every gate open, and returns the event log.
func (s *Sys) Run(steps []Step, deadline time.Duration) []Ev {
	const callWait = 15 * time.Millisecond
	for _, st := range steps {
		switch st.Op {
		case "emit":
			n := st.N
			if n <= 0 {
				n = 1
			}
			s.W.Emit(n)
		case "script":
			s.W.Script(st.Pt, st.Out)
		case "hold":
			s.W.Hold(st.Pt)
		case "release":
			s.W.Release(st.Pt)
		case "call":
			w := callWait
			if st.Pt == "wait" {
				w = 300 * time.Microsecond
			}
			s.Call(st.Pt, w)
		case "sleep":
			time.Sleep(time.Duration(st.N) * time.Microsecond)
		case "await":
			d := time.Duration(st.N) * time.Microsecond
			if d <= 0 {
				d = 20 * time.Millisecond
			}
			s.await(st.Pt, d)
		}
	}
	s.finish(deadline)
	return s.W.Events()
}

// pendingCalls returns the pending calls, with or without the WaitPipeline calls.
func (s *Sys) pendingCalls(withWaits bool) []string {
	var out []string
	for _, n := range s.Pending() {
		if n == "wait" && !withWaits {
			continue
		}
		out = append(out, n)
	}
	return out
}

// waitCallsReturned waits until every pending call (optionally also the waits) returned.
func (s *Sys) waitCallsReturned(d time.Duration, withWaits bool) bool {
	end := time.Now().Add(d)
	for time.Now().Before(end) {
		if len(s.pendingCalls(withWaits)) == 0 {
			return true
		}
		time.Sleep(200 * time.Microsecond)
	}
	return len(s.pendingCalls(withWaits)) == 0
}

func (s *Sys) finish(deadline time.Duration) {
	w := s.W
	// phase "free": all gates open, no more injected failures
	w.Log("phase", "free", "", 0)
	w.FreeRun()
	if !s.waitCallsReturned(deadline, false) {
		for _, n := range s.pendingCalls(false) {
			w.Log("wedge", "call:"+n, "", 0)
		}
		w.Kill()
		return
	}
	// let a recovery in progress play out
	s.settle(deadline)

	// phase "final": a pipeline that is still up is stopped by the user and must come down
	w.Log("phase", "final", "", 0)
	if st := s.Status(); st == "Running" || st == "Recovering" {
		if !s.stopAndSettle(deadline) {
			w.Kill()
			return
		}
	}
	// the pipeline is down: every WaitPipeline call must have returned by now
	if !s.waitCallsReturned(deadline, true) {
		for _, n := range s.pendingCalls(true) {
			w.Log("wedge", "call:"+n, "", 0)
		}
		w.Kill()
		return
	}
	// phase "restart": once it is down, it must be possible to start and stop it again
	w.Log("phase", "restart", "", 0)
	if s.Cfg.Engine == "v2" && count(w.Events(), "call", "stopall") > 0 {
		// v2's shutdown flag is process wide and permanent: no restart after a shutdown
		w.Log("phase", "end", s.Status(), openRuns(w.Events()))
		w.Kill()
		return
	}
	s.Call("start", deadline)
	if len(s.pendingCalls(false)) > 0 {
		w.Log("wedge", "call:start", "", 0)
		w.Kill()
		return
	}
	if st := s.Status(); st == "Running" || st == "Recovering" {
		s.await("open", 50*time.Millisecond)
		s.stopAndSettle(deadline)
	}
	w.Log("phase", "end", s.Status(), openRuns(w.Events()))
	w.Kill()
}

// settle waits (bounded) until the lifecycle is quiet: the status is not Recovering, the stored status and
// the plugins agree (Running with an open source, or a stopped status with no open source), and no status
// write, plugin open / teardown or call return has been logged for a few milliseconds.
func (s *Sys) settle(deadline time.Duration) {
	const quiet = 3 * time.Millisecond
	end := time.Now().Add(deadline)
	for time.Now().Before(end) {
		l := s.W.Events()
		st := lastStatus(l)
		var last int64
		for i := len(l) - 1; i >= 0; i-- {
			switch l[i].K {
			case "st", "stret", "open", "openfail", "td", "ret", "call":
				last = l[i].T
			default:
				continue
			}
			break
		}
		now := time.Since(s.W.t0).Microseconds()
		agree := (st == "Running") == (openRuns(l) > 0)
		// a stop that was accepted (returned nil) after the last Running write is still being carried out as long
		// as no closing status has followed: on a loaded machine that takes tens of milliseconds without a single
		// event, which is not quiet
		stopping := false
		if st == "Running" {
			for i := len(l) - 1; i >= 0; i-- {
				if l[i].K == "st" {
					break
				}
				if l[i].K == "ret" && l[i].B == "nil" && (l[i].A == "stop" || l[i].A == "stopall" || l[i].A == "stopwait" || l[i].A == "force") {
					stopping = true
					break
				}
			}
		}
		if st != "Recovering" && agree && !stopping && now-last > quiet.Microseconds() {
			return
		}
		time.Sleep(300 * time.Microsecond)
	}
}

// stopAndSettle brings the pipeline down with user stops and reports whether it came down before
// the deadline. A stop that fails (the run was already going down) or that is followed by a recovery
// restart is repeated: only a stop call that never returns, or a pipeline that is still up when the
// deadline has passed, is a wedge.
func (s *Sys) stopAndSettle(deadline time.Duration) bool {
	w := s.W
	end := time.Now().Add(deadline)
	down := func(l []Ev) bool {
		st := lastStatus(l)
		return st != "Running" && st != "Recovering" && openRuns(l) <= 0
	}
	for {
		left := time.Until(end)
		if left <= 0 {
			w.Log("wedge", "run", s.Status(), openRuns(w.Events()))
			dumpStacks()
			return false
		}
		if id := s.Call("stop", left); id >= 0 && s.isPending(id) {
			w.Log("wedge", "call:stop", "", 0)
			return false
		}
		step := 300 * time.Millisecond
		if left < step {
			step = left
		}
		if w.WaitFor(step, down) {
			break
		}
	}
	if id := s.Call("wait", time.Until(end)+time.Second); id >= 0 && s.isPending(id) {
		w.Log("wedge", "call:wait", "", 0)
		return false
	}
	return true
}
