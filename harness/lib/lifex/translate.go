package lifex

import (
	"fmt"
	"go/ast"
	"go/parser"
	"go/token"
	"os"
	"path/filepath"
	"strings"
)

// Translator for C10: regenerates, from the source tree, the ORDER of the guards of the error branch
// of the classification in the cleanup goroutine of runPipeline (both engines), whether each arm's
// body does what its guard stands for, and whether the Kill sites of a force stop wrap their error
// in cerrors.FatalError. Output: GenLifecycle.v.

type genEngine struct {
	Arms            []string // GFatal | GShutdown | GIntentional | GRecover | GOther
	BodiesOK        bool
	HasStillAlive   bool
	ForceWraps      bool
	ForceFound      bool
	EscalationWrap  bool // v2: the partial-stop escalation Kill
	SyncKill        bool // a goroutine of runPipeline that defers a WaitGroup.Done() Kills the tomb itself before returning its error
	ForceIntent     bool // the force-stop branch also stores intentionalStop
	GuardedDelete   bool // every runningPipelines.Delete of the cleanup is a compare-and-delete
	OwnClose        bool // the Degraded write of a failed recovery goes through degradeIfCurrent (compare-and-write under publishMu)
	ownCloseCall    bool
	ownCloseBare    bool
	ownCloseHelper  bool
	DeleteFound     bool
	Problems        []string
	helperGuarded   bool
	helperFound     bool
	deleteViaHelper bool
}

func mentions(n ast.Node, name string) bool {
	found := false
	ast.Inspect(n, func(x ast.Node) bool {
		switch v := x.(type) {
		case *ast.Ident:
			if v.Name == name {
				found = true
			}
		case *ast.SelectorExpr:
			if v.Sel.Name == name {
				found = true
			}
		}
		return !found
	})
	return found
}

func guardKind(cond ast.Expr) string {
	if cond == nil {
		return "else"
	}
	if u, ok := cond.(*ast.UnaryExpr); ok && u.Op == token.NOT {
		return "GOther" // negated guards are not a shape the model knows
	}
	if b, ok := cond.(*ast.BinaryExpr); ok && (b.Op == token.LAND || b.Op == token.LOR) {
		return "GOther"
	}
	switch {
	case mentions(cond, "IsFatalError"):
		return "GFatal"
	case mentions(cond, "isGracefulShutdown"):
		return "GShutdown"
	case mentions(cond, "intentionalStop"):
		return "GIntentional"
	}
	return "GOther"
}

func bodyOK(kind string, body ast.Node) bool {
	switch kind {
	case "GFatal":
		return mentions(body, "StatusDegraded") && !mentions(body, "recoverPipeline")
	case "GShutdown":
		return mentions(body, "StatusSystemStopped") && !mentions(body, "recoverPipeline")
	case "GIntentional":
		return mentions(body, "StatusUserStopped") && !mentions(body, "recoverPipeline")
	case "GRecover":
		return mentions(body, "recoverPipeline")
	}
	return false
}

// armsOfDefault walks the statements of the `default:` clause of `switch err`.
func armsOfDefault(g *genEngine, body []ast.Stmt) {
	for _, st := range body {
		switch s := st.(type) {
		case *ast.IfStmt:
			var cur ast.Stmt = s
			for cur != nil {
				switch c := cur.(type) {
				case *ast.IfStmt:
					k := guardKind(c.Cond)
					g.Arms = append(g.Arms, k)
					if !bodyOK(k, c.Body) {
						g.BodiesOK = false
					}
					cur = c.Else
				case *ast.BlockStmt:
					k := "GOther"
					if mentions(c, "recoverPipeline") {
						k = "GRecover"
					}
					g.Arms = append(g.Arms, k)
					if !bodyOK(k, c) {
						g.BodiesOK = false
					}
					cur = nil
				default:
					cur = nil
				}
			}
			return
		case *ast.SwitchStmt:
			if s.Tag != nil {
				continue
			}
			var deflt *ast.CaseClause
			for _, cc := range s.Body.List {
				c := cc.(*ast.CaseClause)
				if c.List == nil {
					deflt = c
					continue
				}
				k := "GOther"
				if len(c.List) == 1 {
					k = guardKind(c.List[0])
				}
				g.Arms = append(g.Arms, k)
				blk := &ast.BlockStmt{List: c.Body}
				if !bodyOK(k, blk) {
					g.BodiesOK = false
				}
			}
			if deflt != nil { // the default clause of a tagless switch is tried last wherever it stands
				blk := &ast.BlockStmt{List: deflt.Body}
				k := "GOther"
				if mentions(blk, "recoverPipeline") {
					k = "GRecover"
				}
				g.Arms = append(g.Arms, k)
				if !bodyOK(k, blk) {
					g.BodiesOK = false
				}
			}
			return
		}
	}
	g.Problems = append(g.Problems, "no if / switch chain found in the default clause")
}

func analyse(path string) (*genEngine, error) {
	fset := token.NewFileSet()
	f, err := parser.ParseFile(fset, path, nil, 0)
	if err != nil {
		return nil, err
	}
	g := &genEngine{BodiesOK: true}
	for _, d := range f.Decls {
		fn, ok := d.(*ast.FuncDecl)
		if !ok || fn.Body == nil {
			continue
		}
		if fn.Name.Name == "runPipeline" {
			repairsOfRunPipeline(g, fn)
		}
		if fn.Name.Name == "degradeIfCurrent" {
			g.ownCloseHelper = degradeHelperOK(fn)
		}
		if fn.Name.Name == "deleteRunningPipelineIfCurrent" {
			// v1's helper: Delete under an `if current == rp` guard
			ok := true
			inspectWithStack(fn.Body, func(n ast.Node, stack []ast.Node) {
				if isDeleteOfRunning(n) && !guardedByIdentityTest(stack) {
					ok = false
				}
			})
			g.helperGuarded = ok
			g.helperFound = true
		}
		// the force-stop branch: the clause / block that Kills with ErrForceStop
		inspectWithStack(fn.Body, func(n ast.Node, stack []ast.Node) {
			call, ok := n.(*ast.CallExpr)
			if !ok {
				return
			}
			sel, ok := call.Fun.(*ast.SelectorExpr)
			if !ok || sel.Sel.Name != "Kill" || len(call.Args) != 1 || !mentions(call.Args[0], "ErrForceStop") {
				return
			}
			for i := len(stack) - 1; i >= 0; i-- {
				switch b := stack[i].(type) {
				case *ast.CaseClause:
					g.ForceIntent = storesIntentional(&ast.BlockStmt{List: b.Body})
					return
				case *ast.BlockStmt:
					g.ForceIntent = storesIntentional(b)
					return
				}
			}
		})
		if fn.Name.Name == "runPipeline" {
			ast.Inspect(fn.Body, func(n ast.Node) bool {
				sw, ok := n.(*ast.SwitchStmt)
				if !ok || sw.Tag == nil {
					return true
				}
				if id, ok := sw.Tag.(*ast.Ident); !ok || id.Name != "err" {
					return true
				}
				still := false
				var deflt *ast.CaseClause
				for _, cc := range sw.Body.List {
					c := cc.(*ast.CaseClause)
					if c.List == nil {
						deflt = c
					}
					for _, e := range c.List {
						if mentions(e, "ErrStillAlive") {
							still = true
						}
					}
				}
				if still && deflt != nil && len(g.Arms) == 0 {
					g.HasStillAlive = true
					armsOfDefault(g, deflt.Body)
				}
				return true
			})
		}
		// Kill sites
		ast.Inspect(fn.Body, func(n ast.Node) bool {
			call, ok := n.(*ast.CallExpr)
			if !ok {
				return true
			}
			sel, ok := call.Fun.(*ast.SelectorExpr)
			if !ok || sel.Sel.Name != "Kill" || len(call.Args) != 1 {
				return true
			}
			arg := call.Args[0]
			wraps := false
			if c2, ok := arg.(*ast.CallExpr); ok {
				if s2, ok := c2.Fun.(*ast.SelectorExpr); ok && s2.Sel.Name == "FatalError" {
					wraps = true
				}
			}
			if mentions(arg, "ErrForceStop") {
				g.ForceFound = true
				g.ForceWraps = wraps
			}
			if fn.Name.Name == "stopRunnablePipeline" && !mentions(arg, "ErrForceStop") {
				g.EscalationWrap = wraps
			}
			return true
		})
	}
	g.OwnClose = g.ownCloseCall && !g.ownCloseBare && g.ownCloseHelper
	if g.deleteViaHelper {
		g.DeleteFound = g.helperFound
		g.GuardedDelete = g.GuardedDelete && g.helperFound && g.helperGuarded
	}
	if !g.DeleteFound {
		g.Problems = append(g.Problems, "no runningPipelines.Delete found in the cleanup of runPipeline")
	}
	if !g.HasStillAlive {
		g.Problems = append(g.Problems, "switch err { case tomb.ErrStillAlive ... default ... } not found in runPipeline")
	}
	if !g.ForceFound {
		g.Problems = append(g.Problems, "no Kill site mentioning ErrForceStop found")
	}
	return g, nil
}

// inspectWithStack calls f for every node with the stack of its ancestors.
func inspectWithStack(root ast.Node, f func(n ast.Node, stack []ast.Node)) {
	var stack []ast.Node
	ast.Inspect(root, func(n ast.Node) bool {
		if n == nil {
			stack = stack[:len(stack)-1]
			return true
		}
		f(n, stack)
		stack = append(stack, n)
		return true
	})
}

func isDeleteOfRunning(n ast.Node) bool {
	call, ok := n.(*ast.CallExpr)
	if !ok {
		return false
	}
	sel, ok := call.Fun.(*ast.SelectorExpr)
	return ok && sel.Sel.Name == "Delete" && mentions(sel.X, "runningPipelines")
}

// an enclosing `if ... current == rp ...` (an identity test against the run of this cleanup)
func guardedByIdentityTest(stack []ast.Node) bool {
	for _, a := range stack {
		ifs, ok := a.(*ast.IfStmt)
		if !ok {
			continue
		}
		found := false
		ast.Inspect(ifs.Cond, func(x ast.Node) bool {
			if b, ok := x.(*ast.BinaryExpr); ok && b.Op == token.EQL && (mentions(b.X, "rp") || mentions(b.Y, "rp")) {
				found = true
			}
			return !found
		})
		if found {
			return true
		}
	}
	return false
}

func storesIntentional(b ast.Node) bool {
	found := false
	ast.Inspect(b, func(x ast.Node) bool {
		call, ok := x.(*ast.CallExpr)
		if !ok {
			return true
		}
		sel, ok := call.Fun.(*ast.SelectorExpr)
		if ok && sel.Sel.Name == "Store" && mentions(sel.X, "intentionalStop") && len(call.Args) == 1 {
			if id, ok := call.Args[0].(*ast.Ident); ok && id.Name == "true" {
				found = true
			}
		}
		return !found
	})
	return found
}

// repairsOfRunPipeline: (a) does a goroutine that defers a WaitGroup.Done() Kill the tomb itself (before the
// deferred Done fires)? (b) is every runningPipelines.Delete a compare-and-delete?
func repairsOfRunPipeline(g *genEngine, fn *ast.FuncDecl) {
	g.GuardedDelete = true
	inspectWithStack(fn.Body, func(n ast.Node, stack []ast.Node) {
		if lit, ok := n.(*ast.FuncLit); ok {
			defersDone, kills := false, false
			for _, st := range lit.Body.List {
				if d, ok := st.(*ast.DeferStmt); ok {
					if sel, ok := d.Call.Fun.(*ast.SelectorExpr); ok && sel.Sel.Name == "Done" {
						defersDone = true
					}
				}
			}
			ast.Inspect(lit.Body, func(x ast.Node) bool {
				if c, ok := x.(*ast.CallExpr); ok {
					if sel, ok := c.Fun.(*ast.SelectorExpr); ok && sel.Sel.Name == "Kill" && len(c.Args) == 1 {
						kills = true
					}
				}
				return true
			})
			if defersDone && kills {
				g.SyncKill = true
			}
		}
		if isDeleteOfRunning(n) {
			g.DeleteFound = true
			if !guardedByIdentityTest(stack) {
				g.GuardedDelete = false
			}
		}
		if c, ok := n.(*ast.CallExpr); ok {
			if sel, ok := c.Fun.(*ast.SelectorExpr); ok && sel.Sel.Name == "deleteRunningPipelineIfCurrent" {
				g.deleteViaHelper = true
			}
			// the closing write of a failed recovery (the one that reports recoveryErr)
			if sel, ok := c.Fun.(*ast.SelectorExpr); ok && sel.Sel.Name == "degradeIfCurrent" && mentions(c, "recoveryErr") {
				g.ownCloseCall = true
			}
			if sel, ok := c.Fun.(*ast.SelectorExpr); ok && sel.Sel.Name == "UpdateStatus" && mentions(c, "StatusDegraded") &&
				mentions(c, "recoveryErr") && !guardedByIdentityTest(stack) {
				g.ownCloseBare = true
			}
		}
	})
}

// degradeHelperOK: degradeIfCurrent locks publishMu, and its UpdateStatus(StatusDegraded) is reached only when the
// published run is rp: inside an `if current == rp`, or after a top-level `if ... current != rp { return ... }`.
func degradeHelperOK(fn *ast.FuncDecl) bool {
	locks, writes, guarded := false, false, true
	earlyReturn := false
	for _, st := range fn.Body.List {
		if ifs, ok := st.(*ast.IfStmt); ok && !writes {
			neq := false
			ast.Inspect(ifs.Cond, func(x ast.Node) bool {
				if b, ok := x.(*ast.BinaryExpr); ok && b.Op == token.NEQ && (mentions(b.X, "rp") || mentions(b.Y, "rp")) {
					neq = true
				}
				return !neq
			})
			if neq && len(ifs.Body.List) > 0 {
				if _, ok := ifs.Body.List[len(ifs.Body.List)-1].(*ast.ReturnStmt); ok && !mentions(ifs.Body, "UpdateStatus") {
					earlyReturn = true
				}
			}
		}
		if mentions(st, "UpdateStatus") {
			writes = true
		}
	}
	writes = false
	inspectWithStack(fn.Body, func(n ast.Node, stack []ast.Node) {
		c, ok := n.(*ast.CallExpr)
		if !ok {
			return
		}
		sel, ok := c.Fun.(*ast.SelectorExpr)
		if !ok {
			return
		}
		if sel.Sel.Name == "Lock" && mentions(sel.X, "publishMu") {
			locks = true
		}
		if sel.Sel.Name == "UpdateStatus" && mentions(c, "StatusDegraded") {
			writes = true
			if !earlyReturn && !guardedByIdentityTest(stack) {
				guarded = false
			}
		}
	})
	return locks && writes && guarded
}

func coqList(xs []string) string { return "[" + strings.Join(xs, "; ") + "]" }

func coqBool(b bool) string {
	if b {
		return "true"
	}
	return "false"
}

// GenLifecycle writes GenLifecycle.v into dir. It returns the problems the translator ran into
// (constructs it expected and did not find).
func GenLifecycle(repo, dir string) ([]string, error) {
	v1, err := analyse(filepath.Join(repo, "pkg/lifecycle/service.go"))
	if err != nil {
		return nil, err
	}
	v2, err := analyse(filepath.Join(repo, "pkg/lifecycle-poc/service.go"))
	if err != nil {
		return nil, err
	}
	var b strings.Builder
	b.WriteString("(* GENERATED on every run by harness/lib/lifex/translate.go from the source tree. Do not edit. *)\n")
	b.WriteString("From Verif Require Import Life.Classify.\n")
	fmt.Fprintf(&b, "Definition gen_v1_arms : list guard := %s.\n", coqList(filterKnown(v1.Arms)))
	fmt.Fprintf(&b, "Definition gen_v2_arms : list guard := %s.\n", coqList(filterKnown(v2.Arms)))
	fmt.Fprintf(&b, "Definition gen_v1_shape_ok : bool := %s.\n", coqBool(v1.BodiesOK && len(v1.Problems) == 0 && !hasOther(v1.Arms)))
	fmt.Fprintf(&b, "Definition gen_v2_shape_ok : bool := %s.\n", coqBool(v2.BodiesOK && len(v2.Problems) == 0 && !hasOther(v2.Arms)))
	fmt.Fprintf(&b, "Definition gen_v1_force_wraps : bool := %s.\n", coqBool(v1.ForceWraps))
	fmt.Fprintf(&b, "Definition gen_v2_force_wraps : bool := %s.\n", coqBool(v2.ForceWraps))
	fmt.Fprintf(&b, "Definition gen_v2_escalation_wraps : bool := %s.\n", coqBool(v2.EscalationWrap))
	fmt.Fprintf(&b, "Definition gen_v1_sync_kill : bool := %s.\n", coqBool(v1.SyncKill))
	fmt.Fprintf(&b, "Definition gen_v2_sync_kill : bool := %s.\n", coqBool(v2.SyncKill))
	fmt.Fprintf(&b, "Definition gen_v2_force_intent : bool := %s.\n", coqBool(v2.ForceIntent))
	fmt.Fprintf(&b, "Definition gen_v1_compare_and_delete : bool := %s.\n", coqBool(v1.GuardedDelete))
	fmt.Fprintf(&b, "Definition gen_v2_compare_and_delete : bool := %s.\n", coqBool(v2.GuardedDelete))
	fmt.Fprintf(&b, "Definition gen_v1_own_close : bool := %s.\n", coqBool(v1.OwnClose))
	fmt.Fprintf(&b, "Definition gen_v2_own_close : bool := %s.\n", coqBool(v2.OwnClose))
	if err := os.MkdirAll(dir, 0o755); err != nil {
		return nil, err
	}
	if err := os.WriteFile(filepath.Join(dir, "GenLifecycle.v"), []byte(b.String()), 0o644); err != nil {
		return nil, err
	}
	var probs []string
	for _, p := range v1.Problems {
		probs = append(probs, "v1: "+p)
	}
	for _, p := range v2.Problems {
		probs = append(probs, "v2: "+p)
	}
	if hasOther(v1.Arms) {
		probs = append(probs, "v1: an arm of the classification has a guard the model does not know: "+coqList(v1.Arms))
	}
	if hasOther(v2.Arms) {
		probs = append(probs, "v2: an arm of the classification has a guard the model does not know: "+coqList(v2.Arms))
	}
	return probs, nil
}

func hasOther(xs []string) bool {
	for _, x := range xs {
		if x == "GOther" {
			return true
		}
	}
	return false
}

func filterKnown(xs []string) []string {
	var out []string
	for _, x := range xs {
		if x != "GOther" {
			out = append(out, x)
		}
	}
	return out
}
