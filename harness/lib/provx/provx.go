// Package provx is shared by the C15 and C16 harnesses: it assembles the REAL
// provisioning.Service on the real pipeline/connector/processor services over
// an in-memory database wrapped by a recording, fault-injecting DB, and renders
// the token configs of the Coq model (coq/Prov/Import.v) to config.Pipeline and
// back.
package provx

import (
	"context"
	"fmt"
	"sort"
	"strconv"
	"strings"
	"sync"
	"time"

	"github.com/conduitio/conduit-commons/database"
	"github.com/conduitio/conduit-commons/database/inmemory"
	"github.com/conduitio/conduit-commons/opencdc"
	sdk "github.com/conduitio/conduit-processor-sdk"
	"github.com/conduitio/conduit/pkg/connector"
	"github.com/conduitio/conduit/pkg/foundation/cerrors"
	"github.com/conduitio/conduit/pkg/foundation/log"
	"github.com/conduitio/conduit/pkg/pipeline"
	connectorPlugin "github.com/conduitio/conduit/pkg/plugin/connector"
	"github.com/conduitio/conduit/pkg/plugin/processor/egress"
	"github.com/conduitio/conduit/pkg/processor"
	"github.com/conduitio/conduit/pkg/provisioning"
	"github.com/conduitio/conduit/pkg/provisioning/config"

	"verifharness/lib/hx"
)

// PipelineID is the id of the one pipeline a service instance holds.
const PipelineID = "pl"

// ---------------------------------------------------------------- DB wrapper

// Op is one store write the services made.
type Op struct {
	Key    string
	Del    bool
	Failed bool
}

// FaultDB records every Set and fails the FailAt-th one (counted from the
// last Arm), once.
type FaultDB struct {
	database.DB
	mu        sync.Mutex
	recording bool
	n         int
	failAt    int
	ops       []Op
	// OnTxn is called for transaction events ("begin", "commit", "discard").
	OnTxn func(ctx context.Context, ev string)
	// per-pipeline mode (ArmPer): writes are counted, failed and recorded per
	// pipeline id (the first segment of the entity id in the store key).
	per     bool
	perN    map[string]int
	perFail map[string]int
	perOps  map[string][]Op
}

var ErrInjected = cerrors.New("injected store failure")

func NewFaultDB() *FaultDB { return &FaultDB{DB: &inmemory.DB{}, failAt: -1} }

// Arm starts recording; failAt < 0 injects nothing.
func (d *FaultDB) Arm(failAt int) {
	d.mu.Lock()
	defer d.mu.Unlock()
	d.recording, d.n, d.failAt, d.ops = true, 0, failAt, nil
}

// Disarm stops recording and returns what was recorded.
func (d *FaultDB) Disarm() []Op {
	d.mu.Lock()
	defer d.mu.Unlock()
	d.recording = false
	d.failAt = -1
	out := d.ops
	d.ops = nil
	return out
}

// PipelineOfKey returns the pipeline id a store key belongs to ("" if none).
func PipelineOfKey(key string) string {
	for _, p := range []string{"pipeline:instance:", "connector:instance:", "processor:instance:"} {
		if r, ok := strings.CutPrefix(key, p); ok {
			if i := strings.Index(r, ":"); i >= 0 {
				return r[:i]
			}
			return r
		}
	}
	return ""
}

// ArmPer starts recording per pipeline; failAt[pl] = n makes the n-th write
// under pipeline pl (counted from now) fail, once.
func (d *FaultDB) ArmPer(failAt map[string]int) {
	d.mu.Lock()
	defer d.mu.Unlock()
	d.per, d.perN, d.perFail, d.perOps = true, map[string]int{}, map[string]int{}, map[string][]Op{}
	for k, v := range failAt {
		d.perFail[k] = v
	}
}

// DisarmPer stops per-pipeline recording and returns the writes per pipeline.
func (d *FaultDB) DisarmPer() map[string][]Op {
	d.mu.Lock()
	defer d.mu.Unlock()
	out := d.perOps
	d.per, d.perN, d.perFail, d.perOps = false, nil, nil, nil
	if out == nil {
		out = map[string][]Op{}
	}
	return out
}

func (d *FaultDB) Set(ctx context.Context, key string, value []byte) error {
	d.mu.Lock()
	fail := false
	if d.per {
		if pl := PipelineOfKey(key); pl != "" {
			at, armed := d.perFail[pl]
			fail = armed && at == d.perN[pl]
			d.perN[pl]++
			d.perOps[pl] = append(d.perOps[pl], Op{Key: key, Del: value == nil, Failed: fail})
		}
	} else if d.recording {
		fail = d.n == d.failAt
		d.n++
		d.ops = append(d.ops, Op{Key: key, Del: value == nil, Failed: fail})
	}
	d.mu.Unlock()
	if fail {
		return ErrInjected
	}
	return d.DB.Set(ctx, key, value)
}

type txnWrap struct {
	database.Transaction
	d    *FaultDB
	ctx  context.Context
	done bool
}

func (t *txnWrap) Commit() error {
	t.done = true
	if t.d.OnTxn != nil {
		t.d.OnTxn(t.ctx, "commit")
	}
	return t.Transaction.Commit()
}

func (t *txnWrap) Discard() {
	if !t.done && t.d.OnTxn != nil {
		t.d.OnTxn(t.ctx, "discard")
	}
	t.done = true
	t.Transaction.Discard()
}

func (d *FaultDB) NewTransaction(ctx context.Context, update bool) (database.Transaction, context.Context, error) {
	txn, tctx, err := d.DB.NewTransaction(ctx, update)
	if err != nil {
		return nil, nil, err
	}
	if d.OnTxn != nil {
		d.OnTxn(ctx, "begin")
	}
	return &txnWrap{Transaction: txn, d: d, ctx: ctx}, tctx, nil
}

// ---------------------------------------------------------------- fake plugin services

type nopProcessor struct{ sdk.UnimplementedProcessor }

func (nopProcessor) Specification() (sdk.Specification, error) {
	return sdk.Specification{Name: "verif-nop", Version: "v0"}, nil
}

// ProcRegistry is the processor plugin service: it knows "proc-1" .. "proc-99".
// Open of a processor whose plugin is listed in FailOpen fails (C16).
type ProcRegistry struct{}

func (ProcRegistry) NewProcessor(_ context.Context, pluginName string, _ string, _ egress.Policy) (sdk.Processor, error) {
	if k, ok := strings.CutPrefix(pluginName, "proc-"); ok {
		if n, err := strconv.Atoi(k); err == nil && n >= 1 && n <= 99 {
			return nopProcessor{}, nil
		}
	}
	return nil, cerrors.Errorf("plugin %q not found", pluginName)
}

// ConnPlugins never dispenses anything (connector.Service.Delete only logs that).
type ConnPlugins struct{}

func (ConnPlugins) NewDispenser(log.CtxLogger, string, string) (connectorPlugin.Dispenser, error) {
	return nil, cerrors.New("no connector plugins in the harness")
}

// ---------------------------------------------------------------- assembly

// Env is one set of real services on one database.
type Env struct {
	DB    *FaultDB
	Pl    *pipeline.Service
	Conn  *connector.Service
	Proc  *processor.Service
	Prov  *provisioning.Service
	Life  provisioning.LifecycleService
	PlSvc provisioning.PipelineService
}

type noLifecycle struct{}

func (noLifecycle) Start(context.Context, string) error                 { return cerrors.New("no lifecycle") }
func (noLifecycle) Stop(context.Context, string, bool) error            { return cerrors.New("no lifecycle") }
func (noLifecycle) StopAndWait(context.Context, string) error           { return cerrors.New("no lifecycle") }
func (noLifecycle) ReconfigureProcessor(context.Context, string, string) error {
	return cerrors.New("no lifecycle")
}

// NewEnv builds the services. life may be nil (imports never touch the
// lifecycle service); wrapPl, if not nil, wraps the pipeline service handed to
// the provisioning service.
func NewEnv(life provisioning.LifecycleService, wrapPl func(*pipeline.Service) provisioning.PipelineService) *Env {
	db := NewFaultDB()
	e := NewEnvOn(db, life, wrapPl)
	e.DB = db
	return e
}

// NewEnvOn is NewEnv on a database of the caller's choice (Env.DB stays nil).
func NewEnvOn(db database.DB, life provisioning.LifecycleService, wrapPl func(*pipeline.Service) provisioning.PipelineService) *Env {
	return newEnvOn(db, life, wrapPl, "")
}

// NewEnvDir is NewEnv with a pipelines directory for provisioning.Service.Init.
func NewEnvDir(pipelinesDir string) *Env {
	db := NewFaultDB()
	e := newEnvOn(db, nil, nil, pipelinesDir)
	e.DB = db
	return e
}

func newEnvOn(db database.DB, life provisioning.LifecycleService, wrapPl func(*pipeline.Service) provisioning.PipelineService, pipelinesDir string) *Env {
	logger := log.Nop()
	e := &Env{}
	e.Pl = pipeline.NewService(logger, db)
	e.Conn = connector.NewService(logger, db, connector.NewPersister(logger, db, time.Second, 3))
	e.Proc = processor.NewService(logger, db, ProcRegistry{})
	if life == nil {
		life = noLifecycle{}
	}
	e.Life = life
	e.PlSvc = e.Pl
	if wrapPl != nil {
		e.PlSvc = wrapPl(e.Pl)
	}
	e.Prov = provisioning.NewService(db, logger, e.PlSvc, e.Conn, e.Proc, ConnPlugins{}, life, pipelinesDir)
	return e
}

// ---------------------------------------------------------------- token configs

type Proc struct {
	ID       int `json:"id"`
	Plugin   int `json:"plugin"`
	Settings int `json:"settings"`
	Workers  int `json:"workers"`
	Cond     int `json:"cond"`
}

type Conn struct {
	ID       int    `json:"id"`
	Src      bool   `json:"src"`
	Plugin   int    `json:"plugin"`
	Name     int    `json:"name"`
	Settings int    `json:"settings"`
	Procs    []Proc `json:"procs"`
}

type DLQ struct {
	Plugin   int `json:"plugin"`
	Settings int `json:"settings"`
	Size     int `json:"size"`
	Thr      int `json:"thr"`
}

type Pipe struct {
	Name  int    `json:"name"`
	Desc  int    `json:"desc"`
	DLQ   DLQ    `json:"dlq"`
	Conns []Conn `json:"conns"`
	Procs []Proc `json:"procs"`
}

func settingsOf(tok int) map[string]string {
	if tok == 0 {
		return nil
	}
	return map[string]string{"k" + strconv.Itoa(tok): "v"}
}

func settingsTok(m map[string]string) int {
	if len(m) == 0 {
		return 0
	}
	if len(m) == 1 {
		for k := range m {
			if n, err := strconv.Atoi(strings.TrimPrefix(k, "k")); err == nil && strings.HasPrefix(k, "k") {
				return n
			}
		}
	}
	return 9999
}

func dlqSettingsOf(tok int) map[string]string {
	if tok == 1 {
		out := map[string]string{}
		for k, v := range pipeline.DefaultDLQ.Settings {
			out[k] = v
		}
		return out
	}
	return settingsOf(tok)
}

func dlqSettingsTok(m map[string]string) int {
	if len(m) == len(pipeline.DefaultDLQ.Settings) && len(m) > 0 {
		same := true
		for k, v := range pipeline.DefaultDLQ.Settings {
			if m[k] != v {
				same = false
			}
		}
		if same {
			return 1
		}
	}
	return settingsTok(m)
}

func strOf(prefix string, tok int) string {
	if tok == 0 {
		return ""
	}
	return prefix + strconv.Itoa(tok)
}

func strTok(prefix, s string) int {
	if s == "" {
		return 0
	}
	if r, ok := strings.CutPrefix(s, prefix); ok {
		if n, err := strconv.Atoi(r); err == nil {
			return n
		}
	}
	return 9999
}

func dlqPluginOf(tok int) string {
	if tok == 1 {
		return pipeline.DefaultDLQ.Plugin
	}
	return strOf("builtin:dlq-", tok)
}

func dlqPluginTok(s string) int {
	if s == pipeline.DefaultDLQ.Plugin {
		return 1
	}
	return strTok("builtin:dlq-", s)
}

func procPluginOf(tok int) string {
	if tok >= 100 {
		return "missing-" + strconv.Itoa(tok)
	}
	return strOf("proc-", tok)
}

func procPluginTok(s string) int {
	if strings.HasPrefix(s, "missing-") {
		return strTok("missing-", s)
	}
	return strTok("proc-", s)
}

func rawProcs(ps []Proc) []config.Processor {
	if len(ps) == 0 {
		return nil
	}
	out := make([]config.Processor, len(ps))
	for i, p := range ps {
		out[i] = config.Processor{
			ID:        "p" + strconv.Itoa(p.ID),
			Plugin:    procPluginOf(p.Plugin),
			Settings:  settingsOf(p.Settings),
			Workers:   p.Workers,
			Condition: strOf("cond-", p.Cond),
		}
	}
	return out
}

// Render builds the raw config of the token config and passes it through the
// real config.Enrich, as every caller of the import path does.
func Render(p Pipe) config.Pipeline { return RenderID(PipelineID, p) }

// RenderID is Render for a pipeline id of the caller's choice.
func RenderID(id string, p Pipe) config.Pipeline { return config.Enrich(RawID(id, p)) }

// RawID is the config as a config file states it (not yet enriched).
func RawID(id string, p Pipe) config.Pipeline {
	size, thr := p.DLQ.Size, p.DLQ.Thr
	raw := config.Pipeline{
		ID:          id,
		Status:      config.StatusStopped,
		Name:        strOf("name-", p.Name),
		Description: strOf("desc-", p.Desc),
		DLQ: config.DLQ{
			Plugin:              dlqPluginOf(p.DLQ.Plugin),
			Settings:            dlqSettingsOf(p.DLQ.Settings),
			WindowSize:          &size,
			WindowNackThreshold: &thr,
		},
		Processors: rawProcs(p.Procs),
	}
	if len(p.Conns) > 0 {
		raw.Connectors = make([]config.Connector, len(p.Conns))
		for i, c := range p.Conns {
			t := config.TypeDestination
			if c.Src {
				t = config.TypeSource
			}
			raw.Connectors[i] = config.Connector{
				ID:         "c" + strconv.Itoa(c.ID),
				Type:       t,
				Plugin:     strOf("builtin:conn-", c.Plugin),
				Name:       strOf("cname-", c.Name),
				Settings:   settingsOf(c.Settings),
				Processors: rawProcs(c.Procs),
			}
		}
	}
	return raw
}

func yq(s string) string { return strconv.Quote(s) }

func yamlMap(b *strings.Builder, ind, key string, m map[string]string) {
	if len(m) == 0 {
		return
	}
	keys := make([]string, 0, len(m))
	for k := range m {
		keys = append(keys, k)
	}
	sort.Strings(keys)
	fmt.Fprintf(b, "%s%s:\n", ind, key)
	for _, k := range keys {
		fmt.Fprintf(b, "%s  %s: %s\n", ind, yq(k), yq(m[k]))
	}
}

func yamlStr(b *strings.Builder, ind, key, v string) {
	if v != "" {
		fmt.Fprintf(b, "%s%s: %s\n", ind, key, yq(v))
	}
}

func yamlProcs(b *strings.Builder, ind string, ps []config.Processor) {
	if len(ps) == 0 {
		return
	}
	fmt.Fprintf(b, "%sprocessors:\n", ind)
	for _, p := range ps {
		fmt.Fprintf(b, "%s  - id: %s\n", ind, yq(p.ID))
		in := ind + "    "
		yamlStr(b, in, "plugin", p.Plugin)
		yamlStr(b, in, "condition", p.Condition)
		if p.Workers != 0 {
			fmt.Fprintf(b, "%sworkers: %d\n", in, p.Workers)
		}
		yamlMap(b, in, "settings", p.Settings)
	}
}

// YAML writes a (raw) pipeline config as a version 2.2 pipeline config file;
// empty fields are left out, as a person writing the file would.
func YAML(c config.Pipeline) string {
	var b strings.Builder
	b.WriteString("version: \"2.2\"\npipelines:\n")
	fmt.Fprintf(&b, "  - id: %s\n", yq(c.ID))
	in := "    "
	yamlStr(&b, in, "status", c.Status)
	yamlStr(&b, in, "name", c.Name)
	yamlStr(&b, in, "description", c.Description)
	if len(c.Connectors) > 0 {
		fmt.Fprintf(&b, "%sconnectors:\n", in)
		for _, k := range c.Connectors {
			fmt.Fprintf(&b, "%s  - id: %s\n", in, yq(k.ID))
			kin := in + "    "
			yamlStr(&b, kin, "type", k.Type)
			yamlStr(&b, kin, "plugin", k.Plugin)
			yamlStr(&b, kin, "name", k.Name)
			yamlMap(&b, kin, "settings", k.Settings)
			yamlProcs(&b, kin, k.Processors)
		}
	}
	yamlProcs(&b, in, c.Processors)
	fmt.Fprintf(&b, "%sdead-letter-queue:\n", in)
	yamlStr(&b, in+"  ", "plugin", c.DLQ.Plugin)
	yamlMap(&b, in+"  ", "settings", c.DLQ.Settings)
	if c.DLQ.WindowSize != nil {
		fmt.Fprintf(&b, "%s  window-size: %d\n", in, *c.DLQ.WindowSize)
	}
	if c.DLQ.WindowNackThreshold != nil {
		fmt.Fprintf(&b, "%s  window-nack-threshold: %d\n", in, *c.DLQ.WindowNackThreshold)
	}
	return b.String()
}

// SplitID splits an enriched entity id ("pl2:c1:p3") into the pipeline id and
// the model key: connector token (-1 for a pipeline-level processor or the
// pipeline itself) and local processor token (-1 for a connector).
func SplitID(id string) (pl string, conn int, proc int) {
	segs := strings.Split(id, ":")
	pl, conn, proc = segs[0], -1, -1
	switch len(segs) {
	case 2:
		if strings.HasPrefix(segs[1], "c") {
			conn = idTok("c", segs[1])
		} else {
			proc = idTok("p", segs[1])
		}
	case 3:
		conn, proc = idTok("c", segs[1]), idTok("p", segs[2])
	default:
		if len(segs) > 3 {
			conn, proc = 9999, 9999
		}
	}
	return pl, conn, proc
}

// CoqKeyAny renders a store key of any pipeline as an ekey.
func CoqKeyAny(key string) string {
	switch {
	case strings.HasPrefix(key, "pipeline:instance:"):
		return "KP"
	case strings.HasPrefix(key, "connector:instance:"):
		_, c, _ := SplitID(strings.TrimPrefix(key, "connector:instance:"))
		return fmt.Sprintf("(KC %d)", c)
	case strings.HasPrefix(key, "processor:instance:"):
		_, c, p := SplitID(strings.TrimPrefix(key, "processor:instance:"))
		if c < 0 {
			return fmt.Sprintf("(KR None %d)", p)
		}
		return fmt.Sprintf("(KR (Some %d) %d)", c, p)
	}
	return "(KC 9999)"
}

func lastSeg(id string) (string, string) {
	i := strings.LastIndex(id, ":")
	if i < 0 {
		return "", id
	}
	return id[:i], id[i+1:]
}

func idTok(prefix, seg string) int {
	if r, ok := strings.CutPrefix(seg, prefix); ok {
		if n, err := strconv.Atoi(r); err == nil {
			return n
		}
	}
	return 9999
}

// ConnTok maps an enriched connector id ("pl:c3") to its token.
func ConnTok(id string) int {
	_, seg := lastSeg(id)
	return idTok("c", seg)
}

// ProcKey maps an enriched processor id to (parent connector token or -1, local token).
func ProcKey(id string) (int, int) {
	parent, seg := lastSeg(id)
	if parent == PipelineID {
		return -1, idTok("p", seg)
	}
	return ConnTok(parent), idTok("p", seg)
}

func canonProcs(ps []config.Processor) []Proc {
	out := make([]Proc, len(ps))
	for i, p := range ps {
		_, local := ProcKey(p.ID)
		out[i] = Proc{ID: local, Plugin: procPluginTok(p.Plugin), Settings: settingsTok(p.Settings),
			Workers: p.Workers, Cond: strTok("cond-", p.Condition)}
	}
	return out
}

// Canon maps an exported config back to tokens.
func Canon(c config.Pipeline) Pipe {
	out := Pipe{Name: strTok("name-", c.Name), Desc: strTok("desc-", c.Description)}
	out.DLQ = DLQ{Plugin: dlqPluginTok(c.DLQ.Plugin), Settings: dlqSettingsTok(c.DLQ.Settings)}
	if c.DLQ.WindowSize != nil {
		out.DLQ.Size = *c.DLQ.WindowSize
	}
	if c.DLQ.WindowNackThreshold != nil {
		out.DLQ.Thr = *c.DLQ.WindowNackThreshold
	}
	out.Conns = make([]Conn, len(c.Connectors))
	for i, k := range c.Connectors {
		out.Conns[i] = Conn{ID: ConnTok(k.ID), Src: k.Type == config.TypeSource, Plugin: strTok("builtin:conn-", k.Plugin),
			Name: strTok("cname-", k.Name), Settings: settingsTok(k.Settings), Procs: canonProcs(k.Processors)}
	}
	out.Procs = canonProcs(c.Processors)
	return out
}

// ---------------------------------------------------------------- Coq rendering

func CoqProc(p Proc) string {
	return fmt.Sprintf("(mkProc %d %d %d %d %d)", p.ID, p.Plugin, p.Settings, p.Workers, p.Cond)
}

func CoqProcs(ps []Proc) string {
	s := make([]string, len(ps))
	for i, p := range ps {
		s[i] = CoqProc(p)
	}
	return hx.List(s)
}

func CoqPipe(p Pipe) string {
	cs := make([]string, len(p.Conns))
	for i, c := range p.Conns {
		cs[i] = fmt.Sprintf("(mkConn %d %s %d %d %d %s)", c.ID, hx.Bool(c.Src), c.Plugin, c.Name, c.Settings, CoqProcs(c.Procs))
	}
	return fmt.Sprintf("(mkPipe %d %d (mkDlq %d %d %d %d) %s %s)", p.Name, p.Desc,
		p.DLQ.Plugin, p.DLQ.Settings, p.DLQ.Size, p.DLQ.Thr, hx.List(cs), CoqProcs(p.Procs))
}

// CoqKey renders a store key ("connector:instance:pl:c1") as an ekey.
func CoqKey(key string) string {
	switch {
	case strings.HasPrefix(key, "pipeline:instance:"):
		return "KP"
	case strings.HasPrefix(key, "connector:instance:"):
		return fmt.Sprintf("(KC %d)", ConnTok(strings.TrimPrefix(key, "connector:instance:")))
	case strings.HasPrefix(key, "processor:instance:"):
		return CoqProcKey(strings.TrimPrefix(key, "processor:instance:"))
	}
	return "(KC 9999)"
}

func CoqProcKey(id string) string {
	par, local := ProcKey(id)
	if par < 0 {
		return fmt.Sprintf("(KR None %d)", local)
	}
	return fmt.Sprintf("(KR (Some %d) %d)", par, local)
}

// ---------------------------------------------------------------- connector state

// StateOf builds the State value for a connector of the given type.
func StateOf(t connector.Type, tok int) any {
	pos := opencdc.Position("pos-" + strconv.Itoa(tok))
	if t == connector.TypeSource {
		return connector.SourceState{Position: pos}
	}
	return connector.DestinationState{Positions: map[string]opencdc.Position{"x": pos}}
}

// StateTok maps a stored State back: -1 = nil.
func StateTok(s any) int {
	switch v := s.(type) {
	case nil:
		return -1
	case connector.SourceState:
		return strTok("pos-", string(v.Position))
	case connector.DestinationState:
		return strTok("pos-", string(v.Positions["x"]))
	}
	return 9999
}
