package enginex

import (
	"context"
	"fmt"
	"io"
	"runtime"
	"sync"
	"time"

	"github.com/conduitio/conduit-commons/opencdc"
	sdk "github.com/conduitio/conduit-processor-sdk"
	"github.com/conduitio/conduit/pkg/connector"
	"github.com/conduitio/conduit/pkg/foundation/cerrors"
	"github.com/conduitio/conduit/pkg/foundation/log"
	"github.com/conduitio/conduit/pkg/foundation/metrics/noop"
	"github.com/conduitio/conduit/pkg/lifecycle-poc/funnel"
)

// ---------------------------------------------------------------------------
// fakes shared by both engines (the method sets of funnel.* and stream.* agree
// except for Stop, which the v1 wrappers add)
// ---------------------------------------------------------------------------

type pend struct {
	s, k int
	pos  opencdc.Position
}

// fakeDest implements funnel.Destination (and, with Stop, stream.Destination).
type fakeDest struct {
	x    *run
	d    int
	spec DstSpec

	mu         sync.Mutex
	pending    []pend
	writeCalls int
	ackCalls   int
	chunkIdx   int
	emptyLeft  int
	closed     chan struct{}
	closeOnce  sync.Once
}

func newFakeDest(x *run, d int, spec DstSpec) *fakeDest {
	return &fakeDest{x: x, d: d, spec: spec, emptyLeft: spec.EmptyAcks, closed: make(chan struct{})}
}

func (f *fakeDest) ID() string                 { return fmt.Sprintf("dest-%d", f.d) }
func (f *fakeDest) Open(context.Context) error { return nil }
func (f *fakeDest) Errors() <-chan error       { return nil }
func (f *fakeDest) Teardown(context.Context) error {
	f.closeOnce.Do(func() { close(f.closed) })
	return nil
}
func (f *fakeDest) Stop(context.Context, opencdc.Position) error { return nil }

func (f *fakeDest) Write(ctx context.Context, recs []opencdc.Record) error {
	ps := make([]pend, len(recs))
	evs := make([]Ev, len(recs))
	fail := false
	for i, r := range recs {
		s, k := idOf(r)
		ps[i] = pend{s, k, r.Position}
		evs[i] = Ev{T: "W", D: f.d, S: s, K: k}
		if inSet(f.spec.WriteErr, s, k) {
			fail = true
		}
	}
	f.x.log.Add(evs...)
	f.mu.Lock()
	f.writeCalls++
	hold := f.spec.Hold && f.x.c.Ctl != nil && f.writeCalls > f.spec.HoldFrom
	f.mu.Unlock()
	var perr error
	if hold {
		perr = f.x.sched.ParkHeld(ctx, fmt.Sprintf("W%d", f.d), f.closed)
	} else {
		perr = f.x.sched.Park(ctx, fmt.Sprintf("W%d", f.d), f.spec.Slow, f.closed)
	}
	if perr != nil {
		return perr
	}
	if fail {
		for i := range evs {
			evs[i].T, evs[i].Ok = "C", false
		}
		f.x.log.Add(evs...)
		return cerrors.New("scripted write error")
	}
	f.mu.Lock()
	f.pending = append(f.pending, ps...)
	f.mu.Unlock()
	return nil
}

func (f *fakeDest) Ack(ctx context.Context) ([]connector.DestinationAck, error) {
	if err := f.x.sched.Park(ctx, fmt.Sprintf("A%d", f.d), f.spec.Slow, f.closed); err != nil {
		return nil, err
	}
	f.mu.Lock()
	f.ackCalls++
	if f.spec.AckErrAt > 0 && f.ackCalls == f.spec.AckErrAt {
		f.mu.Unlock()
		return nil, cerrors.New("scripted ack error")
	}
	if f.emptyLeft > 0 {
		f.emptyLeft--
		f.mu.Unlock()
		return []connector.DestinationAck{}, nil
	}
	if len(f.pending) == 0 {
		// nothing to confirm (only the v1 teardown drain asks in this state)
		f.mu.Unlock()
		select {
		case <-ctx.Done():
			return nil, ctx.Err()
		case <-f.closed:
			return nil, io.EOF
		}
	}
	n := len(f.pending)
	if f.spec.ChunkLess > 0 && n > f.spec.ChunkLess {
		n -= f.spec.ChunkLess
	}
	if len(f.spec.Chunks) > 0 {
		c := f.spec.Chunks[f.chunkIdx%len(f.spec.Chunks)]
		f.chunkIdx++
		if c >= 1 && c < n {
			n = c
		}
	}
	out := make([]connector.DestinationAck, n)
	evs := make([]Ev, n)
	for i, p := range f.pending[:n] {
		out[i] = connector.DestinationAck{Position: p.pos}
		ok := !inSet(f.spec.Nack, p.s, p.k)
		if !ok {
			out[i].Error = cerrors.New("scripted nack")
		}
		evs[i] = Ev{T: "C", D: f.d, S: p.s, K: p.k, Ok: ok}
	}
	f.pending = f.pending[n:]
	f.mu.Unlock()
	f.x.log.Add(evs...)
	return out, nil
}

// fakeDlqDest is the DLQ destination of one v2 worker (funnel.Destination).
type fakeDlqDest struct {
	x *run
	s int

	mu      sync.Mutex
	pending []pend
	failed  map[int]bool
}

func (f *fakeDlqDest) ID() string                     { return fmt.Sprintf("dlq-%d", f.s) }
func (f *fakeDlqDest) Open(context.Context) error     { return nil }
func (f *fakeDlqDest) Errors() <-chan error           { return nil }
func (f *fakeDlqDest) Teardown(context.Context) error { return nil }

func (f *fakeDlqDest) Write(ctx context.Context, recs []opencdc.Record) error {
	ps := make([]pend, len(recs))
	evs := make([]Ev, len(recs))
	f.mu.Lock()
	for i, r := range recs {
		k := kOfPos(r.Position)
		ps[i] = pend{f.s, k, r.Position}
		evs[i] = Ev{T: "QW", S: f.s, K: k}
		if n := f.x.nextDlq(); (f.x.c.Dlq.ErrAt > 0 && n == f.x.c.Dlq.ErrAt) || inSet(f.x.c.Dlq.Fail, f.s, k) {
			if f.failed == nil {
				f.failed = map[int]bool{}
			}
			f.failed[k] = true
		}
	}
	f.mu.Unlock()
	f.x.log.Add(evs...)
	if err := f.x.sched.Park(ctx, fmt.Sprintf("QW%d", f.s), false, nil); err != nil {
		// the write did not happen: every record of it is reported as not confirmed
		for i := range evs {
			evs[i].T, evs[i].Ok = "QC", false
		}
		f.x.log.Add(evs...)
		return err
	}
	f.mu.Lock()
	f.pending = append(f.pending, ps...)
	f.mu.Unlock()
	return nil
}

func (f *fakeDlqDest) Ack(ctx context.Context) ([]connector.DestinationAck, error) {
	if err := f.x.sched.Park(ctx, fmt.Sprintf("QA%d", f.s), false, nil); err != nil {
		// no reply will come for what is outstanding
		f.mu.Lock()
		evs := make([]Ev, len(f.pending))
		for i, p := range f.pending {
			evs[i] = Ev{T: "QC", S: p.s, K: p.k, Ok: false}
		}
		f.pending = nil
		f.mu.Unlock()
		f.x.log.Add(evs...)
		return nil, err
	}
	f.mu.Lock()
	n := len(f.pending)
	out := make([]connector.DestinationAck, n)
	evs := make([]Ev, n)
	for i, p := range f.pending {
		out[i] = connector.DestinationAck{Position: p.pos}
		ok := !f.failed[p.k]
		if !ok {
			out[i].Error = cerrors.New("scripted dlq failure")
			delete(f.failed, p.k)
		}
		evs[i] = Ev{T: "QC", S: p.s, K: p.k, Ok: ok}
	}
	f.pending = nil
	f.mu.Unlock()
	f.x.log.Add(evs...)
	return out, nil
}

// fakeSource implements funnel.Source (and, with Stop, stream.Source).
type fakeSource struct {
	x    *run
	s    int
	spec SrcSpec

	mu       sync.Mutex
	batch    int
	next     int
	stopped  chan struct{}
	stopOnce sync.Once
	halted   bool // v1: Stop() was called, no further batches

	lastDelivered chan struct{} // deferred acks are delivered in call order
}

func newFakeSource(x *run, s int, spec SrcSpec) *fakeSource {
	return &fakeSource{x: x, s: s, spec: spec, stopped: make(chan struct{})}
}

func (f *fakeSource) ID() string                 { return fmt.Sprintf("src-%d", f.s) }
func (f *fakeSource) Open(context.Context) error { return nil }
func (f *fakeSource) Errors() <-chan error       { return nil }
func (f *fakeSource) Teardown(context.Context) error {
	f.stopOnce.Do(func() { close(f.stopped) })
	return nil
}

func (f *fakeSource) Read(ctx context.Context) ([]opencdc.Record, error) {
	f.mu.Lock()
	more := f.batch < len(f.spec.Batches) && !f.halted
	f.mu.Unlock()
	if more {
		f.mu.Lock()
		slow := f.spec.SlowRead && f.batch > 0
		f.mu.Unlock()
		if err := f.x.sched.Park(ctx, fmt.Sprintf("R%d", f.s), slow, f.stopped); err != nil {
			return nil, err
		}
	}
	f.mu.Lock()
	if f.batch < len(f.spec.Batches) && !f.halted {
		n := f.spec.Batches[f.batch]
		f.batch++
		recs := make([]opencdc.Record, n)
		evs := make([]Ev, n)
		for i := range recs {
			recs[i] = mkRecord(f.x.c.Collide, f.s, f.next)
			evs[i] = Ev{T: "R", S: f.s, K: f.next}
			f.next++
		}
		// logged while holding f.mu: Stop() reads f.next under the same lock
		f.x.log.Add(evs...)
		f.mu.Unlock()
		return recs, nil
	}
	f.mu.Unlock()
	f.x.setExhausted(f.s)
	if f.spec.EOF && f.x.c.Engine == "v2" {
		return nil, io.EOF
	}
	select {
	case <-f.stopped:
		return nil, context.Canceled
	case <-ctx.Done():
		return nil, ctx.Err()
	}
}

// Ack behaves like connector.Source.Ack in what it does with its argument: it KEEPS the
// slice it is given (no copy) and looks at the positions only when the ack is delivered.
//
// Synchronous mode: the call parks on a gate like every other connector call and the ack
// is logged when it is released, i.e. when it reaches the source - two acks of one source
// that are in flight at the same time arrive in the order the schedule says. An engine
// that calls Source.Ack after its context ended has still acked: the call is the
// observation, so it is logged whether or not the gate was released by the schedule.
//
// Deferred mode (SrcSpec.DeferAck): like the real connector, Ack returns at once (the
// engine goes on) and the ack is handed to the plugin later, in call order, when its gate
// is released. The log records the ack at call time; if at delivery the retained slice no
// longer holds the same positions (the caller reused the backing array), the positions it
// holds THEN are what the plugin receives, and they are logged as a further ack.
func (f *fakeSource) Ack(ctx context.Context, positions []opencdc.Position) error {
	if !f.spec.DeferAck {
		_ = f.x.sched.Park(ctx, fmt.Sprintf("K%d", f.s), f.spec.SlowAck, nil)
		f.x.log.Add(Ev{T: "A", S: f.s, Ks: ksOf(positions)})
		return nil
	}
	atCall := ksOf(positions)
	f.x.log.Add(Ev{T: "A", S: f.s, Ks: atCall})
	f.mu.Lock()
	prev := f.lastDelivered
	mine := make(chan struct{})
	f.lastDelivered = mine
	f.mu.Unlock()
	f.x.pendingAcks.Add(1)
	go func() {
		defer f.x.pendingAcks.Done()
		defer close(mine)
		if prev != nil {
			<-prev
		}
		_ = f.x.sched.Park(context.Background(), fmt.Sprintf("K%d", f.s), true, nil)
		now := ksOf(positions)
		same := len(now) == len(atCall)
		for i := 0; same && i < len(now); i++ {
			same = now[i] == atCall[i]
		}
		if !same {
			f.x.log.Add(Ev{T: "A", S: f.s, Ks: now})
		}
	}()
	return nil
}

func ksOf(positions []opencdc.Position) []int {
	ks := make([]int, len(positions))
	for i, p := range positions {
		ks[i] = kOfPos(p)
	}
	return ks
}

// Stop is the v1 graceful stop: no further records, returns the last position read.
func (f *fakeSource) Stop(context.Context) (opencdc.Position, error) {
	f.mu.Lock()
	defer f.mu.Unlock()
	f.halted = true
	if f.next == 0 {
		return nil, nil
	}
	return posOf(f.x.c.Collide, f.s, f.next-1), nil
}

// fakeProc implements funnel.Processor and stream.Processor.
type fakeProc struct {
	x     *run
	id    string
	scope int // -1 = before the fan-out, d = in the branch of destination d
	spec  ProcSpec
	gated bool

	mu    sync.Mutex
	holed map[[2]int]bool // records of spec.Hole that were left unanswered once
}

func (p *fakeProc) Open(context.Context) error     { return nil }
func (p *fakeProc) Teardown(context.Context) error { return nil }

func (p *fakeProc) Process(ctx context.Context, recs []opencdc.Record) []sdk.ProcessedRecord {
	if p.gated {
		slow := false
		for _, r := range recs {
			if s, k := idOf(r); inSet(p.spec.SlowRecs, s, k) {
				slow = true
			}
		}
		if slow {
			_ = p.x.sched.ParkLast(ctx, "P"+p.id+"!", nil)
		} else {
			_ = p.x.sched.Park(ctx, "P"+p.id, false, nil)
		}
	}
	n := len(recs)
	if p.spec.Cap > 0 && n > p.spec.Cap {
		n = p.spec.Cap // the rest is not answered at all: a short reply
	}
	out := make([]sdk.ProcessedRecord, n)
	var evs []Ev
	short := n < len(recs)
	for i, r := range recs[:n] {
		s, k := idOf(r)
		if inSet(p.spec.Hole, s, k) {
			p.mu.Lock()
			first := !p.holed[[2]int{s, k}]
			if first {
				if p.holed == nil {
					p.holed = map[[2]int]bool{}
				}
				p.holed[[2]int{s, k}] = true
			}
			p.mu.Unlock()
			if first {
				short = true
				continue // out[i] stays nil: to be handed over again
			}
		}
		switch {
		case inSet(p.spec.Filter, s, k):
			out[i] = sdk.FilterRecord{}
			evs = append(evs, Ev{T: "F", D: p.scope, S: s, K: k})
		case inSet(p.spec.Err, s, k):
			out[i] = sdk.ErrorRecord{Error: cerrors.New("scripted processor error")}
		default:
			if p.spec.Transform {
				// a new record: same identity (key, position), rewritten payload
				nr := r.Clone()
				nr.Payload.After = opencdc.RawData(fmt.Sprintf("t:%d:%d", s, k))
				out[i] = sdk.SingleRecord(nr)
			} else {
				out[i] = sdk.SingleRecord(r)
			}
		}
	}
	if len(evs) > 0 {
		p.x.log.Add(evs...)
	}
	if short {
		p.x.retries.Add(1)
	}
	return out
}

// ---------------------------------------------------------------------------
// v2 runner: real funnel.Workers assembled like lifecycle-poc.Service.
// buildRunnablePipeline / the package's buildNxMWorkers test helper
// ---------------------------------------------------------------------------

func chainV2(x *run, prefix string, scope int, procs []ProcSpec) []*funnel.TaskNode {
	nodes := make([]*funnel.TaskNode, len(procs))
	for i, ps := range procs {
		id := fmt.Sprintf("%s-proc-%d", prefix, i)
		nodes[i] = &funnel.TaskNode{Task: funnel.NewProcessorTask(id,
			&fakeProc{x: x, id: id, scope: scope, spec: ps}, log.Nop(), funnel.NoOpProcessorMetrics{})}
	}
	return nodes
}

// RunV2 runs one case on the real arch-v2 engine.
func RunV2(c Case, deadline time.Duration) Obs {
	old := runtime.GOMAXPROCS(c.GoMaxProcs)
	defer runtime.GOMAXPROCS(old)

	x := newRun(c)
	ctx, cancel := context.WithCancel(context.Background())
	defer cancel()
	logger := log.Nop()
	var o Obs

	// destination branches: [dest processors] -> destination task
	branches := make([]*funnel.TaskNode, len(c.Dests))
	for d, ds := range c.Dests {
		destNode := &funnel.TaskNode{Task: funnel.NewDestinationTask(fmt.Sprintf("dest-%d", d),
			newFakeDest(x, d, ds), logger, funnel.NoOpConnectorMetrics{})}
		head := destNode
		chain := chainV2(x, fmt.Sprintf("dest-%d", d), d, ds.Procs)
		for i := len(chain) - 1; i >= 0; i-- {
			chain[i].Next = []*funnel.TaskNode{head}
			head = chain[i]
		}
		branches[d] = head
	}
	// shared tail (buildSharedTail): with pipeline processors ONE shared root, else M roots
	sharedRoots := branches
	if pc := chainV2(x, "pipe", -1, c.PipeProcs); len(pc) > 0 {
		for i := 0; i+1 < len(pc); i++ {
			pc[i].Next = []*funnel.TaskNode{pc[i+1]}
		}
		pc[len(pc)-1].Next = branches
		sharedRoots = []*funnel.TaskNode{pc[0]}
	}
	sink, err := funnel.NewSink(sharedRoots...)
	if err != nil {
		o.Note = "sink: " + err.Error()
		return o
	}

	workers := make([]*funnel.Worker, len(c.Sources))
	for s, ss := range c.Sources {
		dlq := funnel.NewDLQ(fmt.Sprintf("dlq-%d", s), &fakeDlqDest{x: x, s: s}, logger,
			funnel.NoOpConnectorMetrics{}, c.Dlq.Win[0], c.Dlq.Win[1])
		srcNode := &funnel.TaskNode{Task: funnel.NewSourceTask(fmt.Sprintf("src-%d", s),
			newFakeSource(x, s, ss), logger, funnel.NoOpConnectorMetrics{})}
		for _, pn := range chainV2(x, fmt.Sprintf("src-%d", s), -1, ss.Procs) {
			if err := srcNode.AppendToEnd(pn); err != nil {
				o.Note = "append: " + err.Error()
				return o
			}
		}
		if err := srcNode.AppendToEnd(sharedRoots...); err != nil {
			o.Note = "append: " + err.Error()
			return o
		}
		w, err := funnel.NewWorker(srcNode, dlq, logger, noop.Timer{})
		if err != nil {
			o.Note = "worker: " + err.Error()
			return o
		}
		workers[s] = w
	}

	if err := sink.Open(ctx); err != nil {
		o.Note = "sink open: " + err.Error()
		return o
	}
	for _, w := range workers {
		if err := w.Open(ctx); err != nil {
			o.Note = "worker open: " + err.Error()
			return o
		}
	}

	results := make([]string, len(workers))
	var wg sync.WaitGroup
	for i, w := range workers {
		wg.Add(1)
		go func() {
			defer wg.Done()
			err := w.Do(ctx)
			if err != nil {
				results[i] = "err"
				cancel() // what runPipeline's tomb does when a worker fails
			} else {
				results[i] = "ok"
			}
		}()
	}
	done := make(chan struct{})
	go func() { wg.Wait(); close(done) }()

	fire := func(kind string) {
		switch kind {
		case "cancel":
			cancel()
		default:
			for _, w := range workers {
				go func() { _ = w.Stop(ctx) }()
			}
		}
	}
	o.Hang, _ = x.drive(done, fire, nil, deadline)
	if o.Hang {
		cancel()
		x.sched.FreeRun()
		select {
		case <-done:
		case <-time.After(time.Second):
		}
	}
	cctx, ccancel := context.WithTimeout(context.Background(), time.Second)
	x.sched.FreeRun()
	x.flushAcks()
	if !o.Hang {
		for _, w := range workers {
			_ = w.Close(cctx)
		}
		_ = sink.Close(cctx)
	}
	ccancel()
	o.Log = x.log.Snapshot()
	o.RunID = x.log.id
	o.Results = results
	o.Released = x.sched.Released()
	o.Retries = int(x.retries.Load())
	return o
}
