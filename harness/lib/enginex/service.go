package enginex

import (
	"fmt"
	"os"
	"strconv"
	"strings"
	"time"

	"verifharness/lib/hx"
	"verifharness/lib/svcx"
)

// L-service level: the REAL lifecycle service of either engine (pipeline wiring by
// lifecycle.Service.buildNodes / lifecycle-poc.Service.buildRunnablePipeline) with the real
// connector, processor and pipeline services, the real connector.Source / Destination and
// the Persister on an in-memory store, in front of fake plugins (package svcx, a copy of the
// C06 agent's stopx). What is observed here is the ack the source PLUGIN receives on its
// stream (after the persister flushed), not the engine's call of Source.Ack. Only the three
// monitors are evaluated on these logs; the mechanism acceptor is an engine-level model.

func srcID(s int) string { return "s" + strconv.Itoa(s+1) }
func dstID(d int) string { return "d" + strconv.Itoa(d+1) }

// GenService draws one service-level case: N x M, 0..2 pipeline processors (the first one
// filters), optionally one on source 1, single worker everywhere (v1's ParallelNode has an
// open shutdown deadlock), per-destination refusals and slowness, DLQ unlimited or with a
// fatal nack threshold, graceful stop at the end.
func GenService(r *hx.Rand, engine string) Case {
	c := Case{Engine: engine, Level: "service", GoMaxProcs: []int{2, 4, 16}[r.Intn(3)]}
	nsrc, ndst := r.Range(1, 3), r.Range(1, 3)
	var all [][2]int
	for s := 0; s < nsrc; s++ {
		var ss SrcSpec
		k := 0
		for b, nb := 0, r.Range(1, 3); b < nb; b++ {
			n := r.Range(1, 4)
			ss.Batches = append(ss.Batches, n)
			for i := 0; i < n; i++ {
				all = append(all, [2]int{s, k})
				k++
			}
		}
		c.Sources = append(c.Sources, ss)
	}
	pick := func(den int) [][2]int {
		var out [][2]int
		for _, id := range all {
			if r.Chance(1, den) {
				out = append(out, id)
			}
		}
		return out
	}
	for i, n := 0, r.Range(0, 2); i < n; i++ {
		p := ProcSpec{Workers: 1}
		if i == 0 {
			p.Filter = pick(4)
		}
		c.PipeProcs = append(c.PipeProcs, p)
	}
	if r.Chance(1, 3) {
		c.Sources[0].Procs = []ProcSpec{{Workers: 1, Filter: pick(6)}}
	}
	c.Dests = make([]DstSpec, ndst)
	if r.Bool() {
		for d := range c.Dests {
			c.Dests[d].Nack = pick(6)
		}
	}
	for d := range c.Dests {
		c.Dests[d].Slow = r.Chance(1, 3)
	}
	c.Dlq.Win = [][2]int{{0, 0}, {0, 0}, {3, 2}, {2, 1}}[r.Intn(4)]
	if r.Chance(1, 4) {
		c.Dlq.Fail = pick(3)
	}
	for i := 0; i < 48; i++ {
		c.Sched = append(c.Sched, r.Intn(1<<16))
	}
	return c
}

// GenServiceCut draws one case of the DIRECTED service-level family "the run is cancelled in
// the middle of a fan-out" (v1): five sources hand out one record each, no destination ever
// answers, so the first three records fill every branch (plugin, DestinationNode.Write,
// MetricsNode) and the clones of the fourth stay inside FanoutNode's goroutines; the one
// pipeline processor then fails the fifth record and its dead letter is refused, which is
// fatal and cancels the pipeline context. Only then is everything released.
func GenServiceCut(r *hx.Rand) Case {
	c := Case{Engine: "v1", Level: "service", SvcCut: true, GoMaxProcs: []int{2, 4, 16}[r.Intn(3)]}
	for s := 0; s < 5; s++ {
		c.Sources = append(c.Sources, SrcSpec{Batches: []int{1}})
	}
	c.PipeProcs = []ProcSpec{{Workers: 1, Err: [][2]int{{4, 0}}}}
	c.Dests = make([]DstSpec, r.Range(2, 3))
	c.Dlq.Fail = [][2]int{{4, 0}}
	c.Sched = []int{r.Intn(1 << 16)}
	return c
}

// RunService runs one service-level case.
func RunService(c Case, deadline time.Duration) Obs {
	var o Obs
	srcProc := len(c.Sources) > 0 && len(c.Sources[0].Procs) > 0
	sys, err := svcx.NewSys(svcx.Topo{Engine: c.Engine, Sources: len(c.Sources), Dests: len(c.Dests),
		Procs: len(c.PipeProcs), SrcProc: srcProc, Workers: 1, DLQSize: c.Dlq.Win[0], DLQThr: c.Dlq.Win[1]})
	if err != nil {
		o.Note = "setup: " + err.Error()
		return o
	}
	w := sys.W
	for i, p := range c.PipeProcs {
		for _, f := range p.Filter {
			w.Filter("p"+strconv.Itoa(i+1), srcID(f[0]), f[1]+1)
		}
	}
	if srcProc {
		for _, f := range c.Sources[0].Procs[0].Filter {
			w.Filter("ps1", srcID(f[0]), f[1]+1)
		}
	}
	for d, ds := range c.Dests {
		for _, n := range ds.Nack {
			w.Refuse(dstID(d), srcID(n[0]), n[1]+1)
		}
	}
	for _, n := range c.Dlq.Fail {
		w.Refuse("dlq", srcID(n[0]), n[1]+1)
	}
	for i, p := range c.PipeProcs {
		for _, f := range p.Err {
			w.ProcErr("p"+strconv.Itoa(i+1), srcID(f[0]), f[1]+1)
		}
	}
	quiet := func() { w.Settle(200*time.Microsecond, 10*time.Millisecond) }

	_, started := sys.Call("start")
	if !svcx.WaitCh(started, 10*time.Second) {
		o.Hang, o.Note = true, "start did not return"
		return o
	}
	quiet()
	if c.SvcCut {
		// all sources but the last hand out their record, nothing is answered
		for s := 0; s+1 < len(c.Sources); s++ {
			w.Emit(srcID(s), 1)
			w.Settle(500*time.Microsecond, 20*time.Millisecond)
		}
		w.Settle(2*time.Millisecond, 60*time.Millisecond)
		// the last record fails in the processor, its dead letter is refused: fatal
		w.Verdict("dlq", true, 1)
		w.Emit(srcID(len(c.Sources)-1), 1)
		w.WaitFor(2*time.Second, func(l []svcx.Ev) bool {
			for _, e := range l {
				if e.K == "status" && e.X != "Running" {
					return true
				}
			}
			return false
		})
		w.Settle(time.Millisecond, 60*time.Millisecond)
		w.Release()
		_, stopped := sys.Call("stopwait")
		if !svcx.WaitCh(stopped, 8*deadline) {
			o.Hang, o.Note = true, "StopAndWait did not return"
		}
		w.Settle(time.Millisecond, 120*time.Millisecond)
		o.Log, o.Note = translateService(w.Events(), o.Note)
		x := newRun(c)
		x.log.Add(o.Log...)
		o.RunID = x.log.id
		o.Results = []string{sys.Status()}
		return o
	}
	// environment schedule: hand out batches and reply tokens in the generated order
	left := make([][]int, len(c.Sources))
	total := 0
	for s, ss := range c.Sources {
		left[s] = append([]int(nil), ss.Batches...)
		for _, n := range ss.Batches {
			total += n
		}
	}
	steps := 2*len(c.Sources) + total*(len(c.Dests)+1)
	for i := 0; i < steps; i++ {
		v := 0
		if len(c.Sched) > 0 {
			v = c.Sched[i%len(c.Sched)]
		}
		type action struct {
			kind string
			i    int
		}
		var acts []action
		for s := range left {
			if len(left[s]) > 0 {
				acts = append(acts, action{"emit", s}, action{"emit", s})
			}
		}
		for d, ds := range c.Dests {
			acts = append(acts, action{"tok", d})
			if !ds.Slow {
				acts = append(acts, action{"tok", d}, action{"tok", d})
			}
		}
		acts = append(acts, action{"dlq", 0})
		a := acts[v%len(acts)]
		switch a.kind {
		case "emit":
			w.Emit(srcID(a.i), left[a.i][0])
			left[a.i] = left[a.i][1:]
			o.Released = append(o.Released, "E"+strconv.Itoa(a.i))
		case "tok":
			w.Verdict(dstID(a.i), true, 1+v/64%3)
			o.Released = append(o.Released, "T"+strconv.Itoa(a.i))
		default:
			w.Verdict("dlq", true, 1)
			o.Released = append(o.Released, "Q")
		}
		quiet()
	}
	for s := range left {
		for _, n := range left[s] {
			w.Emit(srcID(s), n)
			quiet()
		}
	}
	// everything replies from now on; let the run drain, then stop gracefully
	w.ReleaseVerdicts()
	w.Settle(time.Millisecond, 60*time.Millisecond)
	_, stopped := sys.Call("stopwait")
	w.Release()
	if !svcx.WaitCh(stopped, 8*deadline) {
		o.Hang, o.Note = true, "StopAndWait did not return"
	}
	w.Settle(300*time.Microsecond, 20*time.Millisecond)
	if os.Getenv("VERIF_DUMP") != "" {
		for _, e := range w.Events() {
			fmt.Fprintf(os.Stderr, "%+v\n", e)
		}
	}
	o.Log, o.Note = translateService(w.Events(), o.Note)
	// hand the translated log to the supervisor the way the engine-level fakes do
	x := newRun(c)
	x.log.Add(o.Log...)
	o.RunID = x.log.id
	o.Results = []string{sys.Status()}
	return o
}

// translateService maps the service-level log to the event vocabulary of the monitors.
// A second Open of a source means the service restarted the pipeline (recovery): the log is
// cut there, the monitors speak about one uninterrupted run.
func translateService(evs []svcx.Ev, note string) ([]Ev, string) {
	idx := func(id string) int {
		n, err := strconv.Atoi(strings.TrimLeft(id, "sdp"))
		if err != nil {
			return 98
		}
		return n - 1
	}
	// records whose hand-off failed were not read
	unread := map[string]bool{}
	for _, e := range evs {
		if e.K == "unread" {
			unread[e.C+"|"+strconv.Itoa(e.N)] = true
		}
	}
	opened := map[string]int{}
	var out []Ev
	for _, e := range evs {
		switch e.K {
		case "open":
			if strings.HasPrefix(e.C, "s") {
				opened[e.C]++
				if opened[e.C] > 1 {
					return out, note + " restarted;"
				}
			}
		case "read":
			if !unread[e.C+"|"+strconv.Itoa(e.N)] {
				out = append(out, Ev{T: "R", S: idx(e.C), K: e.N - 1})
			}
		case "filt":
			out = append(out, Ev{T: "F", D: -1, S: idx(e.S), K: e.N - 1})
		case "dwrite":
			out = append(out, Ev{T: "W", D: idx(e.C), S: idx(e.S), K: e.N - 1})
		case "dconf":
			out = append(out, Ev{T: "C", D: idx(e.C), S: idx(e.S), K: e.N - 1, Ok: e.X == "ok"})
		case "qwrite":
			out = append(out, Ev{T: "QW", S: idx(e.S), K: e.N - 1})
		case "qconf":
			out = append(out, Ev{T: "QC", S: idx(e.S), K: e.N - 1, Ok: e.X == "ok"})
		case "pack":
			out = append(out, Ev{T: "A", S: idx(e.C), Ks: []int{e.N - 1}})
		}
	}
	return out, note
}

var _ = fmt.Sprintf
