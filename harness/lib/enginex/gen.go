package enginex

import (
	"fmt"
	"strings"
	"sync"
	"time"

	"verifharness/lib/hx"
)

func genProc(r *hx.Rand, engine string, recs [][2]int, errs bool) ProcSpec {
	p := ProcSpec{Workers: 1}
	fden := []int{4, 6, 10}[r.Intn(3)]
	for _, id := range recs {
		switch {
		case r.Chance(1, fden):
			p.Filter = append(p.Filter, id)
		case errs && r.Chance(1, 10):
			p.Err = append(p.Err, id)
		}
	}
	if engine == "v1" && r.Bool() {
		p.Workers = r.Range(2, 4)
	}
	if engine == "v2" {
		// output-capped processors (short replies) and unanswered records: the retry protocol
		if r.Chance(1, 6) {
			p.Cap = r.Range(1, 3)
		}
		if r.Chance(1, 10) {
			for _, id := range recs {
				if r.Chance(1, 4) {
					p.Hole = append(p.Hole, id)
				}
			}
		}
	}
	return p
}

// Gen draws one well-formed case (or, with malformed, one case of the separate
// malformed stream: empty destination ack replies, v2 only).
func Gen(r *hx.Rand, engine string, malformed bool) Case {
	c := Case{Engine: engine, GoMaxProcs: []int{1, 2, 4, 16}[r.Intn(4)], Collide: r.Chance(1, 3)}
	nsrc, ndst := r.Range(1, 3), r.Range(1, 3)
	var all [][2]int
	perSrc := make([][][2]int, nsrc)
	for s := 0; s < nsrc; s++ {
		nb := r.Range(1, 4)
		var ss SrcSpec
		k := 0
		for b := 0; b < nb; b++ {
			n := r.Range(1, 5)
			if engine == "v2" && r.Chance(1, 4) {
				n = r.Range(5, 8)
			}
			if malformed {
				n = r.Range(1, 2)
			}
			ss.Batches = append(ss.Batches, n)
			for i := 0; i < n; i++ {
				all = append(all, [2]int{s, k})
				perSrc[s] = append(perSrc[s], [2]int{s, k})
				k++
			}
		}
		ss.EOF = r.Bool()
		ss.SlowAck = r.Bool()
		ss.DeferAck = r.Bool() // half of the sources keep acks queued (several parked at once)
		c.Sources = append(c.Sources, ss)
	}
	procErrs := r.Chance(1, 3)
	// processor chains of total depth 0..2 on every source -> destination path
	depth := r.Range(0, 2)
	for i := 0; i < depth; i++ {
		switch r.Intn(3) {
		case 0:
			c.PipeProcs = append(c.PipeProcs, genProc(r, engine, all, procErrs))
		case 1:
			for s := range c.Sources {
				if len(c.Sources[s].Procs) < 1 {
					c.Sources[s].Procs = append(c.Sources[s].Procs, genProc(r, engine, perSrc[s], procErrs))
				}
			}
		}
	}
	c.Dests = make([]DstSpec, ndst)
	nackMode := r.Intn(4)
	for d := range c.Dests {
		ds := &c.Dests[d]
		if depth > 0 && r.Chance(1, 4) {
			ds.Procs = append(ds.Procs, genProc(r, engine, all, procErrs))
		}
		if nackMode >= 2 {
			// single rejected records (votes arrive in pieces) and, half of the time, runs
			// of 2..3 consecutive rejections (one multi-record DLQ write on a linear path)
			den := []int{4, 8}[r.Intn(2)]
			runs := r.Bool()
			for i := 0; i < len(all); i++ {
				if !r.Chance(1, den) {
					continue
				}
				n := 1
				if runs {
					n = r.Range(1, 3)
				}
				for j := 0; j < n && i+j < len(all) && all[i+j][0] == all[i][0]; j++ {
					ds.Nack = append(ds.Nack, all[i+j])
				}
				i += n - 1
			}
		}
		if r.Chance(1, 14) && len(all) > 0 {
			ds.WriteErr = append(ds.WriteErr, all[r.Intn(len(all))])
		}
		if r.Chance(1, 14) {
			ds.AckErrAt = r.Range(1, 4)
		}
		if r.Bool() {
			for i, n := 0, r.Range(1, 4); i < n; i++ {
				ds.Chunks = append(ds.Chunks, r.Range(1, 3))
			}
		}
		ds.Slow = r.Chance(1, 4)
	}
	if malformed {
		c.Dests[r.Intn(ndst)].EmptyAcks = r.Range(1, 2)
		c.Malformed = true
	}
	c.Dlq.Win = [][2]int{{0, 0}, {0, 0}, {0, 0}, {1, 0}, {4, 1}, {3, 2}, {10, 10}}[r.Intn(7)]
	if r.Chance(1, 10) {
		c.Dlq.ErrAt = r.Range(1, 3)
	}
	if r.Chance(1, 3) {
		// the DLQ rejects individual records, also one that is followed by accepted ones
		for _, id := range all {
			if r.Chance(1, 3) {
				c.Dlq.Fail = append(c.Dlq.Fail, id)
			}
		}
	}
	for i := 0; i < 48; i++ {
		c.Sched = append(c.Sched, r.Intn(1<<16))
	}
	if r.Chance(1, 3) {
		kind := "stop"
		if r.Bool() {
			kind = "cancel"
		}
		c.Ctl = &CtlSpec{Kind: kind, At: r.Range(0, 6*len(all)+4)}
	}
	return c
}

// GenDirected draws one case of the DIRECTED family "cancel in the middle of a fan-out":
// M in {2,3} destinations whose Write gates stay closed from their HoldFrom-th write on
// until the run has gone idle and the context was cancelled; only then is everything
// released.
//
// v1: EVERY destination is held. Each branch then backs up completely (DestinationNode
// blocked in Write, its MetricsNode holds the next clone) and the clones of the next record
// stay inside FanoutNode's goroutines, which cannot hand them over. (Holding only some
// branches cannot expose a wrongly settled clone: a DestinationAckerNode worker waits inside
// the fan-out ack handler of the first record another branch has not settled, so it never
// gets to the later record.) Three sources emit single records in rounds (later rounds are
// read only when nothing else can move), so the record stuck inside the fan-out is the first
// unacked record of ITS source: whatever the engine does to the records of the other two
// sources (their nacks cannot reach the DLQ after the cancel and set those sources' fail
// latches), an ack for the stuck record would reach its source and be observed.
// v2: one destination is held, so the cancel lands while that branch is parked inside
// Destination.Write and the other branches have voted.
// round = which round of records is cut.
func GenDirected(r *hx.Rand, engine string) Case {
	c := Case{Engine: engine, GoMaxProcs: []int{1, 2, 4, 16}[r.Intn(4)], Collide: r.Chance(1, 3)}
	round := r.Intn(3)
	nsrc := 3
	if engine == "v2" {
		nsrc = r.Range(1, 3)
	}
	for s := 0; s < nsrc; s++ {
		ss := SrcSpec{SlowRead: true, SlowAck: r.Bool()}
		for b := 0; b <= round+r.Intn(2); b++ {
			ss.Batches = append(ss.Batches, 1)
		}
		if engine == "v2" && r.Bool() {
			ss.Batches[len(ss.Batches)-1] = r.Range(2, 4)
		}
		c.Sources = append(c.Sources, ss)
	}
	ndst := r.Range(2, 3)
	c.Dests = make([]DstSpec, ndst)
	if engine == "v2" {
		held := r.Intn(ndst)
		c.Dests[held].Hold = true
		c.Dests[held].HoldFrom = round
	} else {
		for d := range c.Dests {
			c.Dests[d].Hold = true
			c.Dests[d].HoldFrom = nsrc * round
		}
	}
	for d := range c.Dests {
		if r.Bool() {
			c.Dests[d].Chunks = []int{r.Range(1, 2)}
		}
	}
	for i := 0; i < 48; i++ {
		c.Sched = append(c.Sched, r.Intn(1<<13)*8+r.Intn(7)) // never the "also slow gates" choice
	}
	c.Ctl = &CtlSpec{Kind: "cancel", At: 1 << 20} // fires when the run has gone idle
	return c
}

// GenFilterChain draws one case of the DIRECTED v2 family "filter, then transform": batches
// of 5..8 records pass two processors on the way to the destination(s), the first filters
// some records of every batch, the second returns a new record for each one left
// (Batch.SetRecords on a batch that already holds filtered records).
func GenFilterChain(r *hx.Rand) Case {
	c := Case{Engine: "v2", GoMaxProcs: []int{1, 2, 4, 16}[r.Intn(4)], Collide: r.Chance(1, 3)}
	nsrc := r.Range(1, 2)
	var all [][2]int
	var filt [][2]int
	for s := 0; s < nsrc; s++ {
		ss := SrcSpec{EOF: r.Bool(), SlowAck: r.Bool()}
		k := 0
		for b, nb := 0, r.Range(1, 2); b < nb; b++ {
			n := r.Range(5, 8)
			ss.Batches = append(ss.Batches, n)
			mask := r.Intn(1<<n-1) + 1 // at least one record filtered
			for i := 0; i < n; i++ {
				all = append(all, [2]int{s, k})
				if mask>>i&1 == 1 && r.Chance(2, 3) || i == mask%n {
					filt = append(filt, [2]int{s, k})
				}
				k++
			}
		}
		c.Sources = append(c.Sources, ss)
	}
	c.Dests = make([]DstSpec, r.Range(1, 2))
	first := ProcSpec{Filter: filt, Workers: 1}
	second := ProcSpec{Transform: true, Workers: 1}
	switch r.Intn(3) {
	case 0:
		c.PipeProcs = []ProcSpec{first, second}
	case 1:
		for s := range c.Sources {
			c.Sources[s].Procs = []ProcSpec{first}
		}
		c.PipeProcs = []ProcSpec{second}
	default:
		c.PipeProcs = []ProcSpec{first}
		for d := range c.Dests {
			c.Dests[d].Procs = []ProcSpec{second}
		}
	}
	for i := 0; i < 16; i++ {
		c.Sched = append(c.Sched, r.Intn(1<<16))
	}
	return c
}

// GenRetry draws one case of the DIRECTED v2 family "retry in the middle of a batch": batches
// of 3..8 records pass a chain of 2..3 processors of which at least one answers short (an
// output cap of 1..3 records per call) and/or leaves single records unanswered the first time
// it sees them, while another processor of the chain - before or after it - filters or fails
// records. The batch a retrying task leaves behind then mixes ack, retry, filter and nack groups
// in every order: retried records in FRONT of records that are already finished (filtered
// upstream), between them, and (holes) in front of records that still have to travel on.
// Whatever the mix, the source must be acked in read order and every destination must receive
// the records in read order.
func GenRetry(r *hx.Rand) Case {
	c := Case{Engine: "v2", GoMaxProcs: []int{1, 2, 4, 16}[r.Intn(4)], Collide: r.Chance(1, 3)}
	nsrc := r.Range(1, 2)
	var all [][2]int
	for s := 0; s < nsrc; s++ {
		ss := SrcSpec{EOF: r.Bool(), SlowAck: r.Bool(), DeferAck: r.Chance(1, 3)}
		k := 0
		for b, nb := 0, r.Range(1, 3); b < nb; b++ {
			n := r.Range(3, 8)
			ss.Batches = append(ss.Batches, n)
			for i := 0; i < n; i++ {
				all = append(all, [2]int{s, k})
				k++
			}
		}
		c.Sources = append(c.Sources, ss)
	}
	pick := func(num, den int) [][2]int {
		var out [][2]int
		for _, id := range all {
			if r.Chance(num, den) {
				out = append(out, id)
			}
		}
		return out
	}
	// the processor that drops (and sometimes fails) records, and the one that retries
	drop := ProcSpec{Workers: 1, Filter: pick(1, 3)}
	if len(drop.Filter) == 0 {
		drop.Filter = [][2]int{all[r.Intn(len(all))]}
	}
	if r.Chance(1, 4) {
		for _, id := range all {
			if !inSet(drop.Filter, id[0], id[1]) && r.Chance(1, 6) {
				drop.Err = append(drop.Err, id)
			}
		}
	}
	capped := ProcSpec{Workers: 1, Transform: r.Chance(1, 3)}
	switch r.Intn(3) {
	case 0:
		capped.Cap = r.Range(1, 3)
	case 1:
		capped.Hole = pick(1, 3)
		if len(capped.Hole) == 0 {
			capped.Hole = [][2]int{all[r.Intn(len(all))]}
		}
	default:
		capped.Cap = r.Range(2, 4)
		capped.Hole = pick(1, 4)
	}
	if r.Chance(1, 3) {
		capped.Filter = pick(1, 6) // the retrying processor filters, too
	}
	chain := []ProcSpec{drop, capped}
	if r.Chance(1, 4) {
		chain = []ProcSpec{capped, drop}
	}
	if r.Chance(1, 3) {
		chain = append(chain, ProcSpec{Workers: 1, Cap: r.Range(1, 2), Filter: pick(1, 8)})
	}
	c.Dests = make([]DstSpec, r.Range(1, 2))
	switch r.Intn(4) {
	case 0, 1: // everything before the fan-out
		c.PipeProcs = chain
	case 2: // first at the source, the rest shared
		for s := range c.Sources {
			c.Sources[s].Procs = []ProcSpec{chain[0]}
		}
		c.PipeProcs = chain[1:]
	default: // the tail of the chain inside every destination branch (below the fan-out)
		c.PipeProcs = chain[:1]
		for d := range c.Dests {
			c.Dests[d].Procs = append([]ProcSpec(nil), chain[1:]...)
		}
	}
	for d := range c.Dests {
		ds := &c.Dests[d]
		if r.Chance(1, 4) {
			ds.Nack = pick(1, 8)
		}
		if r.Bool() {
			ds.Chunks = []int{r.Range(1, 3)}
		}
	}
	for i := 0; i < 12; i++ {
		c.Sched = append(c.Sched, r.Intn(1<<16))
	}
	return c
}

// GenParallelHol draws one case of the DIRECTED v1 family "head-of-line blocking in a parallel
// processor": 2..3 sources feed ONE ParallelNode of 4..8 workers (pipeline processor behind the
// fan-in, or the same processor in every destination branch). The processing of one or two
// records of a source is slow (released only when nothing else can move), so the coordinator
// waits for that job while the workers behind it finish theirs and queue up; the records of a
// victim source fail in the processor and are dead-lettered at once (their tickets depend only
// on their own source), i.e. jobs that need no forwarding complete in the MIDDLE of the queue
// while the coordinator is held up. Optionally the destination is slow as well (the coordinator
// is then held up in its send). Whatever the completion order, every destination must receive
// each source's records in read order.
func GenParallelHol(r *hx.Rand) Case {
	c := Case{Engine: "v1", GoMaxProcs: []int{2, 4, 16}[r.Intn(3)], Collide: r.Chance(1, 3)}
	nsrc := 2
	if r.Chance(1, 3) {
		nsrc = 3
	}
	victim := r.Intn(nsrc)
	allErr := r.Chance(3, 4)
	par := ProcSpec{Workers: []int{4, 6, 8, 8}[r.Intn(4)]}
	// shaped (2 in 3): a healthy source hands over ONE record (the slow one) and reads on only when
	// nothing else can move, so the victim's records queue up right behind the slow job and the
	// source's next batch behind them
	shaped := r.Chance(2, 3)
	for s := 0; s < nsrc; s++ {
		ss := SrcSpec{SlowRead: shaped && s != victim}
		k := 0
		nb := r.Range(2, 3)
		if s == victim {
			nb = r.Range(1, 3)
		}
		for b := 0; b < nb; b++ {
			n := r.Range(2, 4)
			if s == victim {
				n = r.Range(1, 2)
			} else if b == 0 {
				n = 1
				if !shaped {
					n = r.Range(1, 2)
				}
			}
			ss.Batches = append(ss.Batches, n)
			for i := 0; i < n; i++ {
				switch {
				case s == victim && (allErr || r.Chance(3, 4)):
					par.Err = append(par.Err, [2]int{s, k})
				case s != victim && i == 0 && (b == 0 || r.Chance(1, 4)):
					// the first record of a batch of a healthy source is the slow one
					par.SlowRecs = append(par.SlowRecs, [2]int{s, k})
				case s != victim && r.Chance(1, 12):
					par.Err = append(par.Err, [2]int{s, k})
				case s != victim && r.Chance(1, 10):
					par.Filter = append(par.Filter, [2]int{s, k})
				}
				k++
			}
		}
		c.Sources = append(c.Sources, ss)
	}
	c.Dests = make([]DstSpec, r.Range(1, 2))
	if r.Chance(1, 4) {
		for d := range c.Dests {
			c.Dests[d].Procs = []ProcSpec{par}
		}
	} else {
		c.PipeProcs = []ProcSpec{par}
	}
	if r.Chance(1, 3) {
		c.Dests[r.Intn(len(c.Dests))].Slow = true
	}
	for d := range c.Dests {
		if r.Bool() {
			c.Dests[d].Chunks = []int{r.Range(1, 2)}
		}
	}
	for i := 0; i < 12; i++ { // used cyclically; short, so that the shrinker has few candidates
		c.Sched = append(c.Sched, r.Intn(1<<13)*8+r.Intn(7)) // never the "also slow gates" choice
	}
	return c
}

// GenBig draws one case of the v2 LARGE-BATCH family: ONE source batch of 2049..6000 records
// (2049..3500 with two destinations), no processors, 1..2 destinations whose acknowledgments
// are NOT aligned with the writes: replies of a fixed size (700..2500) or replies that cover
// all but 1..3 of what is outstanding. Whatever the destination task does with a batch of that
// size (one write, windows, ...), every destination must receive every record once, in order.
func GenBig(r *hx.Rand) Case {
	c := Case{Engine: "v2", Big: true, GoMaxProcs: []int{2, 4, 16}[r.Intn(3)], Collide: r.Bool()}
	ndst := r.Range(1, 2)
	n := r.Range(2049, 6000)
	if ndst == 2 {
		n = r.Range(2049, 3500)
	}
	if r.Chance(1, 4) {
		n = 2049 + r.Intn(3)
	}
	c.Sources = []SrcSpec{{Batches: []int{n}, EOF: r.Bool()}}
	c.Dests = make([]DstSpec, ndst)
	for d := range c.Dests {
		switch r.Intn(3) {
		case 0:
			c.Dests[d].ChunkLess = r.Range(1, 3)
		case 1:
			c.Dests[d].Chunks = []int{r.Range(700, 2500)}
		default:
			c.Dests[d].Chunks = []int{r.Range(1000, 2047), r.Range(1, 600)}
		}
	}
	c.Sched = []int{r.Intn(1 << 16), r.Intn(1 << 16), r.Intn(1 << 16)}
	return c
}

// MaskCases enumerates, for batch sizes 5..8, EVERY filter mask of one batch through the
// chain filter -> transform (v2, one source, one destination): 480 cases.
func MaskCases() []Case {
	var out []Case
	for n := 5; n <= 8; n++ {
		for mask := 0; mask < 1<<n; mask++ {
			var filt [][2]int
			for i := 0; i < n; i++ {
				if mask>>i&1 == 1 {
					filt = append(filt, [2]int{0, i})
				}
			}
			out = append(out, Case{
				Engine:     "v2",
				Sources:    []SrcSpec{{Batches: []int{n}, EOF: true}},
				PipeProcs:  []ProcSpec{{Filter: filt, Workers: 1}, {Transform: true, Workers: 1}},
				Dests:      make([]DstSpec, 1),
				Sched:      []int{0},
				GoMaxProcs: 4,
			})
		}
	}
	return out
}

// Run dispatches on the engine.
func Run(c Case, deadline time.Duration) Obs {
	if c.Level == "service" {
		return RunService(c, deadline)
	}
	if c.Engine == "v1" {
		return RunV1(c, deadline)
	}
	return RunV2(c, deadline)
}

var (
	ckfOnce sync.Once
	ckfVal  bool
)

// CloneKeepsFiltered probes the v1 code the harness was built against: does a
// record that a pipeline processor filtered stay away from the destinations
// when the fan-out has two branches (i.e. does stream.Message.Clone copy the
// filtered flag)? The answer parameterises the v1 acceptor (topo.ckf), so the
// correspondence follows the code across a fix of that defect.
func CloneKeepsFiltered() bool {
	ckfOnce.Do(func() {
		c := Case{
			Engine:     "v1",
			Sources:    []SrcSpec{{Batches: []int{2}}},
			PipeProcs:  []ProcSpec{{Filter: [][2]int{{0, 0}}, Workers: 1}},
			Dests:      []DstSpec{{}, {}},
			Sched:      []int{0},
			GoMaxProcs: 4,
		}
		o := RunV1(c, 5*time.Second)
		written, other := false, false
		for _, e := range o.Log {
			if e.T == "W" && e.K == 0 {
				written = true
			}
			if e.T == "W" && e.K == 1 {
				other = true
			}
		}
		// the probe is only conclusive if the unfiltered record did arrive
		ckfVal = other && !written
	})
	return ckfVal
}

// CoqCase renders the case for Multi/Check.v.
func CoqCase(c Case, o Obs, v1ckf bool) string {
	evs := make([]string, len(o.Log))
	for i, e := range o.Log {
		evs[i] = e.Coq()
	}
	ckf := true
	if c.Engine == "v1" {
		ckf = v1ckf
	}
	if c.Big {
		return fmt.Sprintf("BCase (mkTopo true %d %d true) [%s]", len(c.Sources), len(c.Dests), strings.Join(rangeForm(o.Log), "; "))
	}
	ctor := "Case"
	if c.Level == "service" {
		ctor, ckf = "SCase", true // monitors only
	}
	return fmt.Sprintf(ctor+" (mkTopo %s %d %d %s) [%s]", hx.Bool(c.Engine == "v2"), len(c.Sources), len(c.Dests),
		hx.Bool(ckf), strings.Join(evs, "; "))
}

// rangeForm renders a log for Multi/Check.v's BCase: runs of consecutive events of one kind over
// consecutive emission indices become one range entry, everything else stays a plain event.
func rangeForm(log []Ev) []string {
	var out []string
	consecutive := func(ks []int) bool {
		for i := 1; i < len(ks); i++ {
			if ks[i] != ks[i-1]+1 {
				return false
			}
		}
		return len(ks) > 0
	}
	for i := 0; i < len(log); {
		e := log[i]
		if e.T == "A" {
			if consecutive(e.Ks) {
				out = append(out, fmt.Sprintf("BAcks %d %s %s", e.S, hx.N(uint64(e.Ks[0])), hx.N(uint64(len(e.Ks)))))
			} else if len(e.Ks) <= 64 {
				out = append(out, "BEv ("+e.Coq()+")")
			} else {
				// a long ack that is not one run: one entry per maximal run (the monitors only
				// look at the concatenation of the acked positions)
				for a := 0; a < len(e.Ks); {
					b := a + 1
					for b < len(e.Ks) && e.Ks[b] == e.Ks[b-1]+1 {
						b++
					}
					out = append(out, fmt.Sprintf("BAcks %d %s %s", e.S, hx.N(uint64(e.Ks[a])), hx.N(uint64(b-a))))
					a = b
				}
			}
			i++
			continue
		}
		j := i + 1
		if e.T == "R" || e.T == "W" || e.T == "C" {
			for j < len(log) && log[j].T == e.T && log[j].D == e.D && log[j].S == e.S && log[j].Ok == e.Ok && log[j].K == log[j-1].K+1 {
				j++
			}
		}
		if j-i < 2 {
			out = append(out, "BEv ("+e.Coq()+")")
			i++
			continue
		}
		from, n := hx.N(uint64(e.K)), hx.N(uint64(j-i))
		switch e.T {
		case "R":
			out = append(out, fmt.Sprintf("BReads %d %s %s", e.S, from, n))
		case "W":
			out = append(out, fmt.Sprintf("BWrites %d %d %s %s", e.D, e.S, from, n))
		default:
			out = append(out, fmt.Sprintf("BConfs %d %d %s %s %s", e.D, e.S, from, n, hx.Bool(e.Ok)))
		}
		i = j
	}
	return out
}
