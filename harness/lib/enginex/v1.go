package enginex

import (
	"context"
	"fmt"
	"os"
	"runtime"
	"runtime/pprof"
	"sort"
	"strconv"
	"strings"
	"sync"
	"time"

	"github.com/conduitio/conduit-commons/opencdc"
	"github.com/conduitio/conduit/pkg/foundation/cerrors"
	"github.com/conduitio/conduit/pkg/foundation/log"
	"github.com/conduitio/conduit/pkg/foundation/metrics"
	"github.com/conduitio/conduit/pkg/foundation/metrics/noop"
	"github.com/conduitio/conduit/pkg/lifecycle/stream"
	"github.com/conduitio/conduit/pkg/pipeline"
)

// fakeDlqHandler is the one DLQ handler of a v1 pipeline (stream.DLQHandler).
type fakeDlqHandler struct{ x *run }

func (h *fakeDlqHandler) Open(context.Context) error  { return nil }
func (h *fakeDlqHandler) Close(context.Context) error { return nil }

// Write: the record's position is Message.ID() = "<source id>/<position>".
func (h *fakeDlqHandler) Write(ctx context.Context, r opencdc.Record) error {
	id := string(r.Position)
	s, k := 99, 9999
	if i := strings.Index(id, "/"); i >= 0 {
		if v, err := strconv.Atoi(strings.TrimPrefix(id[:i], "src-")); err == nil {
			s = v
		}
		k = kOfPos([]byte(id[i+1:]))
	}
	h.x.log.Add(Ev{T: "QW", S: s, K: k})
	n := h.x.nextDlq()
	if err := h.x.sched.Park(ctx, "QW", false, nil); err != nil {
		h.x.log.Add(Ev{T: "QC", S: s, K: k, Ok: false})
		return err
	}
	if (h.x.c.Dlq.ErrAt > 0 && n == h.x.c.Dlq.ErrAt) || inSet(h.x.c.Dlq.Fail, s, k) {
		h.x.log.Add(Ev{T: "QC", S: s, K: k, Ok: false})
		return cerrors.New("scripted dlq failure")
	}
	h.x.log.Add(Ev{T: "QC", S: s, K: k, Ok: true})
	return nil
}

func histogram() metrics.RecordBytesHistogram {
	return metrics.NewRecordBytesHistogram(noop.Histogram{})
}

// procNodesV1 mirrors lifecycle.Service.buildProcessorNodes: a ProcessorNode, or a
// ParallelNode of Workers ProcessorNodes sharing the processor, chained first -> ... -> last.
func procNodesV1(x *run, prefix string, scope int, procs []ProcSpec, first stream.PubNode, last stream.SubNode) []stream.Node {
	var nodes []stream.Node
	prev := first
	for i, ps := range procs {
		id := fmt.Sprintf("%s-proc-%d", prefix, i)
		proc := &fakeProc{x: x, id: id, scope: scope, spec: ps, gated: ps.Workers > 1}
		var node stream.PubSubNode
		if ps.Workers > 1 {
			node = &stream.ParallelNode{
				Name: id + "-parallel",
				NewNode: func(w int) stream.PubSubNode {
					return &stream.ProcessorNode{Name: id + "-" + strconv.Itoa(w), Processor: proc, ProcessorTimer: noop.Timer{}}
				},
				Workers: ps.Workers,
			}
		} else {
			node = &stream.ProcessorNode{Name: id, Processor: proc, ProcessorTimer: noop.Timer{}}
		}
		node.Sub(prev.Pub())
		prev = node
		nodes = append(nodes, node)
	}
	last.Sub(prev.Pub())
	return nodes
}

// RunV1 runs one case on the real default engine: the stream nodes wired exactly
// as lifecycle.Service.buildNodes wires them, run the way runPipeline runs them
// (one goroutine per node, the first node error cancels the shared context).
func RunV1(c Case, deadline time.Duration) Obs {
	old := runtime.GOMAXPROCS(c.GoMaxProcs)
	defer runtime.GOMAXPROCS(old)

	x := newRun(c)
	ctx, cancel := context.WithCancel(context.Background())
	defer cancel()
	var o Obs

	fanIn := &stream.FaninNode{Name: "fanin"}
	fanOut := &stream.FanoutNode{Name: "fanout"}
	dlqNode := &stream.DLQHandlerNode{
		Name:                "dlq",
		Handler:             &fakeDlqHandler{x: x},
		WindowSize:          c.Dlq.Win[0],
		WindowNackThreshold: c.Dlq.Win[1],
		Timer:               noop.Timer{},
		Histogram:           histogram(),
	}

	var nodes []stream.Node
	var sourceNodes []*stream.SourceNode
	// buildSourceNodes
	for s, ss := range c.Sources {
		src := newFakeSource(x, s, ss)
		sourceNode := &stream.SourceNode{Name: src.ID(), Source: src, PipelineTimer: noop.Timer{}}
		dlqNode.Add(1)
		ackerNode := &stream.SourceAckerNode{Name: src.ID() + "-acker", Source: src, DLQHandlerNode: dlqNode}
		ackerNode.Sub(sourceNode.Pub())
		metricsNode := &stream.MetricsNode{Name: src.ID() + "-metrics", Histogram: histogram()}
		metricsNode.Sub(ackerNode.Pub())
		procNodes := procNodesV1(x, src.ID(), -1, ss.Procs, metricsNode, fanIn)
		nodes = append(nodes, sourceNode, ackerNode, metricsNode)
		nodes = append(nodes, procNodes...)
		sourceNodes = append(sourceNodes, sourceNode)
	}
	nodes = append(nodes, dlqNode)
	nodes = append(nodes, fanIn)
	// pipeline processors between fan-in and fan-out
	nodes = append(nodes, procNodesV1(x, "pipe", -1, c.PipeProcs, fanIn, fanOut)...)
	nodes = append(nodes, fanOut)
	// buildDestinationNodes
	for d, ds := range c.Dests {
		fd := newFakeDest(x, d, ds)
		ackerNode := &stream.DestinationAckerNode{Name: fd.ID() + "-acker", Destination: fd}
		destNode := &stream.DestinationNode{Name: fd.ID(), Destination: fd, ConnectorTimer: noop.Timer{}}
		metricsNode := &stream.MetricsNode{Name: fd.ID() + "-metrics", Histogram: histogram()}
		destNode.Sub(metricsNode.Pub())
		ackerNode.Sub(destNode.Pub())
		connNodes := procNodesV1(x, fd.ID(), d, ds.Procs, fanOut, metricsNode)
		nodes = append(nodes, connNodes...)
		nodes = append(nodes, metricsNode, destNode, ackerNode)
	}
	for _, n := range nodes {
		stream.SetLogger(n, log.Nop())
	}

	// runPipeline: every node in its own goroutine, first error kills the tomb
	var wg sync.WaitGroup
	var rmu sync.Mutex
	failed := false
	running := map[string]bool{}
	for _, n := range nodes {
		wg.Add(1)
		rmu.Lock()
		running[n.ID()] = true
		rmu.Unlock()
		go func() {
			defer wg.Done()
			err := n.Run(ctx)
			rmu.Lock()
			delete(running, n.ID())
			rmu.Unlock()
			if err != nil && !cerrors.Is(err, pipeline.ErrGracefulShutdown) {
				rmu.Lock()
				failed = true
				rmu.Unlock()
				cancel()
			}
		}()
	}
	done := make(chan struct{})
	go func() { wg.Wait(); close(done) }()

	forceStop := func() {
		for _, n := range nodes {
			if fs, ok := n.(stream.ForceStoppableNode); ok {
				fs.ForceStop(ctx)
			}
		}
	}
	fire := func(kind string) {
		switch kind {
		case "cancel":
			// a force stop: rp.t.Kill(FatalError(ErrForceStop)) followed by ForceStop on every node
			cancel()
			go forceStop()
		default:
			for _, sn := range sourceNodes {
				go func() {
					sctx, scancel := context.WithTimeout(ctx, 2*time.Second)
					defer scancel()
					_ = sn.Stop(sctx, nil)
				}()
			}
		}
	}
	// Known defect of the unchanged tree, unrelated to C01/C04/C05: a ParallelNode can
	// deadlock - its coordinator blocks forever in `c.errs <- err` (channel capacity =
	// Workers) while ParallelNode.Run is not receiving from errs (it is blocked handing
	// the next job to the coordinator, or has left its loop after a cancellation and waits
	// for the coordinator). Everything upstream and downstream then waits for it. Such a
	// run is over; it is recognised by the coordinator's goroutine state, nothing else.
	stuck := func() string {
		if !coordinatorBlockedOnSend() {
			return ""
		}
		rmu.Lock()
		defer rmu.Unlock()
		var ids []string
		for id := range running {
			if strings.HasSuffix(id, "-parallel") {
				ids = append(ids, id)
			}
		}
		sort.Strings(ids)
		return "parallel-node-shutdown-deadlock: " + strings.Join(ids, " ")
	}
	o.Hang, o.Stuck = x.drive(done, fire, stuck, deadline)
	if o.Hang || o.Stuck != "" {
		if o.Hang {
			rmu.Lock()
			for id := range running {
				o.Note += id + " "
			}
			rmu.Unlock()
			if os.Getenv("VERIF_DUMP") != "" {
				_ = pprof.Lookup("goroutine").WriteTo(os.Stderr, 1)
			}
		}
		cancel()
		x.sched.FreeRun()
		forceStop()
		select {
		case <-done:
		case <-time.After(200 * time.Millisecond):
		}
	}
	x.sched.FreeRun()
	x.flushAcks()
	o.Log = x.log.Snapshot()
	o.RunID = x.log.id
	rmu.Lock()
	if failed {
		o.Results = []string{"err"}
	} else {
		o.Results = []string{"ok"}
	}
	rmu.Unlock()
	o.Released = x.sched.Released()
	return o
}

// coordinatorBlockedOnSend reports whether some goroutine is parked in a plain
// channel send inside stream.parallelNodeCoordinator.Run (the `c.errs <- err`
// statements; sending a message on is a select and shows as such).
func coordinatorBlockedOnSend() bool {
	buf := make([]byte, 1<<21)
	n := runtime.Stack(buf, true)
	for _, g := range strings.Split(string(buf[:n]), "\n\n") {
		nl := strings.IndexByte(g, '\n')
		if nl < 0 || !strings.Contains(g[:nl], "[chan send") {
			continue
		}
		lines := strings.Split(g[nl+1:], "\n")
		// the innermost frame that is not runtime's must be the coordinator
		for _, l := range lines {
			if strings.HasPrefix(l, "runtime.") || strings.HasPrefix(l, "\t") {
				continue
			}
			if strings.Contains(l, "(*parallelNodeCoordinator).Run") {
				return true
			}
			break
		}
	}
	return false
}
