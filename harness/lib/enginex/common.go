// Package enginex is the L-engine harness shared by C01, C04 and C05: it runs
// the two real pipeline engines (v1 = pkg/lifecycle/stream node graph, v2 =
// pkg/lifecycle-poc/funnel workers) against fake connectors whose every call
// parks on a gate. The harness releases the gates in the order of a generated
// environment schedule, so the order in which destinations confirm, DLQ writes
// finish and parallel processor workers complete is controlled and replayable.
// All fakes append to ONE mutex guarded event log.
package enginex

import (
	"context"
	"encoding/json"
	"fmt"
	"runtime"
	"strconv"
	"strings"
	"sync"
	"sync/atomic"
	"time"

	"github.com/conduitio/conduit-commons/opencdc"

	"verifharness/lib/hx"
)

// ---------------------------------------------------------------------------
// case description (the "input" of a case)
// ---------------------------------------------------------------------------

// ProcSpec scripts one fake processor. Filter / Err list the records (s,k) the
// processor filters out / fails. Workers > 1 makes v1 wrap it in a ParallelNode.
type ProcSpec struct {
	Filter    [][2]int `json:"filter"`
	Err       [][2]int `json:"err"`
	Workers   int      `json:"workers"`
	Transform bool     `json:"transform"` // returns a NEW record (payload rewritten) for every record it passes on
	// v2 only, RETRY family: the processor answers at most Cap records per call (0 = no limit;
	// an output-capped / rate-limited processor: the reply is shorter than the input and
	// ProcessorTask marks the rest Retry), and it leaves a nil result ("not handled, hand it
	// to me again") for the records of Hole the first time it is given them, also in the
	// MIDDLE of a reply - the retried group is then followed by finished records.
	Cap  int      `json:"cap,omitempty"`
	Hole [][2]int `json:"hole,omitempty"`
	// v1 only, HEAD-OF-LINE family: the processing of these records (one gate per record of a
	// ParallelNode worker) is released only when nothing else can move
	SlowRecs [][2]int `json:"slowRecs,omitempty"`
}

// SrcSpec scripts one source: the sizes of the batches its Read calls return,
// its own processor chain and what Read does once exhausted (v2 only: io.EOF).
type SrcSpec struct {
	Batches  []int      `json:"batches"`
	Procs    []ProcSpec `json:"procs"`
	EOF      bool       `json:"eof"`
	SlowRead bool       `json:"slowRead"` // every Read after the first is released only when nothing else is parked
	DeferAck bool       `json:"deferAck"` // Source.Ack returns at once and keeps the slice (like connector.Source); delivered later, in call order
	SlowAck  bool       `json:"slowAck"`  // Source.Ack is released only when nothing else is parked (most of the time)
}

// DstSpec scripts one destination.
type DstSpec struct {
	Procs     []ProcSpec `json:"procs"`
	Nack      [][2]int   `json:"nack"`                // records whose ack reply carries an error
	WriteErr  [][2]int   `json:"writeErr"`            // a Write containing one of these records fails
	AckErrAt  int        `json:"ackErrAt"`            // the n-th Ack() call (1-based) fails; 0 = never
	Chunks    []int      `json:"chunks"`              // sizes of successive ack replies (cyclic; empty = everything pending)
	EmptyAcks int        `json:"emptyAcks"`           // MALFORMED stream only: the first n Ack() replies are empty
	Slow      bool       `json:"slow"`                // released only when nothing else is parked (most of the time)
	ChunkLess int        `json:"chunkLess,omitempty"` // LARGE-BATCH family: every ack reply covers all but this many of the outstanding records
	Hold      bool       `json:"hold"`                // DIRECTED family: from its HoldFrom-th Write call on, this destination's Write gate
	HoldFrom  int        `json:"holdFrom"`            // stays closed until the control action (cancel / stop) has fired
}

// DlqSpec scripts the dead-letter queue.
type DlqSpec struct {
	Win   [2]int   `json:"win"`   // window size, nack threshold
	ErrAt int      `json:"errAt"` // the n-th record written to the DLQ (1-based, counted over all sources) fails; 0 = never
	Fail  [][2]int `json:"fail"`  // records the DLQ rejects individually (also in the middle of one DLQ write)
}

// CtlSpec is the stop / failure instant: after At gate releases the harness
// issues a graceful stop ("stop") or cancels the run context ("cancel", what a
// failing sibling node / a force stop does to the engine).
type CtlSpec struct {
	Kind string `json:"kind"`
	At   int    `json:"at"`
}

type Case struct {
	Engine     string     `json:"engine"`           // "v1" | "v2"
	SvcCut     bool       `json:"svcCut,omitempty"` // service level, DIRECTED: every destination stalls, then a processor failure whose dead letter is refused cancels the run
	Level      string     `json:"level,omitempty"`  // "" = L-engine (real workers / nodes), "service" = real lifecycle services
	Collide    bool       `json:"collide"`
	Sources    []SrcSpec  `json:"sources"`
	PipeProcs  []ProcSpec `json:"pipeProcs"`
	Dests      []DstSpec  `json:"dests"`
	Dlq        DlqSpec    `json:"dlq"`
	Sched      []int      `json:"sched"`
	Ctl        *CtlSpec   `json:"ctl,omitempty"`
	GoMaxProcs int        `json:"gomaxprocs"`
	Malformed  bool       `json:"malformed"`
	Big        bool       `json:"big,omitempty"` // LARGE-BATCH family (v2): batches of up to 8000 records, log checked in range form
}

// eachProc visits every processor script of the case.
func (c *Case) eachProc(f func(p *ProcSpec)) {
	for i := range c.PipeProcs {
		f(&c.PipeProcs[i])
	}
	for s := range c.Sources {
		for i := range c.Sources[s].Procs {
			f(&c.Sources[s].Procs[i])
		}
	}
	for d := range c.Dests {
		for i := range c.Dests[d].Procs {
			f(&c.Dests[d].Procs[i])
		}
	}
}

// CaseFromJSON decodes the "input" object of a case line. It panics on an
// ill-formed case (the caller wraps it in hx.Try).
func CaseFromJSON(m map[string]any) Case {
	in, ok := m["input"]
	if !ok {
		in = m
	}
	b, err := json.Marshal(in)
	if err != nil {
		panic(err)
	}
	var c Case
	if err := json.Unmarshal(b, &c); err != nil {
		panic(err)
	}
	if c.Engine != "v1" && c.Engine != "v2" {
		panic("engine")
	}
	if len(c.Sources) < 1 || len(c.Sources) > 5 || len(c.Dests) < 1 || len(c.Dests) > 4 {
		panic("topology")
	}
	for _, s := range c.Sources {
		for _, b := range s.Batches {
			if b < 1 || (b > 64 && !c.Big) || b > 8000 {
				panic("batch")
			}
		}
	}
	if c.Big && c.Engine != "v2" {
		panic("big")
	}
	if c.GoMaxProcs < 1 {
		c.GoMaxProcs = 4
	}
	if c.Engine == "v1" {
		for i := range c.Dests {
			c.Dests[i].EmptyAcks = 0 // the v1 reaction to an empty reply is a crash and belongs to C09
		}
	}
	c.eachProc(func(p *ProcSpec) {
		if c.Engine == "v1" || c.Level == "service" {
			p.Cap, p.Hole = 0, nil // short / holed replies are the v2 retry protocol (v1: C09)
		}
		if p.Cap < 0 {
			p.Cap = 0
		}
	})
	return c
}

// ---------------------------------------------------------------------------
// events
// ---------------------------------------------------------------------------

type Ev struct {
	T  string // R F W C QW QC A
	D  int    // destination (W, C) or filter scope (F; -1 = before the fan-out)
	S  int
	K  int
	Ks []int
	Ok bool
}

func (e Ev) JSON() []any {
	switch e.T {
	case "R", "QW":
		return []any{e.T, e.S, e.K}
	case "F", "W":
		return []any{e.T, e.D, e.S, e.K}
	case "C":
		return []any{e.T, e.D, e.S, e.K, e.Ok}
	case "QC":
		return []any{e.T, e.S, e.K, e.Ok}
	default:
		return []any{e.T, e.S, e.Ks}
	}
}

func (e Ev) Coq() string {
	switch e.T {
	case "R":
		return fmt.Sprintf("Read %d %d", e.S, e.K)
	case "F":
		if e.D < 0 {
			return fmt.Sprintf("Filt None %d %d", e.S, e.K)
		}
		return fmt.Sprintf("Filt (Some %d) %d %d", e.D, e.S, e.K)
	case "W":
		return fmt.Sprintf("DestWrite %d %d %d", e.D, e.S, e.K)
	case "C":
		return fmt.Sprintf("DestConfirm %d %d %d %s", e.D, e.S, e.K, hx.Bool(e.Ok))
	case "QW":
		return fmt.Sprintf("DlqWrite %d %d", e.S, e.K)
	case "QC":
		return fmt.Sprintf("DlqConfirm %d %d %s", e.S, e.K, hx.Bool(e.Ok))
	default:
		return fmt.Sprintf("EngineAck %d %s", e.S, hx.Nats(e.Ks))
	}
}

// Log is the one event log of a run.
type Log struct {
	mu  sync.Mutex
	id  int64
	evs []Ev
}

func (l *Log) Add(evs ...Ev) {
	l.mu.Lock()
	l.evs = append(l.evs, evs...)
	emitEvents(l.id, evs) // under l.mu: the streamed order is the log order
	l.mu.Unlock()
}

func (l *Log) Len() int {
	l.mu.Lock()
	defer l.mu.Unlock()
	return len(l.evs)
}

func (l *Log) Snapshot() []Ev {
	l.mu.Lock()
	defer l.mu.Unlock()
	return append([]Ev(nil), l.evs...)
}

// ---------------------------------------------------------------------------
// record identity
// ---------------------------------------------------------------------------

// Position of record k of source s. With collide the same bytes are used by
// every source (positions are only unique within a source).
func posOf(collide bool, s, k int) opencdc.Position {
	if collide {
		return opencdc.Position(fmt.Sprintf("p%04d", k))
	}
	return opencdc.Position(fmt.Sprintf("s%d-%04d", s, k))
}

func kOfPos(p []byte) int {
	str := string(p)
	if i := strings.LastIndexAny(str, "p-"); i >= 0 {
		str = str[i+1:]
	}
	k, err := strconv.Atoi(str)
	if err != nil {
		return 9999
	}
	return k
}

func mkRecord(collide bool, s, k int) opencdc.Record {
	return opencdc.Record{
		Position:  posOf(collide, s, k),
		Operation: opencdc.OperationCreate,
		Metadata:  opencdc.Metadata{"verif.id": fmt.Sprintf("%d:%d", s, k)},
		Key:       opencdc.RawData(fmt.Sprintf("%d:%d", s, k)),
		Payload:   opencdc.Change{After: opencdc.RawData("v")},
	}
}

// idOf recovers (s,k) from the key of a record (processors hand it through).
func idOf(r opencdc.Record) (int, int) {
	var key string
	if r.Key != nil {
		key = string(r.Key.Bytes())
	}
	parts := strings.Split(key, ":")
	if len(parts) != 2 {
		return 99, 9999
	}
	s, e1 := strconv.Atoi(parts[0])
	k, e2 := strconv.Atoi(parts[1])
	if e1 != nil || e2 != nil {
		return 99, 9999
	}
	return s, k
}

func inSet(set [][2]int, s, k int) bool {
	for _, x := range set {
		if x[0] == s && x[1] == k {
			return true
		}
	}
	return false
}

// ---------------------------------------------------------------------------
// gates and the environment scheduler
// ---------------------------------------------------------------------------

type gate struct {
	label string
	slow  bool
	last  bool // HEAD-OF-LINE family: eligible only when nothing but gates of this kind is parked
	held  bool // not eligible before Unhold
	ch    chan struct{}
}

// Sched parks fake connector calls and releases them one at a time in the
// order of the generated choice list.
type Sched struct {
	mu       sync.Mutex
	parked   []*gate
	wake     chan struct{}
	choices  []int
	step     int
	free     bool
	unheld   bool
	released []string
}

func NewSched(choices []int) *Sched {
	return &Sched{wake: make(chan struct{}, 1), choices: choices}
}

// Park blocks until the scheduler releases this call, the context ends or abort
// is closed. It returns ctx.Err() / context.Canceled in the latter cases.
func (s *Sched) Park(ctx context.Context, label string, slow bool, abort <-chan struct{}) error {
	return s.park(ctx, label, slow, false, abort)
}

// ParkLast is Park for a gate that is released only when every other parked call (slow ones
// included) has been released: the call at the head of a line everything else queues behind.
func (s *Sched) ParkLast(ctx context.Context, label string, abort <-chan struct{}) error {
	return s.parkG(ctx, &gate{label: label, slow: true, last: true, ch: make(chan struct{})}, abort)
}

// ParkHeld is Park for a gate that stays closed until Unhold was called.
func (s *Sched) ParkHeld(ctx context.Context, label string, abort <-chan struct{}) error {
	return s.park(ctx, label, false, true, abort)
}

// Unhold makes held gates eligible (the control action has fired).
func (s *Sched) Unhold() {
	s.mu.Lock()
	s.unheld = true
	s.mu.Unlock()
	select {
	case s.wake <- struct{}{}:
	default:
	}
}

// NEligible is the number of parked calls the scheduler may release now.
func (s *Sched) NEligible() int {
	s.mu.Lock()
	defer s.mu.Unlock()
	n := 0
	for _, g := range s.parked {
		if !g.held || s.unheld {
			n++
		}
	}
	return n
}

func (s *Sched) park(ctx context.Context, label string, slow, held bool, abort <-chan struct{}) error {
	return s.parkG(ctx, &gate{label: label, slow: slow, held: held, ch: make(chan struct{})}, abort)
}

func (s *Sched) parkG(ctx context.Context, g *gate, abort <-chan struct{}) error {
	s.mu.Lock()
	if s.free {
		s.mu.Unlock()
		return ctx.Err()
	}
	s.parked = append(s.parked, g)
	s.mu.Unlock()
	select {
	case s.wake <- struct{}{}:
	default:
	}
	select {
	case <-g.ch:
		return nil
	case <-ctx.Done():
		s.remove(g)
		return ctx.Err()
	case <-abort:
		s.remove(g)
		return context.Canceled
	}
}

func (s *Sched) remove(g *gate) {
	s.mu.Lock()
	for i, x := range s.parked {
		if x == g {
			s.parked = append(s.parked[:i], s.parked[i+1:]...)
			break
		}
	}
	s.mu.Unlock()
}

func (s *Sched) NParked() int {
	s.mu.Lock()
	defer s.mu.Unlock()
	return len(s.parked)
}

func (s *Sched) Steps() int {
	s.mu.Lock()
	defer s.mu.Unlock()
	return s.step
}

// ReleaseOne lets the parked set settle, then releases one parked call chosen
// by the next schedule entry. Slow gates are only eligible when nothing else is
// parked, except on every 8th choice value.
func (s *Sched) ReleaseOne(settle time.Duration) bool {
	// let every runnable goroutine reach its next blocking point: spin on the
	// scheduler (timers are too coarse on a loaded machine) until the parked
	// set has been stable for a few yields and at least settle has passed
	t0 := time.Now()
	n, stable := s.NParked(), 0
	for time.Since(t0) < 40*settle {
		runtime.Gosched()
		m := s.NParked()
		if m == n {
			stable++
		} else {
			stable, n = 0, m
		}
		if stable >= 6 && time.Since(t0) >= settle {
			break
		}
	}
	s.mu.Lock()
	defer s.mu.Unlock()
	if len(s.parked) == 0 {
		return false
	}
	c := 0
	if len(s.choices) > 0 {
		c = s.choices[s.step%len(s.choices)]
		if c < 0 {
			c = -c
		}
	}
	cand := make([]int, 0, len(s.parked))
	if c%8 != 7 {
		for i, g := range s.parked {
			if !g.slow && (!g.held || s.unheld) {
				cand = append(cand, i)
			}
		}
	}
	if len(cand) == 0 && c%8 != 7 {
		for i, g := range s.parked {
			if !g.last && (!g.held || s.unheld) {
				cand = append(cand, i)
			}
		}
	}
	if len(cand) == 0 {
		for i, g := range s.parked {
			if !g.held || s.unheld {
				cand = append(cand, i)
			}
		}
	}
	if len(cand) == 0 {
		return false
	}
	i := cand[(c/8)%len(cand)]
	g := s.parked[i]
	s.parked = append(s.parked[:i], s.parked[i+1:]...)
	s.step++
	s.released = append(s.released, g.label)
	close(g.ch)
	return true
}

// FreeRun releases everything parked and lets every later call pass.
func (s *Sched) FreeRun() {
	s.mu.Lock()
	s.free = true
	for _, g := range s.parked {
		close(g.ch)
	}
	s.parked = nil
	s.mu.Unlock()
}

func (s *Sched) Released() []string {
	s.mu.Lock()
	defer s.mu.Unlock()
	return append([]string(nil), s.released...)
}

// ---------------------------------------------------------------------------
// observation of one run
// ---------------------------------------------------------------------------

type Obs struct {
	RunID    int64
	Log      []Ev
	Hang     bool
	Crashed  string   // the engine killed the process (panic in one of its goroutines); Log = what was seen before
	Stuck    string   // known shutdown deadlock of the engine that is unrelated to C01/C04/C05 (see RunV1)
	Results  []string // per worker / node group: "ok" | "err"
	Released []string
	Note     string
	Retries  int // v2: processor calls answered with a short / holed reply (each opens a Retry group)
}

func (o Obs) JSON() map[string]any {
	evs := make([]any, len(o.Log))
	for i, e := range o.Log {
		evs[i] = e.JSON()
	}
	return map[string]any{"log": evs, "hang": o.Hang, "stuck": o.Stuck, "crashed": o.Crashed, "results": o.Results, "released": o.Released, "note": o.Note, "retries": o.Retries}
}

// run is the state the fakes of one run share.
type run struct {
	c     Case
	log   *Log
	sched *Sched

	mu        sync.Mutex
	exhausted map[int]bool
	dlqCount  int

	pendingAcks sync.WaitGroup // deferred source acks not yet delivered
	retries     atomic.Int64   // short / holed processor replies
}

// flushAcks waits (bounded) for the deferred source acks to be delivered; called after
// FreeRun, when every gate is open.
func (x *run) flushAcks() {
	ch := make(chan struct{})
	go func() { x.pendingAcks.Wait(); close(ch) }()
	select {
	case <-ch:
	case <-time.After(time.Second):
	}
}

var runSeq atomic.Int64

func newRun(c Case) *run {
	return &run{c: c, log: &Log{id: runSeq.Add(1)}, sched: NewSched(c.Sched), exhausted: map[int]bool{}}
}

func (x *run) setExhausted(s int) {
	x.mu.Lock()
	x.exhausted[s] = true
	x.mu.Unlock()
	select {
	case x.sched.wake <- struct{}{}:
	default:
	}
}

func (x *run) allExhausted() bool {
	x.mu.Lock()
	defer x.mu.Unlock()
	return len(x.exhausted) == len(x.c.Sources)
}

// nextDlq returns the 1-based index of the next record written to the DLQ.
func (x *run) nextDlq() int {
	x.mu.Lock()
	defer x.mu.Unlock()
	x.dlqCount++
	return x.dlqCount
}

// drive is the environment loop shared by both engines: it releases gates in
// schedule order, fires the control action at its instant, issues the final
// graceful stop once every source is exhausted and nothing is left to release,
// and gives up at the deadline.
//
//	done      closed when the engine has completely finished
//	fire(k)   performs control action k ("stop" / "cancel"); must not block
//	stuck()   non-empty when the engine is in a known, property-unrelated shutdown
//	          deadlock (checked once the run has been idle for a while)
func (x *run) drive(done <-chan struct{}, fire func(kind string), stuck func() string, deadline time.Duration) (hang bool, stuckIn string) {
	const settle = 120 * time.Microsecond
	t0 := time.Now()
	ctlFired, stopIssued := false, false
	idleSince := time.Time{}
	// A run is given up (hang) when nothing was logged or released during [deadline]
	// worth of idle polling rounds of this loop (each sleeps 0.5 ms, so the count only
	// advances while this process is actually being scheduled: on the oversubscribed
	// sandbox a whole process can be starved of CPU for seconds, which wall-clock
	// deadlines mistake for a hang), or after 24x [deadline] of wall time in total.
	lastProgress, progress := time.Now(), -1
	idleRounds, maxIdleRounds := 0, int(deadline/(500*time.Microsecond))
	lastStuckCheck := time.Time{}
	for {
		select {
		case <-done:
			return false, ""
		default:
		}
		if p := x.sched.Steps() + x.log.Len(); p != progress {
			progress, lastProgress, idleRounds = p, time.Now(), 0
		}
		if (idleRounds > maxIdleRounds && time.Since(lastProgress) > deadline) || time.Since(t0) > 24*deadline {
			return true, ""
		}
		if ctl := x.c.Ctl; ctl != nil && !ctlFired && x.sched.Steps() >= ctl.At {
			ctlFired = true
			if ctl.Kind == "stop" {
				stopIssued = true
			}
			fire(ctl.Kind)
			x.sched.Unhold()
		}
		if x.sched.NEligible() > 0 {
			idleSince = time.Time{}
			x.sched.ReleaseOne(settle)
			continue
		}
		if idleSince.IsZero() {
			idleSince = time.Now()
		}
		// Nothing parked. Once all sources are exhausted and the engine has been
		// idle for a while, ask for the graceful stop that ends the run.
		if !stopIssued && x.allExhausted() && time.Since(idleSince) > 3*time.Millisecond {
			stopIssued = true
			fire("stop")
		}
		// A control instant beyond the end of the run fires once the run is idle.
		if ctl := x.c.Ctl; ctl != nil && !ctlFired && time.Since(idleSince) > 20*time.Millisecond {
			ctlFired = true
			if ctl.Kind == "stop" {
				stopIssued = true
			}
			fire(ctl.Kind)
			x.sched.Unhold()
		}
		if stuck != nil && time.Since(idleSince) > 150*time.Millisecond && time.Since(lastStuckCheck) > 100*time.Millisecond {
			lastStuckCheck = time.Now()
			if d := stuck(); d != "" {
				return false, d
			}
		}
		select {
		case <-done:
			return false, ""
		case <-x.sched.wake:
		case <-time.After(500 * time.Microsecond):
			idleRounds++
		}
	}
}
