package enginex

import (
	"bufio"
	"bytes"
	"encoding/json"
	"fmt"
	"io"
	"os"
	"os/exec"
	"strconv"
	"strings"
	"sync"
	"time"
)

// A panic inside a goroutine of the engine under test cannot be recovered from
// outside and would take the harness down with it (and the event log of the run
// that provoked it). The engines are therefore run in a child process of the
// same binary: the supervisor hands it one case at a time, the child streams
// every event as it is logged, and a child that dies mid-case turns into an
// observation (the events seen so far + the first line of the crash message).

// eventSink, when set, receives every event the moment it is logged.
var (
	eventSinkMu sync.Mutex
	eventSink   io.Writer
)

// emitEvents streams events tagged with the id of the run that logged them: a
// goroutine leaked by an earlier run (after a hang or a known shutdown deadlock)
// may still log, and its events must not be taken for the current run's.
func emitEvents(runID int64, evs []Ev) {
	eventSinkMu.Lock()
	defer eventSinkMu.Unlock()
	if eventSink == nil {
		return
	}
	for _, e := range evs {
		b, _ := json.Marshal(e)
		fmt.Fprintf(eventSink, "E %d %s\n", runID, b)
	}
}

type childResult struct {
	RunID    int64    `json:"run"`
	Hang     bool     `json:"hang"`
	Stuck    string   `json:"stuck"`
	Results  []string `json:"results"`
	Released []string `json:"released"`
	Note     string   `json:"note"`
	Retries  int      `json:"retries"`
}

// Serve is the child side: reads one case (JSON) per line, runs it, streams.
func Serve(in io.Reader, out io.Writer, deadline time.Duration) {
	eventSinkMu.Lock()
	eventSink = out
	eventSinkMu.Unlock()
	sc := bufio.NewScanner(in)
	sc.Buffer(make([]byte, 1<<20), 1<<26)
	first := true
	for sc.Scan() {
		var c Case
		if err := json.Unmarshal(sc.Bytes(), &c); err != nil {
			fmt.Fprintf(out, "X bad case: %v\n", err)
			continue
		}
		if first && c.Engine == "v1" {
			// probe with the sink off: the probe's events are not part of the case
			eventSinkMu.Lock()
			eventSink = nil
			eventSinkMu.Unlock()
			k := CloneKeepsFiltered()
			eventSinkMu.Lock()
			eventSink = out
			eventSinkMu.Unlock()
			fmt.Fprintf(out, "K %v\n", k)
			first = false
		}
		fmt.Fprintf(out, "B\n")
		o := Run(c, deadline)
		b, _ := json.Marshal(childResult{o.RunID, o.Hang, o.Stuck, o.Results, o.Released, o.Note, o.Retries})
		fmt.Fprintf(out, "D %s\n", b)
	}
}

// Runner is the supervisor side.
type Runner struct {
	exe     string
	cmd     *exec.Cmd
	stdin   io.WriteCloser
	stdout  *bufio.Scanner
	stderr  *bytes.Buffer
	ckf     bool
	ckfSeen bool
}

func NewRunner() *Runner { return &Runner{exe: os.Args[0]} }

func (r *Runner) start() error {
	r.cmd = exec.Command(r.exe, "--child")
	r.cmd.Env = append(os.Environ(), "GOTRACEBACK=single")
	in, err := r.cmd.StdinPipe()
	if err != nil {
		return err
	}
	outp, err := r.cmd.StdoutPipe()
	if err != nil {
		return err
	}
	r.stderr = &bytes.Buffer{}
	r.cmd.Stderr = r.stderr
	if os.Getenv("VERIF_DUMP") != "" {
		r.cmd.Stderr = os.Stderr // debugging: goroutine dumps of hanging runs
	}
	r.stdin = in
	r.stdout = bufio.NewScanner(outp)
	r.stdout.Buffer(make([]byte, 1<<20), 1<<26)
	return r.cmd.Start()
}

func (r *Runner) Close() {
	if r.cmd != nil {
		r.stdin.Close()
		_ = r.cmd.Wait()
		r.cmd = nil
	}
}

// CloneKeepsFiltered is what the child's probe of the v1 code reported (false
// until a v1 case has run).
func (r *Runner) CloneKeepsFiltered() bool { return r.ckf }

// Run executes one case in the child. A child that dies yields Obs.Crashed.
func (r *Runner) Run(c Case) Obs {
	var o Obs
	if r.cmd == nil {
		if err := r.start(); err != nil {
			o.Note = "cannot start child: " + err.Error()
			return o
		}
	}
	b, _ := json.Marshal(c)
	if _, err := r.stdin.Write(append(b, '\n')); err != nil {
		o.Note = "child stdin: " + err.Error()
	}
	type tagged struct {
		id int64
		e  Ev
	}
	var buf []tagged
	keep := func(id int64) {
		for _, t := range buf {
			if t.id == id {
				o.Log = append(o.Log, t.e)
			}
		}
	}
	var maxID int64
	for r.stdout.Scan() {
		line := r.stdout.Text()
		switch {
		case strings.HasPrefix(line, "E "):
			rest := line[2:]
			sp := strings.IndexByte(rest, ' ')
			if sp < 0 {
				continue
			}
			id, err := strconv.ParseInt(rest[:sp], 10, 64)
			var e Ev
			if err == nil && json.Unmarshal([]byte(rest[sp+1:]), &e) == nil {
				buf = append(buf, tagged{id, e})
				if id > maxID {
					maxID = id
				}
			}
		case strings.HasPrefix(line, "K "):
			r.ckf, r.ckfSeen = line[2:] == "true", true
		case strings.HasPrefix(line, "D "):
			var cr childResult
			_ = json.Unmarshal([]byte(line[2:]), &cr)
			o.Hang, o.Stuck, o.Results, o.Released, o.Note, o.Retries = cr.Hang, cr.Stuck, cr.Results, cr.Released, cr.Note, cr.Retries
			keep(cr.RunID)
			if o.Hang || o.Stuck != "" {
				// goroutines of this run are still blocked inside the engine: start afresh
				r.Close()
			}
			return o
		case strings.HasPrefix(line, "X "):
			o.Note = line[2:]
			return o
		}
	}
	// the child died in the middle of this case
	keep(maxID)
	_ = r.cmd.Wait()
	msg := r.stderr.String()
	if i := strings.Index(msg, "\n"); i >= 0 {
		msg = msg[:i]
	}
	if len(msg) > 300 {
		msg = msg[:300]
	}
	o.Crashed = "engine crashed the process: " + msg
	r.cmd = nil
	return o
}
