package stopx

import (
	"context"
	"errors"
	"fmt"
	"strings"
	"sync"
	"time"

	"github.com/conduitio/conduit-commons/config"
	"github.com/conduitio/conduit-commons/opencdc"
	"github.com/conduitio/conduit-connector-protocol/pconnector"
	sdk "github.com/conduitio/conduit-processor-sdk"
	"github.com/conduitio/conduit/pkg/foundation/log"
	connectorPlugin "github.com/conduitio/conduit/pkg/plugin/connector"
	"github.com/conduitio/conduit/pkg/plugin/connector/builtin"
	"github.com/conduitio/conduit/pkg/plugin/processor/egress"
)

// ---------------------------------------------------------------------------
// fake source plugin: emits numbered records src:1, src:2, ... as the harness
// hands out tokens; one token = one response (a batch of n records)
// ---------------------------------------------------------------------------

type srcState struct {
	id string
	mu sync.Mutex
	cv *sync.Cond

	batches     []int // queued responses (sizes)
	stopDelayUs int   // the plugin's Stop call takes this long (a slow plugin)
	ackHold     bool  // the plugin does not consume acks for the time being (a gate on its ack receive)
	gen         int   // incremented by every Open: a producer of an older run stops
}

func (w *World) src(id string) *srcState {
	w.mu.Lock()
	defer w.mu.Unlock()
	s, ok := w.srcs[id]
	if !ok {
		s = &srcState{id: id}
		s.cv = sync.NewCond(&s.mu)
		w.srcs[id] = s
	}
	return s
}

// SlowStop makes the Stop call of source id take us microseconds.
func (w *World) SlowStop(id string, us int) {
	s := w.src(id)
	s.mu.Lock()
	s.stopDelayUs = us
	s.mu.Unlock()
}

// HoldAcks parks (hold=true) or resumes the consumption of acks by source id's plugin: while
// parked the plugin does not receive from its stream, so the engine's ack send stays in flight.
func (w *World) HoldAcks(id string, hold bool) {
	s := w.src(id)
	s.mu.Lock()
	s.ackHold = hold
	s.mu.Unlock()
	s.cv.Broadcast()
}

// Emit lets source id hand out one more response with n records.
func (w *World) Emit(id string, n int) {
	s := w.src(id)
	s.mu.Lock()
	s.batches = append(s.batches, n)
	s.mu.Unlock()
	s.cv.Broadcast()
}

type srcPlugin struct {
	w  *World
	st *srcState

	mu         sync.Mutex
	next       int // last record handed out (or resumed from)
	maxStarted int
	openPos    int // the position this run resumed from
	stopped    bool
	done       chan struct{}
	doneOnce   sync.Once
	gen        int
	ackDone    chan struct{} // closed when the goroutine that receives the acks has ended
}

var _ connectorPlugin.SourcePlugin = (*srcPlugin)(nil)

func (p *srcPlugin) Configure(context.Context, pconnector.SourceConfigureRequest) (pconnector.SourceConfigureResponse, error) {
	return pconnector.SourceConfigureResponse{}, nil
}

func (p *srcPlugin) Open(_ context.Context, req pconnector.SourceOpenRequest) (pconnector.SourceOpenResponse, error) {
	_, k := ParsePos(req.Position)
	p.mu.Lock()
	p.next, p.maxStarted, p.openPos = k, k, k
	p.mu.Unlock()
	p.st.mu.Lock()
	p.st.gen++
	p.gen = p.st.gen
	p.st.mu.Unlock()
	p.st.cv.Broadcast()
	p.w.Log(Ev{K: "open", C: p.st.id, N: k})
	return pconnector.SourceOpenResponse{}, nil
}

func (p *srcPlugin) Run(ctx context.Context, stream pconnector.SourceRunStream) error {
	s, ok := stream.(*builtin.InMemorySourceRunStream)
	if !ok {
		return fmt.Errorf("fake source: unexpected stream type %T", stream)
	}
	s.Init(ctx)
	server := s.Server()
	go p.produce(server)
	p.mu.Lock()
	p.ackDone = make(chan struct{})
	ackDone := p.ackDone
	p.mu.Unlock()
	go func() {
		defer close(ackDone)
		for {
			p.st.mu.Lock()
			for p.st.ackHold && !p.isDone() {
				p.st.cv.Wait()
			}
			p.st.mu.Unlock()
			req, err := server.Recv()
			if err != nil {
				return
			}
			for _, pos := range req.AckPositions {
				_, k := ParsePos(pos)
				p.w.Log(Ev{K: "pack", C: p.st.id, N: k})
			}
		}
	}()
	go func() { // wake the producer when the stream dies
		<-ctx.Done()
		p.finish()
	}()
	return nil
}

func (p *srcPlugin) finish() {
	p.doneOnce.Do(func() { close(p.done) })
	p.st.cv.Broadcast()
}

func (p *srcPlugin) isDone() bool {
	select {
	case <-p.done:
		return true
	default:
		return false
	}
}

func (p *srcPlugin) produce(server pconnector.SourceRunStreamServer) {
	st := p.st
	for {
		st.mu.Lock()
		for len(st.batches) == 0 && !p.isDone() && st.gen == p.gen {
			st.cv.Wait()
		}
		if p.isDone() || st.gen != p.gen {
			st.mu.Unlock()
			return
		}
		n := st.batches[0]
		p.mu.Lock()
		if p.stopped {
			p.mu.Unlock()
			st.mu.Unlock()
			return
		}
		st.batches = st.batches[1:]
		first := p.next + 1
		p.maxStarted = p.next + n
		p.mu.Unlock()
		st.mu.Unlock()

		recs := make([]opencdc.Record, n)
		for i := range recs {
			k := first + i
			recs[i] = opencdc.Record{
				Position:  Pos(st.id, k),
				Operation: opencdc.OperationCreate,
				Metadata:  opencdc.Metadata{},
				Key:       opencdc.RawData(fmt.Sprintf("%s:%d", st.id, k)),
				Payload:   opencdc.Change{After: opencdc.RawData("v")},
			}
			// logged before the hand-off so that no consequence of the read can precede it
			p.w.Log(Ev{K: "read", C: st.id, N: k})
		}
		if err := server.Send(pconnector.SourceRunResponse{Records: recs}); err != nil {
			for i := n - 1; i >= 0; i-- {
				p.w.Log(Ev{K: "unread", C: st.id, N: first + i})
			}
			return
		}
		p.mu.Lock()
		p.next += n
		p.mu.Unlock()
	}
}

func (p *srcPlugin) Stop(ctx context.Context, _ pconnector.SourceStopRequest) (pconnector.SourceStopResponse, error) {
	p.st.mu.Lock()
	d := p.st.stopDelayUs
	p.st.mu.Unlock()
	if d > 0 {
		p.w.Log(Ev{K: "pstopping", C: p.st.id})
		time.Sleep(time.Duration(d) * time.Microsecond)
	}
	p.mu.Lock()
	p.stopped = true
	last := p.maxStarted
	p.mu.Unlock()
	p.st.cv.Broadcast()
	p.w.Log(Ev{K: "pstop", C: p.st.id, N: last})
	if last == p.openPos {
		// nothing was handed out in this run: like the connector SDK, report no last position
		// (the engine would otherwise wait for a record of the previous run)
		return pconnector.SourceStopResponse{}, p.w.ctxErr(ctx)
	}
	if err := p.w.ctxErr(ctx); err != nil {
		return pconnector.SourceStopResponse{}, err
	}
	return pconnector.SourceStopResponse{LastPosition: Pos(p.st.id, last)}, nil
}

func (p *srcPlugin) Teardown(ctx context.Context, _ pconnector.SourceTeardownRequest) (pconnector.SourceTeardownResponse, error) {
	p.finish()
	// The engine closes the stream before it tears the plugin down, so the goroutine that
	// receives the acks ends now; wait for it so that every ack it received is in the log
	// before the teardown is (the log stays a faithful linearisation).
	p.mu.Lock()
	ackDone := p.ackDone
	p.mu.Unlock()
	if ackDone != nil {
		select {
		case <-ackDone:
		case <-time.After(time.Second):
		}
	}
	p.w.Log(Ev{K: "td", C: p.st.id})
	return pconnector.SourceTeardownResponse{}, p.w.ctxErr(ctx)
}

func (p *srcPlugin) LifecycleOnCreated(context.Context, pconnector.SourceLifecycleOnCreatedRequest) (pconnector.SourceLifecycleOnCreatedResponse, error) {
	return pconnector.SourceLifecycleOnCreatedResponse{}, nil
}
func (p *srcPlugin) LifecycleOnUpdated(context.Context, pconnector.SourceLifecycleOnUpdatedRequest) (pconnector.SourceLifecycleOnUpdatedResponse, error) {
	return pconnector.SourceLifecycleOnUpdatedResponse{}, nil
}
func (p *srcPlugin) LifecycleOnDeleted(context.Context, pconnector.SourceLifecycleOnDeletedRequest) (pconnector.SourceLifecycleOnDeletedResponse, error) {
	return pconnector.SourceLifecycleOnDeletedResponse{}, nil
}
func (p *srcPlugin) NewStream() pconnector.SourceRunStream { return &builtin.InMemorySourceRunStream{} }

// ---------------------------------------------------------------------------
// fake destination plugin (also the DLQ): every record waits for a verdict of
// the harness ("ok" / "nack") before its ack is sent
// ---------------------------------------------------------------------------

type dstState struct {
	id string
	mu sync.Mutex
	cv *sync.Cond

	verdicts []bool // queued verdicts (true = ok)
	gen      int
}

func (w *World) dst(id string) *dstState {
	w.mu.Lock()
	defer w.mu.Unlock()
	d, ok := w.dsts[id]
	if !ok {
		d = &dstState{id: id}
		d.cv = sync.NewCond(&d.mu)
		w.dsts[id] = d
	}
	return d
}

// Verdict queues n verdicts for destination id (the DLQ destinations are addressed as "dlq").
func (w *World) Verdict(id string, ok bool, n int) {
	w.mu.Lock()
	var targets []*dstState
	for k, d := range w.dsts {
		if k == id || (id == "dlq" && IsDLQ(k)) {
			targets = append(targets, d)
		}
	}
	w.mu.Unlock()
	if len(targets) == 0 && id != "dlq" {
		targets = append(targets, w.dst(id))
	}
	for _, d := range targets {
		d.mu.Lock()
		for i := 0; i < n; i++ {
			d.verdicts = append(d.verdicts, ok)
		}
		d.mu.Unlock()
		d.cv.Broadcast()
	}
}

// ReleaseVerdicts lets every destination (and DLQ) confirm from now on.
func (w *World) ReleaseVerdicts() {
	w.mu.Lock()
	w.auto = true
	var ds []*dstState
	for _, d := range w.dsts {
		ds = append(ds, d)
	}
	w.mu.Unlock()
	for _, d := range ds {
		d.cv.Broadcast()
	}
}

// Release opens every gate for good.
func (w *World) Release() {
	w.ReleaseVerdicts()
	w.mu.Lock()
	var ss []*srcState
	for _, s := range w.srcs {
		ss = append(ss, s)
	}
	w.mu.Unlock()
	for _, s := range ss {
		s.mu.Lock()
		s.ackHold = false
		s.mu.Unlock()
		s.cv.Broadcast()
	}
	w.mu.Lock()
	w.noHold = true
	w.mu.Unlock()
	w.ReleaseCommits()
}

func (w *World) isAuto() bool {
	w.mu.Lock()
	defer w.mu.Unlock()
	return w.auto
}

func IsDLQ(connectorID string) bool { return strings.Contains(connectorID, "-dlq") }

type dstPlugin struct {
	w    *World
	st   *dstState
	kind string // "d" or "q"

	done     chan struct{}
	doneOnce sync.Once
	gen      int
	mu       sync.Mutex
	loopDone chan struct{} // closed when the goroutine that receives the writes has ended

	// batching mode
	pending  []pendRec // written, not yet answered
	sent     int       // records the engine handed to the transport
	consumed int       // acks the engine took from the transport
}

var _ connectorPlugin.DestinationPlugin = (*dstPlugin)(nil)

func (p *dstPlugin) Configure(context.Context, pconnector.DestinationConfigureRequest) (pconnector.DestinationConfigureResponse, error) {
	return pconnector.DestinationConfigureResponse{}, nil
}

func (p *dstPlugin) Open(context.Context, pconnector.DestinationOpenRequest) (pconnector.DestinationOpenResponse, error) {
	p.st.mu.Lock()
	p.st.gen++
	p.gen = p.st.gen
	p.st.mu.Unlock()
	p.st.cv.Broadcast()
	p.w.Log(Ev{K: "open", C: p.st.id})
	return pconnector.DestinationOpenResponse{}, nil
}

func (p *dstPlugin) finish() {
	p.doneOnce.Do(func() { close(p.done) })
	p.st.cv.Broadcast()
}

func (p *dstPlugin) isDone() bool {
	select {
	case <-p.done:
		return true
	default:
		return false
	}
}

func (p *dstPlugin) Run(ctx context.Context, stream pconnector.DestinationRunStream) error {
	var s *builtin.InMemoryDestinationRunStream
	switch x := stream.(type) {
	case *builtin.InMemoryDestinationRunStream:
		s = x
	case *lagStream:
		s = x.InMemoryDestinationRunStream
	default:
		return fmt.Errorf("fake destination: unexpected stream type %T", stream)
	}
	s.Init(ctx)
	server := s.Server()
	go func() {
		<-ctx.Done()
		p.finish()
	}()
	p.mu.Lock()
	p.loopDone = make(chan struct{})
	loopDone := p.loopDone
	p.mu.Unlock()
	if p.batching() {
		go p.runBatching(server, loopDone)
		return nil
	}
	go func() {
		defer close(loopDone)
		for {
			req, err := server.Recv()
			if err != nil {
				return
			}
			acks := make([]pconnector.DestinationRunResponseAck, 0, len(req.Records))
			for _, r := range req.Records {
				src, k := ParsePos(r.Position)
				p.w.Log(Ev{K: p.kind + "write", C: p.st.id, S: src, N: k, A: r.Metadata["verif.p1"], X: r.Metadata["verif.chain"]})
			}
			for _, r := range req.Records {
				src, k := ParsePos(r.Position)
				verdict, alive := p.verdict()
				if !alive {
					return
				}
				a := pconnector.DestinationRunResponseAck{Position: r.Position}
				x := "ok"
				if !verdict {
					a.Error = "fake destination: record refused"
					x = "nack"
				}
				// logged before the ack is sent so that no consequence of it can precede it
				p.w.Log(Ev{K: p.kind + "conf", C: p.st.id, S: src, N: k, X: x})
				acks = append(acks, a)
			}
			if err := server.Send(pconnector.DestinationRunResponse{Acks: acks}); err != nil {
				for i := len(acks) - 1; i >= 0; i-- {
					src, k := ParsePos(acks[i].Position)
					p.w.Log(Ev{K: p.kind + "unconf", C: p.st.id, S: src, N: k})
				}
				return
			}
		}
	}()
	return nil
}

// verdict blocks until the harness decided about the next record (or everything is released).
func (p *dstPlugin) verdict() (ok bool, alive bool) {
	st := p.st
	st.mu.Lock()
	defer st.mu.Unlock()
	for len(st.verdicts) == 0 && !p.isDone() && !p.w.isAuto() {
		st.cv.Wait()
	}
	if len(st.verdicts) > 0 {
		v := st.verdicts[0]
		st.verdicts = st.verdicts[1:]
		return v, true
	}
	if p.isDone() {
		return false, false
	}
	return true, true // released
}

func (p *dstPlugin) Stop(ctx context.Context, _ pconnector.DestinationStopRequest) (pconnector.DestinationStopResponse, error) {
	return pconnector.DestinationStopResponse{}, p.w.ctxErr(ctx)
}

func (p *dstPlugin) Teardown(ctx context.Context, _ pconnector.DestinationTeardownRequest) (pconnector.DestinationTeardownResponse, error) {
	p.finish()
	// the engine closed the stream before: wait for the receiving goroutine so that whatever it
	// received is in the log before the teardown is
	p.mu.Lock()
	loopDone := p.loopDone
	p.mu.Unlock()
	if loopDone != nil {
		select {
		case <-loopDone:
		case <-time.After(time.Second):
		}
	}
	p.w.Log(Ev{K: "td", C: p.st.id})
	return pconnector.DestinationTeardownResponse{}, p.w.ctxErr(ctx)
}

func (p *dstPlugin) LifecycleOnCreated(context.Context, pconnector.DestinationLifecycleOnCreatedRequest) (pconnector.DestinationLifecycleOnCreatedResponse, error) {
	return pconnector.DestinationLifecycleOnCreatedResponse{}, nil
}
func (p *dstPlugin) LifecycleOnUpdated(context.Context, pconnector.DestinationLifecycleOnUpdatedRequest) (pconnector.DestinationLifecycleOnUpdatedResponse, error) {
	return pconnector.DestinationLifecycleOnUpdatedResponse{}, nil
}
func (p *dstPlugin) LifecycleOnDeleted(context.Context, pconnector.DestinationLifecycleOnDeletedRequest) (pconnector.DestinationLifecycleOnDeletedResponse, error) {
	return pconnector.DestinationLifecycleOnDeletedResponse{}, nil
}
func (p *dstPlugin) NewStream() pconnector.DestinationRunStream {
	if p.batching() {
		return &lagStream{InMemoryDestinationRunStream: &builtin.InMemoryDestinationRunStream{}, p: p}
	}
	return &builtin.InMemoryDestinationRunStream{}
}

// ---------------------------------------------------------------------------
// batching destination (Topo.AckBatch > 1): one ack response covers several
// written records, and it may reach the engine before the Write call of the
// last of them has returned
// ---------------------------------------------------------------------------

const (
	batchDelay = 3 * time.Millisecond // an incomplete batch is answered this long after its first verdict
	lagMax     = 8 * time.Millisecond // a Write is handed back at the latest after this
	lagAfter   = 3 * time.Millisecond // ... or this long after the response that covers it was consumed
)

func (p *dstPlugin) batching() bool { return p.kind == "d" && p.w.ackBatch > 1 }

type pendRec struct {
	pos []byte
	src string
	k   int
}

// tryVerdict is verdict without blocking.
func (p *dstPlugin) tryVerdict() (ok bool, have bool) {
	st := p.st
	st.mu.Lock()
	defer st.mu.Unlock()
	if len(st.verdicts) > 0 {
		v := st.verdicts[0]
		st.verdicts = st.verdicts[1:]
		return v, true
	}
	if p.w.isAuto() {
		return true, true
	}
	return false, false
}

func (p *dstPlugin) runBatching(server pconnector.DestinationRunStreamServer, loopDone chan struct{}) {
	var recvWg sync.WaitGroup
	recvWg.Add(1)
	go func() { // receiver: the plugin keeps taking writes while earlier ones wait for their answer
		defer recvWg.Done()
		for {
			req, err := server.Recv()
			if err != nil {
				return
			}
			p.mu.Lock()
			for _, r := range req.Records {
				src, k := ParsePos(r.Position)
				p.w.Log(Ev{K: "dwrite", C: p.st.id, S: src, N: k, A: r.Metadata["verif.p1"], X: r.Metadata["verif.chain"]})
				p.pending = append(p.pending, pendRec{pos: r.Position, src: src, k: k})
			}
			p.mu.Unlock()
		}
	}()
	defer func() {
		recvWg.Wait()
		close(loopDone)
	}()
	for {
		var acks []pconnector.DestinationRunResponseAck
		var oks []bool
		var first time.Time
		for {
			if p.isDone() {
				return
			}
			for {
				p.mu.Lock()
				more := len(p.pending) > len(acks)
				var r pendRec
				if more {
					r = p.pending[len(acks)]
				}
				p.mu.Unlock()
				if !more || len(acks) >= p.w.ackBatch {
					break
				}
				v, have := p.tryVerdict()
				if !have {
					break
				}
				a := pconnector.DestinationRunResponseAck{Position: r.pos}
				if !v {
					a.Error = "fake destination: record refused"
				}
				if len(acks) == 0 {
					first = time.Now()
				}
				acks = append(acks, a)
				oks = append(oks, v)
			}
			if len(acks) >= p.w.ackBatch || (len(acks) > 0 && time.Since(first) >= batchDelay) {
				break
			}
			time.Sleep(100 * time.Microsecond)
		}
		p.mu.Lock()
		recs := append([]pendRec{}, p.pending[:len(acks)]...)
		p.pending = p.pending[len(acks):]
		p.mu.Unlock()
		for i, r := range recs {
			x := "ok"
			if !oks[i] {
				x = "nack"
			}
			// logged before the response is sent so that no consequence of it can precede it
			p.w.Log(Ev{K: "dconf", C: p.st.id, S: r.src, N: r.k, X: x})
		}
		if err := server.Send(pconnector.DestinationRunResponse{Acks: acks}); err != nil {
			for i := len(recs) - 1; i >= 0; i-- {
				p.w.Log(Ev{K: "dunconf", C: p.st.id, S: recs[i].src, N: recs[i].k})
			}
			return
		}
	}
}

// lagStream is the in-memory stream with a client whose Send returns late: a Write that arrives while
// earlier records are still unanswered (it may complete a batch) is handed back to the engine only
// after the response covering it was consumed by the engine, plus lagAfter (at most lagMax).
type lagStream struct {
	*builtin.InMemoryDestinationRunStream
	p *dstPlugin
}

func (s *lagStream) Client() pconnector.DestinationRunStreamClient {
	return &lagClient{inner: s.InMemoryDestinationRunStream.Client(), p: s.p}
}

type lagClient struct {
	inner pconnector.DestinationRunStreamClient
	p     *dstPlugin
}

func (c *lagClient) Send(req pconnector.DestinationRunRequest) error {
	p := c.p
	p.mu.Lock()
	lag := p.sent > p.consumed // earlier records are unanswered
	p.sent += len(req.Records)
	mine := p.sent
	p.mu.Unlock()
	if err := c.inner.Send(req); err != nil {
		return err
	}
	if !lag {
		return nil
	}
	deadline := time.Now().Add(lagMax)
	for time.Now().Before(deadline) && !p.isDone() {
		p.mu.Lock()
		covered := p.consumed >= mine
		p.mu.Unlock()
		if covered {
			time.Sleep(lagAfter)
			break
		}
		time.Sleep(100 * time.Microsecond)
	}
	return nil
}

func (c *lagClient) Recv() (pconnector.DestinationRunResponse, error) {
	resp, err := c.inner.Recv()
	if err == nil {
		c.p.mu.Lock()
		c.p.consumed += len(resp.Acks)
		c.p.mu.Unlock()
	}
	return resp, err
}

// ---------------------------------------------------------------------------
// dispensers
// ---------------------------------------------------------------------------

type dispenser struct {
	w  *World
	id string
}

func (d dispenser) DispenseSpecifier() (connectorPlugin.SpecifierPlugin, error) {
	return nil, errors.New("fake dispenser: no specifier")
}
func (d dispenser) DispenseSource() (connectorPlugin.SourcePlugin, error) {
	return &srcPlugin{w: d.w, st: d.w.src(d.id), done: make(chan struct{})}, nil
}
func (d dispenser) DispenseDestination() (connectorPlugin.DestinationPlugin, error) {
	kind := "d"
	if IsDLQ(d.id) {
		kind = "q"
	}
	return &dstPlugin{w: d.w, st: d.w.dst(d.id), kind: kind, done: make(chan struct{})}, nil
}

// PluginService implements the lifecycle services' ConnectorPluginService.
type PluginService struct{ W *World }

func (p PluginService) NewDispenser(_ log.CtxLogger, _ string, connectorID string) (connectorPlugin.Dispenser, error) {
	return dispenser{w: p.W, id: connectorID}, nil
}

// ---------------------------------------------------------------------------
// fake processor plugin: passes records through; instance n of processor id
// stamps "id#n" so that a live swap is visible in the records
// ---------------------------------------------------------------------------

type procPlugin struct {
	sdk.UnimplementedProcessor
	w    *World
	id   string
	inst int
	fail bool
}

func (p *procPlugin) Specification() (sdk.Specification, error) {
	return sdk.Specification{Name: "fake-proc", Version: "v0.0.1"}, nil
}
func (p *procPlugin) Configure(context.Context, config.Config) error { return nil }

// ErrProcOpen is what a fake processor instance armed with FailNext answers to Open.
var ErrProcOpen = errors.New("fake processor: open refused")

func (p *procPlugin) Open(context.Context) error {
	if p.fail {
		p.w.Log(Ev{K: "popenfail", C: p.id, N: p.inst})
		return ErrProcOpen
	}
	p.w.Log(Ev{K: "popen", C: p.id, N: p.inst})
	return nil
}
func (p *procPlugin) Process(_ context.Context, recs []opencdc.Record) []sdk.ProcessedRecord {
	res := make([]sdk.ProcessedRecord, len(recs))
	for i, r := range recs {
		src, k := ParsePos(r.Position)
		p.w.Log(Ev{K: "proc", C: p.id, S: src, N: k, A: fmt.Sprint(p.inst)})
		r2 := r.Clone()
		if r2.Metadata == nil {
			r2.Metadata = opencdc.Metadata{}
		}
		r2.Metadata["verif."+p.id] = fmt.Sprint(p.inst) // which instance handled the record
		r2.Metadata["verif.chain"] += fmt.Sprintf("%s#%d;", p.id, p.inst)
		res[i] = sdk.SingleRecord(r2)
	}
	return res
}
func (p *procPlugin) Teardown(context.Context) error {
	p.w.Log(Ev{K: "ptd", C: p.id, N: p.inst})
	return nil
}

// ProcRegistry implements processor.PluginService. Every NewProcessor call yields
// a new instance number per processor id; FailNext makes the next instance refuse Open.
type ProcRegistry struct {
	W *World

	mu       sync.Mutex
	count    map[string]int
	failNext map[string]bool
	// Create probes a plugin with a throw-away instance: those are not logged
	quiet bool
}

func NewProcRegistry(w *World) *ProcRegistry {
	return &ProcRegistry{W: w, count: map[string]int{}, failNext: map[string]bool{}, quiet: true}
}

func (r *ProcRegistry) Arm() {
	r.mu.Lock()
	r.quiet = false
	r.mu.Unlock()
}

func (r *ProcRegistry) FailNext(id string) {
	r.mu.Lock()
	r.failNext[id] = true
	r.mu.Unlock()
}

// MissingProcPlugin is a plugin name the registry cannot dispense (C13: a live reconfiguration or
// a start whose runnable cannot be BUILT).
const MissingProcPlugin = "missing-proc"

// ErrProcMissing is what the registry answers for MissingProcPlugin.
var ErrProcMissing = errors.New("fake processor registry: plugin not found")

// Count is the number of plugins dispensed for processor id since Arm.
func (r *ProcRegistry) Count(id string) int {
	r.mu.Lock()
	defer r.mu.Unlock()
	return r.count[id]
}

func (r *ProcRegistry) NewProcessor(_ context.Context, plugin string, id string, _ egress.Policy) (sdk.Processor, error) {
	r.mu.Lock()
	defer r.mu.Unlock()
	if plugin == MissingProcPlugin {
		return nil, ErrProcMissing
	}
	if r.quiet {
		return &quietProc{}, nil
	}
	r.count[id]++
	p := &procPlugin{w: r.W, id: id, inst: r.count[id], fail: r.failNext[id]}
	delete(r.failNext, id)
	return p, nil
}

type quietProc struct{ sdk.UnimplementedProcessor }

func (quietProc) Specification() (sdk.Specification, error) {
	return sdk.Specification{Name: "fake-proc", Version: "v0.0.1"}, nil
}
func (quietProc) Configure(context.Context, config.Config) error { return nil }
func (quietProc) Open(context.Context) error                     { return nil }
func (quietProc) Process(_ context.Context, recs []opencdc.Record) []sdk.ProcessedRecord {
	res := make([]sdk.ProcessedRecord, len(recs))
	for i, r := range recs {
		res[i] = sdk.SingleRecord(r)
	}
	return res
}
func (quietProc) Teardown(context.Context) error { return nil }
