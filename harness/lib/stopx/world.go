// Package stopx assembles the REAL lifecycle service of either engine (v1:
// pkg/lifecycle, v2: pkg/lifecycle-poc) together with the real connector,
// processor and pipeline services on an in-memory database, behind fake
// connector / processor plugins whose replies are released by the harness
// (properties C06, C12 and the service-level part of C13).
//
// Everything observable is appended to one mutex-guarded event log, so the log
// is a linearisation consistent with real time.
package stopx

import (
	"context"
	"sort"
	"strconv"
	"strings"
	"sync"
	"time"
)

// Ev is one observable event.
//
//	read   C=source          N=k           the source plugin handed record k to the engine
//	unread C=source          N=k           ... but the hand-off failed (stream closed): record k was not read
//	dwrite C=destination S=source N=k      destination plugin received record (S,k)
//	dconf  C=destination S=source N=k X=ok|nack
//	qwrite C=dlq         S=source N=k      DLQ destination plugin received the dead letter of (S,k)
//	qconf  C=dlq         S=source N=k X=ok|nack
//	pack   C=source          N=k           the source plugin received the ack of record k
//	commit X=snapshot                      a store transaction was committed; Snap: connector -> k of its position
//	open   C=connector   X=position(k)     plugin Open (sources: the position they resume from)
//	td     C=connector                     plugin Teardown
//	popen / ptd C=processor                processor plugin Open / Teardown
//	call   X=name N=id ; ret X=name A=class N=id
//	status X=status
type Ev struct {
	K    string         `json:"k"`
	C    string         `json:"c,omitempty"`
	S    string         `json:"s,omitempty"`
	N    int            `json:"n,omitempty"`
	X    string         `json:"x,omitempty"`
	A    string         `json:"a,omitempty"`
	Snap map[string]int `json:"snap,omitempty"`
}

type World struct {
	mu  sync.Mutex
	evs []Ev

	// release mode: every destination confirms
	auto bool
	// commits can no longer be held
	noHold bool
	// the fake connector plugins answer ctx.Err() to a Stop / Teardown made with a cancelled context
	strictCtx bool
	// > 1: destinations cover up to this many records with one ack response (Topo.AckBatch)
	ackBatch int

	srcs map[string]*srcState
	dsts map[string]*dstState

	commitGate chan struct{} // nil = commits are not gated
	commitHeld int
}

func NewWorld() *World {
	return &World{srcs: map[string]*srcState{}, dsts: map[string]*dstState{}}
}

// ctxErr is what a plugin call made with ctx answers once its work is done: nil, or - for plugins that
// honour the context like the built-in sandbox and gRPC transports do (Topo.StrictCtx) - ctx.Err().
func (w *World) ctxErr(ctx context.Context) error {
	if w.strictCtx && ctx != nil {
		return ctx.Err()
	}
	return nil
}

func (w *World) Log(e Ev) int {
	w.mu.Lock()
	defer w.mu.Unlock()
	w.evs = append(w.evs, e)
	return len(w.evs)
}

func (w *World) Len() int {
	w.mu.Lock()
	defer w.mu.Unlock()
	return len(w.evs)
}

func (w *World) Events() []Ev {
	w.mu.Lock()
	defer w.mu.Unlock()
	return append([]Ev{}, w.evs...)
}

// WaitFor polls the log until pred holds or d elapsed.
func (w *World) WaitFor(d time.Duration, pred func([]Ev) bool) bool {
	deadline := time.Now().Add(d)
	for {
		w.mu.Lock()
		ok := pred(w.evs)
		w.mu.Unlock()
		if ok {
			return true
		}
		if time.Now().After(deadline) {
			return false
		}
		time.Sleep(50 * time.Microsecond)
	}
}

// Settle waits until the log did not grow for quiet, at most max.
func (w *World) Settle(quiet, max time.Duration) {
	deadline := time.Now().Add(max)
	last := w.Len()
	lastChange := time.Now()
	for time.Now().Before(deadline) {
		time.Sleep(40 * time.Microsecond)
		n := w.Len()
		if n != last {
			last, lastChange = n, time.Now()
		} else if time.Since(lastChange) >= quiet {
			return
		}
	}
}

// ---------- positions ----------

func Pos(src string, k int) []byte { return []byte(src + ":" + strconv.Itoa(k)) }

// ParsePos accepts "src:k", "src/src:k" (v1 dead letter) and "" (k = 0).
func ParsePos(p []byte) (string, int) {
	s := string(p)
	if i := strings.LastIndex(s, "/"); i >= 0 {
		s = s[i+1:]
	}
	i := strings.LastIndex(s, ":")
	if i < 0 {
		return "", 0
	}
	k, err := strconv.Atoi(s[i+1:])
	if err != nil {
		return "", 0
	}
	return s[:i], k
}

func sortedKeys(m map[string]int) []string {
	ks := make([]string, 0, len(m))
	for k := range m {
		ks = append(ks, k)
	}
	sort.Strings(ks)
	return ks
}
