package stopx

import (
	"context"
	"fmt"
	"strings"
	"sync"
	"time"

	"github.com/conduitio/conduit-commons/database"
	"github.com/conduitio/conduit-commons/database/inmemory"
	"github.com/conduitio/conduit/pkg/connector"
	"github.com/conduitio/conduit/pkg/foundation/cerrors"
	"github.com/conduitio/conduit/pkg/foundation/log"
	lifecyclev1 "github.com/conduitio/conduit/pkg/lifecycle"
	lifecyclev2 "github.com/conduitio/conduit/pkg/lifecycle-poc"
	"github.com/conduitio/conduit/pkg/pipeline"
	"github.com/conduitio/conduit/pkg/processor"
)

// Topo is the shape of the one pipeline of a case.
type Topo struct {
	Engine  string `json:"engine"`  // v1 | v2
	Sources int    `json:"sources"` // s1..sN
	Dests   int    `json:"dests"`   // d1..dM
	Procs   int    `json:"procs"`   // pipeline processors p1..pK (single worker)
	// ProcNames, if set, are the ids of the pipeline processors in chain order (instead of p1..pK)
	ProcNames []string `json:"proc_names,omitempty"`
	SrcProc   bool     `json:"src_proc"` // one processor attached to s1
	Workers   int      `json:"workers"`  // >1: the first pipeline processor runs with this many workers (v1: ParallelNode)
	DLQSize   int      `json:"dlq_size"` // nack window
	DLQThr    int      `json:"dlq_thr"`
	// StrictCtx: the fake connector plugins honour the context of their Stop / Teardown calls the way
	// every real plugin transport does (builtin.runSandbox, a gRPC client): the call does its work and
	// answers ctx.Err() when it was made with a context that is already cancelled (the Stop / Teardown
	// calls that end a force-stopped run are made with the cancelled connector context)
	StrictCtx bool `json:"strict_ctx,omitempty"`
	// AckBatch > 1: the fake destination plugins batch their acks: one Ack response covers up to AckBatch
	// written records (sent when that many have their verdict, or 3 ms after the first of them), and the
	// transport hands a Write that completes such a batch back to the engine only after the response was
	// consumed (the plugin answered before the engine's Write call returned)
	AckBatch int `json:"ack_batch,omitempty"`
}

const PipelineID = "pl"

// ShutdownWait is the exit timeout handed to the lifecycle service's Wait by the "shutdown" call
// (conduit's runtime uses 30 s).
const ShutdownWait = 30 * time.Second

// gatedDB wraps the in-memory DB: every transaction commit passes the commit gate and is
// logged together with the durable position of every source connector.
type gatedDB struct {
	database.DB
	w     *World
	store *connector.Store
	srcs  []string
}

type gatedTx struct {
	database.Transaction
	db *gatedDB
}

func (d *gatedDB) NewTransaction(ctx context.Context, update bool) (database.Transaction, context.Context, error) {
	tx, ctx2, err := d.DB.NewTransaction(ctx, update)
	if err != nil || !update {
		return tx, ctx2, err
	}
	return &gatedTx{Transaction: tx, db: d}, ctx2, nil
}

func (t *gatedTx) Commit() error {
	w := t.db.w
	w.mu.Lock()
	g := w.commitGate
	w.mu.Unlock()
	if g != nil {
		<-g
	}
	// commit and snapshot are one atomic step with respect to the log
	w.mu.Lock()
	defer w.mu.Unlock()
	err := t.Transaction.Commit()
	if err != nil {
		w.evs = append(w.evs, Ev{K: "commitfail"})
		return err
	}
	w.evs = append(w.evs, Ev{K: "commit", Snap: t.db.snapshot()})
	return nil
}

func (d *gatedDB) snapshot() map[string]int {
	snap := map[string]int{}
	for _, id := range d.srcs {
		inst, err := d.store.Get(context.Background(), id)
		if err != nil || inst == nil {
			continue
		}
		if st, ok := inst.State.(connector.SourceState); ok {
			_, k := ParsePos(st.Position)
			snap[id] = k
		}
	}
	return snap
}

// HoldCommits closes the commit gate (transactions block in Commit until ReleaseCommits).
func (w *World) HoldCommits() {
	w.mu.Lock()
	if w.commitGate == nil && !w.noHold {
		w.commitGate = make(chan struct{})
	}
	w.mu.Unlock()
}

func (w *World) ReleaseCommits() {
	w.mu.Lock()
	g := w.commitGate
	w.commitGate = nil
	w.mu.Unlock()
	if g != nil {
		close(g)
	}
}

// statusWrap logs every status write once it is visible.
type statusWrap struct {
	w  *World
	ps *pipeline.Service
}

func (s *statusWrap) Get(ctx context.Context, id string) (*pipeline.Instance, error) {
	return s.ps.Get(ctx, id)
}
func (s *statusWrap) List(ctx context.Context) map[string]*pipeline.Instance { return s.ps.List(ctx) }
func (s *statusWrap) UpdateStatus(ctx context.Context, id string, st pipeline.Status, msg string) error {
	err := s.ps.UpdateStatus(ctx, id, st, msg)
	if err == nil {
		s.w.Log(Ev{K: "status", X: st.String(), A: classOfMsg(msg)})
	}
	return err
}

func classOfMsg(msg string) string {
	if msg == "" {
		return ""
	}
	if containsStr(msg, pipeline.ErrForceStop.Error()) {
		return "force"
	}
	return "other"
}

func containsStr(s, sub string) bool { return strings.Contains(s, sub) }

// Sys is one assembled system under test.
type Sys struct {
	W    *World
	Topo Topo

	PS        *pipeline.Service
	CS        *connector.Service
	PRS       *processor.Service
	Reg       *ProcRegistry
	PL        *pipeline.Instance
	Persister *connector.Persister
	Store     *connector.Store
	db        database.DB
	rec       *lifecyclev1.ErrRecoveryCfg
	V1        *lifecyclev1.Service
	V2        *lifecyclev2.Service

	SrcIDs  []string
	DstIDs  []string
	ProcIDs []string

	mu       sync.Mutex
	nextCall int
}

// Class maps an error to the class that is compared.
func Class(err error) string {
	switch {
	case err == nil:
		return "nil"
	case cerrors.Is(err, pipeline.ErrPipelineNotRunning):
		return "notrunning"
	case cerrors.Is(err, pipeline.ErrPipelineRunning):
		return "running"
	case cerrors.Is(err, pipeline.ErrForceStop):
		return "force"
	case cerrors.Is(err, context.DeadlineExceeded):
		return "timeout"
	case cerrors.IsFatalError(err):
		return "fatal"
	default:
		return "error"
	}
}

// NewSys builds the services and one pipeline of the given shape.
func NewSys(t Topo) (*Sys, error) {
	ctx := context.Background()
	w := NewWorld()
	w.strictCtx = t.StrictCtx
	w.ackBatch = t.AckBatch
	logger := log.Nop()
	mem := &inmemory.DB{}
	gdb := &gatedDB{DB: mem, w: w}
	gdb.store = connector.NewStore(mem, logger)
	// a long debounce: flushes happen when the code asks for them (bundle threshold off)
	persister := connector.NewPersister(logger, gdb, 50*time.Millisecond, 10000)
	ps := pipeline.NewService(logger, gdb)
	cs := connector.NewService(logger, gdb, persister)
	reg := NewProcRegistry(w)
	prs := processor.NewService(logger, gdb, reg)

	s := &Sys{W: w, Topo: t, PS: ps, CS: cs, PRS: prs, Reg: reg, Persister: persister, Store: gdb.store, db: gdb}
	pl, err := ps.Create(ctx, PipelineID, pipeline.Config{Name: PipelineID}, pipeline.ProvisionTypeAPI)
	if err != nil {
		return nil, err
	}
	s.PL = pl
	for i := 1; i <= t.Sources; i++ {
		id := fmt.Sprintf("s%d", i)
		if _, err := cs.Create(ctx, id, connector.TypeSource, "fake-src", pl.ID,
			connector.Config{Name: id, Settings: map[string]string{}}, connector.ProvisionTypeAPI); err != nil {
			return nil, err
		}
		if _, err := ps.AddConnector(ctx, pl.ID, id); err != nil {
			return nil, err
		}
		s.SrcIDs = append(s.SrcIDs, id)
	}
	gdb.srcs = s.SrcIDs
	for i := 1; i <= t.Dests; i++ {
		id := fmt.Sprintf("d%d", i)
		if _, err := cs.Create(ctx, id, connector.TypeDestination, "fake-dst", pl.ID,
			connector.Config{Name: id, Settings: map[string]string{}}, connector.ProvisionTypeAPI); err != nil {
			return nil, err
		}
		if _, err := ps.AddConnector(ctx, pl.ID, id); err != nil {
			return nil, err
		}
		s.DstIDs = append(s.DstIDs, id)
	}
	names := t.ProcNames
	if len(names) == 0 {
		for i := 1; i <= t.Procs; i++ {
			names = append(names, fmt.Sprintf("p%d", i))
		}
	}
	for i0, id := range names {
		i := i0 + 1
		workers := 1
		if i == 1 && t.Workers > 1 {
			workers = t.Workers
		}
		if _, err := prs.Create(ctx, id, "fake-proc", processor.Parent{ID: pl.ID, Type: processor.ParentTypePipeline},
			processor.Config{Settings: map[string]string{}, Workers: workers}, processor.ProvisionTypeAPI, ""); err != nil {
			return nil, err
		}
		if _, err := ps.AddProcessor(ctx, pl.ID, id); err != nil {
			return nil, err
		}
		s.ProcIDs = append(s.ProcIDs, id)
	}
	if t.SrcProc {
		id := "ps1"
		if _, err := prs.Create(ctx, id, "fake-proc", processor.Parent{ID: "s1", Type: processor.ParentTypeConnector},
			processor.Config{Settings: map[string]string{}, Workers: 1}, processor.ProvisionTypeAPI, ""); err != nil {
			return nil, err
		}
		if _, err := cs.AddProcessor(ctx, "s1", id); err != nil {
			return nil, err
		}
		s.ProcIDs = append(s.ProcIDs, id)
	}
	if _, err := ps.UpdateDLQ(ctx, pl.ID, pipeline.DLQ{Plugin: "fake-dlq", Settings: map[string]string{},
		WindowSize: t.DLQSize, WindowNackThreshold: t.DLQThr}); err != nil {
		return nil, err
	}
	reg.Arm()

	rec := &lifecyclev1.ErrRecoveryCfg{MinDelay: time.Millisecond, MaxDelay: 5 * time.Millisecond,
		BackoffFactor: 2, MaxRetries: 2, MaxRetriesWindow: 50 * time.Millisecond}
	s.rec = rec
	sw := &statusWrap{w: w, ps: ps}
	switch t.Engine {
	case "v1":
		s.V1 = lifecyclev1.NewService(logger, rec, cs, prs, PluginService{W: w}, sw)
	case "v2":
		s.V2 = lifecyclev2.NewService(logger, rec, cs, prs, PluginService{W: w}, sw, true)
	default:
		return nil, fmt.Errorf("unknown engine %q", t.Engine)
	}
	// the creation of the entities above committed transactions of its own: start the log afresh
	w.mu.Lock()
	w.evs = nil
	w.mu.Unlock()
	return s, nil
}

func (s *Sys) Status() string { return s.PL.GetStatus().String() }

func (s *Sys) doCall(ctx context.Context, name string) error {
	switch name {
	case "start":
		if s.V1 != nil {
			return s.V1.Start(ctx, PipelineID)
		}
		return s.V2.Start(ctx, PipelineID)
	case "stop", "force":
		if s.V1 != nil {
			return s.V1.Stop(ctx, PipelineID, name == "force")
		}
		return s.V2.Stop(ctx, PipelineID, name == "force")
	case "stopwait", "stopwaitd":
		if s.V1 != nil {
			return s.V1.StopAndWait(ctx, PipelineID)
		}
		return s.V2.StopAndWait(ctx, PipelineID)
	case "wait":
		if s.V1 != nil {
			return s.V1.WaitPipeline(PipelineID)
		}
		return s.V2.WaitPipeline(PipelineID)
	case "stopall":
		// graceful shutdown of the whole engine
		if s.V1 != nil {
			s.V1.StopAll(ctx, pipeline.ErrGracefulShutdown)
			return nil
		}
		return s.V2.StopAll(ctx, false)
	case "shutdown":
		// the graceful shutdown of the whole engine exactly as conduit's runtime performs it
		// (pkg/conduit/runtime.go registerCleanupV1/V2): StopAll with the shutdown reason (its
		// error is only logged there), Wait for the pipelines, then the persister's Wait
		var err error
		if s.V1 != nil {
			s.V1.StopAll(ctx, pipeline.ErrGracefulShutdown)
			err = s.V1.Wait(ShutdownWait)
		} else {
			_ = s.V2.StopAll(ctx, false)
			err = s.V2.Wait(ShutdownWait)
		}
		if err != nil {
			return err
		}
		s.Persister.Wait()
		return nil
	case "stopallforce":
		// forced shutdown (the default engine has no such call: shutdown, then force stop)
		if s.V1 != nil {
			s.V1.StopAll(ctx, pipeline.ErrGracefulShutdown)
			return s.V1.Stop(ctx, PipelineID, true)
		}
		return s.V2.StopAll(ctx, true)
	}
	panic("unknown call " + name)
}

// Call issues a control call in its own goroutine; the returned channel is closed when the
// call returned (its "ret" event is in the log by then).
func (s *Sys) Call(name string) (int, <-chan struct{}) { return s.CallCtx(name, 0) }

// CallCtx is Call with a context deadline (0 = none). "stopwaitd" is StopAndWait under that deadline;
// it is logged under its own name so that it is not taken for the stop whose return is judged.
func (s *Sys) CallCtx(name string, deadline time.Duration) (int, <-chan struct{}) {
	s.mu.Lock()
	s.nextCall++
	id := s.nextCall
	s.mu.Unlock()
	done := make(chan struct{})
	s.W.Log(Ev{K: "call", X: name, N: id})
	go func() {
		defer close(done)
		var err error
		func() {
			defer func() {
				if r := recover(); r != nil {
					err = fmt.Errorf("panic: %v", r)
					s.W.Log(Ev{K: "panic", X: name, N: id, A: fmt.Sprint(r)})
				}
			}()
			ctx := context.Background()
			if deadline > 0 {
				var cancel context.CancelFunc
				ctx, cancel = context.WithTimeout(ctx, deadline)
				defer cancel()
			}
			err = s.doCall(ctx, name)
		}()
		ev := Ev{K: "ret", X: name, A: Class(err), N: id}
		if name == "stopwait" || name == "shutdown" {
			ev.Snap = s.StoredPositions() // the store at the moment the call returned
		}
		s.W.Log(ev)
	}()
	return id, done
}

// Reboot replaces every service by a fresh one on the SAME store (as after a process restart)
// and runs the lifecycle service's Init, which starts the pipelines the store says were stopped
// by the system. The log brackets it with "boot" / "booted" (X = status afterwards).
func (s *Sys) Reboot() error {
	ctx := context.Background()
	logger := log.Nop()
	// the old process exits in an orderly way: the persister writes out what it still holds
	// (conduit's runtime waits for it on exit) before anything is loaded again
	s.Persister.Flush(ctx)
	s.Persister.WaitPendingWrites()
	s.W.Log(Ev{K: "boot"})
	ps := pipeline.NewService(logger, s.db)
	cs := connector.NewService(logger, s.db, s.Persister)
	prs := processor.NewService(logger, s.db, s.Reg)
	if err := ps.Init(ctx); err != nil {
		return err
	}
	if err := cs.Init(ctx); err != nil {
		return err
	}
	if err := prs.Init(ctx); err != nil {
		return err
	}
	pl, err := ps.Get(ctx, PipelineID)
	if err != nil {
		return err
	}
	s.PS, s.CS, s.PRS, s.PL = ps, cs, prs, pl
	sw := &statusWrap{w: s.W, ps: ps}
	var ierr error
	if s.V1 != nil {
		s.V1 = lifecyclev1.NewService(logger, s.rec, cs, prs, PluginService{W: s.W}, sw)
		ierr = s.V1.Init(ctx)
	} else {
		s.V2 = lifecyclev2.NewService(logger, s.rec, cs, prs, PluginService{W: s.W}, sw, true)
		ierr = s.V2.Init(ctx)
	}
	s.W.Settle(300*time.Microsecond, 10*time.Millisecond)
	s.W.Log(Ev{K: "booted", X: s.Status()})
	return ierr
}

// Reconfigure swaps processor id live (v1) after marking whether the new instance opens.
func (s *Sys) Reconfigure(ctx context.Context, id string, openOK bool) error {
	if !openOK {
		s.Reg.FailNext(id)
	}
	if s.V1 != nil {
		return s.V1.ReconfigureProcessor(ctx, PipelineID, id)
	}
	return s.V2.ReconfigureProcessor(ctx, PipelineID, id)
}

// StoredPositions reads the durable position of every source from the store.
func (s *Sys) StoredPositions() map[string]int {
	out := map[string]int{}
	for _, id := range s.SrcIDs {
		inst, err := s.Store.Get(context.Background(), id)
		if err != nil || inst == nil {
			continue
		}
		if st, ok := inst.State.(connector.SourceState); ok {
			_, k := ParsePos(st.Position)
			out[id] = k
		} else {
			out[id] = 0
		}
	}
	return out
}

func WaitCh(ch <-chan struct{}, d time.Duration) bool {
	select {
	case <-ch:
		return true
	case <-time.After(d):
		return false
	}
}
