package connx

import (
	"encoding/json"
	"fmt"
	"os"

	"verifharness/lib/hx"
)

// GenRandom draws one schedule. maxLen bounds its length.
func GenRandom(r *hx.Rand, maxLen int) Input {
	in := Input{}
	switch x := r.Intn(20); {
	case x < 8:
		in.NSrc = 1
	case x < 17:
		in.NSrc = 2
	default:
		in.NSrc = 3
	}
	for i := 0; i < in.NSrc; i++ {
		if r.Chance(1, 3) {
			in.Inits = append(in.Inits, r.Range(1, 6))
		} else {
			in.Inits = append(in.Inits, 0)
		}
	}
	in.Retries = r.Range(1, 3)
	in.Gated = r.Bool()
	if r.Chance(2, 5) {
		in.Bundle = r.Range(2, 5)
	} else {
		in.Bundle = 10000
	}
	in.TdShort = r.Chance(1, 5)
	// what the store says about the pipeline, and how a restart is attempted
	switch x := r.Intn(10); {
	case x < 6:
		in.PlStatus = 0 // running
	default:
		in.PlStatus = x - 5 // user-stopped, degraded, system-stopped, recovering
	}
	if r.Bool() {
		in.Engine = "v2"
	} else {
		in.Engine = "v1"
	}
	in.Full = r.Chance(1, 8)
	malcase := r.Chance(3, 20)
	faulty := r.Chance(7, 10) // some runs are entirely failure-free (healthy teardowns)
	n := r.Range(4, maxLen)
	for i := 0; i < n; i++ {
		st := Step{S: r.Intn(in.NSrc), Rush: r.Chance(1, 4)}
		x := r.Intn(100)
		switch {
		case x < 36:
			st.Op, st.K = "ack", r.Range(1, 3)
			if malcase && r.Chance(1, 4) {
				st.Mal = r.Range(1, 4)
			}
		case x < 44:
			st.Op, st.K = "read", r.Range(1, 3)
		case x < 54:
			st.Op = "timer"
		case x < 64:
			st.Op = "flush"
			// the context of a forced flush: live, already cancelled, expiring (drawn from a fork so
			// that the rest of the schedule does not depend on it)
			if cr := r.Fork(0xC7); cr.Bool() {
				st.Ctx = cr.Range(1, 2)
			}
		case x < 80:
			st.Op, st.Ok, st.Newest = "release", !faulty || r.Chance(3, 4), r.Bool()
		case x < 85:
			if !faulty {
				st.Op = "flush"
				break
			}
			st.Op = "failset"
			if r.Chance(1, 4) {
				st.S = -1
			}
		case x < 87:
			if !faulty {
				st.Op = "timer"
				break
			}
			st.Op = "failtx"
		case x < 92:
			if !faulty {
				st.Op, st.K = "ack", 1
				break
			}
			st.Op, st.K = "sendfail", r.Range(1, 4)
		case x < 95:
			st.Op = "teardown"
			if cr := r.Fork(0xC7); cr.Chance(1, 4) {
				st.Ctx = cr.Range(1, 2) // a force-stopped pipeline tears down with a cancelled context
			}
			if r.Bool() {
				// a graceful stop with records read beyond the last ack
				in.Steps = append(in.Steps, Step{Op: "read", S: st.S, K: r.Range(1, 3)}, Step{Op: "stop", S: st.S})
			}
		case x < 97:
			st.Op = "holdsend"
		case x < 99:
			st.Op = "releasesend"
		default:
			st.Op, st.K = "ack", 1
		}
		in.Steps = append(in.Steps, st)
	}
	if r.Chance(1, 8) {
		kind := r.Intn(3)
		if kind == 1 {
			in.Gated = true
			in.Bundle = 10000
		}
		keep := r.Intn(4)
		if keep > len(in.Steps) {
			keep = len(in.Steps)
		}
		pre := in.Steps[:keep:keep]
		for i := range pre { // the prefix must not tear anything down or break the store
			switch pre[i].Op {
			case "teardown", "failset", "failtx", "sendfail", "holdsend":
				pre[i] = Step{Op: "ack", S: pre[i].S, K: 1}
			case "release":
				pre[i].Ok = true
			}
		}
		in.Steps = append(pre, Shape(kind, in.Gated, r.Intn(in.NSrc), r)...)
		in.TdShort = false
	} else if sr := r.Fork(0x5C); sr.Chance(1, 8) {
		// shape 3 (drawn from a fork: the schedules above stay what they were): harmless letters,
		// then a forced flush with a dead context behind a slow commit, commits released out of order
		in.Gated, in.Bundle, in.TdShort = true, 10000, false
		keep := sr.Intn(4)
		if keep > len(in.Steps) {
			keep = len(in.Steps)
		}
		pre := in.Steps[:keep:keep]
		for i := range pre {
			switch pre[i].Op {
			case "teardown", "failset", "failtx", "sendfail", "holdsend":
				pre[i] = Step{Op: "ack", S: pre[i].S, K: 1}
			case "release":
				pre[i].Ok = true
			}
		}
		// nothing may be left in flight when the shape begins
		pre = append(pre, Step{Op: "release", Ok: true}, Step{Op: "release", Ok: true})
		in.Steps = append(pre, Shape(3, true, sr.Intn(in.NSrc), sr)...)
	}
	return in
}

// Shapes are schedules that need several letters in one particular order, so that drawing the
// letters independently almost never produces them. GenRandom embeds one in about one case of
// eight (after a random prefix of harmless letters).
//
//	0 a send is parked in the plugin stream while a later ack is still in the debounce batch and
//	  the source is torn down; the send is released while Teardown drains
//	2 records read beyond the last ack, Source.Stop, Teardown (the stored position must stay at
//	  the last acked record)
//	1 a slow commit, two flush triggers during it, a further ack + flush, the later commits
//	  finishing first (what a persister that lets flushes overlap turns into a stored position
//	  that moves backwards)
//	3 a slow commit, a later ack of the same source, then a FORCED flush (Persister.Flush or
//	  Source.Teardown) whose context is already cancelled or expires while it waits behind the slow
//	  commit; then the commits are released newest first. On a store where blind writes of two
//	  transactions both commit (last commit wins: Badger, and the gated store here) any forced flush
//	  that does not stay serialised behind the write in flight - because it gives up waiting on
//	  ctx.Done(), bounds the wait by a deadline, or skips it for "shutdown" callers - lets the older
//	  snapshot overwrite the newer one after the plugin was told about the newer one.
func Shape(kind int, gated bool, s int, r *hx.Rand) []Step {
	rel := func(ok, newest bool) []Step {
		if !gated {
			return nil
		}
		return []Step{{Op: "release", Ok: ok, Newest: newest}}
	}
	var out []Step
	add := func(st ...Step) { out = append(out, st...) }
	trig := func() Step {
		if r != nil && r.Chance(1, 3) {
			return Step{Op: "timer"}
		}
		return Step{Op: "flush"}
	}
	switch kind {
	case 0:
		add(Step{Op: "holdsend", S: s}, Step{Op: "ack", S: s, K: 1}, trig())
		add(rel(true, false)...)
		add(Step{Op: "ack", S: s, K: 1}, Step{Op: "teardown", S: s})
		add(rel(true, false)...)
		add(Step{Op: "releasesend", S: s})
	case 2:
		// records read beyond the last ack, a graceful stop, teardown: a restart must open at
		// the last ACKED position
		add(Step{Op: "read", S: s, K: 5}, Step{Op: "ack", S: s, K: 2}, trig())
		add(rel(true, false)...)
		add(Step{Op: "stop", S: s}, Step{Op: "teardown", S: s})
		add(rel(true, false)...)
	case 1:
		// only meaningful on a gated store
		add(Step{Op: "ack", S: s, K: 1}, Step{Op: "flush"})           // W1 parks
		add(Step{Op: "ack", S: s, K: 1}, Step{Op: "flush"}, trig())    // two triggers wait for W1
		add(Step{Op: "flush"})
		add(Step{Op: "release", Ok: true})                             // W1 done: the waiters go on
		add(Step{Op: "ack", S: s, K: 1}, Step{Op: "flush"})            // waits for the latest generation only
		newest := r == nil || r.Bool()
		add(Step{Op: "release", Ok: true, Newest: newest})             // one of the two overlapping writes
		add(Step{Op: "release", Ok: true, Newest: true})               // the newest write first ...
		add(Step{Op: "release", Ok: true, Newest: true})
		add(Step{Op: "release", Ok: true}, Step{Op: "release", Ok: true}) // ... the older ones last
	case 3:
		// only meaningful on a gated store
		pick := func(n int) int {
			if r == nil {
				return 0
			}
			return r.Intn(n)
		}
		ctx := 1 + pick(2)
		add(Step{Op: "ack", S: s, K: 1 + pick(2)}, trig()) // W1 parks
		add(Step{Op: "ack", S: s, K: 1})                   // a newer position of the same source
		switch pick(3) {
		case 0, 1:
			add(Step{Op: "flush", Ctx: ctx}) // must wait for W1 whatever its context says
			if pick(2) == 1 {
				add(Step{Op: "ack", S: s, K: 1}, Step{Op: "flush", Ctx: 3 - ctx})
			}
		case 2:
			add(Step{Op: "teardown", S: s, Ctx: ctx}) // Teardown's forced flush, force-stop context
		}
		add(Step{Op: "release", Ok: true, Newest: true}) // the newest write first ...
		add(Step{Op: "release", Ok: true, Newest: true})
		add(Step{Op: "release", Ok: true}, Step{Op: "release", Ok: true}) // ... the older ones last
	}
	return out
}

// Alphabet of the exhaustive mode (one source, gated store, retry bound 1):
//
//	a Ack(1)  b Ack(2)  t TimerFire  f Flush  r ReleaseCommit ok  x ReleaseCommit fail
//	s FailNextSet  n SendFail(1)  d Teardown
var letters = []Step{
	{Op: "ack", K: 1}, {Op: "ack", K: 2}, {Op: "timer"}, {Op: "flush"},
	{Op: "release", Ok: true}, {Op: "release", Ok: false},
	{Op: "failset"}, {Op: "sendfail", K: 1}, {Op: "teardown"},
}

// abstract bookkeeping used only to skip letters that certainly do nothing in the position
// they stand in (release with no write in flight, timer not armed, flush of an empty batch
// with nothing in flight, a second failset/teardown, acks after teardown)
type absState struct {
	batch, armed, inflight, blocked, down, failset bool
	sendfails                                      int
}

func (a absState) step(i int) (absState, bool) {
	trigger := func() {
		a.armed = false
		if !a.batch {
			return
		}
		if a.inflight {
			a.blocked = true
			return
		}
		a.inflight, a.batch = true, false
	}
	switch i {
	case 0, 1:
		if a.down {
			return a, false
		}
		a.batch, a.armed = true, true
	case 2:
		if !a.armed {
			return a, false
		}
		trigger()
	case 3:
		if !a.batch {
			return a, false
		}
		trigger()
	case 4, 5:
		if !a.inflight {
			return a, false
		}
		a.inflight = false
		if a.blocked {
			a.blocked = false
			if a.batch {
				a.inflight, a.batch = true, false
			}
		}
	case 6:
		if a.failset {
			return a, false
		}
		a.failset = true
	case 7:
		if a.sendfails >= 2 || a.down {
			return a, false
		}
		a.sendfails++
	case 8:
		if a.down {
			return a, false
		}
		a.down = true
		trigger()
	}
	return a, true
}

// Exhaustive calls emit for every schedule over the alphabet of length 1..maxLen (minus the
// certainly-idle letters), numbering them so that shards can split the space.
func Exhaustive(maxLen int, emit func(k int, in Input)) int {
	k := 0
	var rec func(a absState, steps []Step)
	rec = func(a absState, steps []Step) {
		if len(steps) > 0 {
			in := Input{NSrc: 1, Inits: []int{0}, Retries: 1, Gated: true, Bundle: 10000,
				Steps: append([]Step(nil), steps...)}
			emit(k, in)
			k++
		}
		if len(steps) == maxLen {
			return
		}
		for i := range letters {
			if b, ok := a.step(i); ok {
				rec(b, append(steps, letters[i]))
			}
		}
	}
	rec(absState{armed: true, batch: true}, nil) // Open's own Persist arms the timer
	return k
}

// Second small-scope family: one source on a store whose commits complete by themselves, so that
// the letters about the plugin stream fit into the length bound:
//
//	a Ack(1)  f Flush  h HoldSend  u ReleaseSend  d Teardown  n SendFail(1)  r Read(2)  p Stop
var letters2 = []Step{
	{Op: "ack", K: 1}, {Op: "flush"}, {Op: "holdsend"}, {Op: "releasesend"}, {Op: "teardown"}, {Op: "sendfail", K: 1},
	{Op: "read", K: 2}, {Op: "stop"},
}

type absState2 struct {
	batch, held, released, down, stopped bool
	sendfails, reads                     int
}

func (a absState2) step(i int) (absState2, bool) {
	switch i {
	case 0:
		if a.down {
			return a, false
		}
		a.batch = true
	case 1:
		if !a.batch {
			return a, false
		}
		a.batch = false
	case 2:
		if a.held || a.down {
			return a, false
		}
		a.held = true
	case 3:
		if !a.held || a.released {
			return a, false
		}
		a.released = true
	case 4:
		if a.down {
			return a, false
		}
		a.down, a.batch = true, false
	case 5:
		if a.sendfails >= 1 || a.down {
			return a, false
		}
		a.sendfails++
	case 6:
		if a.down || a.stopped || a.reads >= 2 {
			return a, false
		}
		a.reads++
	case 7:
		if a.down || a.stopped {
			return a, false
		}
		a.stopped = true
	}
	return a, true
}

// Exhaustive2 enumerates the second family; k0 is the number the first schedule gets.
func Exhaustive2(maxLen, k0 int, emit func(k int, in Input)) int {
	k := k0
	var rec func(a absState2, steps []Step)
	rec = func(a absState2, steps []Step) {
		if len(steps) > 0 {
			in := Input{NSrc: 1, Inits: []int{0}, Retries: 1, Gated: false, Bundle: 10000,
				Steps: append([]Step(nil), steps...)}
			emit(k, in)
			k++
		}
		if len(steps) == maxLen {
			return
		}
		for i := range letters2 {
			if b, ok := a.step(i); ok {
				rec(b, append(steps, letters2[i]))
			}
		}
	}
	rec(absState2{batch: true}, nil)
	return k
}

func inputFromJSON(m map[string]any) (Input, bool) {
	var in Input
	src, ok := m["input"]
	if !ok {
		src = m
	}
	b, err := json.Marshal(src)
	if err != nil {
		return in, false
	}
	if err := json.Unmarshal(b, &in); err != nil {
		return in, false
	}
	return in, true
}

type Observed struct {
	Log      []Event `json:"log"`
	Restarts []Robs  `json:"restarts,omitempty"`
	Full     []FullObs `json:"full,omitempty"` // restarts through the real services
	Fixed    bool    `json:"fixed"` // does flushNow hand a failed Set's error to the callback
	Hang     bool    `json:"hang,omitempty"`
}

// RunCase executes one schedule on the real code. restarts: 0 none, 1 first/last/8 random
// commit points, 2 every commit point.
func RunCase(in Input, fixed bool, restarts int, r *hx.Rand) (Observed, error) {
	in.Normalize()
	w, err := NewWorld(in)
	if err != nil {
		return Observed{}, err
	}
	for _, st := range in.Steps {
		w.Do(st)
	}
	ev := w.Finish()
	obs := Observed{Log: ev, Fixed: fixed, Hang: w.Hang}
	if restarts > 0 {
		snaps := w.DB.Snaps()
		pick := map[int]bool{}
		if restarts == 2 || len(snaps) <= 10 {
			for i := range snaps {
				pick[i] = true
			}
		} else {
			pick[0], pick[len(snaps)-1] = true, true
			for len(pick) < 10 {
				pick[r.Intn(len(snaps))] = true
			}
		}
		for i, sn := range snaps {
			if !pick[i] {
				continue
			}
			ro, err := Restart(in, sn)
			if err != nil {
				// a store the fresh services cannot start from is itself an observation
				for s := 0; s < in.NSrc; s++ {
					obs.Restarts = append(obs.Restarts, Robs{At: sn.At, S: s, Tag: 4095, Pos: 0})
				}
				continue
			}
			obs.Restarts = append(obs.Restarts, ro...)
		}
		// the same through pipeline / connector / processor / lifecycle services: for the cases
		// marked Full (a fixed share of the quick tier) the last and one more commit point, in
		// the thorough tier every commit point of every case
		if in.Full || restarts == 2 {
			fpick := map[int]bool{len(snaps) - 1: true}
			if restarts == 2 {
				for i := range snaps {
					fpick[i] = true
				}
			} else if r != nil && len(snaps) > 1 {
				fpick[r.Intn(len(snaps))] = true
			}
			for i, sn := range snaps {
				if fpick[i] {
					obs.Full = append(obs.Full, RestartFull(in, sn, in.Engine))
				}
			}
		}
	}
	return obs, nil
}

// DetectFixed runs one tiny scenario to learn which flushNow the tree has: with a failed Set
// inside an otherwise committed transaction, does the connector's callback get the error
// (the source reports it and the plugin is not acked) or nil (the plugin is acked)?
func DetectFixed() bool {
	in := Input{NSrc: 1, Inits: []int{0}, Retries: 1, Bundle: 10000,
		// (the Ack replaces Open's own entry in the batch, so exactly one Set runs and fails)
		Steps: []Step{{Op: "ack", K: 1}, {Op: "failset"}, {Op: "flush"}}}
	obs, err := RunCase(in, false, 0, nil)
	if err != nil {
		return false
	}
	pack, srcerr := false, false
	for _, e := range obs.Log {
		pack = pack || e.K == "pack"
		srcerr = srcerr || e.K == "srcerr"
	}
	return srcerr && !pack
}

// Main is the whole program of harness/cmd/c02 and harness/cmd/c03.
func Main(prop string) {
	o := hx.ParseFlags()
	chk, restarts := "chk02", 0
	if prop == "C03" {
		chk, restarts = "chk03", 1
		if o.Tier == "thorough" {
			restarts = 2
		}
	}
	w, err := hx.NewWriter(o, "From Verif Require Import Base.CaseCheck Conn.Trace Conn.Check.", "ccase")
	if err != nil {
		fmt.Fprintln(os.Stderr, err)
		os.Exit(2)
	}
	fixed := DetectFixed()
	emit := func(in Input, r *hx.Rand) {
		in.Normalize()
		obs, err := RunCase(in, fixed, restarts, r)
		if err != nil {
			fmt.Fprintln(os.Stderr, "setup failed:", err)
			os.Exit(2)
		}
		w.Add(map[string]any{"input": in, "observed": obs}, CoqCase(in, fixed, obs.Log, obs.Restarts, obs.Full))
	}
	switch {
	case o.Replay != "":
		cs, err := hx.ReadJSONL(o.Replay)
		if err != nil {
			fmt.Fprintln(os.Stderr, err)
			os.Exit(2)
		}
		root := hx.NewRand(o.Seed)
		for i, m := range cs {
			for _, k := range []string{"case", "broken_correspondence_case"} { // a replay file written by the driver
				if c, ok := m[k].(map[string]any); ok {
					m = c
					break
				}
			}
			var in Input
			good := false
			hx.Try(func() { in, good = inputFromJSON(m) })
			if !good {
				continue
			}
			emit(in, root.Fork(uint64(i)))
		}
	case o.Mode == "exhaustive":
		maxLen := o.N
		root := hx.NewRand(o.Seed)
		each := func(k int, in Input) {
			if k%o.Shards != o.Shard {
				return
			}
			emit(in, root.Fork(uint64(k)))
		}
		k1 := Exhaustive(maxLen, each)
		Exhaustive2(maxLen, k1, each)
	default:
		root := hx.NewRand(o.Seed)
		for i := 0; i < o.N; i++ {
			r := root.Fork(uint64(o.Shard)<<32 | uint64(i))
			emit(GenRandom(r, 40), r)
		}
		// "full<L>": the random schedules plus this shard's slice of the exhaustive space
		// "full<L>/<P>": ... split over the first P shards (others, e.g. corpus shards, take none)
		var maxLen, parts int
		if n, _ := fmt.Sscanf(o.Mode, "full%d/%d", &maxLen, &parts); n >= 1 && maxLen > 0 {
			if n < 2 || parts <= 0 {
				parts = o.Shards
			}
			each := func(k int, in Input) {
				if k%parts != o.Shard {
					return
				}
				// spread the stored pipeline status and the engine of the restart over the space
				in.Engine = []string{"v1", "v2"}[(k/parts)%2]
				if (k/parts)%5 == 4 {
					in.PlStatus = 1 + (k/parts/5)%4
				}
				emit(in, root.Fork(uint64(k)))
			}
			k1 := Exhaustive(maxLen, each)
			Exhaustive2(maxLen, k1, each)
		}
	}
	if err := w.Close(chk); err != nil {
		fmt.Fprintln(os.Stderr, err)
		os.Exit(2)
	}
	fmt.Printf("cases=%d fixed=%v\n", w.Count(), fixed)
}
