package connx

import (
	"context"
	"encoding/json"
	"errors"
	"strings"
	"sync"

	"github.com/conduitio/conduit-commons/database"
	"github.com/conduitio/conduit-commons/database/inmemory"
)

const connPrefix = "connector:instance:"

// FaultDB is a fault-injecting database.DB on top of the in-memory DB. Transactions buffer
// their writes and apply them at Commit (atomic + durable = what the design assumes of a
// store); NewTransaction, single Sets and Commits can be failed, and Commits can be parked
// on a gate until the schedule releases them. Every transaction end is logged with the
// decoded writes and the decoded store afterwards.
type FaultDB struct {
	base *inmemory.DB
	log  *Log
	ids  []string // connector ids of the sources, index = source number

	mu         sync.Mutex
	gated      bool
	failTx     int
	failSet    []int // source numbers (or -1 = any) whose next Set inside a tx fails
	failCommit int
	parked     []*ftx
	inflight   int
	snaps      []StoreSnap // raw copies of the store at every successful commit
}

type StoreSnap struct {
	At  int // number of log events before the crash instant this snapshot stands for
	Raw map[string][]byte
}

var errInjected = errors.New("injected store failure")

func NewFaultDB(log *Log, ids []string) *FaultDB {
	return &FaultDB{base: &inmemory.DB{}, log: log, ids: ids}
}

func (d *FaultDB) srcIndex(key string) int {
	if !strings.HasPrefix(key, connPrefix) {
		return -1
	}
	id := key[len(connPrefix):]
	for i, x := range d.ids {
		if x == id {
			return i
		}
	}
	return -1
}

func decodeStored(raw []byte) (int, int) {
	var v struct {
		State *struct {
			Position []byte
		}
	}
	if err := json.Unmarshal(raw, &v); err != nil {
		return 4095, 0
	}
	if v.State == nil {
		return 0, 0
	}
	return DecodePos(v.State.Position)
}

// ---- controls used by the schedule ----

func (d *FaultDB) SetGated(g bool)  { d.mu.Lock(); d.gated = g; d.mu.Unlock() }
func (d *FaultDB) FailNextTx()      { d.mu.Lock(); d.failTx++; d.mu.Unlock() }
func (d *FaultDB) FailNextSet(s int) { d.mu.Lock(); d.failSet = append(d.failSet, s); d.mu.Unlock() }
func (d *FaultDB) FailNextCommit()  { d.mu.Lock(); d.failCommit++; d.mu.Unlock() }
func (d *FaultDB) InFlight() int    { d.mu.Lock(); defer d.mu.Unlock(); return d.inflight }
func (d *FaultDB) Parked() int      { d.mu.Lock(); defer d.mu.Unlock(); return len(d.parked) }

// Release lets one parked commit finish with the given result; newest picks the most
// recently parked one (only different from the oldest when two commits overlap, which the
// unchanged persister never allows). Reports whether there was one.
func (d *FaultDB) Release(ok, newest bool) bool {
	d.mu.Lock()
	if len(d.parked) == 0 {
		d.mu.Unlock()
		return false
	}
	i := 0
	if newest {
		i = len(d.parked) - 1
	}
	t := d.parked[i]
	d.parked = append(d.parked[:i], d.parked[i+1:]...)
	d.mu.Unlock()
	t.gate <- ok
	<-t.finished
	return true
}

func (d *FaultDB) Snaps() []StoreSnap {
	d.mu.Lock()
	defer d.mu.Unlock()
	return append([]StoreSnap(nil), d.snaps...)
}

// CopyRaw returns a copy of the whole backing store.
func (d *FaultDB) CopyRaw() map[string][]byte {
	ctx := context.Background()
	out := map[string][]byte{}
	keys, _ := d.base.GetKeys(ctx, "")
	for _, k := range keys {
		if v, err := d.base.Get(ctx, k); err == nil {
			out[k] = append([]byte(nil), v...)
		}
	}
	return out
}

func (d *FaultDB) decodedStore() [][2]int {
	ctx := context.Background()
	out := make([][2]int, len(d.ids))
	for i, id := range d.ids {
		raw, err := d.base.Get(ctx, connPrefix+id)
		if err != nil {
			out[i] = [2]int{4095, 0}
			continue
		}
		n, r := decodeStored(raw)
		out[i] = [2]int{n, r}
	}
	return out
}

// ---- database.DB ----

type ftx struct {
	d        *FaultDB
	changes  map[string][]byte
	order    []string
	ws       []Write
	gate     chan bool
	finished chan struct{}
	ended    bool
}

func (d *FaultDB) Ping(context.Context) error { return nil }
func (d *FaultDB) Close() error               { return nil }

func (d *FaultDB) NewTransaction(ctx context.Context, _ bool) (database.Transaction, context.Context, error) {
	d.mu.Lock()
	if d.failTx > 0 {
		d.failTx--
		d.mu.Unlock()
		d.log.Add(Event{K: "txbegin"})
		d.log.Add(Event{K: "txfail"})
		return nil, ctx, errInjected
	}
	d.inflight++
	d.mu.Unlock()
	d.log.Add(Event{K: "txbegin"})
	t := &ftx{d: d, changes: map[string][]byte{}, gate: make(chan bool, 1), finished: make(chan struct{})}
	return t, database.ContextWithTransaction(ctx, t), nil
}

func txOf(ctx context.Context) *ftx {
	t, _ := database.TransactionFromContext(ctx).(*ftx)
	return t
}

func (d *FaultDB) Set(ctx context.Context, key string, value []byte) error {
	t := txOf(ctx)
	if t == nil {
		return d.base.Set(ctx, key, value)
	}
	s := d.srcIndex(key)
	fail := false
	d.mu.Lock()
	for i, f := range d.failSet {
		if f == -1 || f == s {
			d.failSet = append(d.failSet[:i], d.failSet[i+1:]...)
			fail = true
			break
		}
	}
	d.mu.Unlock()
	if s >= 0 {
		n, r := decodeStored(value)
		t.ws = append(t.ws, Write{S: s, Tag: n, Pos: r, Ok: !fail})
	}
	if fail {
		return errInjected
	}
	if _, seen := t.changes[key]; !seen {
		t.order = append(t.order, key)
	}
	t.changes[key] = value
	return nil
}

func (d *FaultDB) Get(ctx context.Context, key string) ([]byte, error) {
	if t := txOf(ctx); t != nil {
		if v, ok := t.changes[key]; ok {
			if v == nil {
				return nil, database.ErrKeyNotExist
			}
			return v, nil
		}
	}
	return d.base.Get(context.Background(), key)
}

func (d *FaultDB) GetKeys(ctx context.Context, prefix string) ([]string, error) {
	keys, err := d.base.GetKeys(context.Background(), prefix)
	if err != nil {
		return nil, err
	}
	if t := txOf(ctx); t != nil {
		set := map[string]bool{}
		for _, k := range keys {
			set[k] = true
		}
		for k, v := range t.changes {
			if !strings.HasPrefix(k, prefix) {
				continue
			}
			if v == nil {
				delete(set, k)
			} else {
				set[k] = true
			}
		}
		keys = keys[:0]
		for k := range set {
			keys = append(keys, k)
		}
	}
	return keys, nil
}

func (t *ftx) Commit() error {
	d := t.d
	d.mu.Lock()
	if t.ended {
		d.mu.Unlock()
		return errors.New("transaction already ended")
	}
	ok := true
	park := d.gated
	if !park && d.failCommit > 0 {
		d.failCommit--
		ok = false
	}
	if park {
		d.parked = append(d.parked, t)
	}
	d.mu.Unlock()
	if park {
		ok = <-t.gate
	}
	// the store mutation, its log entry and the crash snapshot form one atomic step
	d.log.With(func(app func(Event)) {
		if ok {
			for _, k := range t.order {
				_ = d.base.Set(context.Background(), k, t.changes[k])
			}
		}
		app(Event{K: "commit", Ws: t.ws, Ok: ok, Snap: d.decodedStore()})
		d.mu.Lock()
		t.ended = true
		d.inflight--
		if ok {
			d.snaps = append(d.snaps, StoreSnap{At: len(d.log.ev), Raw: d.CopyRaw()})
		}
		d.mu.Unlock()
	})
	close(t.finished)
	if !ok {
		return errInjected
	}
	return nil
}

func (t *ftx) Discard() {
	d := t.d
	d.mu.Lock()
	if t.ended {
		d.mu.Unlock()
		return
	}
	t.ended = true
	d.inflight--
	d.mu.Unlock()
	// a transaction dropped without a commit attempt: nothing written
	d.log.Add(Event{K: "commit", Ws: t.ws, Ok: false, Snap: d.decodedStore()})
	close(t.finished)
}
