// Package connx is the shared harness of C02 and C03: the real connector.Source +
// connector.Persister + connector.Store (and connector.Service for the restart half) on a
// fault-injecting database, a fake source plugin behind the real Source, and the harness
// playing the pipeline engine. Everything observable is appended to ONE mutex-guarded log.
package connx

import (
	"fmt"
	"strconv"
	"strings"
	"sync"

	"verifharness/lib/hx"
)

// Write is one Set attempted inside a transaction, decoded.
type Write struct {
	S   int  `json:"s"`
	Tag int  `json:"tag"`
	Pos int  `json:"pos"`
	Ok  bool `json:"ok"`
}

// Event kinds: read ack txbegin txfail commit pack sendfail sendheld srcerr tdbegin tdcancel tdend
// (+ "note": harness remark, not rendered for the model unless it is a hang)
type Event struct {
	K    string   `json:"k"`
	S    int      `json:"s,omitempty"`
	N    int      `json:"n,omitempty"`
	Ks   []int    `json:"ks,omitempty"`
	Ws   []Write  `json:"ws,omitempty"`
	Ok   bool     `json:"ok,omitempty"`
	Snap [][2]int `json:"snap,omitempty"`
	Note string   `json:"note,omitempty"`
}

type Log struct {
	mu sync.Mutex
	ev []Event
}

// With runs f holding the log lock; f may append through the returned func.
func (l *Log) With(f func(app func(Event))) {
	l.mu.Lock()
	defer l.mu.Unlock()
	f(func(e Event) { l.ev = append(l.ev, e) })
}

func (l *Log) Add(e Event) { l.With(func(app func(Event)) { app(e) }) }

func (l *Log) Len() int {
	l.mu.Lock()
	defer l.mu.Unlock()
	return len(l.ev)
}

func (l *Log) Snapshot() []Event {
	l.mu.Lock()
	defer l.mu.Unlock()
	return append([]Event(nil), l.ev...)
}

// ---- position bytes ----
// "r.n": record id r in read order, n = number (tag) of the Source.Ack call that carries it
// (0 for the position a source is created with). Empty bytes = the empty position.

func PosBytes(r, n int) []byte {
	if r == 0 {
		return nil
	}
	return []byte(strconv.Itoa(r) + "." + strconv.Itoa(n))
}

// DecodePos returns (tag, record). Anything unparsable decodes to a value no engine ack can
// have (tag 4095), so that the model rejects it instead of the harness guessing.
func DecodePos(b []byte) (int, int) {
	if len(b) == 0 {
		return 0, 0
	}
	parts := strings.Split(string(b), ".")
	if len(parts) != 2 {
		return 4095, 0
	}
	r, e1 := strconv.Atoi(parts[0])
	n, e2 := strconv.Atoi(parts[1])
	if e1 != nil || e2 != nil || r < 0 || n < 0 || r > 4000 || n > 4000 {
		return 4095, 0
	}
	return n, r
}

// ---- Coq rendering ----

func coqWrite(w Write) string {
	return fmt.Sprintf("mkW %d %d %d %s", w.S, w.Tag, w.Pos, hx.Bool(w.Ok))
}

func CoqEvent(e Event) (string, bool) {
	switch e.K {
	case "read":
		return fmt.Sprintf("ERead %d %d", e.S, e.N), true
	case "ack":
		return fmt.Sprintf("EAck %d %s", e.S, hx.Nats(e.Ks)), true
	case "txbegin":
		return "ETxBegin", true
	case "txfail":
		return "ETxFail", true
	case "commit":
		ws := make([]string, len(e.Ws))
		for i, w := range e.Ws {
			ws[i] = coqWrite(w)
		}
		sn := make([]string, len(e.Snap))
		for i, p := range e.Snap {
			sn[i] = hx.Pair(hx.Nat(p[0]), hx.Nat(p[1]))
		}
		return fmt.Sprintf("ECommit %s %s %s", hx.List(ws), hx.Bool(e.Ok), hx.List(sn)), true
	case "pack":
		return fmt.Sprintf("EPAck %d %d %s", e.S, e.N, hx.Nats(e.Ks)), true
	case "sendfail":
		return fmt.Sprintf("ESendFail %d %d", e.S, e.N), true
	case "sendheld":
		return fmt.Sprintf("ESendHeld %d %d", e.S, e.N), true
	case "srcerr":
		return fmt.Sprintf("ESrcErr %d", e.S), true
	case "tdbegin":
		return fmt.Sprintf("ETdBegin %d", e.S), true
	case "tdcancel":
		return fmt.Sprintf("ETdCancel %d", e.S), true
	case "tdend":
		return fmt.Sprintf("ETdEnd %d %s", e.S, hx.Bool(e.Ok)), true
	case "hang", "ackerr", "panic":
		// not part of the model's alphabet on purpose: an impossible event (source index out
		// of range) makes the acceptor reject the log
		return "ESrcErr 4095", true
	}
	return "", false
}

// Robs is one restart observation: crash instant (number of log events before it), source,
// decoded position handed to the plugin's Open by freshly initialised services.
type Robs struct {
	At  int `json:"at"`
	S   int `json:"s"`
	Tag int `json:"tag"`
	Pos int `json:"pos"`
}

func coqFull(o FullObs) string {
	fs := make([]string, len(o.Srcs))
	for i, f := range o.Srcs {
		fs[i] = fmt.Sprintf("mkFS %d %s %d %d %s", f.S, hx.Bool(f.Opened), f.Tag, f.Pos, hx.Nats(f.Got))
	}
	started := o.Started
	if o.Note != "" {
		// a restart that failed or hung is no behaviour of the model: make the observation
		// inconsistent (an unknown status) so that it is rejected rather than lost
		return fmt.Sprintf("mkFO %d %d 99 %s %d %s", o.At, o.Stored, hx.Bool(started), o.AfterBoot, hx.List(fs))
	}
	return fmt.Sprintf("mkFO %d %d %d %s %d %s", o.At, o.Stored, o.AfterInit, hx.Bool(started), o.AfterBoot, hx.List(fs))
}

func CoqCase(in Input, fixed bool, ev []Event, obs []Robs, full []FullObs) string {
	items := make([]string, 0, len(ev))
	for _, e := range ev {
		if s, ok := CoqEvent(e); ok {
			items = append(items, s)
		}
	}
	os := make([]string, len(obs))
	for i, o := range obs {
		os[i] = fmt.Sprintf("(%d, %d, (%d, %d))", o.At, o.S, o.Tag, o.Pos)
	}
	fo := make([]string, len(full))
	for i, o := range full {
		fo[i] = "(" + coqFull(o) + ")"
	}
	return fmt.Sprintf("mkCase (mkCfg %d %s %d %s) %s %s %s",
		in.NSrc, hx.Nats(in.Inits), in.Retries, hx.Bool(fixed), hx.List(items), hx.List(os), hx.List(fo))
}
