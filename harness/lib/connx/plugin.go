package connx

import (
	"context"
	"errors"
	"sync"

	"github.com/conduitio/conduit-commons/opencdc"
	"github.com/conduitio/conduit-connector-protocol/pconnector"
	"github.com/conduitio/conduit/pkg/foundation/cerrors"
	"github.com/conduitio/conduit/pkg/foundation/log"
	connectorPlugin "github.com/conduitio/conduit/pkg/plugin/connector"
)

var errTransient = errors.New("injected transient stream send failure")

// FakeSource is the source plugin behind the real connector.Source. It hands out the records
// the harness asks for, logs every ack it receives on its stream, refuses sends the schedule
// told it to refuse, and remembers the position it was opened with.
type FakeSource struct {
	s   int
	log *Log

	mu       sync.Mutex
	opened   bool
	openTag  int
	openPos  int
	ctx      context.Context
	sendFail int
	lastProduced int       // id of the last record handed out
	holdNext bool          // the next ack send parks in the stream until released
	parked   chan struct{} // non-nil while a send is parked; closed to release it
	batches  chan []opencdc.Record
}

func NewFakeSource(s int, l *Log) *FakeSource {
	return &FakeSource{s: s, log: l, batches: make(chan []opencdc.Record, 16)}
}

func (p *FakeSource) Configure(context.Context, pconnector.SourceConfigureRequest) (pconnector.SourceConfigureResponse, error) {
	return pconnector.SourceConfigureResponse{}, nil
}

func (p *FakeSource) Open(_ context.Context, req pconnector.SourceOpenRequest) (pconnector.SourceOpenResponse, error) {
	p.mu.Lock()
	defer p.mu.Unlock()
	p.opened = true
	p.openTag, p.openPos = DecodePos(req.Position)
	return pconnector.SourceOpenResponse{}, nil
}

func (p *FakeSource) OpenedAt() (bool, int, int) {
	p.mu.Lock()
	defer p.mu.Unlock()
	return p.opened, p.openTag, p.openPos
}

func (p *FakeSource) Run(ctx context.Context, _ pconnector.SourceRunStream) error {
	p.mu.Lock()
	p.ctx = ctx
	p.mu.Unlock()
	return nil
}

// Stop answers like a connector built with the SDK: with the position of the last record the
// plugin handed out (nothing if it handed out none in this run) - NOT the last one acked.
func (p *FakeSource) Stop(context.Context, pconnector.SourceStopRequest) (pconnector.SourceStopResponse, error) {
	p.mu.Lock()
	last := p.lastProduced
	p.mu.Unlock()
	if last == 0 {
		return pconnector.SourceStopResponse{}, nil
	}
	return pconnector.SourceStopResponse{LastPosition: PosBytes(last, 0)}, nil
}

// Teardown is called by Source.Teardown after it cancelled the stream and joined the
// delivery goroutine: from here on no ack can reach the plugin.
func (p *FakeSource) Teardown(context.Context, pconnector.SourceTeardownRequest) (pconnector.SourceTeardownResponse, error) {
	if p.log != nil {
		p.log.Add(Event{K: "tdcancel", S: p.s})
	}
	return pconnector.SourceTeardownResponse{}, nil
}

func (p *FakeSource) LifecycleOnCreated(context.Context, pconnector.SourceLifecycleOnCreatedRequest) (pconnector.SourceLifecycleOnCreatedResponse, error) {
	return pconnector.SourceLifecycleOnCreatedResponse{}, nil
}

func (p *FakeSource) LifecycleOnUpdated(context.Context, pconnector.SourceLifecycleOnUpdatedRequest) (pconnector.SourceLifecycleOnUpdatedResponse, error) {
	return pconnector.SourceLifecycleOnUpdatedResponse{}, nil
}

func (p *FakeSource) LifecycleOnDeleted(context.Context, pconnector.SourceLifecycleOnDeletedRequest) (pconnector.SourceLifecycleOnDeletedResponse, error) {
	return pconnector.SourceLifecycleOnDeletedResponse{}, nil
}

func (p *FakeSource) NewStream() pconnector.SourceRunStream { return &fakeStream{p: p} }

func (p *FakeSource) SendFail(n int) {
	p.mu.Lock()
	p.sendFail += n
	p.mu.Unlock()
}

// HoldNextSend makes the next ack send park inside stream.Send (the plugin has not consumed
// it) until ReleaseSend.
func (p *FakeSource) HoldNextSend() {
	p.mu.Lock()
	p.holdNext = true
	p.mu.Unlock()
}

// ReleaseSend lets a parked send go on (and disarms a hold that has not caught a send yet).
func (p *FakeSource) ReleaseSend() bool {
	p.mu.Lock()
	defer p.mu.Unlock()
	p.holdNext = false
	if p.parked == nil {
		return false
	}
	close(p.parked)
	p.parked = nil
	return true
}

func (p *FakeSource) SendParked() bool {
	p.mu.Lock()
	defer p.mu.Unlock()
	return p.parked != nil
}

// Produce queues one batch of records for the next Source.Read.
func (p *FakeSource) Produce(recs []opencdc.Record, lastID int) {
	p.mu.Lock()
	p.lastProduced = lastID
	p.mu.Unlock()
	p.batches <- recs
}

type fakeStream struct{ p *FakeSource }

func (s *fakeStream) Client() pconnector.SourceRunStreamClient { return (*fakeClient)(s.p) }
func (s *fakeStream) Server() pconnector.SourceRunStreamServer { return nil }

type fakeClient FakeSource

func (c *fakeClient) Send(req pconnector.SourceRunRequest) error {
	p := (*FakeSource)(c)
	tag := 0
	ks := make([]int, len(req.AckPositions))
	for i, b := range req.AckPositions {
		n, r := DecodePos(b)
		ks[i] = r
		if i == len(req.AckPositions)-1 {
			tag = n
		}
	}
	p.mu.Lock()
	ctx := p.ctx
	var wait chan struct{}
	if p.holdNext && (ctx == nil || ctx.Err() == nil) {
		p.holdNext = false
		wait = make(chan struct{})
		p.parked = wait
	}
	p.mu.Unlock()
	if wait != nil {
		// the send has begun and the plugin does not take it yet
		p.log.Add(Event{K: "sendheld", S: p.s, N: tag})
		select {
		case <-wait:
		case <-ctx.Done():
			p.mu.Lock()
			if p.parked == wait {
				p.parked = nil
			}
			p.mu.Unlock()
		}
	}
	var err error
	p.log.With(func(app func(Event)) {
		if ctx != nil && ctx.Err() != nil {
			err = ctx.Err()
			return
		}
		p.mu.Lock()
		fail := p.sendFail > 0
		if fail {
			p.sendFail--
		}
		p.mu.Unlock()
		if fail {
			app(Event{K: "sendfail", S: p.s, N: tag})
			err = errTransient
			return
		}
		app(Event{K: "pack", S: p.s, N: tag, Ks: ks})
	})
	return err
}

func (c *fakeClient) Recv() (pconnector.SourceRunResponse, error) {
	p := (*FakeSource)(c)
	p.mu.Lock()
	ctx := p.ctx
	p.mu.Unlock()
	select {
	case recs := <-p.batches:
		return pconnector.SourceRunResponse{Records: recs}, nil
	case <-ctx.Done():
		return pconnector.SourceRunResponse{}, ctx.Err()
	}
}

// ---- dispensers (same shape as tests/chaos staticFetcher) ----

type dispenser struct{ src connectorPlugin.SourcePlugin }

func (d dispenser) DispenseSpecifier() (connectorPlugin.SpecifierPlugin, error) {
	return nil, cerrors.New("not implemented")
}
func (d dispenser) DispenseSource() (connectorPlugin.SourcePlugin, error) { return d.src, nil }
func (d dispenser) DispenseDestination() (connectorPlugin.DestinationPlugin, error) {
	return nil, cerrors.New("not implemented")
}

type Fetcher map[string]connectorPlugin.Dispenser

func (f Fetcher) NewDispenser(_ log.CtxLogger, name string, _ string) (connectorPlugin.Dispenser, error) {
	d, ok := f[name]
	if !ok {
		return nil, cerrors.Errorf("no dispenser for plugin %q", name)
	}
	return d, nil
}
