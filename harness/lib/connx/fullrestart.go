package connx

import (
	"context"
	"fmt"
	"sync"
	"time"

	"github.com/conduitio/conduit-commons/database"
	"github.com/conduitio/conduit-commons/database/inmemory"
	"github.com/conduitio/conduit-commons/opencdc"
	"github.com/conduitio/conduit-connector-protocol/pconnector"
	"github.com/conduitio/conduit/pkg/connector"
	"github.com/conduitio/conduit/pkg/foundation/cerrors"
	"github.com/conduitio/conduit/pkg/foundation/log"
	lifecyclev1 "github.com/conduitio/conduit/pkg/lifecycle"
	lifecyclev2 "github.com/conduitio/conduit/pkg/lifecycle-poc"
	"github.com/conduitio/conduit/pkg/pipeline"
	connectorPlugin "github.com/conduitio/conduit/pkg/plugin/connector"
	"github.com/conduitio/conduit/pkg/plugin/connector/builtin"
	"github.com/conduitio/conduit/pkg/processor"
	"github.com/conduitio/conduit-processor-sdk"
	"github.com/conduitio/conduit/pkg/plugin/processor/egress"
)

// The restart half of C03 through the REAL services: on a copy of the store as a crash left it,
// fresh pipeline.Service + connector.Service + processor.Service + lifecycle service (either
// engine) are initialised the way the runtime does it (pipeline Init, connector Init, processor
// Init, lifecycle Init). What is observed: the status pipeline.Service.Init gives the pipeline,
// whether lifecycle Init started it, the position every source plugin is opened with, and the
// records that then reach the destination (the plugin replays the successors of the position it
// was opened with, so a wrong position shows as a gap or a repeat at the destination).

const (
	pipelineID = "pipe"
	destID     = "dst"
	destPlugin = "fake-dest"
	dlqPlugin  = "fake-dlq"
	replayN    = 3 // records a restarted source hands out
)

// stored pipeline status codes of Input.PlStatus
var plStatuses = []pipeline.Status{
	pipeline.StatusRunning, pipeline.StatusUserStopped, pipeline.StatusDegraded,
	pipeline.StatusSystemStopped, pipeline.StatusRecovering,
}

// setupPipeline stores, next to the source connectors of the run, the pipeline they belong to, a
// destination and the pipeline's status, so that a restart finds a complete configuration.
func setupPipeline(db database.DB, cs *connector.Service, in Input, srcIDs []string) error {
	ctx := context.Background()
	ps := pipeline.NewService(log.Nop(), db)
	if _, err := ps.Create(ctx, pipelineID, pipeline.Config{Name: pipelineID}, pipeline.ProvisionTypeAPI); err != nil {
		return err
	}
	if _, err := cs.Create(ctx, destID, connector.TypeDestination, destPlugin, pipelineID,
		connector.Config{Name: destID, Settings: map[string]string{"k": "v"}}, connector.ProvisionTypeAPI); err != nil {
		return err
	}
	for _, id := range append(append([]string{}, srcIDs...), destID) {
		if _, err := ps.AddConnector(ctx, pipelineID, id); err != nil {
			return err
		}
	}
	if _, err := ps.UpdateDLQ(ctx, pipelineID, pipeline.DLQ{Plugin: dlqPlugin, Settings: map[string]string{},
		WindowSize: 1, WindowNackThreshold: 0}); err != nil {
		return err
	}
	st := plStatuses[0]
	if in.PlStatus >= 0 && in.PlStatus < len(plStatuses) {
		st = plStatuses[in.PlStatus]
	}
	return ps.UpdateStatus(ctx, pipelineID, st, "")
}

// ---- fake plugins of the restarted run ----

// replaySource replays the successors of the position it is opened with.
type replaySource struct {
	s int

	mu       sync.Mutex
	opened   bool
	tag, pos int
	last     int
	stopped  bool
}

func (p *replaySource) Configure(context.Context, pconnector.SourceConfigureRequest) (pconnector.SourceConfigureResponse, error) {
	return pconnector.SourceConfigureResponse{}, nil
}

func (p *replaySource) Open(_ context.Context, req pconnector.SourceOpenRequest) (pconnector.SourceOpenResponse, error) {
	p.mu.Lock()
	defer p.mu.Unlock()
	p.opened = true
	p.tag, p.pos = DecodePos(req.Position)
	p.last = p.pos
	return pconnector.SourceOpenResponse{}, nil
}

func (p *replaySource) Run(ctx context.Context, stream pconnector.SourceRunStream) error {
	s, ok := stream.(*builtin.InMemorySourceRunStream)
	if !ok {
		return fmt.Errorf("replay source: unexpected stream type %T", stream)
	}
	s.Init(ctx)
	server := s.Server()
	go func() {
		for i := 0; i < replayN; i++ {
			p.mu.Lock()
			if p.stopped {
				p.mu.Unlock()
				return
			}
			p.last++
			r := p.last
			p.mu.Unlock()
			rec := opencdc.Record{
				Position:  PosBytes(r, 0),
				Operation: opencdc.OperationCreate,
				Metadata:  opencdc.Metadata{},
				Key:       opencdc.RawData("k"),
				Payload:   opencdc.Change{After: opencdc.RawData("v")},
			}
			if err := server.Send(pconnector.SourceRunResponse{Records: []opencdc.Record{rec}}); err != nil {
				return
			}
		}
	}()
	go func() {
		for {
			if _, err := server.Recv(); err != nil {
				return
			}
		}
	}()
	return nil
}

func (p *replaySource) Stop(context.Context, pconnector.SourceStopRequest) (pconnector.SourceStopResponse, error) {
	p.mu.Lock()
	defer p.mu.Unlock()
	p.stopped = true
	if p.last == p.pos {
		return pconnector.SourceStopResponse{}, nil
	}
	return pconnector.SourceStopResponse{LastPosition: PosBytes(p.last, 0)}, nil
}

func (p *replaySource) Teardown(context.Context, pconnector.SourceTeardownRequest) (pconnector.SourceTeardownResponse, error) {
	return pconnector.SourceTeardownResponse{}, nil
}
func (p *replaySource) LifecycleOnCreated(context.Context, pconnector.SourceLifecycleOnCreatedRequest) (pconnector.SourceLifecycleOnCreatedResponse, error) {
	return pconnector.SourceLifecycleOnCreatedResponse{}, nil
}
func (p *replaySource) LifecycleOnUpdated(context.Context, pconnector.SourceLifecycleOnUpdatedRequest) (pconnector.SourceLifecycleOnUpdatedResponse, error) {
	return pconnector.SourceLifecycleOnUpdatedResponse{}, nil
}
func (p *replaySource) LifecycleOnDeleted(context.Context, pconnector.SourceLifecycleOnDeletedRequest) (pconnector.SourceLifecycleOnDeletedResponse, error) {
	return pconnector.SourceLifecycleOnDeletedResponse{}, nil
}
func (p *replaySource) NewStream() pconnector.SourceRunStream { return &builtin.InMemorySourceRunStream{} }

// sinkDest confirms everything and remembers, per source connector, what it was given.
type sinkDest struct {
	mu   sync.Mutex
	got  map[string][]int // source connector id -> record ids in arrival order
	cond *sync.Cond
}

func newSinkDest() *sinkDest {
	d := &sinkDest{got: map[string][]int{}}
	d.cond = sync.NewCond(&d.mu)
	return d
}

func (d *sinkDest) Configure(context.Context, pconnector.DestinationConfigureRequest) (pconnector.DestinationConfigureResponse, error) {
	return pconnector.DestinationConfigureResponse{}, nil
}
func (d *sinkDest) Open(context.Context, pconnector.DestinationOpenRequest) (pconnector.DestinationOpenResponse, error) {
	return pconnector.DestinationOpenResponse{}, nil
}
func (d *sinkDest) Run(ctx context.Context, stream pconnector.DestinationRunStream) error {
	s, ok := stream.(*builtin.InMemoryDestinationRunStream)
	if !ok {
		return fmt.Errorf("sink destination: unexpected stream type %T", stream)
	}
	s.Init(ctx)
	server := s.Server()
	go func() {
		for {
			req, err := server.Recv()
			if err != nil {
				return
			}
			acks := make([]pconnector.DestinationRunResponseAck, len(req.Records))
			d.mu.Lock()
			for i, r := range req.Records {
				_, id := DecodePos(r.Position)
				src := r.Metadata[opencdc.MetadataConduitSourceConnectorID]
				d.got[src] = append(d.got[src], id)
				acks[i] = pconnector.DestinationRunResponseAck{Position: r.Position}
			}
			d.cond.Broadcast()
			d.mu.Unlock()
			if err := server.Send(pconnector.DestinationRunResponse{Acks: acks}); err != nil {
				return
			}
		}
	}()
	return nil
}
func (d *sinkDest) Stop(context.Context, pconnector.DestinationStopRequest) (pconnector.DestinationStopResponse, error) {
	return pconnector.DestinationStopResponse{}, nil
}
func (d *sinkDest) Teardown(context.Context, pconnector.DestinationTeardownRequest) (pconnector.DestinationTeardownResponse, error) {
	return pconnector.DestinationTeardownResponse{}, nil
}
func (d *sinkDest) LifecycleOnCreated(context.Context, pconnector.DestinationLifecycleOnCreatedRequest) (pconnector.DestinationLifecycleOnCreatedResponse, error) {
	return pconnector.DestinationLifecycleOnCreatedResponse{}, nil
}
func (d *sinkDest) LifecycleOnUpdated(context.Context, pconnector.DestinationLifecycleOnUpdatedRequest) (pconnector.DestinationLifecycleOnUpdatedResponse, error) {
	return pconnector.DestinationLifecycleOnUpdatedResponse{}, nil
}
func (d *sinkDest) LifecycleOnDeleted(context.Context, pconnector.DestinationLifecycleOnDeletedRequest) (pconnector.DestinationLifecycleOnDeletedResponse, error) {
	return pconnector.DestinationLifecycleOnDeletedResponse{}, nil
}
func (d *sinkDest) NewStream() pconnector.DestinationRunStream {
	return &builtin.InMemoryDestinationRunStream{}
}

func (d *sinkDest) count(src string) int {
	d.mu.Lock()
	defer d.mu.Unlock()
	return len(d.got[src])
}

type fullDispenser struct {
	src connectorPlugin.SourcePlugin
	dst connectorPlugin.DestinationPlugin
}

func (d fullDispenser) DispenseSpecifier() (connectorPlugin.SpecifierPlugin, error) {
	return nil, cerrors.New("not implemented")
}
func (d fullDispenser) DispenseSource() (connectorPlugin.SourcePlugin, error) {
	if d.src == nil {
		return nil, cerrors.New("not a source plugin")
	}
	return d.src, nil
}
func (d fullDispenser) DispenseDestination() (connectorPlugin.DestinationPlugin, error) {
	if d.dst == nil {
		return nil, cerrors.New("not a destination plugin")
	}
	return d.dst, nil
}

type noProcessors struct{}

func (noProcessors) NewProcessor(context.Context, string, string, egress.Policy) (sdk.Processor, error) {
	return nil, cerrors.New("no processor plugins in this harness")
}

// FullSrc is what one source shows after the restart.
type FullSrc struct {
	S      int   `json:"s"`
	Opened bool  `json:"opened"`
	Tag    int   `json:"tag"`
	Pos    int   `json:"pos"`
	Got    []int `json:"got"` // what reached the destination from this source, in order
}

// FullObs is one restart through the real services.
type FullObs struct {
	At        int       `json:"at"`     // crash instant (number of log events before it)
	Engine    string    `json:"engine"` // v1 = pkg/lifecycle, v2 = pkg/lifecycle-poc
	Stored    int       `json:"stored"` // status the store holds (pipeline.Status)
	AfterInit int       `json:"after_init"`
	Started   bool      `json:"started"`
	AfterBoot int       `json:"after_boot"`
	Srcs      []FullSrc `json:"srcs"`
	Note      string    `json:"note,omitempty"`
}

type lifecycleSvc interface {
	Init(ctx context.Context) error
	Stop(ctx context.Context, pipelineID string, force bool) error
	WaitPipeline(id string) error
}

// RestartFull boots fresh services of the given engine on a copy of the snapshot.
func RestartFull(in Input, snap StoreSnap, engine string) (obs FullObs) {
	obs = FullObs{At: snap.At, Engine: engine}
	defer func() {
		if r := recover(); r != nil {
			obs.Note = fmt.Sprint("panic: ", r)
		}
	}()
	ctx := context.Background()
	db := &inmemory.DB{}
	for k, v := range snap.Raw {
		if err := db.Set(ctx, k, v); err != nil {
			obs.Note = err.Error()
			return obs
		}
	}
	logger := log.Nop()
	pers := connector.NewPersister(logger, db, time.Hour, 10000)
	ps := pipeline.NewService(logger, db)
	cs := connector.NewService(logger, db, pers)
	prs := processor.NewService(logger, db, noProcessors{})

	// what the store says before anything is initialised
	if pl, err := pipeline.NewStore(db).Get(ctx, pipelineID); err == nil {
		obs.Stored = int(pl.GetStatus())
	}
	if err := ps.Init(ctx); err != nil {
		obs.Note = "pipeline init: " + err.Error()
		return obs
	}
	if err := cs.Init(ctx); err != nil {
		obs.Note = "connector init: " + err.Error()
		return obs
	}
	if err := prs.Init(ctx); err != nil {
		obs.Note = "processor init: " + err.Error()
		return obs
	}
	pl, err := ps.Get(ctx, pipelineID)
	if err != nil {
		obs.Note = err.Error()
		return obs
	}
	obs.AfterInit = int(pl.GetStatus())

	fetch := Fetcher{}
	srcs := make([]*replaySource, in.NSrc)
	for i := range srcs {
		srcs[i] = &replaySource{s: i}
		fetch[pluginName+srcID(i)] = fullDispenser{src: srcs[i]}
	}
	sink, dlq := newSinkDest(), newSinkDest()
	fetch[destPlugin] = fullDispenser{dst: sink}
	fetch[dlqPlugin] = fullDispenser{dst: dlq}

	rec := &lifecyclev1.ErrRecoveryCfg{MinDelay: time.Millisecond, MaxDelay: 5 * time.Millisecond,
		BackoffFactor: 2, MaxRetries: 0, MaxRetriesWindow: 50 * time.Millisecond}
	var ls lifecycleSvc
	if engine == "v2" {
		ls = lifecyclev2.NewService(logger, rec, cs, prs, fetch, ps, true)
	} else {
		ls = lifecyclev1.NewService(logger, rec, cs, prs, fetch, ps)
	}
	if err := ls.Init(ctx); err != nil {
		obs.Note = "lifecycle init: " + err.Error()
	}

	// a started pipeline shows within moments: every source opened, its records at the destination
	anyOpened := func() bool {
		for _, p := range srcs {
			p.mu.Lock()
			o := p.opened
			p.mu.Unlock()
			if o {
				return true
			}
		}
		return false
	}
	deadline := time.Now().Add(3 * time.Second)
	for time.Now().Before(deadline) {
		done := true
		for i := range srcs {
			if sink.count(srcID(i)) < replayN {
				done = false
			}
		}
		if done {
			break
		}
		if !anyOpened() && pl.GetStatus() != pipeline.StatusRunning && time.Since(deadline.Add(-3*time.Second)) > 3*time.Millisecond {
			break // nothing was started
		}
		pause(50 * time.Microsecond)
	}
	obs.Started = anyOpened()
	obs.AfterBoot = int(pl.GetStatus())
	for i, p := range srcs {
		p.mu.Lock()
		fs := FullSrc{S: i, Opened: p.opened, Tag: p.tag, Pos: p.pos}
		p.mu.Unlock()
		sink.mu.Lock()
		fs.Got = append([]int{}, sink.got[srcID(i)]...)
		sink.mu.Unlock()
		obs.Srcs = append(obs.Srcs, fs)
	}
	if obs.Started {
		stopped := make(chan struct{})
		go func() {
			defer close(stopped)
			_ = ls.Stop(ctx, pipelineID, false)
			_ = ls.WaitPipeline(pipelineID)
		}()
		select {
		case <-stopped:
		case <-time.After(3 * time.Second):
			_ = ls.Stop(ctx, pipelineID, true)
			select {
			case <-stopped:
			case <-time.After(2 * time.Second):
				obs.Note += " stop hung"
			}
		}
	}
	return obs
}
